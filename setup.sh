#!/bin/sh
# MANIFEST.setup_cmd: build the framework from files on disk only (offline)
set -e
cd "$(dirname "$0")"
export CARGO_NET_OFFLINE=true
(cd lean && lake build AlatorVerif driver)
(cd harness && cargo build)
echo "setup done"
