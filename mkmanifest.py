#!/usr/bin/env python3
"""regenerates MANIFEST.json from vlib/props.py (claimed properties) and properties.jsonl"""
import json, os, subprocess, sys
sys.path.insert(0, os.path.dirname(os.path.abspath(__file__)))
from vlib.props import ALL

props = [json.loads(l) for l in open("properties.jsonl")]
hooks = subprocess.run(["git", "-C", "/repo", "log", "--format=%H %s"], capture_output=True, text=True).stdout.split("\n")
hook_commits = [l.split()[0] for l in hooks if " verif:" in " " + l]
checks, na = [], []
for p in props:
    pid = p["id"]
    if pid in ALL:
        c = ALL[pid]
        checks.append({
            "property_id": pid,
            "quick_cmd": f"./check {pid} --tier quick",
            "thorough_cmd": f"./check {pid} --tier thorough",
            "evidence_file": f"/verif/evidence/{pid}.json",
            "replay_cmd_template": f"./check {pid} --replay {{path}}",
            "engine": "lean4-proof+correspondence",
            "level_claimed": {"category": "proof", "text": c.level_text, "design_ref": c.design_ref},
            "level_note": c.level_note,
            "technique": c.technique,
        })
    else:
        na.append({"property_id": pid, "reason": "no check is registered for it in this revision: its Lean theorems and correspondence stream are not wired into ./check yet (DESIGN.md section 8 gives the plan)"})
m = {
    "version": 1,
    "setup_cmd": "./setup.sh",
    "hooks": {
        "guard": "cargo feature `verif` (rotala/verif, alator/verif)",
        "enable": "the harness crate /verif/harness depends on /repo/rotala and /repo/example_clients/alator by path with features = [\"verif\"]; every check runs `cargo build` there, which recompiles whatever changed under /repo",
        "baseline_off_cmd": "cd /repo && cargo test --workspace --no-fail-fast --offline",
        "source_commits": hook_commits,
        "add_only": True,
    },
    "engines": [{
        "name": "lean4-proof+correspondence",
        "path": "/verif/check",
        "serves_properties": [c["property_id"] for c in checks],
        "kind_free_text": "Lean 4 theorems about a hand-written executable model (lean/AlatorVerif), axiom-audited on every run; the model's compiled driver and the real Rust code (harness/) run the same generated operation sequences and are compared step by step; property monitors run on the implementation's own traces to produce replays",
    }],
    "checks": checks,
    "notes": "See DESIGN.md. KNOWN_FINDINGS.txt lists repaired (fixed:) and open defects.",
    "not_applicable": na,
}
json.dump(m, open("MANIFEST.json", "w"), indent=1)
print(f"{len(checks)} checks, {len(na)} not claimed")
