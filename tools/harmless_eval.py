#!/usr/bin/env python3
"""Re-run the checks against the behaviour-preserving refactorings kept under harmless/ (a self-audit tool, not a
registered check): for every harmless/<id>/patch.diff, apply it to /repo, run every check named in its meta.json (up to
five at a time), undo it, and record the verdicts in harmless/RECHECK.json. All of them must stay quiet.

  tools/harmless_eval.py [<id>...]
"""
import json
import os
import subprocess
import sys
from concurrent.futures import ThreadPoolExecutor

BASE = "/verif/harmless"
ENV = dict(os.environ, CARGO_NET_OFFLINE="true")


def sh(cmd, cwd=None):
    p = subprocess.run(cmd, cwd=cwd, env=ENV, stdout=subprocess.PIPE, stderr=subprocess.STDOUT, text=True, errors="replace")
    return p.returncode, p.stdout


def main(ids):
    ids = ids or sorted(d for d in os.listdir(BASE) if os.path.isdir(os.path.join(BASE, d)))
    path = os.path.join(BASE, "RECHECK.json")
    res = json.load(open(path)) if os.path.exists(path) else {}
    head = subprocess.run(["git", "-C", "/verif", "rev-parse", "--short", "HEAD"], capture_output=True, text=True).stdout.strip()
    for hid in ids:
        d = os.path.join(BASE, hid)
        meta = json.load(open(os.path.join(d, "meta.json")))
        checks = sorted(meta.get("checks_run_with_the_patch_applied", {}).keys())
        rc, out = sh(["git", "-C", "/repo", "status", "--porcelain", "--untracked-files=no"])
        assert out.strip() == "", "/repo has local modifications: " + out
        rc, out = sh(["git", "-C", "/repo", "apply", os.path.join(d, "patch.diff")])
        if rc != 0:
            res[hid] = {"error": "patch does not apply: " + out[-200:]}
            continue
        saved = {c: open(f"/verif/evidence/{c}.json").read() for c in checks if os.path.exists(f"/verif/evidence/{c}.json")}
        try:
            # build once, so that the parallel checks do not queue on the cargo lock with a cold target
            sh(["cargo", "build"], cwd="/verif/harness")

            def one(c):
                rc, out = sh(["./check", c], cwd="/verif")
                lines = [l for l in out.strip().split("\n") if l.startswith(("VIOLATION", "OK", "CHECK-ERROR", "KNOWN"))]
                return c, rc, lines
            with ThreadPoolExecutor(max_workers=5) as ex:
                r = {c: {"exit": rc, "lines": lines[:4]} for c, rc, lines in ex.map(one, checks)}
        finally:
            sh(["git", "-C", "/repo", "checkout", "--", "."])
            for c, txt in saved.items():      # evidence written with a patch applied must not stay
                open(f"/verif/evidence/{c}.json", "w").write(txt)
        res[hid] = {"verif_commit": head, "quiet": all(v["exit"] == 0 for v in r.values()), "checks": r}
        print(hid, res[hid]["quiet"], {c: v["exit"] for c, v in r.items()}, flush=True)
        json.dump(res, open(path, "w"), indent=1, sort_keys=True)


if __name__ == "__main__":
    main(sys.argv[1:])
