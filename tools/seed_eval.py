#!/usr/bin/env python3
"""Evaluate seeded defects (not a registered check; a self-audit tool).

  tools/seed_eval.py confirm <dir>      dir = a sub-agent's output (patch.diff, demo.rs, demo_path.txt, meta.txt)
      In a scratch worktree of /repo (outside /repo and /verif): the patch applies, the workspace test
      suite passes with it, the demonstration fails with it and passes without it.
  tools/seed_eval.py detect <dir> <ID> [<ID>...]
      Apply the patch to /repo, run ./check <ID> for each id, undo the patch. Prints the verdicts.
  tools/seed_eval.py keep <dir> <seeded-id> <property> "<what it needs>"
      Copy into /verif/seeded/<seeded-id>/ with meta.json.
  tools/seed_eval.py redetect [<seeded-id>...]
      For every kept defect (or the named ones): apply, run the check of the property it breaks, undo; record in
      seeded/REDETECT.json whether it is still reported and by what (run after generator or monitor changes).
"""
import json
import os
import re
import shutil
import subprocess
import sys

SCRATCH = "/tmp/seedcheck"
ENV = dict(os.environ, CARGO_NET_OFFLINE="true")


def sh(cmd, cwd=None, timeout=3600):
    p = subprocess.run(cmd, cwd=cwd, env=ENV, shell=isinstance(cmd, str), stdout=subprocess.PIPE,
                       stderr=subprocess.STDOUT, text=True, timeout=timeout, errors="replace")
    return p.returncode, p.stdout


def ensure_scratch():
    if not os.path.isdir(SCRATCH):
        rc, out = sh(["git", "-C", "/repo", "worktree", "add", "--detach", SCRATCH, "HEAD"])
        assert rc == 0, out
    sh(["git", "reset", "-q", "--hard"], cwd=SCRATCH)
    sh(["git", "clean", "-fdq", "--", "rotala/tests", "example_clients/alator/tests", "rotala/src", "example_clients/alator/src"], cwd=SCRATCH)
    rc, out = sh(["git", "checkout", "--detach", subprocess.run(["git", "-C", "/repo", "rev-parse", "HEAD"], capture_output=True, text=True).stdout.strip()], cwd=SCRATCH)
    assert rc == 0, out


def demo_info(d):
    txt = open(os.path.join(d, "demo_path.txt")).read()
    m = re.search(r"((?:rotala|example_clients/alator)/tests/[\w./-]+\.rs)", txt)
    path = m.group(1)
    name = os.path.basename(path)[:-3]
    pkg = "rotala" if path.startswith("rotala/") else "alator"
    if "--features verif" in txt:
        pkg += " --features verif"
    return path, pkg, name


def tests_pass(cwd):
    for attempt in range(3):   # one suite test is randomly flaky on the unmodified code too
        rc, out = sh("cargo test --workspace --offline --no-fail-fast 2>&1", cwd=cwd)
        failed = re.findall(r"^test (\S+) \.\.\. FAILED", out, flags=re.M)
        if rc == 0:
            return True, ""
        if set(failed) <= {"http::jura::tests::test_single_trade_loop"} and "error[" not in out and "could not compile" not in out:
            continue
        return False, out[-1500:]
    return True, "only the flaky test failed"


def confirm(d):
    ensure_scratch()
    patch = os.path.join(d, "patch.diff")
    rc, out = sh(["git", "apply", patch], cwd=SCRATCH)
    if rc != 0:
        return {"ok": False, "why": "patch does not apply: " + out[-400:]}
    ok, why = tests_pass(SCRATCH)
    if not ok:
        return {"ok": False, "why": "existing suite fails with the patch: " + why}
    path, pkg, name = demo_info(d)
    shutil.copy(os.path.join(d, "demo.rs"), os.path.join(SCRATCH, path))
    rc1, out1 = sh(f"cargo test -p {pkg} --offline --test {name} 2>&1", cwd=SCRATCH)
    # without the patch
    sh(["git", "checkout", "--", "."], cwd=SCRATCH)
    rc2, out2 = sh(f"cargo test -p {pkg} --offline --test {name} 2>&1", cwd=SCRATCH)
    os.remove(os.path.join(SCRATCH, path))
    res = {"ok": rc1 != 0 and rc2 == 0 and "could not compile" not in out1,
           "demo_fails_with_patch": rc1 != 0, "demo_passes_without_patch": rc2 == 0,
           "suite_note": why, "demo": path}
    if not res["ok"]:
        res["why"] = (out1[-600:] if rc1 == 0 else out2[-600:])
    return res


def detect(d, ids):
    patch = os.path.join(d, "patch.diff")
    rc, out = sh(["git", "-C", "/repo", "status", "--porcelain", "--untracked-files=no"])
    assert out.strip() == "", "/repo has local modifications: " + out
    rc, out = sh(["git", "-C", "/repo", "apply", patch])
    if rc != 0:
        return {"error": "patch does not apply to /repo: " + out[-300:]}
    res = {}
    # the check rewrites evidence/<ID>.json on every run: what it writes with the patch applied must not stay
    saved = {i: open(f"/verif/evidence/{i}.json").read() for i in ids if os.path.exists(f"/verif/evidence/{i}.json")}
    try:
        for i in ids:
            rc, out = sh(["./check", i], cwd="/verif")
            lines = [l for l in out.strip().split("\n") if l.startswith(("VIOLATION", "OK", "CHECK-ERROR", "KNOWN"))]
            det = []
            for l in lines:
                m = re.search(r"replay=(\S+)", l)
                if m and os.path.exists(m.group(1)):
                    r = json.load(open(m.group(1)))
                    det.append({"line": l, "kind": r.get("kind"), "clause": r.get("clause"), "component": r.get("component"),
                                "detail": str(r.get("detail"))[:200], "ops": len(r.get("ops", []))})
                else:
                    det.append({"line": l})
            res[i] = {"exit": rc, "verdicts": det}
    finally:
        sh(["git", "-C", "/repo", "checkout", "--", "."])
        for i, txt in saved.items():
            open(f"/verif/evidence/{i}.json", "w").write(txt)
    return res


def keep(d, sid, prop, needs, extra=None):
    dst = os.path.join("/verif/seeded", sid)
    os.makedirs(dst, exist_ok=True)
    for f in ("patch.diff", "demo.rs", "demo_path.txt", "meta.txt"):
        shutil.copy(os.path.join(d, f), os.path.join(dst, f))
    meta = {"breaks_property": prop, "needs_to_manifest": needs, "author": "independent sub-agent given only the property text",
            "what_was_run": "tools/seed_eval.py confirm (scratch worktree: patch applies, 50-test suite passes with it, demo fails with it and passes without it); tools/seed_eval.py detect (patch applied to /repo, ./check run, patch undone)"}
    if extra:
        meta.update(extra)
    json.dump(meta, open(os.path.join(dst, "meta.json"), "w"), indent=1)


def redetect(ids):
    base = "/verif/seeded"
    ids = ids or sorted(d for d in os.listdir(base) if os.path.isdir(os.path.join(base, d)))
    path = os.path.join(base, "REDETECT.json")
    res = json.load(open(path)) if os.path.exists(path) else {}
    head = subprocess.run(["git", "-C", "/verif", "rev-parse", "--short", "HEAD"], capture_output=True, text=True).stdout.strip()
    for sid in ids:
        d = os.path.join(base, sid)
        prop = json.load(open(os.path.join(d, "meta.json")))["breaks_property"]
        r = detect(d, [prop])
        v = r.get(prop, {}).get("verdicts", []) if isinstance(r.get(prop), dict) else []
        conc = [x for x in v if x.get("line", "").startswith("VIOLATION") and "no-failing-input-found" not in x["line"]]
        res[sid] = {"property": prop, "verif_commit": head, "reported": any(x.get("line", "").startswith("VIOLATION") for x in v),
                    "concrete_input": bool(conc), "by": [f"{x.get('kind')}:{x.get('clause')}" for x in (conc or v)][:3],
                    "error": r.get("error")}
        print(sid, res[sid], flush=True)
        json.dump(res, open(path, "w"), indent=1, sort_keys=True)


if __name__ == "__main__":
    cmd = sys.argv[1]
    if cmd == "redetect":
        redetect(sys.argv[2:])
        sys.exit(0)
    if cmd == "confirm":
        print(json.dumps(confirm(sys.argv[2]), indent=1))
    elif cmd == "detect":
        print(json.dumps(detect(sys.argv[2], sys.argv[3:]), indent=1))
    elif cmd == "keep":
        keep(sys.argv[2], sys.argv[3], sys.argv[4], sys.argv[5])
