#!/bin/bash
# Self-audit (not a registered check): which lines of /repo do the correspondence streams execute?
# Builds the harness with -C instrument-coverage on the nightly toolchain (its llvm-tools are installed), runs every
# quick check with that binary, and prints per-file line coverage plus the uncovered lines of the modelled files.
# Scratch lives outside /repo and /verif and is removed at the end.   usage: tools/coverage.sh [tier] [ids...]
set -e
cd "$(dirname "$0")/.."
TIER=${1:-quick}; shift || true
IDS=${@:-C01 C02 C03 C04 C05 C06 C07 C08 C09 C10 C11 C12 C13 C14 C15 C16 C17 C18 C19 C20}
T=/tmp/verif-cov
rm -rf $T; mkdir -p $T/prof
LLVM=$(dirname "$(find ~/.rustup/toolchains/nightly-x86_64-unknown-linux-gnu -name llvm-profdata | head -1)")
(cd harness && LLVM_PROFILE_FILE="$T/build-%p.profraw" CARGO_NET_OFFLINE=true RUSTFLAGS="-C instrument-coverage" CARGO_TARGET_DIR=$T/target cargo +nightly build --offline 2>&1 | tail -1)
for id in $IDS; do
  VERIF_COVERAGE_HBIN=$T/target/debug/harness LLVM_PROFILE_FILE="$T/prof/%p-%m.profraw" ./check $id --tier $TIER | tail -1
done
$LLVM/llvm-profdata merge -sparse $T/prof/*.profraw -o $T/all.profdata
$LLVM/llvm-cov report $T/target/debug/harness -instr-profile=$T/all.profdata \
   --ignore-filename-regex='(\.cargo|rustc|/verif/harness)' 2>/dev/null | tee coverage/summary.txt
for f in rotala/src/exchange/uist_v1.rs rotala/src/exchange/jura_v1.rs rotala/src/http/uist.rs rotala/src/http/jura.rs rotala/src/input/penelope.rs \
         example_clients/alator/src/broker/mod.rs example_clients/alator/src/broker/uist.rs example_clients/alator/src/perf/mod.rs \
         example_clients/alator/src/strategy/staticweight.rs example_clients/alator/src/strategy/mod.rs example_clients/alator/src/schedule/mod.rs; do
  [ -f /repo/$f ] || continue
  $LLVM/llvm-cov show $T/target/debug/harness -instr-profile=$T/all.profdata /repo/$f --show-line-counts-or-regions=false 2>/dev/null \
     | grep -E '^ +[0-9]+\| +0\|' | sed "s#^#$f: #" 
done > coverage/uncovered.txt
wc -l coverage/uncovered.txt
rm -rf $T
