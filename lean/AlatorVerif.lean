-- root of the library: the twenty property files (they import the lemmas and models they use)
-- and the kernel-checked witnesses of the repaired defects
import AlatorVerif.Props.C01
import AlatorVerif.Props.C02
import AlatorVerif.Props.C03
import AlatorVerif.Props.C04
import AlatorVerif.Props.C05
import AlatorVerif.Props.C06
import AlatorVerif.Props.C07
import AlatorVerif.Props.C08
import AlatorVerif.Props.C09
import AlatorVerif.Props.C10
import AlatorVerif.Props.C11
import AlatorVerif.Props.C12
import AlatorVerif.Props.C13
import AlatorVerif.Props.C14
import AlatorVerif.Props.C15
import AlatorVerif.Props.C16
import AlatorVerif.Props.C17
import AlatorVerif.Props.C18
import AlatorVerif.Props.C19
import AlatorVerif.Props.C20
import AlatorVerif.Findings
