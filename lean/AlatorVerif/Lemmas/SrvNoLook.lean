import AlatorVerif.Lemmas.SrvClock
/-!
C01 at server level, for any exchange and every interleaving of requests on any number of backtests —
core only.

A ghost records, per backtest and order id, the clock position of the tick that handed the id out, and
per backtest the clock positions at which the orders still in the buffer were submitted. The invariant
(`GInv`) says every id handed out so far was handed out at a strictly earlier clock position, and every
buffered order was submitted at a position not after the current one. A fill carries an id handed out
before the tick that produces it, so it is dated strictly after the clock at which the id was handed out,
and that clock is not before the clock at which the order was submitted.
-/
namespace SV
variable {E Q O A D R : Type}

/-- what the server-level argument needs from an exchange -/
structure IdSpec (X : ExchOps E Q O A D R) where
  Inv : E → Prop
  /-- the next order id -/
  next : E → Nat
  buf : E → List O
  /-- (order id, fill date) of the fills a tick produces -/
  fills : E → Q → A → List (Nat × Int)
  /-- every quote handed to the tick carries this date -/
  Dated : Q → Int → Prop
  inv_new : Inv X.new
  next_new : next X.new = 0
  buf_new : buf X.new = []
  inv_tick : ∀ e q adm, Inv e → Inv (X.tick e q adm).1
  inv_insert : ∀ e o, Inv e → Inv (X.insert e o)
  inv_delete : ∀ e d, Inv e → Inv (X.delete e d)
  next_tick : ∀ e q adm, Inv e → next e ≤ next (X.tick e q adm).1
  next_insert : ∀ e o, next (X.insert e o) = next e
  next_delete : ∀ e d, next (X.delete e d) = next e
  buf_tick : ∀ e q adm, buf (X.tick e q adm).1 = []
  buf_insert : ∀ e o, buf (X.insert e o) = buf e ++ [o]
  buf_delete : ∀ e d, buf (X.delete e d) = buf e
  fills_old : ∀ e q adm, Inv e → ∀ f ∈ fills e q adm, f.1 < next e
  fills_dated : ∀ e q adm d, Dated q d → ∀ f ∈ fills e q adm, f.2 = d

structure Ghost where
  /-- backtest, order id ↦ clock position of the tick that handed the id out -/
  asg : Nat → Nat → Option Nat := fun _ _ => none
  /-- backtest ↦ clock positions at which the orders now in its buffer were submitted -/
  sub : Nat → List Nat := fun _ => []

variable {X : ExchOps E Q O A D R}

def gstep (S : IdSpec X) (g : Ghost) (a : App E Q) : Op O A D → Ghost
  | .tick i adm =>
    match a.backtests i with
    | none => g
    | some bt =>
      match a.datasets bt.dataset with
      | none => g
      | some ds =>
        match ds.quotes bt.date with
        | none => g
        | some q =>
          { asg := fun b j => if b = i ∧ S.next bt.exch ≤ j ∧ j < S.next (X.tick bt.exch q adm).1 then some bt.pos
                              else g.asg b j,
            sub := fun b => if b = i then [] else g.sub b }
  | .insert i _ =>
    match a.backtests i with
    | none => g
    | some bt => { g with sub := fun b => if b = i then g.sub i ++ [bt.pos] else g.sub b }
  | .init _ | .newbt _ => { g with sub := fun b => if b = a.last + 1 then [] else g.sub b }
  | _ => g

def grun (S : IdSpec X) (g : Ghost) (a : App E Q) : List (Op O A D) → Ghost × App E Q
  | [] => (g, a)
  | op :: ops => grun S (gstep S g a op) (step X a op).2 ops

/-- the server's own state is what `run` computes: the ghost only watches -/
theorem grun_app (S : IdSpec X) : ∀ (ops : List (Op O A D)) (g : Ghost) (a : App E Q),
    (grun S g a ops).2 = (run X a ops).2
  | [], _, _ => rfl
  | op :: ops, g, a => by simp only [grun, run]; exact grun_app S ops _ _

structure GInv (S : IdSpec X) (a : App E Q) (g : Ghost) : Prop where
  live : ∀ i bt, a.backtests i = some bt →
    i ≤ a.last ∧ S.Inv bt.exch
    ∧ (∃ ds, a.datasets bt.dataset = some ds ∧ ClockOK ds bt ∧ 0 < ds.dates.length)
    ∧ (∀ j, j < S.next bt.exch → ∃ p, g.asg i j = some p ∧ p < bt.pos)
    ∧ (g.sub i).length = (S.buf bt.exch).length ∧ (∀ p ∈ g.sub i, p ≤ bt.pos)

/-- a server with datasets and no backtest yet -/
theorem GInv.empty (S : IdSpec X) (a : App E Q) (g : Ghost) (h : ∀ i, a.backtests i = none) : GInv S a g :=
  ⟨fun i bt hb => by rw [h i] at hb; cases hb⟩

theorem init_inv (S : IdSpec X) (a : App E Q) (g : Ghost) (h : GInv S a g) (v : Variant) (hv : v.storesLast = true)
    (n : String) :
    GInv S (init X v a n).2 { g with sub := fun b => if b = a.last + 1 then [] else g.sub b } := by
  constructor
  intro i bt hb
  unfold init at hb ⊢
  rcases hd : a.datasets n with _ | ds
  · simp only [hd] at hb ⊢
    obtain ⟨h1, h2, h3, h4, h5, h6⟩ := h.live i bt hb
    have hne : i ≠ a.last + 1 := by omega
    exact ⟨h1, h2, h3, h4, by simpa [hne] using h5, by simpa [hne] using h6⟩
  · simp only [hd] at hb ⊢
    rcases hds : ds.dates with _ | ⟨d0, rest⟩
    · simp only [hds] at hb ⊢
      obtain ⟨h1, h2, h3, h4, h5, h6⟩ := h.live i bt hb
      have hne : i ≠ a.last + 1 := by omega
      exact ⟨h1, h2, h3, h4, by simpa [hne] using h5, by simpa [hne] using h6⟩
    · simp only [hds, hv, if_true] at hb ⊢
      by_cases hi : i = a.last + 1
      · subst hi
        simp only [setBt, if_true] at hb
        cases hb
        refine ⟨Nat.le_refl _, S.inv_new, ⟨ds, by simpa [setBt] using hd, fresh_clock X ds d0 rest hds n, by simp [hds]⟩,
          ?_, by simp [S.buf_new], by simp⟩
        intro j hj; rw [S.next_new] at hj; omega
      · simp only [setBt, hi, if_false] at hb
        obtain ⟨h1, h2, h3, h4, h5, h6⟩ := h.live i bt hb
        refine ⟨by show i ≤ a.last + 1; omega, h2, by simpa [setBt] using h3, h4, by simpa [hi] using h5, by simpa [hi] using h6⟩

/-- one request of any kind on any backtest keeps the invariant -/
theorem gstep_inv (S : IdSpec X) (a : App E Q) (g : Ghost) (h : GInv S a g) (op : Op O A D) :
    GInv S (step X a op).2 (gstep S g a op) := by
  cases op with
  | init n => exact init_inv S a g h .repaired rfl n
  | newbt n => exact init_inv S a g h ⟨true, true⟩ rfl n
  | fetch i => exact h
  | now i => exact h
  | info i => exact h
  | insert i o =>
    constructor
    intro b bt' hb
    simp only [step, insert, gstep] at hb ⊢
    rcases hbi : a.backtests i with _ | bt
    · simp only [hbi] at hb ⊢; exact h.live b bt' hb
    · simp only [hbi] at hb ⊢
      by_cases hbe : b = i
      · subst hbe
        simp only [setBt, if_true] at hb
        cases hb
        obtain ⟨h1, h2, h3, h4, h5, h6⟩ := h.live b bt hbi
        obtain ⟨ds, a1, a2, a3⟩ := h3
        refine ⟨h1, S.inv_insert _ _ h2, ⟨ds, by simpa [setBt] using a1, a2, a3⟩, ?_, ?_, ?_⟩
        · intro j hj; rw [S.next_insert] at hj; exact h4 j hj
        · simp [S.buf_insert, h5]
        · intro p hp
          simp only [if_true, List.mem_append, List.mem_singleton] at hp
          rcases hp with hp | hp
          · exact h6 p hp
          · subst hp; exact Nat.le_refl _
      · simp only [setBt, hbe, if_false] at hb ⊢
        exact h.live b bt' hb
  | delete i d =>
    constructor
    intro b bt' hb
    simp only [step, delete, gstep] at hb ⊢
    rcases hbi : a.backtests i with _ | bt
    · simp only [hbi] at hb ⊢; exact h.live b bt' hb
    · simp only [hbi] at hb ⊢
      by_cases hbe : b = i
      · subst hbe
        simp only [setBt, if_true] at hb
        cases hb
        obtain ⟨h1, h2, h3, h4, h5, h6⟩ := h.live b bt hbi
        obtain ⟨ds, a1, a2, a3⟩ := h3
        refine ⟨h1, S.inv_delete _ _ h2, ⟨ds, by simpa [setBt] using a1, a2, a3⟩, ?_, ?_, h6⟩
        · intro j hj; rw [S.next_delete] at hj; exact h4 j hj
        · simp [S.buf_delete, h5]
      · simp only [setBt, hbe, if_false] at hb
        exact h.live b bt' hb
  | tick i adm =>
    constructor
    intro b bt' hb
    rcases hbi : a.backtests i with _ | bt
    · simp only [step, tick, gstep, hbi] at hb ⊢; exact h.live b bt' hb
    · obtain ⟨h1, h2, ⟨ds, hd, hc, hN⟩, h4, h5, h6⟩ := h.live i bt hbi
      obtain ⟨⟨btn, t1, t2, t3, t4, t5⟩, t6, t7, _⟩ := tick_clock X a i adm bt ds hbi hd hc hN
      by_cases hbe : b = i
      · subst hbe
        have hb' : (tick X .repaired a b adm).2.backtests b = some bt' := hb
        have hbt : btn = bt' := by rw [t1] at hb'; exact Option.some.inj hb'
        subst hbt
        have hds : (step X a (.tick b adm)).2.datasets btn.dataset = some ds := by
          show (tick X .repaired a b adm).2.datasets btn.dataset = some ds
          rw [t6, t2]; exact hd
        have hl : (step X a (.tick b adm)).2.last = a.last := t7
        rcases hq : ds.quotes bt.date with _ | q
        · -- no quotes under the clock date: the exchange is not touched
          rw [hq] at t5
          simp only [gstep, hbi, hd, hq]
          refine ⟨by rw [hl]; exact h1, by rw [t5]; exact h2, ⟨ds, hds, t4, hN⟩, ?_, by rw [t5]; exact h5, ?_⟩
          · intro j hj; rw [t5] at hj
            obtain ⟨p, hp, hlt⟩ := h4 j hj
            exact ⟨p, hp, by omega⟩
          · intro p hp; have := h6 p hp; omega
        · rw [hq] at t5
          simp only [gstep, hbi, hd, hq]
          refine ⟨by rw [hl]; exact h1, by rw [t5]; exact S.inv_tick _ _ _ h2, ⟨ds, hds, t4, hN⟩, ?_, ?_, ?_⟩
          · intro j hj
            rw [t5] at hj
            by_cases hold : j < S.next bt.exch
            · obtain ⟨p, hp, hlt⟩ := h4 j hold
              refine ⟨p, ?_, by omega⟩
              have : ¬ (True ∧ S.next bt.exch ≤ j ∧ j < S.next (X.tick bt.exch q adm).1) := by omega
              rw [if_neg this]; exact hp
            · refine ⟨bt.pos, ?_, by omega⟩
              have : True ∧ S.next bt.exch ≤ j ∧ j < S.next (X.tick bt.exch q adm).1 := ⟨trivial, by omega, hj⟩
              rw [if_pos this]
          · simp [t5, S.buf_tick]
          · intro p hp; simp at hp
      · -- another backtest: untouched
        have hb' : (tick X .repaired a i adm).2.backtests b = some bt' := hb
        have hsame : (tick X .repaired a i adm).2.backtests b = a.backtests b := by
          simp only [tick, hbi, hd, setBt, hbe, if_false]
        rw [hsame] at hb'
        obtain ⟨g1, g2, ⟨ds', gd, gc, gN⟩, g4, g5, g6⟩ := h.live b bt' hb'
        have hl : (step X a (.tick i adm)).2.last = a.last := t7
        have hds : (step X a (.tick i adm)).2.datasets = a.datasets := t6
        refine ⟨by rw [hl]; exact g1, g2, ⟨ds', by rw [hds]; exact gd, gc, gN⟩, ?_, ?_, ?_⟩
        · intro j hj
          obtain ⟨p, hp, hlt⟩ := g4 j hj
          refine ⟨p, ?_, hlt⟩
          simp only [gstep, hbi, hd]
          split
          · exact hp
          · simp only [hbe, false_and, if_false]; exact hp
        · simp only [gstep, hbi, hd]
          split
          · exact g5
          · simp only [hbe, if_false]; exact g5
        · simp only [gstep, hbi, hd]
          split
          · exact g6
          · simp only [hbe, if_false]; exact g6

/-- **every history**: after any sequence of requests the invariant holds -/
theorem grun_inv (S : IdSpec X) : ∀ (ops : List (Op O A D)) (g : Ghost) (a : App E Q), GInv S a g →
    GInv S (grun S g a ops).2 (grun S g a ops).1
  | [], _, _, h => h
  | op :: ops, g, a, h => by simp only [grun]; exact grun_inv S ops _ _ (gstep_inv S a g h op)

/-- **a tick's fills**: while the clock is within the dataset (`pos < N`, i.e. the client ticked only
    while `has_next` allowed it), on a dataset with strictly increasing dates whose quotes carry their own
    date, every fill belongs to an id handed out at a clock position `p` whose date is strictly before
    the fill's date -/
theorem tick_fills_after_assignment (S : IdSpec X) (a : App E Q) (g : Ghost) (h : GInv S a g) (i : Nat) (adm : A)
    (bt : Backtest E) (ds : Dataset Q) (q : Q) (hb : a.backtests i = some bt)
    (hd : a.datasets bt.dataset = some ds) (hpos : bt.pos < ds.dates.length)
    (hs : ds.dates.Pairwise (· < ·)) (hq : ds.quotes bt.date = some q) (hdat : S.Dated q bt.date) :
    ∀ f ∈ S.fills bt.exch q adm, ∃ p dsub, g.asg i f.1 = some p ∧ ds.dates[p]? = some dsub ∧ dsub < f.2 := by
  intro f hf
  obtain ⟨_, h2, ⟨ds', hd', hc, _⟩, h4, _, _⟩ := h.live i bt hb
  rw [hd] at hd'; cases hd'
  obtain ⟨p, hp, hlt⟩ := h4 f.1 (S.fills_old _ _ _ h2 f hf)
  have hplt : p < ds.dates.length := by omega
  refine ⟨p, ds.dates[p], hp, List.getElem?_eq_getElem hplt, ?_⟩
  rw [S.fills_dated _ _ _ _ hdat f hf]
  unfold ClockOK at hc
  have hmin : min bt.pos (ds.dates.length - 1) = bt.pos := by omega
  rw [hmin, List.getElem?_eq_getElem hpos] at hc
  have hcur : ds.dates[bt.pos] = bt.date := Option.some.inj hc
  rw [← hcur]
  exact (List.pairwise_iff_getElem.mp hs) p bt.pos hplt hpos hlt

/-- the orders in the buffer were all submitted at clock positions not after the current one, so the
    position recorded when a tick hands out their ids is not before the position of their submission; when
    every listed date has quotes (which `Penelope` guarantees, C07) they were all submitted at exactly the
    current position -/
theorem buffered_submitted_not_later (S : IdSpec X) (a : App E Q) (g : Ghost) (h : GInv S a g) (i : Nat)
    (bt : Backtest E) (hb : a.backtests i = some bt) :
    (g.sub i).length = (S.buf bt.exch).length ∧ ∀ p ∈ g.sub i, p ≤ bt.pos :=
  ⟨(h.live i bt hb).2.2.2.2.1, (h.live i bt hb).2.2.2.2.2⟩

end SV
