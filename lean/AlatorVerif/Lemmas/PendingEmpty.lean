import AlatorVerif.Lemmas.FailedIff
/-! C05: pending exposure is empty again once everything accepted has filled — prototype -/
namespace PBk
open PU Proto
variable {σ α : Type} [DecidableEq σ] [Field α] [LinearOrder α] [IsStrictOrderedRing α] [FloorRing α]

/-- every key of `pending` has a non-zero value or an order for it is still at the exchange -/
def PendJ (b : Brk σ α) (srv : Srv σ α) : Prop :=
  ∀ k v, b.pend k = some v → v ≠ 0 ∨ ∃ o ∈ srv.exch.buffer ++ srv.exch.book.inner, o.symbol = k

/-- C05: with the invariants, nothing outstanding ⇒ the pending map is empty -/
theorem pending_empty (b : Brk σ α) (srv : Srv σ α) (net : α) (h : WInv b srv net) (hj : PendJ b srv)
    (hnone : srv.exch.buffer = [] ∧ srv.exch.book.inner = []) : ∀ k, b.pend k = none := by
  intro k
  cases hp : b.pend k with
  | none => rfl
  | some v =>
    exfalso
    rcases hj k v hp with hv | ⟨o, ho, _⟩
    · have := h.pend k
      rw [hnone.1, hnone.2] at this
      simp [qty, hp, outst] at this
      exact hv this
    · rw [hnone.1, hnone.2] at ho; simp at ho

theorem sendOrder_J (v : Variant) (b : Brk σ α) (srv : Srv σ α) (o : Order σ α) (h : PendJ b srv) :
    PendJ (sendOrder v b srv o).2.1 (sendOrder v b srv o).2.2 := by
  rcases sendOrder_cases v b srv o with ⟨e1, e2, _⟩ | ⟨_, _, e1, e2⟩
  · rw [e1, e2]; exact h
  · rw [e1, e2]
    intro k w hk
    simp only at hk ⊢
    by_cases hks : k = o.symbol
    · right; exact ⟨{ o with id := none }, by simp, hks.symm⟩
    · have hsame : pendAfter b o k = b.pend k := by
        unfold pendAfter; cases b.pend o.symbol <;> simp [setRaw, hks]
      rw [hsame] at hk
      rcases h k w hk with hv | ⟨o', ho', hs'⟩
      · exact Or.inl hv
      · right; refine ⟨o', ?_, hs'⟩
        simp only [List.mem_append] at ho' ⊢
        rcases ho' with h1 | h1
        · exact Or.inl (Or.inl h1)
        · exact Or.inr h1

theorem sendOrders_J (v : Variant) (os : List (Order σ α)) : ∀ (b : Brk σ α) (srv : Srv σ α),
    PendJ b srv → PendJ (sendOrders v b srv os).1 (sendOrders v b srv os).2.1 := by
  induction os with
  | nil => intro b srv h; exact h
  | cons o os ih => intro b srv h; exact ih _ _ (sendOrder_J v b srv o h)

theorem put_self_ne (m : σ → Option α) (s : σ) (v w : α) (h : put m s v s = some w) : w ≠ 0 := by
  unfold put at h
  simp only [if_true] at h
  by_cases hz : isZero v = true
  · simp [hz] at h
  · simp only [hz] at h; cases h; exact fun hc => hz ((isZero_iff _).mpr hc)

/-- after booking a batch: keys that traded hold a non-zero value or are gone; the others are untouched -/
theorem book_fold_pend (ts : List (Trade σ α)) : ∀ (b : Brk σ α),
    (∀ k, (∃ t ∈ ts, t.symbol = k) → ∀ w, (ts.foldl book b).pend k = some w → w ≠ 0) ∧
    (∀ k, (¬ ∃ t ∈ ts, t.symbol = k) → (ts.foldl book b).pend k = b.pend k) := by
  induction ts with
  | nil => intro b; exact ⟨fun k ⟨t, ht, _⟩ => by simp at ht, fun k _ => rfl⟩
  | cons t ts ih =>
    intro b
    obtain ⟨h1, h2⟩ := ih (book b t)
    simp only [List.foldl_cons]
    constructor
    · intro k ⟨t', ht', hs'⟩ w hw
      by_cases hin : ∃ t'' ∈ ts, t''.symbol = k
      · exact h1 k hin w hw
      · -- the only trade for `k` is the head: its `put` decided the entry
        have hk : t.symbol = k := by
          rcases List.mem_cons.mp ht' with h | h
          · rw [← h]; exact hs'
          · exact absurd ⟨t', h, hs'⟩ hin
        rw [h2 k hin] at hw
        subst hk
        have hpd : (book b t).pend = put b.pend t.symbol
            (match t.side with | .buy => qty b.pend t.symbol - t.quantity | .sell => qty b.pend t.symbol + t.quantity) := rfl
        rw [hpd] at hw
        exact put_self_ne _ _ _ _ hw
    · intro k hno
      have hno' : ¬ ∃ t'' ∈ ts, t''.symbol = k := fun ⟨t'', h, hs⟩ => hno ⟨t'', List.mem_cons_of_mem _ h, hs⟩
      have hne : k ≠ t.symbol := fun hc => hno ⟨t, by simp, hc.symm⟩
      rw [h2 k hno']
      simp [book, put, hne]


theorem admitFold_mem (adm : List (Order σ α)) : ∀ (b : Book σ α) (acc : List (Order σ α)),
    let r := adm.foldl (fun (acc : Book σ α × List (Order σ α)) o =>
      match acc.1.insert o with | (b', o') => (b', acc.2 ++ [o'])) (b, acc)
    (∀ o ∈ b.inner, o ∈ r.1.inner) ∧ (∀ o ∈ adm, ∃ o' ∈ r.1.inner, o'.symbol = o.symbol) := by
  induction adm with
  | nil => intro b acc; exact ⟨fun o h => h, fun o h => by simp at h⟩
  | cons a os ih =>
    intro b acc
    simp only [List.foldl_cons]
    obtain ⟨h1, h2⟩ := ih (b.insert a).1 (acc ++ [(b.insert a).2])
    refine ⟨fun o ho => h1 o (by simp [Book.insert, ho]), ?_⟩
    intro o ho
    rcases List.mem_cons.mp ho with h | h
    · subst h
      exact ⟨{ o with id := some b.last }, h1 _ (by simp [Book.insert]), rfl⟩
    · exact h2 o h

/-- C05: `check` keeps the "non-zero or outstanding" invariant of the pending map -/
theorem check_J (v : Variant) (b : Brk σ α) (srv : Srv σ α) (adm : List (Order σ α)) (ks : List σ)
    (h : PendJ b srv) (hinv : BookInv srv.exch.book) (hperm : adm.Perm srv.exch.buffer) :
    PendJ (check v b srv adm ks).1 (check v b srv adm ks).2.1 := by
  obtain ⟨e1, e2, _⟩ := execute_spec srv.exch.book (srv.quotes srv.date) hinv
  obtain ⟨m1, m2⟩ := admitFold_mem adm (srv.exch.book.execute (srv.quotes srv.date)).1 []
  have hbook1 : ∀ o ∈ (srv.exch.book.execute (srv.quotes srv.date)).1.inner, o ∈ (srv.tick adm).2.exch.book.inner := m1
  have hadm1 : ∀ o ∈ adm, ∃ o' ∈ (srv.tick adm).2.exch.book.inner, o'.symbol = o.symbol := m2
  have htr : (srv.tick adm).1.2 = srv.exch.book.inner.filterMap (tradeOn (srv.quotes srv.date)) := e2
  -- the state after tick + booking
  have hstep : PendJ (afterBooking b srv adm) (srv.tick adm).2 := by
    intro k w hk
    obtain ⟨p1, p2⟩ := book_fold_pend (srv.tick adm).1.2 (mergedQuotes b srv adm)
    by_cases htk : ∃ t ∈ (srv.tick adm).1.2, t.symbol = k
    · exact Or.inl (p1 k htk w hk)
    · have hk' : b.pend k = some w := by
        have := p2 k htk
        unfold afterBooking at hk; rw [this] at hk; exact hk
      rcases h k w hk' with hv | ⟨o, ho, hs⟩
      · exact Or.inl hv
      · right
        rcases List.mem_append.mp ho with hb | hb
        · -- buffered: admitted by this tick
          obtain ⟨o', ho', hs'⟩ := hadm1 o (hperm.mem_iff.mpr hb)
          exact ⟨o', by simp [ho'], hs'.trans hs⟩
        · -- resting: it did not fill, otherwise there would be a trade in `k`
          have hnf : fillsOn (srv.quotes srv.date) o = false := by
            cases hf : fillsOn (srv.quotes srv.date) o with
            | false => rfl
            | true =>
              exfalso
              unfold fillsOn at hf
              cases hto : tradeOn (srv.quotes srv.date) o with
              | none => simp [hto] at hf
              | some t =>
                apply htk
                refine ⟨t, by rw [htr]; exact List.mem_filterMap.mpr ⟨o, hb, hto⟩, ?_⟩
                unfold tradeOn at hto
                cases hq : srv.quotes srv.date o.symbol with
                | none => simp [hq] at hto
                | some q =>
                  simp only [hq] at hto
                  by_cases htg : triggers o q = true
                  · simp only [htg, if_true, Option.some.injEq] at hto; subst hto; exact hs
                  · simp [htg] at hto
          have : o ∈ (srv.exch.book.execute (srv.quotes srv.date)).1.inner := by
            rw [e1]; exact List.mem_filter.mpr ⟨hb, by simp [hnf]⟩
          exact ⟨o, by simp [hbook1 o this], hs⟩
  -- rebalancing only sends orders
  have hcheck : check v b srv adm ks =
      (if (afterBooking b srv adm).cash < 0 then
        let w := withdrawLiq v (afterBooking b srv adm) (srv.tick adm).2 ks ((afterBooking b srv adm).cash * (-1) + 1000.0)
        match w.1 with
        | .wFail _ => ({ w.2.1 with failed := true }, w.2.2, false)
        | .panic => (w.2.1, w.2.2, true)
        | _ => (w.2.1, w.2.2, false)
      else (afterBooking b srv adm, (srv.tick adm).2, false)) := rfl
  rw [hcheck]
  have hliq : ∀ (b0 : Brk σ α) (s0 : Srv σ α) (req : α), PendJ b0 s0 →
      PendJ (withdrawLiq v b0 s0 ks req).2.1 (withdrawLiq v b0 s0 ks req).2.2 := by
    intro b0 s0 req h0
    have hd : PendJ (debit b0 req) s0 := by unfold debit; split <;> exact h0
    unfold withdrawLiq
    split
    · exact hd
    · have hfin : ∀ (os : List (σ × α)) (rem : α),
          let r := ((if isZero rem then
              let r := sendOrders v b0 s0 (os.map (fun o => mkSell o.1 o.2))
              if r.2.2 then (CashEv.panic, r.1, r.2.1) else (CashEv.wOk req, r.1, r.2.1)
            else (CashEv.wFail req, debit b0 req, s0)) : CashEv α × Brk σ α × Srv σ α)
          PendJ r.2.1 r.2.2 := by
        intro os rem
        by_cases hz : isZero rem = true
        · simp only [hz, if_true]
          have := sendOrders_J v (os.map (fun o => mkSell o.1 o.2)) b0 s0 h0
          split <;> exact this
        · simp only [hz, Bool.false_eq_true, if_false]; exact hd
      split
      · exact hfin _ 0
      · exact hfin _ _
      · exact h0
  split
  · have := hliq (afterBooking b srv adm) (srv.tick adm).2 ((afterBooking b srv adm).cash * (-1) + 1000.0) hstep
    simp only []
    split
    · exact this
    · exact this
    · exact this
  · exact hstep

end PBk
