import AlatorVerif.Lemmas.BrokerSizing
/-! more about the cost model (C13), the liquidation walk (C10) and the per-entry rebalancing rule (C12) -/
namespace Proto
variable {α : Type} [Field α] [LinearOrder α] [IsStrictOrderedRing α]

/-- the cost-adjusted price in closed form: gross price plus (buy) / minus (sell) the per-share costs -/
theorem impact_price (cs : List (Cost α)) (b q : α) (s : Bool) :
    (impactTotal cs b q s).2 = if s then q + sumPer cs else q - sumPer cs := by
  induction cs generalizing b q with
  | nil => cases s <;> simp [impactTotal, sumPer]
  | cons c cs ih =>
    rw [impactTotal_cons, ih]
    cases c <;> cases s <;> simp [Cost.impact, sumPer] <;> ring

theorem price_buy_ge (cs : List (Cost α)) (h : ∀ c ∈ cs, c.WF) (b q : α) : q ≤ (impactTotal cs b q true).2 := by
  rw [impact_price]; simp; exact sumPer_nonneg cs h

theorem price_sell_le (cs : List (Cost α)) (h : ∀ c ∈ cs, c.WF) (b q : α) : (impactTotal cs b q false).2 ≤ q := by
  rw [impact_price]; simp; exact sumPer_nonneg cs h

end Proto

namespace PBk
open PU Proto
variable {σ α : Type} [DecidableEq σ] [Field α] [LinearOrder α] [IsStrictOrderedRing α] [FloorRing α]

/-! ### C10: the walk never sells more than the position held (after F10, fractional positions too) -/

theorem walk_le_position (b : Brk σ α) (hbid : ∀ s q, b.latest s = some q → 0 < q.bid) :
    ∀ (ks : List σ) (rem : α) (acc os : List (σ × α)), 0 ≤ rem →
    (walk .repaired b ks rem acc = .done os ∨ ∃ r, walk .repaired b ks rem acc = .left r os) →
    ∀ o ∈ os, o ∈ acc ∨ ∃ h, b.hold o.1 = some h ∧ o.2 ≤ h := by
  intro ks
  induction ks with
  | nil =>
    intro rem acc os _ h o ho
    simp only [walk] at h
    rcases h with h | ⟨r, h⟩
    · cases h
    · injection h with _ h2; subst h2; exact Or.inl ho
  | cons k ks ih =>
    intro rem acc os hrem h o ho
    simp only [walk] at h
    by_cases hle : (posValue b k).getD 0 ≤ rem
    · simp only [hle, if_true] at h
      cases hh : b.hold k with
      | none => rw [hh] at h; exact ih rem acc os hrem h o ho
      | some n =>
        rw [hh] at h
        rcases ih (rem - (posValue b k).getD 0) (acc ++ [(k, n)]) os (by linarith) h o ho with hm | hm
        · rcases List.mem_append.mp hm with hm | hm
          · exact Or.inl hm
          · simp at hm; subst hm; exact Or.inr ⟨n, hh, le_refl _⟩
        · exact Or.inr hm
    · simp only [hle, if_false] at h
      cases hq : b.latest k with
      | none =>
        rw [hq] at h
        rcases h with h | ⟨r, h⟩ <;> cases h
      | some q =>
        rw [hq] at h
        simp only [Variant.repaired, if_true] at h
        rcases h with h | ⟨r, h⟩
        · injection h with h; subst h
          rcases List.mem_append.mp ho with hm | hm
          · exact Or.inl hm
          · simp at hm; subst hm
            right
            -- the position is worth more than what is left to raise, so it exists
            have hlt : rem < (posValue b k).getD 0 := lt_of_not_ge hle
            unfold posValue at hlt
            rw [hq] at hlt
            cases hh : b.hold k with
            | none => rw [hh] at hlt; simp at hlt; linarith
            | some n =>
              refine ⟨n, rfl, ?_⟩
              simp only []
              by_cases hc : n < (HasFloor.ceil (rem / q.bid) : α)
              · simp [hc]
              · simp only [hc, if_false]; exact not_lt.mp hc
        · cases h

/-- C10, success: a reported success means the walk ended with nothing left to raise, the orders it
    collected were sent as market sells, and at the last seen bids they are worth at least the request -/
theorem withdrawLiq_success (b : Brk σ α) (srv : Srv σ α) (ks : List σ) (req x : α)
    (hbid : ∀ s q, b.latest s = some q → 0 < q.bid)
    (h : (withdrawLiq .repaired b srv ks req).1 = .wOk x) :
    ∃ os, (walk .repaired b ks req [] = .done os ∨ walk .repaired b ks req [] = .left 0 os)
      ∧ req ≤ worth b os
      ∧ (withdrawLiq .repaired b srv ks req).2.1 = (sendOrders .repaired b srv (os.map (fun o => mkSell o.1 o.2))).1
      ∧ (withdrawLiq .repaired b srv ks req).2.2 = (sendOrders .repaired b srv (os.map (fun o => mkSell o.1 o.2))).2.1 := by
  unfold withdrawLiq at h ⊢
  by_cases hlt : liqValue b ks < req
  · simp [hlt] at h
  · simp only [hlt, if_false] at h ⊢
    cases hw : walk .repaired b ks req [] with
    | panic => rw [hw] at h; simp at h
    | done os =>
      rw [hw] at h
      simp only [] at h ⊢
      have hz : isZero (0:α) = true := (isZero_iff 0).mpr rfl
      simp only [hz, if_true] at h ⊢
      refine ⟨os, Or.inl rfl, ?_, ?_, ?_⟩
      · have := walk_sufficient b hbid ks req [] os (Or.inl hw); simpa [worth] using this
      · split <;> simp_all
      · split <;> simp_all
    | left rem os =>
      rw [hw] at h
      simp only [] at h ⊢
      by_cases hz : isZero rem = true
      · have hr : rem = 0 := (isZero_iff rem).mp hz
        subst hr
        simp only [hz, if_true] at h ⊢
        refine ⟨os, Or.inr rfl, ?_, ?_, ?_⟩
        · have := walk_sufficient b hbid ks req [] os (Or.inr hw); simpa [worth] using this
        · split <;> simp_all
        · split <;> simp_all
      · simp [hz] at h

/-! ### C12: what one weight entry yields -/

theorem requiredShares_repaired (costs : List (Cost α)) (d : α) (q : Quote α) :
    requiredShares .repaired costs d q =
      if d < 0 then -(max 0 (⌊(impactTotal costs (absv d) q.bid false).1 / (impactTotal costs (absv d) q.bid false).2⌋ : α))
      else max 0 (⌊(impactTotal costs (absv d) q.ask true).1 / (impactTotal costs (absv d) q.ask true).2⌋ : α) := by
  unfold requiredShares
  simp only [Variant.repaired, if_true]
  have hmax : ∀ x : α, (if x < 0 then 0 else x) = max 0 x := fun x => by
    by_cases hx : x < 0
    · simp [hx, max_eq_left hx.le]
    · simp [hx, max_eq_right (not_lt.mp hx)]
  split <;> simp only [hmax] <;> rfl

/-- **C12, per entry**: with `gap = weight × liquidation value − position value` and
    `n = ⌊net budget / net price⌋` from the cost model on `|gap|` (bid and sell costs for a negative gap, ask
    and buy costs otherwise): no order when the gap is zero, the symbol has no quote, or `n < 1`;
    otherwise exactly one market order for the symbol — a buy of `n` iff `gap > 0`, a sell of `n` iff
    `gap < 0` — never zero-sized, never in the opposite direction -/
theorem entryR_spec (b : Brk σ α) (total : α) (sym : σ) (w : α) :
    let gap := total * w - (posValue b sym).getD 0
    (gap = 0 → entryR b total (sym, w) = none) ∧
    (b.latest sym = none → entryR b total (sym, w) = none) ∧
    (∀ q, b.latest sym = some q → 0 < gap →
      let n : ℤ := ⌊(impactTotal b.costs (absv gap) q.ask true).1 / (impactTotal b.costs (absv gap) q.ask true).2⌋
      (n < 1 → entryR b total (sym, w) = none) ∧ (1 ≤ n → entryR b total (sym, w) = some (mkBuy sym (n : α)))) ∧
    (∀ q, b.latest sym = some q → gap < 0 →
      let n : ℤ := ⌊(impactTotal b.costs (absv gap) q.bid false).1 / (impactTotal b.costs (absv gap) q.bid false).2⌋
      (n < 1 → entryR b total (sym, w) = none) ∧ (1 ≤ n → entryR b total (sym, w) = some (mkSell sym (n : α)))) := by
  intro gap
  have hgap : total * w - (posValue b sym).getD 0 = gap := rfl
  refine ⟨?_, ?_, ?_, ?_⟩
  · intro h0
    simp only [entryR, hgap, (isZero_iff gap).mpr h0, if_true]
  · intro hq
    simp only [entryR, hgap, hq]
    split <;> rfl
  · intro q hq hpos n
    have hnz : isZero gap = false := by
      cases h : isZero gap; rfl; exact absurd ((isZero_iff gap).mp h) (ne_of_gt hpos)
    have hnn : ¬ gap < 0 := not_lt.mpr hpos.le
    simp only [entryR, hgap, hnz, hq, requiredShares_repaired, hnn, if_false, Bool.false_eq_true]
    constructor
    · intro hn
      have : (n : α) ≤ 0 := by exact_mod_cast (show n ≤ 0 by omega)
      have hm : max 0 (n : α) = 0 := max_eq_left this
      simp only [show (⌊(impactTotal b.costs (absv gap) q.ask true).1 / (impactTotal b.costs (absv gap) q.ask true).2⌋ : ℤ) = n from rfl, hm,
        (isZero_iff (0:α)).mpr rfl, if_true]
    · intro hn
      have : (1:α) ≤ (n : α) := by exact_mod_cast hn
      have hm : max 0 (n : α) = n := max_eq_right (by linarith)
      have hz : isZero (n : α) = false := by
        cases h : isZero (n : α); rfl; have := (isZero_iff _).mp h; linarith
      simp only [show (⌊(impactTotal b.costs (absv gap) q.ask true).1 / (impactTotal b.costs (absv gap) q.ask true).2⌋ : ℤ) = n from rfl, hm,
        hz, Bool.false_eq_true, if_false, show (0:α) < n by linarith, if_true]
  · intro q hq hneg n
    have hnz : isZero gap = false := by
      cases h : isZero gap; rfl; exact absurd ((isZero_iff gap).mp h) (ne_of_lt hneg)
    simp only [entryR, hgap, hnz, hq, requiredShares_repaired, hneg, if_true, Bool.false_eq_true, if_false]
    constructor
    · intro hn
      have : (n : α) ≤ 0 := by exact_mod_cast (show n ≤ 0 by omega)
      have hm : max 0 (n : α) = 0 := max_eq_left this
      simp only [show (⌊(impactTotal b.costs (absv gap) q.bid false).1 / (impactTotal b.costs (absv gap) q.bid false).2⌋ : ℤ) = n from rfl, hm,
        neg_zero, (isZero_iff (0:α)).mpr rfl, if_true]
    · intro hn
      have h1 : (1:α) ≤ (n : α) := by exact_mod_cast hn
      have hm : max 0 (n : α) = n := max_eq_right (by linarith)
      have hz : isZero (-(n : α)) = false := by
        cases h : isZero (-(n : α)); rfl; have := (isZero_iff _).mp h; linarith
      have hnp : ¬ (0:α) < -(n : α) := by linarith
      have hlt0 : -(n : α) < 0 := by linarith
      have habs : absv (-(n : α)) = n := by simp [absv, hlt0]
      simp only [show (⌊(impactTotal b.costs (absv gap) q.bid false).1 / (impactTotal b.costs (absv gap) q.bid false).2⌋ : ℤ) = n from rfl, hm,
        hz, Bool.false_eq_true, if_false, hnp, habs]

/-- every order produced for an entry is for that entry's symbol -/
theorem entryR_symbol (b : Brk σ α) (total : α) (sw : σ × α) (o : Order σ α)
    (h : entryR b total sw = some o) : o.symbol = sw.1 ∧ o.kind = .market ∧ o.price = none := by
  unfold entryR at h
  simp only [] at h
  split at h
  · cases h
  · split at h
    · cases h
    · split at h
      · cases h
      · split at h <;> (injection h with h; subst h; simp [mkBuy, mkSell])

/-- at most one order per target symbol: the symbols of the orders form a sublist of the weight keys -/
theorem entries_symbols_sublist (b : Brk σ α) (total : α) (ws : List (σ × α)) :
    ((ws.filterMap (entryR b total)).map (·.symbol)).Sublist (ws.map (·.1)) := by
  induction ws with
  | nil => simp
  | cons sw ws ih =>
    simp only [List.filterMap_cons, List.map_cons]
    cases h : entryR b total sw with
    | none => exact ih.cons _
    | some o =>
      simp only [List.map_cons]
      rw [(entryR_symbol b total sw o h).1]
      exact ih.cons_cons _

end PBk
