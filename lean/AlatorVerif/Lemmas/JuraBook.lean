import AlatorVerif.Model.Jura
import Mathlib.Order.Basic
/-! Jura: the literal pass + deferred deletes + child inserts, refined to a declarative form — prototype -/
namespace PJ
variable {α : Type} [LinearOrder α] [Add α] [Sub α] [Mul α] [OfNat α 1] [OfScientific α]

def JInv (b : Book α) : Prop :=
  b.inner.Pairwise (fun x y => x.id < y.id) ∧ ∀ o ∈ b.inner, o.id < b.last

/-- what happens to one resting order on a tick: the order left in place and whether it is deleted -/
def after (quotes : Nat → Option (Quote α)) (o : Inner α) : Inner α × Bool :=
  match quotes o.order.asset with
  | none => (o, false)
  | some q => ((visit o q).order, (visit o q).del)

theorem visit_keeps (o : Inner α) (q : Quote α) :
    (visit o q).order.id = o.id ∧ (visit o q).order.order = o.order := by
  obtain ⟨id, ⟨asset, isBuy, lpx, sz, ro, cl, typ⟩, att⟩ := o
  cases typ with
  | limit tif =>
    cases tif <;> simp only [visit]
    · simp
    · cases att <;> cases isBuy <;> simp <;> split <;> simp
    · cases isBuy <;> simp <;> split <;> simp
  | trigger px m t =>
    cases t <;> cases isBuy <;> simp only [visit] <;> split <;> simp

theorem after_keeps (quotes : Nat → Option (Quote α)) (o : Inner α) :
    (after quotes o).1.id = o.id ∧ (after quotes o).1.order.asset = o.order.asset := by
  unfold after
  cases quotes o.order.asset with
  | none => simp
  | some q => simp [(visit_keeps o q).1, (visit_keeps o q).2]

/-- the pass, declaratively -/
theorem pass_spec (quotes : Nat → Option (Quote α)) (l : List (Inner α)) :
    (pass quotes l).inner = l.map (fun o => (after quotes o).1) ∧
    (pass quotes l).dels = (l.filter (fun o => (after quotes o).2)).map (fun o => (o.order.asset, o.id)) := by
  induction l with
  | nil => simp [pass]
  | cons o os ih =>
    rcases hq : quotes o.order.asset with _ | q
    · simp only [pass, hq, List.map_cons, List.filter_cons, after]
      simp [ih.1, ih.2, after]
    · simp only [pass, hq, List.map_cons, List.filter_cons, after]
      by_cases hd : (visit o q).del = true
      · simp [hd, ih.1, ih.2, after]
      · simp [hd, ih.1, ih.2, after]

theorem deleteFirst_eq_filter (asset id : Nat) (l : List (Inner α))
    (h : l.Pairwise (fun x y => x.id < y.id)) (hm : ∀ o ∈ l, o.id = id → o.order.asset = asset) :
    deleteFirst asset id l = l.filter (fun o => o.id ≠ id) := by
  induction l with
  | nil => simp [deleteFirst]
  | cons o os ih =>
    rw [List.pairwise_cons] at h
    simp only [deleteFirst]
    by_cases hid : o.id = id
    · have ha := hm o (by simp) hid
      have hf : os.filter (fun o => decide (o.id ≠ id)) = os :=
        List.filter_eq_self.mpr (fun y hy => by
          have := h.1 y hy; simp; omega)
      simp only [hid, ha, and_self, if_true, List.filter_cons, ne_eq, not_true_eq_false, decide_false,
        Bool.false_eq_true, if_false]
      exact hf.symm
    · have : ¬ (o.id = id ∧ o.order.asset = asset) := fun hc => hid hc.1
      rw [if_neg this, ih h.2 (fun o ho => hm o (by simp [ho]))]
      simp [List.filter_cons, hid]

theorem foldl_delete_eq_filter (dels : List (Nat × Nat)) : ∀ (l : List (Inner α)),
    l.Pairwise (fun x y => x.id < y.id) →
    (∀ d ∈ dels, ∀ o ∈ l, o.id = d.2 → o.order.asset = d.1) →
    dels.foldl (fun acc d => deleteFirst d.1 d.2 acc) l = l.filter (fun o => ∀ d ∈ dels, o.id ≠ d.2) := by
  induction dels with
  | nil => intro l _ _; simp; exact (List.filter_eq_self.mpr (fun _ _ => rfl)).symm
  | cons d ds ih =>
    intro l h hm
    simp only [List.foldl_cons]
    rw [deleteFirst_eq_filter d.1 d.2 l h (hm d (by simp)),
        ih _ (h.sublist List.filter_sublist)
          (fun d' hd' o ho => hm d' (by simp [hd']) o (List.mem_filter.mp ho).1),
        List.filter_filter]
    apply List.filter_congr
    intro o _
    simp only [List.mem_cons, forall_eq_or_imp, Bool.decide_and, Bool.and_comm]


theorem foldl_bookdelete (dels : List (Nat × Nat)) : ∀ (b : Book α),
    (dels.foldl (fun (acc : Book α) d => acc.delete d.1 d.2) b).inner
      = dels.foldl (fun acc d => deleteFirst d.1 d.2 acc) b.inner
    ∧ (dels.foldl (fun (acc : Book α) d => acc.delete d.1 d.2) b).last = b.last := by
  induction dels with
  | nil => intro b; simp
  | cons d ds ih => intro b; simp only [List.foldl_cons]; rw [(ih _).1, (ih _).2]; simp [Book.delete]

theorem insertFold_spec (cs : List (Order α)) : ∀ (b : Book α) (acc : List Nat),
    let r := cs.foldl (fun (acc : Book α × List Nat) c => let x := acc.1.insert c; (x.1, acc.2 ++ [x.2])) (b, acc)
    r.1.inner = b.inner ++ (cs.zipIdx.map (fun ci => ({ id := b.last + ci.2, order := ci.1, attempted := false } : Inner α)))
    ∧ r.2 = acc ++ List.range' b.last cs.length ∧ r.1.last = b.last + cs.length := by
  induction cs with
  | nil => intro b acc; simp
  | cons c cs ih =>
    intro b acc
    simp only [List.foldl_cons]
    obtain ⟨h1, h2, h3⟩ := ih (b.insert c).1 (acc ++ [(b.insert c).2])
    refine ⟨?_, ?_, ?_⟩
    · rw [h1]; simp only [Book.insert, List.append_assoc, List.singleton_append, List.zipIdx_cons, List.map_cons,
        Nat.add_zero, List.cons.injEq, true_and]
      congr 1
      rw [List.zipIdx_succ]  
      simp [List.map_map, Function.comp_def, Nat.add_assoc, Nat.add_comm 1]
    · rw [h2]; simp [Book.insert, List.range'_succ]
    · rw [h3]; simp [Book.insert]; omega

theorem eq_of_id_eq {l : List (Inner α)} (hp : l.Pairwise (fun x y => x.id < y.id))
    {o o' : Inner α} (ho : o ∈ l) (ho' : o' ∈ l) (h : o.id = o'.id) : o = o' := by
  have hget := List.pairwise_iff_getElem.mp hp
  obtain ⟨n, hn, rfl⟩ := List.getElem_of_mem ho
  obtain ⟨m, hm', rfl⟩ := List.getElem_of_mem ho'
  rcases Nat.lt_trichotomy n m with hlt | heq' | hgt
  · have := hget n m hn hm' hlt; omega
  · subst heq'; rfl
  · have := hget m n hm' hn hgt; omega

/-- an order survives the deferred deletions iff it was not scheduled for deletion -/
theorem survives_iff (quotes : Nat → Option (Quote α)) {l : List (Inner α)}
    (hp : l.Pairwise (fun x y => x.id < y.id)) {o : Inner α} (ho : o ∈ l) :
    (∀ d ∈ (l.filter (fun o => (after quotes o).2)).map (fun o => (o.order.asset, o.id)), o.id ≠ d.2)
      ↔ (after quotes o).2 = false := by
  constructor
  · intro hall
    by_contra hd
    have hd' : (after quotes o).2 = true := by simpa using hd
    exact hall (o.order.asset, o.id) (List.mem_map.mpr ⟨o, List.mem_filter.mpr ⟨ho, hd'⟩, rfl⟩) rfl
  · intro hd d hdm heq
    obtain ⟨o', ho', rfl⟩ := List.mem_map.mp hdm
    obtain ⟨ho'l, hd'⟩ := List.mem_filter.mp ho'
    have := eq_of_id_eq hp ho ho'l heq
    subst this
    rw [hd] at hd'; cases hd'

/-- C18 / C03 core for Jura: under the id invariant, one `execute_orders` leaves exactly the orders
    not scheduled for deletion (with their possibly updated `attempted` flag) in their old order,
    followed by the children with fresh consecutive ids, which are the ids announced -/
theorem execute_spec (b : Book α) (quotes : Nat → Option (Quote α)) (h : JInv b) :
    (b.execute quotes).1.inner = (b.inner.filter (fun o => !(after quotes o).2)).map (fun o => (after quotes o).1)
        ++ ((pass quotes b.inner).children.zipIdx.map
              (fun ci => ({ id := b.last + ci.2, order := ci.1, attempted := false } : Inner α)))
    ∧ (b.execute quotes).2.2.1 = List.range' b.last (pass quotes b.inner).children.length
    ∧ (b.execute quotes).1.last = b.last + (pass quotes b.inner).children.length
    ∧ (b.execute quotes).2.1 = (pass quotes b.inner).fills := by
  obtain ⟨hp, hb⟩ := h
  obtain ⟨p1, p2⟩ := pass_spec quotes b.inner
  have hpw : ((pass quotes b.inner).inner).Pairwise (fun x y => x.id < y.id) := by
    rw [p1, List.pairwise_map]
    exact hp.imp (fun {a c} hlt => by rw [(after_keeps quotes a).1, (after_keeps quotes c).1]; exact hlt)
  -- the book after the deferred deletions
  let b0 : Book α := { b with inner := (pass quotes b.inner).inner }
  have hdel : ((pass quotes b.inner).dels.foldl (fun (acc : Book α) d => acc.delete d.1 d.2) b0).inner
      = (b.inner.filter (fun o => !(after quotes o).2)).map (fun o => (after quotes o).1) := by
    rw [(foldl_bookdelete _ _).1]
    show List.foldl _ (pass quotes b.inner).inner _ = _
    rw [foldl_delete_eq_filter _ _ hpw]
    · rw [p1, p2, List.filter_map]
      congr 1
      apply List.filter_congr
      intro o ho
      have := survives_iff quotes hp ho
      simp only [Function.comp, (after_keeps quotes o).1]
      by_cases hd : (after quotes o).2 = true
      · have hno : ¬ (∀ d ∈ (b.inner.filter (fun o => (after quotes o).2)).map (fun o => (o.order.asset, o.id)),
            o.id ≠ d.2) := fun hall => by rw [this.mp hall] at hd; cases hd
        simp only [hd, Bool.not_true]; exact decide_eq_false hno
      · have hdf : (after quotes o).2 = false := by simpa using hd
        simp only [hdf, Bool.not_false]; exact decide_eq_true (this.mpr hdf)
    · intro d hd o ho hid
      rw [p2] at hd; rw [p1] at ho
      obtain ⟨o1, ho1, rfl⟩ := List.mem_map.mp hd
      obtain ⟨o2, ho2, rfl⟩ := List.mem_map.mp ho
      have ho1l := (List.mem_filter.mp ho1).1
      simp only [(after_keeps quotes o2).1, (after_keeps quotes o2).2] at hid ⊢
      have := eq_of_id_eq hp ho2 ho1l hid
      rw [this]
  have hlast := (foldl_bookdelete (pass quotes b.inner).dels b0).2
  obtain ⟨i1, i2, i3⟩ := insertFold_spec (pass quotes b.inner).children
    ((pass quotes b.inner).dels.foldl (fun (acc : Book α) d => acc.delete d.1 d.2) b0) []
  rw [hlast] at i1 i2 i3
  rw [hdel] at i1
  have i2' : (b.execute quotes).2.2.1 = [] ++ List.range' b.last (pass quotes b.inner).children.length := i2
  exact ⟨i1, by simpa using i2', i3, rfl⟩

end PJ
