import AlatorVerif.Lemmas.BrokerInv
import AlatorVerif.Lemmas.NoLookahead
/-!
C11, the "most recent bid published up to the current clock" clause over every history: after any sequence
of deposit / withdraw / send_order / check / liquidation requests, the broker's last-seen quote for a symbol
is the quote stored under the latest visited date that quotes the symbol — never a later date, and a gap of
any length keeps the previous one.
-/
namespace PBk
open PU Proto
variable {σ α : Type} [DecidableEq σ] [Field α] [LinearOrder α] [IsStrictOrderedRing α] [FloorRing α]

/-- the most recent quote for `s` among the dates at positions `0 … k` -/
def seenUpTo (dates : List Int) (quotes : Int → σ → Option (Quote α)) (s : σ) : Nat → Option (Quote α)
  | 0 => quotes (dates.getD 0 0) s
  | k + 1 => match quotes (dates.getD (k + 1) 0) s with
    | some q => some q
    | none => seenUpTo dates quotes s k

omit [DecidableEq σ] [Field α] [LinearOrder α] [IsStrictOrderedRing α] [FloorRing α] in
/-- it is a quote of one of the visited dates, and every later visited date has none for the symbol -/
theorem seenUpTo_spec (dates : List Int) (quotes : Int → σ → Option (Quote α)) (s : σ) :
    ∀ k, (∀ q, seenUpTo dates quotes s k = some q →
            ∃ j, j ≤ k ∧ quotes (dates.getD j 0) s = some q ∧ ∀ i, j < i → i ≤ k → quotes (dates.getD i 0) s = none)
        ∧ (seenUpTo dates quotes s k = none → ∀ i, i ≤ k → quotes (dates.getD i 0) s = none) := by
  intro k
  induction k with
  | zero =>
    refine ⟨fun q h => ⟨0, Nat.le_refl _, h, fun i h1 h2 => by omega⟩, fun h i hi => ?_⟩
    have : i = 0 := by omega
    subst this; exact h
  | succ k ih =>
    simp only [seenUpTo]
    rcases hq : quotes (dates.getD (k + 1) 0) s with _ | q'
    · simp only
      refine ⟨fun q h => ?_, fun h i hi => ?_⟩
      · obtain ⟨j, hj, hjq, hlater⟩ := ih.1 q h
        refine ⟨j, by omega, hjq, fun i h1 h2 => ?_⟩
        by_cases hi : i = k + 1
        · subst hi; exact hq
        · exact hlater i h1 (by omega)
      · by_cases hik : i = k + 1
        · subst hik; exact hq
        · exact ih.2 h i (by omega)
    · simp only
      refine ⟨fun q h => ⟨k + 1, Nat.le_refl _, by rw [hq]; exact h, fun i h1 h2 => by omega⟩, fun h => by cases h⟩

/-- the clock shows `dates[min pos (N-1)]` and the last-seen table is the most recent quote up to there -/
structure QInv (b : Brk σ α) (srv : Srv σ α) : Prop where
  nonempty : 0 < srv.dates.length
  clock : srv.date = srv.dates.getD (min srv.pos (srv.dates.length - 1)) 0
  seen : ∀ s, b.latest s = seenUpTo srv.dates srv.quotes s (min srv.pos (srv.dates.length - 1))

/-- what the operations other than the tick inside `check` leave alone -/
structure QFrame (b b' : Brk σ α) (srv srv' : Srv σ α) : Prop where
  latest : b'.latest = b.latest
  pos : srv'.pos = srv.pos
  date : srv'.date = srv.date
  dates : srv'.dates = srv.dates
  quotes : srv'.quotes = srv.quotes

theorem QFrame.refl (b : Brk σ α) (srv : Srv σ α) : QFrame b b srv srv := ⟨rfl, rfl, rfl, rfl, rfl⟩
theorem QFrame.trans {b b' b'' : Brk σ α} {s s' s'' : Srv σ α} (h : QFrame b b' s s') (g : QFrame b' b'' s' s'') :
    QFrame b b'' s s'' :=
  ⟨g.latest.trans h.latest, g.pos.trans h.pos, g.date.trans h.date, g.dates.trans h.dates, g.quotes.trans h.quotes⟩

theorem QInv.frame {b b' : Brk σ α} {srv srv' : Srv σ α} (h : QInv b srv) (f : QFrame b b' srv srv') : QInv b' srv' :=
  ⟨by rw [f.dates]; exact h.nonempty, by rw [f.date, f.dates, f.pos]; exact h.clock,
   fun s => by rw [f.latest, f.dates, f.quotes, f.pos]; exact h.seen s⟩

theorem sendOrder_qframe (v : Variant) (b : Brk σ α) (srv : Srv σ α) (o : Order σ α) :
    QFrame b (sendOrder v b srv o).2.1 srv (sendOrder v b srv o).2.2 := by
  rcases sendOrder_cases v b srv o with ⟨h1, h2, _⟩ | ⟨_, _, h1, h2⟩
  · rw [h1, h2]; exact QFrame.refl _ _
  · rw [h1, h2]; exact ⟨rfl, rfl, rfl, rfl, rfl⟩

theorem sendOrders_qframe (v : Variant) (os : List (Order σ α)) : ∀ (b : Brk σ α) (srv : Srv σ α),
    QFrame b (sendOrders v b srv os).1 srv (sendOrders v b srv os).2.1 := by
  induction os with
  | nil => intro b srv; exact QFrame.refl _ _
  | cons o os ih => intro b srv; exact (sendOrder_qframe v b srv o).trans (ih _ _)

theorem debit_qframe (b : Brk σ α) (srv : Srv σ α) (c : α) : QFrame b (debit b c) srv srv := by
  unfold debit; split
  · exact QFrame.refl _ _
  · exact ⟨rfl, rfl, rfl, rfl, rfl⟩

theorem withdrawLiq_qframe (v : Variant) (b : Brk σ α) (srv : Srv σ α) (ks : List σ) (req : α) :
    QFrame b (withdrawLiq v b srv ks req).2.1 srv (withdrawLiq v b srv ks req).2.2 := by
  unfold withdrawLiq
  split
  · exact debit_qframe b srv req
  · have hfin : ∀ (os : List (σ × α)) (rem : α),
        let r := (if isZero rem then
            let r := sendOrders v b srv (os.map (fun o => mkSell o.1 o.2))
            if r.2.2 then (CashEv.panic, r.1, r.2.1) else (CashEv.wOk req, r.1, r.2.1)
          else (CashEv.wFail req, debit b req, srv) : CashEv α × Brk σ α × Srv σ α)
        QFrame b r.2.1 srv r.2.2 := by
      intro os rem
      by_cases hz : isZero rem = true
      · simp only [hz, if_true]
        have := sendOrders_qframe v (os.map (fun o => mkSell o.1 o.2)) b srv
        split <;> exact this
      · simp only [hz, Bool.false_eq_true, if_false]; exact debit_qframe b srv req
    split
    · exact hfin _ 0
    · exact hfin _ _
    · exact QFrame.refl _ _

theorem book_fold_latest (ts : List (Trade σ α)) : ∀ (b : Brk σ α), (ts.foldl book b).latest = b.latest := by
  induction ts with
  | nil => intro b; rfl
  | cons t ts ih => intro b; simp only [List.foldl_cons]; rw [ih]; rfl

/-- the tick + quote merge + booking part of `check` -/
theorem tickMerge_qinv (b : Brk σ α) (srv : Srv σ α) (adm : List (Order σ α)) (h : QInv b srv) :
    QInv ((srv.tick adm).1.2.foldl book
        { b with latest := fun s => match (srv.tick adm).2.quotes (srv.tick adm).2.date s with
                                    | some q => some q | none => b.latest s })
      (srv.tick adm).2 := by
  obtain ⟨f1, f2, f3, _, f5⟩ := tick_srv_fields srv adm
  have hN := h.nonempty
  refine ⟨by rw [f2]; exact hN, ?_, ?_⟩
  · rw [f5, f1, f2]
    by_cases hlt : srv.pos + 1 < srv.dates.length
    · have : min (srv.pos + 1) (srv.dates.length - 1) = srv.pos + 1 := by omega
      rw [if_pos hlt, this, List.getD_eq_getElem?_getD, List.getD_eq_getElem?_getD,
        List.getElem?_eq_getElem hlt]
      simp
    · have e1 : min (srv.pos + 1) (srv.dates.length - 1) = srv.dates.length - 1 := by omega
      have e2 : min srv.pos (srv.dates.length - 1) = srv.dates.length - 1 := by omega
      rw [if_neg hlt, e1, h.clock, e2]
  · intro s
    rw [book_fold_latest]
    simp only
    rw [f3, f5, f1, f2]
    by_cases hlt : srv.pos + 1 < srv.dates.length
    · have e1 : min (srv.pos + 1) (srv.dates.length - 1) = srv.pos + 1 := by omega
      have e2 : min srv.pos (srv.dates.length - 1) = srv.pos := by omega
      have hd : srv.dates.getD (srv.pos + 1) srv.date = srv.dates.getD (srv.pos + 1) 0 := by
        rw [List.getD_eq_getElem?_getD, List.getD_eq_getElem?_getD, List.getElem?_eq_getElem hlt]; simp
      rw [if_pos hlt, e1, hd, h.seen s, e2]
      rfl
    · have e1 : min (srv.pos + 1) (srv.dates.length - 1) = srv.dates.length - 1 := by omega
      have e2 : min srv.pos (srv.dates.length - 1) = srv.dates.length - 1 := by omega
      rw [if_neg hlt, e1, h.seen s, e2, h.clock, e2]
      -- past the end the last date's quotes are merged again: nothing changes
      rcases hk : srv.dates.length - 1 with _ | k
      · simp only [seenUpTo]; cases srv.quotes (srv.dates.getD 0 0) s <;> rfl
      · simp only [seenUpTo]; cases srv.quotes (srv.dates.getD (k + 1) 0) s <;> rfl

theorem check_qinv (v : Variant) (b : Brk σ α) (srv : Srv σ α) (adm : List (Order σ α)) (ks : List σ)
    (h : QInv b srv) : QInv (check v b srv adm ks).1 (check v b srv adm ks).2.1 := by
  have hm := tickMerge_qinv b srv adm h
  unfold check
  simp only
  split
  · -- rebalancing: a liquidation request, possibly a state change to Failed
    have hf := withdrawLiq_qframe v
      ((srv.tick adm).1.2.foldl book
        { b with latest := fun s => match (srv.tick adm).2.quotes (srv.tick adm).2.date s with
                                    | some q => some q | none => b.latest s })
      (srv.tick adm).2 ks
    split
    · exact (hm.frame (hf _)).frame ⟨rfl, rfl, rfl, rfl, rfl⟩
    · exact hm.frame (hf _)
    · exact hm.frame (hf _)
  · exact hm

/-- one operation of any kind keeps the invariant -/
theorem stepW_qinv (v : Variant) (w : World σ α) (op : WOp σ α) (h : QInv w.b w.srv) :
    QInv (stepW v w op).b (stepW v w op).srv := by
  cases op with
  | deposit c =>
    simp only [stepW, deposit]
    split
    · exact h
    · exact h.frame ⟨rfl, rfl, rfl, rfl, rfl⟩
  | withdraw c =>
    simp only [stepW, withdraw]
    split
    · exact h
    · split
      · exact h
      · exact h.frame (debit_qframe _ _ _)
  | send o => exact h.frame (sendOrder_qframe v w.b w.srv o)
  | check adm ks => exact check_qinv v w.b w.srv adm ks h
  | liq ks req => exact h.frame (withdrawLiq_qframe v w.b w.srv ks req)

theorem runW_qinv (v : Variant) (ops : List (WOp σ α)) : ∀ (w : World σ α), QInv w.b w.srv →
    QInv (runW v w ops).b (runW v w ops).srv := by
  induction ops with
  | nil => intro w h; exact h
  | cons op ops ih => intro w h; exact ih _ (stepW_qinv v w op h)

end PBk
