import AlatorVerif.Lemmas.SrvThm
/-! C07: the clock of a backtest over every history of requests, for any exchange — core only -/
namespace SV
variable {E Q O A D R : Type} (X : ExchOps E Q O A D R)

/-- the clock shows the date at index `min pos (N-1)` of its dataset -/
def ClockOK (ds : Dataset Q) (bt : Backtest E) : Prop :=
  ds.dates[min bt.pos (ds.dates.length - 1)]? = some bt.date

def isTickOn (i : Nat) : Op O A D → Bool
  | .tick j _ => j == i
  | _ => false

def countTicks (i : Nat) (ops : List (Op O A D)) : Nat := (ops.filter (isTickOn i)).length

/-- what one tick request on a live backtest does to the clock and what it reports -/
theorem tick_clock (a : App E Q) (i : Nat) (adm : A) (bt : Backtest E) (ds : Dataset Q)
    (hb : a.backtests i = some bt) (hd : a.datasets bt.dataset = some ds) (hc : ClockOK ds bt)
    (hN : 0 < ds.dates.length) :
    let r := tick X .repaired a i adm
    (∃ bt', r.2.backtests i = some bt' ∧ bt'.dataset = bt.dataset ∧ bt'.pos = bt.pos + 1 ∧ ClockOK ds bt'
        ∧ bt'.exch = (match ds.quotes bt.date with | some q => (X.tick bt.exch q adm).1 | none => bt.exch))
    ∧ r.2.datasets = a.datasets ∧ r.2.last = a.last
    ∧ r.1 = some (decide (bt.pos + 1 < ds.dates.length),
                  (match ds.quotes bt.date with | some q => (X.tick bt.exch q adm).2 | none => X.emptyR)) := by
  simp only [tick, hb, hd, setBt, Variant.repaired, if_true]
  refine ⟨⟨_, rfl, rfl, rfl, ?_, ?_⟩, trivial, trivial, ?_⟩
  · -- the new date
    unfold ClockOK at hc ⊢
    simp only
    by_cases hlt : bt.pos + 1 < ds.dates.length
    · simp only [hlt, decide_true, if_true]
      have : min (bt.pos + 1) (ds.dates.length - 1) = bt.pos + 1 := by omega
      rw [this, List.getD_eq_getElem?_getD, List.getElem?_eq_getElem hlt]; simp
    · simp only [hlt, decide_false, Bool.false_eq_true, if_false]
      have e1 : min (bt.pos + 1) (ds.dates.length - 1) = ds.dates.length - 1 := by omega
      have e2 : min bt.pos (ds.dates.length - 1) = ds.dates.length - 1 := by omega
      rw [e1]; rw [e2] at hc; exact hc
  · cases ds.quotes bt.date <;> rfl
  · cases ds.quotes bt.date <;> rfl

/-- one request, any kind, any target: the clock of live backtest `i` moves by one position exactly
    when the request is a tick on `i`, and keeps showing `dates[min pos (N-1)]` -/
theorem step_clock (a : App E Q) (op : Op O A D) (i : Nat) (bt : Backtest E) (ds : Dataset Q)
    (hi : i ≤ a.last) (hb : a.backtests i = some bt) (hd : a.datasets bt.dataset = some ds)
    (hc : ClockOK ds bt) (hN : 0 < ds.dates.length) :
    ∃ bt', (step X a op).2.backtests i = some bt' ∧ bt'.dataset = bt.dataset
      ∧ bt'.pos = bt.pos + (if isTickOn i op then 1 else 0) ∧ ClockOK ds bt'
      ∧ (step X a op).2.datasets bt'.dataset = some ds ∧ i ≤ (step X a op).2.last := by
  have hm := step_last_mono X a op
  by_cases ht : target op = some i
  · cases op with
    | init n => simp [target] at ht
    | newbt n => simp [target] at ht
    | tick j adm =>
      have : j = i := by simpa [target] using ht
      subst this
      obtain ⟨⟨bt', h1, h2, h3, h4, _⟩, h5, h6, _⟩ := tick_clock X a j adm bt ds hb hd hc hN
      refine ⟨bt', h1, h2, by simp [isTickOn, h3], h4, ?_, by omega⟩
      show (tick X .repaired a j adm).2.datasets bt'.dataset = some ds
      rw [h5, h2]; exact hd
    | insert j o =>
      have : j = i := by simpa [target] using ht
      subst this
      refine ⟨{ bt with exch := X.insert bt.exch o }, by simp [step, insert, hb, setBt], rfl, by simp [isTickOn], hc, ?_, by omega⟩
      simp [step, insert, hb, setBt, hd]
    | delete j d =>
      have : j = i := by simpa [target] using ht
      subst this
      refine ⟨{ bt with exch := X.delete bt.exch d }, by simp [step, delete, hb, setBt], rfl, by simp [isTickOn], hc, ?_, by omega⟩
      simp [step, delete, hb, setBt, hd]
    | fetch j => exact ⟨bt, hb, rfl, by simp [isTickOn], hc, hd, hi⟩
    | now j => exact ⟨bt, hb, rfl, by simp [isTickOn], hc, hd, hi⟩
    | info j => exact ⟨bt, hb, rfl, by simp [isTickOn], hc, hd, hi⟩
  · obtain ⟨o1, o2⟩ := step_other X a op i hi ht
    have hnt : isTickOn i op = false := by
      cases op <;> simp [isTickOn, target] at ht ⊢
      rename_i j _; exact fun h => ht h
    refine ⟨bt, by rw [o1]; exact hb, rfl, by simp [hnt], hc, by rw [o2]; exact hd, by omega⟩

/-- **the clock over every history**: after any sequence of requests (any kinds, any targets, any
    creations in between) a live backtest has `pos` = old `pos` + the number of ticks addressed to it, and
    its clock shows `dates[min pos (N-1)]` -/
theorem run_clock (ops : List (Op O A D)) : ∀ (a : App E Q) (i : Nat) (bt : Backtest E) (ds : Dataset Q),
    i ≤ a.last → a.backtests i = some bt → a.datasets bt.dataset = some ds → ClockOK ds bt →
    0 < ds.dates.length →
    ∃ bt', (run X a ops).2.backtests i = some bt' ∧ bt'.dataset = bt.dataset
      ∧ bt'.pos = bt.pos + countTicks i ops ∧ ClockOK ds bt'
      ∧ (run X a ops).2.datasets bt'.dataset = some ds := by
  induction ops with
  | nil => intro a i bt ds _ hb hd hc _; exact ⟨bt, hb, rfl, by simp [countTicks], hc, hd⟩
  | cons op ops ih =>
    intro a i bt ds hi hb hd hc hN
    obtain ⟨bt1, h1, h2, h3, h4, h5, h6⟩ := step_clock X a op i bt ds hi hb hd hc hN
    obtain ⟨bt2, g1, g2, g3, g4, g5⟩ := ih (step X a op).2 i bt1 ds h6 h1 h5 h4 hN
    refine ⟨bt2, g1, by rw [g2, h2], ?_, g4, g5⟩
    rw [g3, h3]
    simp only [countTicks, List.filter_cons]
    cases isTickOn i op <;> simp <;> omega

/-- a freshly created backtest satisfies the clock invariant at position 0 -/
theorem fresh_clock (ds : Dataset Q) (d0 : Int) (rest : List Int) (h : ds.dates = d0 :: rest) (n : String) :
    ClockOK ds ({ date := d0, pos := 0, exch := X.new, dataset := n } : Backtest E) := by
  simp [ClockOK, h]

/-- `now` and `fetch_quotes` read the clock: the date shown is `dates[min pos (N-1)]`, `has_next` is
    `pos < N`, and the quotes returned are those stored under that date — never a later one -/
theorem now_fetch (a : App E Q) (i : Nat) (bt : Backtest E) (ds : Dataset Q)
    (hb : a.backtests i = some bt) (hd : a.datasets bt.dataset = some ds) :
    now a i = some (bt.date, decide (bt.pos < ds.dates.length)) ∧
    fetch a i = (ds.quotes bt.date).map (fun q => (bt.date, q)) := by
  simp [now, fetch, hb, hd]

/-- a client that ticks while `now().has_next` is true, with any admission oracle; counts its ticks -/
def loopTicks (adm : App E Q → A) (i : Nat) : Nat → App E Q → Nat
  | 0, _ => 0
  | fuel + 1, a =>
    match now a i with
    | some (_, true) => 1 + loopTicks adm i fuel (tick X .repaired a i (adm a)).2
    | _ => 0

/-- **the loop performs exactly `N - pos` ticks and stops** (from a fresh backtest: exactly `N`) -/
theorem loop_terminates (adm : App E Q → A) (i : Nat) : ∀ (fuel : Nat) (a : App E Q) (bt : Backtest E)
    (ds : Dataset Q), a.backtests i = some bt → a.datasets bt.dataset = some ds → ClockOK ds bt →
    0 < ds.dates.length → ds.dates.length - bt.pos ≤ fuel →
    loopTicks X adm i fuel a = ds.dates.length - bt.pos := by
  intro fuel
  induction fuel with
  | zero => intro a bt ds _ _ _ _ hf; simp [loopTicks]; omega
  | succ f ih =>
    intro a bt ds hb hd hc hN hf
    simp only [loopTicks, (now_fetch a i bt ds hb hd).1]
    by_cases hlt : bt.pos < ds.dates.length
    · simp only [hlt, decide_true]
      obtain ⟨⟨bt', h1, h2, h3, h4, _⟩, h5, _, _⟩ := tick_clock X a i (adm a) bt ds hb hd hc hN
      have hd' : (tick X .repaired a i (adm a)).2.datasets bt'.dataset = some ds := by rw [h5, h2]; exact hd
      rw [ih _ bt' ds h1 hd' h4 hN (by omega), h3]; omega
    · simp only [hlt, decide_false]; omega

end SV
