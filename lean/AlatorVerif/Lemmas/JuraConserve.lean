import AlatorVerif.Lemmas.JuraDead
/-!
C03 for Jura as one statement: over every history of insert / delete / tick, every id handed out so far is
in exactly one of three classes — filled, gone without a fill on leaving (cancelled, an IOC order dropped
after its attempt, a fired trigger), still resting — and the `filled` class is the list of order ids of the
fills the ticks reported, in order.
-/
namespace PJ
variable {α : Type} [LinearOrder α] [Add α] [Sub α] [Mul α] [OfNat α 1] [OfScientific α]

def jids (l : List (Inner α)) : List Nat := l.map (·.id)

structure JGhost where
  /-- ids of the fills reported so far, in order -/
  filled : List Nat := []
  /-- ids that left the book without a fill on leaving -/
  gone : List Nat := []

def leavesFilled (quotes : Nat → Option (Quote α)) (o : Inner α) : Bool :=
  (after quotes o).2 && (fillOf quotes o).isSome
def leavesUnfilled (quotes : Nat → Option (Quote α)) (o : Inner α) : Bool :=
  (after quotes o).2 && !(fillOf quotes o).isSome

def gjstep (s : Jura α) (g : JGhost) : JOp α → Jura α × JGhost
  | .insert o => (jstep s (.insert o), g)
  | .delete a id =>
    (jstep s (.delete a id),
     { g with gone := g.gone ++ jids (s.book.inner.filter (fun o => o.id = id ∧ o.order.asset = a)) })
  | .tick quotes adm =>
    (jstep s (.tick quotes adm),
     { filled := g.filled ++ jids (s.book.inner.filter (leavesFilled quotes)),
       gone := g.gone ++ jids (s.book.inner.filter (leavesUnfilled quotes)) })

def gjrun (s : Jura α) (g : JGhost) : List (JOp α) → Jura α × JGhost
  | [] => (s, g)
  | op :: ops => let r := gjstep s g op; gjrun r.1 r.2 ops

theorem gjstep_state (s : Jura α) (g : JGhost) (op : JOp α) : (gjstep s g op).1 = jstep s op := by
  cases op <;> rfl

theorem gjrun_state : ∀ (ops : List (JOp α)) (s : Jura α) (g : JGhost), (gjrun s g ops).1 = jrun s ops
  | [], _, _ => rfl
  | op :: ops, s, g => by simp only [gjrun, jrun]; rw [gjrun_state ops, gjstep_state]

/-! ### counting -/

omit [LinearOrder α] [Add α] [Sub α] [Mul α] [OfNat α 1] [OfScientific α] in
theorem count_split (p : Inner α → Bool) (l : List (Inner α)) (x : Nat) :
    (jids (l.filter p)).count x + (jids (l.filter (fun o => !p o))).count x = (jids l).count x := by
  induction l with
  | nil => simp [jids]
  | cons o os ih =>
    simp only [jids] at ih ⊢
    by_cases hp : p o = true
    · simp only [List.filter_cons, hp, if_true, Bool.not_true, Bool.false_eq_true, if_false, List.map_cons,
        List.count_cons]
      omega
    · simp only [Bool.not_eq_true] at hp
      simp only [List.filter_cons, hp, Bool.false_eq_true, if_false, Bool.not_false, if_true, List.map_cons,
        List.count_cons]
      omega

theorem jids_survivors (quotes : Nat → Option (Quote α)) (l : List (Inner α)) :
    jids (survivors quotes l) = jids (l.filter (fun o => !(after quotes o).2)) := by
  unfold survivors jids
  rw [List.map_map]
  apply List.map_congr_left
  intro o _
  exact (after_keeps quotes o).1

omit [LinearOrder α] [Add α] [Sub α] [Mul α] [OfNat α 1] [OfScientific α] in
theorem jids_jstamp (n : Nat) (cs : List (Order α)) : jids (jstamp n cs) = List.range' n cs.length := by
  induction cs generalizing n with
  | nil => simp [jstamp, jids]
  | cons c cs ih =>
    simp only [jids] at ih
    simp [jstamp, jids, ih (n + 1), List.range'_succ]

/-- a fill makes its order leave the book in the same tick -/
theorem fill_leaves (quotes : Nat → Option (Quote α)) (o : Inner α) (h : (fillOf quotes o).isSome = true) :
    (after quotes o).2 = true := by
  unfold fillOf at h
  unfold after
  rcases hq : quotes o.order.asset with _ | q
  · rw [hq] at h; simp at h
  · rw [hq] at h
    simp only at h ⊢
    obtain ⟨id, ⟨asset, isBuy, lpx, sz, ro, cl, typ⟩, att⟩ := o
    cases typ with
    | limit tif =>
      cases tif
      · simp [visit] at h
      · cases att
        · cases isBuy
          · by_cases hc : lpx * (1 - slippage) ≤ q.bid <;> simp [visit, hc] at h ⊢
          · by_cases hc : q.ask ≤ lpx * (1 + slippage) <;> simp [visit, hc] at h ⊢
        · simp [visit] at h
      · cases isBuy
        · by_cases hc : lpx ≤ q.bid <;> simp [visit, hc] at h ⊢
        · by_cases hc : q.ask ≤ lpx <;> simp [visit, hc] at h ⊢
    | trigger px m t =>
      have := (visit_trigger ⟨id, ⟨asset, isBuy, lpx, sz, ro, cl, .trigger px m t⟩, att⟩ q px m t rfl).1
      rw [this] at h; simp at h

/-- the ids of the fills of a tick are the ids of the orders that leave filled, in book order -/
theorem fills_oids (quotes : Nat → Option (Quote α)) (l : List (Inner α)) :
    (l.filterMap (fillOf quotes)).map (·.oid) = jids (l.filter (leavesFilled quotes)) := by
  induction l with
  | nil => simp [jids]
  | cons o os ih =>
    simp only [jids] at ih ⊢
    rcases hf : fillOf quotes o with _ | f
    · have : leavesFilled quotes o = false := by simp [leavesFilled, hf]
      simp only [List.filterMap_cons, hf, List.filter_cons, this, Bool.false_eq_true, if_false]
      exact ih
    · have hl : (after quotes o).2 = true := fill_leaves quotes o (by simp [hf])
      have : leavesFilled quotes o = true := by simp [leavesFilled, hf, hl]
      simp only [List.filterMap_cons, hf, List.filter_cons, this, if_true, List.map_cons, ih]
      congr 1
      -- the fill carries the order's id
      unfold fillOf at hf
      rcases hq : quotes o.order.asset with _ | q
      · rw [hq] at hf; cases hf
      · rw [hq] at hf; exact (visit_fill_oid o q f hf).1

/-- under unique ids `delete_order(asset, id)` removes exactly the resting order with that id and asset -/
theorem deleteFirst_eq_filter' (asset id : Nat) (l : List (Inner α)) (h : l.Pairwise (fun x y => x.id < y.id)) :
    deleteFirst asset id l = l.filter (fun o => !decide (o.id = id ∧ o.order.asset = asset)) := by
  induction l with
  | nil => simp [deleteFirst]
  | cons o os ih =>
    rw [List.pairwise_cons] at h
    simp only [deleteFirst]
    by_cases hm : o.id = id ∧ o.order.asset = asset
    · simp only [hm, and_self, if_true, List.filter_cons, decide_true, Bool.not_true, Bool.false_eq_true, if_false]
      symm
      apply List.filter_eq_self.mpr
      intro y hy
      have := h.1 y hy
      have : y.id ≠ id := by omega
      simp [this]
    · simp only [hm, if_false, List.filter_cons, decide_false, Bool.not_false, if_true]
      rw [ih h.2]

/-! ### conservation -/

def JConserved (s : Jura α) (g : JGhost) : Prop :=
  JInv s.book ∧ ∀ x, (g.filled ++ g.gone ++ jids s.book.inner).count x = (List.range s.book.last).count x

theorem gjstep_conserved (s : Jura α) (g : JGhost) (op : JOp α) (h : JConserved s g) :
    JConserved (gjstep s g op).1 (gjstep s g op).2 := by
  obtain ⟨hinv, hc⟩ := h
  refine ⟨by rw [gjstep_state]; exact jstep_inv s op hinv, ?_⟩
  intro x
  cases op with
  | insert o => exact hc x
  | delete a id =>
    have hd : (jstep s (.delete a id)).book.inner
        = s.book.inner.filter (fun o => !decide (o.id = id ∧ o.order.asset = a)) :=
      deleteFirst_eq_filter' a id s.book.inner hinv.1
    have hl : (jstep s (.delete a id)).book.last = s.book.last := rfl
    have hs := count_split (fun o => decide (o.id = id ∧ o.order.asset = a)) s.book.inner x
    have := hc x
    simp only [gjstep, List.count_append] at this ⊢
    rw [hd, hl]
    omega
  | tick quotes adm =>
    obtain ⟨t1, _, _, t4⟩ := tick_full s quotes adm hinv
    have hin : (jstep s (.tick quotes adm)).book.inner = _ := t1
    have hl : (jstep s (.tick quotes adm)).book.last = _ := t4
    have h1 := count_split (fun o => (after quotes o).2) s.book.inner x
    have h2 := count_split (fun o => (fillOf quotes o).isSome) (s.book.inner.filter (fun o => (after quotes o).2)) x
    have e1 : (s.book.inner.filter (fun o => (after quotes o).2)).filter (fun o => (fillOf quotes o).isSome)
        = s.book.inner.filter (leavesFilled quotes) := by
      rw [List.filter_filter]; congr 1; funext o; simp [leavesFilled, Bool.and_comm]
    have e2 : (s.book.inner.filter (fun o => (after quotes o).2)).filter (fun o => !(fillOf quotes o).isSome)
        = s.book.inner.filter (leavesUnfilled quotes) := by
      rw [List.filter_filter]; congr 1; funext o; simp [leavesUnfilled, Bool.and_comm]
    rw [e1, e2] at h2
    have := hc x
    simp only [gjstep, List.count_append] at this ⊢
    rw [hin, hl]
    simp only [jids, List.map_append, List.count_append]
    have s1 := jids_survivors quotes s.book.inner
    have s2 := jids_jstamp s.book.last (s.book.inner.filterMap (childOf' quotes))
    have s3 := jids_jstamp (s.book.last + (s.book.inner.filterMap (childOf' quotes)).length) adm
    simp only [jids] at s1 s2 s3 h1 h2 this
    rw [s1, s2, s3]
    have hr : (List.range (s.book.last + (s.book.inner.filterMap (childOf' quotes)).length + adm.length)).count x
        = (List.range s.book.last).count x
          + (List.range' s.book.last (s.book.inner.filterMap (childOf' quotes)).length).count x
          + (List.range' (s.book.last + (s.book.inner.filterMap (childOf' quotes)).length) adm.length).count x := by
      rw [List.range_eq_range', List.range_eq_range']
      have e : ∀ a b : Nat, List.range' 0 (a + b) = List.range' 0 a ++ List.range' (0 + a) b := by
        intro a b; rw [List.range'_append_1]
      rw [e, e, List.count_append, List.count_append]
      simp
    rw [hr]
    omega

theorem gjrun_conserved : ∀ (ops : List (JOp α)) (s : Jura α) (g : JGhost), JConserved s g →
    JConserved (gjrun s g ops).1 (gjrun s g ops).2
  | [], _, _, h => h
  | op :: ops, s, g, h => by simp only [gjrun]; exact gjrun_conserved ops _ _ (gjstep_conserved s g op h)

/-- the ghost's `filled` list is what the ticks reported: the order ids of all fills so far, in order -/
theorem gjrun_filled : ∀ (ops : List (JOp α)) (s : Jura α) (g : JGhost), JInv s.book →
    (gjrun s g ops).2.filled = g.filled ++ (jfills s ops).map (·.oid)
  | [], _, _, _ => by simp [gjrun, jfills]
  | op :: ops, s, g, h => by
    have hinv' : JInv (gjstep s g op).1.book := by rw [gjstep_state]; exact jstep_inv s op h
    simp only [gjrun]
    rw [gjrun_filled ops _ _ hinv']
    cases op with
    | insert o => simp [gjstep, jfills, jstep]
    | delete a id => simp [gjstep, jfills, jstep]
    | tick quotes adm =>
      have hf : (s.tick quotes adm).2.1 = s.book.inner.filterMap (fillOf quotes) := (tick_full s quotes adm h).2.1
      simp only [gjstep, jfills, jstep, List.map_append, hf, fills_oids, List.append_assoc]

end PJ
