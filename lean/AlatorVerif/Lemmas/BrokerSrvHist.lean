import AlatorVerif.Lemmas.BrokerSrvRefines
import AlatorVerif.Lemmas.SrvThm
/-!
# Whatever other clients do, for however long, the broker's view of its backtest stays put

`BrokerSrvRefines` relates one request on the shared `AppState` to the broker's single-backtest server.
This file covers **whole histories of foreign requests**: any sequence of requests that are addressed to
other backtest ids, or that create new backtests (`init` / `new_backtest`, which hand out `last + 1`),
leaves the view `absSrv · id` of an existing backtest (`id ≤ last`) exactly as it was. Together with the
commuting lemmas this is the broker-side reading of C08: the broker's exchange is disturbed by nobody.
-/
namespace Refine
open PU SV
set_option linter.unusedSectionVars false
variable {σ α : Type} [DecidableEq σ] [LE α] [DecidableLE α] [Mul α]

abbrev UOp (σ α : Type) := Op (Order σ α) (List (Order σ α)) Nat

/-- a request that is not addressed to backtest `id`: a creation, or any request naming another id -/
def Foreign (id : Nat) : UOp σ α → Prop
  | .init _ | .newbt _ => True
  | op => target op ≠ some id

theorem init_view (v : SV.Variant) (hv : v.storesLast = true) (a : UApp σ α) (id : Nat) (n : String) (h : id ≤ a.last) :
    absSrv (SV.init uistOps v a n).2 id = absSrv a id ∧ id ≤ (SV.init uistOps v a n).2.last := by
  cases hds : a.datasets n with
  | none => simp [SV.init, hds, h]
  | some ds =>
    cases hd : ds.dates with
    | nil => simp [SV.init, hds, hd, h]
    | cons d0 rest =>
      have hne : ¬ id = a.last + 1 := by omega
      refine ⟨?_, ?_⟩
      · simp [SV.init, hds, hd, hv, absSrv, setBt, hne]
      · simp [SV.init, hds, hd, hv, setBt]; omega

/-- one foreign request leaves the view and keeps `id ≤ last` -/
theorem foreign_step (a : UApp σ α) (id : Nat) (op : UOp σ α) (h : id ≤ a.last) (hf : Foreign id op) :
    absSrv (step uistOps a op).2 id = absSrv a id ∧ id ≤ (step uistOps a op).2.last := by
  cases op with
  | init n => exact init_view .repaired rfl a id n h
  | newbt n => exact init_view ⟨true, true⟩ rfl a id n h
  | tick j adm =>
    have hij : ¬ id = j := fun e => hf (by simp [target, e])
    cases hbt : a.backtests j with
    | none => simp [step, SV.tick, hbt, h]
    | some bt =>
      cases hds : a.datasets bt.dataset with
      | none => simp [step, SV.tick, hbt, hds, h]
      | some ds => simp [step, SV.tick, hbt, hds, absSrv, setBt, hij, h]
  | insert j o =>
    have hij : ¬ id = j := fun e => hf (by simp [target, e])
    cases hbt : a.backtests j with
    | none => simp [step, SV.insert, hbt, h]
    | some bt => simp [step, SV.insert, hbt, absSrv, setBt, hij, h]
  | delete j k =>
    have hij : ¬ id = j := fun e => hf (by simp [target, e])
    cases hbt : a.backtests j with
    | none => simp [step, SV.delete, hbt, h]
    | some bt => simp [step, SV.delete, hbt, absSrv, setBt, hij, h]
  | fetch j => exact ⟨rfl, h⟩
  | now j => exact ⟨rfl, h⟩
  | info j => exact ⟨rfl, h⟩

/-- **every foreign history**: after any sequence of creations and of requests to other ids the broker's
    view of backtest `id` is what it was -/
theorem view_unmoved_by_foreign_history (id : Nat) (ops : List (UOp σ α)) :
    ∀ a : UApp σ α, id ≤ a.last → (∀ op ∈ ops, Foreign id op) →
      absSrv (run uistOps a ops).2 id = absSrv a id ∧ id ≤ (run uistOps a ops).2.last := by
  induction ops with
  | nil => intro a h _; exact ⟨rfl, h⟩
  | cons op ops ih =>
    intro a h hf
    have h1 := foreign_step a id op h (hf op (List.mem_cons_self ..))
    have h2 := ih (step uistOps a op).2 h1.2 (fun o ho => hf o (List.mem_cons_of_mem _ ho))
    simp only [run]
    exact ⟨h2.1.trans h1.1, h2.2⟩

end Refine
