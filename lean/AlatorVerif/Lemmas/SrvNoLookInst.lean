import AlatorVerif.Lemmas.SrvNoLook
import AlatorVerif.Lemmas.UistProps
import AlatorVerif.Lemmas.JuraDead
/-! the two exchanges meet `SV.IdSpec`: the server-level no-look-ahead theorem holds for both servers -/
namespace SV

section Uist
open PU
variable {σ α : Type} [DecidableEq σ] [LinearOrder α] [Mul α]

/-- Uist trades carry no order id: the fills of a tick are listed with the id of the resting order each
    came from, in the same sequence as the trades the tick returns (`uist_fills_are_the_trades`) -/
def uistFills (e : Uist σ α) (q : UQ σ α) : List (Nat × Int) :=
  e.book.inner.filterMap (fun o => (tradeOn q o).map (fun t => (o.id.getD 0, t.date)))

def uistSpec : IdSpec (uistOps (σ := σ) (α := α)) where
  Inv e := BookInv e.book
  next e := e.book.last
  buf e := e.buffer
  fills e q _ := uistFills e q
  Dated q d := ∀ sym qq, q sym = some qq → qq.date = d
  inv_new := ⟨List.Pairwise.nil, fun _ h => by cases h⟩
  next_new := rfl
  buf_new := rfl
  inv_tick e q adm h := (tick_spec e q adm h).2.2.2.2
  inv_insert _ _ h := h
  inv_delete e d h := delete_inv e.book d h
  next_tick e q adm h := by
    show e.book.last ≤ (e.tick q adm).1.book.last
    rw [(tick_spec e q adm h).2.2.2.1]; omega
  next_insert _ _ := rfl
  next_delete _ _ := rfl
  buf_tick e q adm := by simp [uistOps, Uist.tick]
  buf_insert _ _ := rfl
  buf_delete _ _ := rfl
  fills_old e q _ h f hf := by
    obtain ⟨o, ho, hfo⟩ := List.mem_filterMap.mp hf
    obtain ⟨i, hi, hlt⟩ := h.2 o ho
    rcases ht : tradeOn q o with _ | t
    · rw [ht] at hfo; cases hfo
    · rw [ht] at hfo; cases hfo; simpa [hi] using hlt
  fills_dated e q _ d hd f hf := by
    obtain ⟨o, _, hfo⟩ := List.mem_filterMap.mp hf
    rcases ht : tradeOn q o with _ | t
    · rw [ht] at hfo; cases hfo
    · rw [ht] at hfo; cases hfo
      obtain ⟨qq, hq, _, _, _, hdate, _⟩ := (tradeOn_spec q o).1 t ht
      show t.date = d
      rw [hdate]; exact hd _ _ hq

/-- the id-annotated fills are, position by position, the trades the tick request returns -/
theorem uist_fills_are_the_trades (e : Uist σ α) (q : UQ σ α) (adm : List (Order σ α)) (h : BookInv e.book) :
    (uistFills e q).map (·.2) = ((uistOps.tick e q adm).2.1).map (·.date) := by
  show _ = ((e.tick q adm).2.1).map (·.date)
  rw [(tick_spec e q adm h).1, uistFills, List.map_filterMap, List.map_filterMap]
  congr 1
  funext o
  cases tradeOn q o <;> rfl
end Uist

section Jura
open PJ
variable {α : Type} [LinearOrder α] [Add α] [Sub α] [Mul α] [OfNat α 1] [OfScientific α]

def juraSpec : IdSpec (juraOps (α := α)) where
  Inv e := JInv e.book
  next e := e.book.last
  buf e := e.buffer
  fills e q adm := ((e.tick q adm).2.1).map (fun f => (f.oid, f.time))
  Dated q d := ∀ asset qq, q asset = some qq → qq.date = d
  inv_new := ⟨List.Pairwise.nil, fun _ h => by cases h⟩
  next_new := rfl
  buf_new := rfl
  inv_tick e q adm h := h.tick q adm
  inv_insert _ _ h := h
  inv_delete e d h := h.delete d.1 d.2
  next_tick e q adm h := by
    show e.book.last ≤ (e.tick q adm).1.book.last
    rw [(tick_full e q adm h).2.2.2]; omega
  next_insert _ _ := rfl
  next_delete _ _ := rfl
  buf_tick e q adm := by simp [juraOps, Jura.tick]
  buf_insert _ _ := rfl
  buf_delete _ _ := rfl
  fills_old e q adm h f hf := by
    obtain ⟨fl, hfl, rfl⟩ := List.mem_map.mp hf
    rw [(tick_full e q adm h).2.1] at hfl
    obtain ⟨o, ho, _, _, _, hoid⟩ := fill_from_resting q _ fl hfl
    show fl.oid < e.book.last
    rw [hoid]; exact h.2 o ho
  fills_dated e q adm d hd f hf := by
    obtain ⟨fl, hfl, rfl⟩ := List.mem_map.mp hf
    by_cases h : JInv e.book
    · rw [(tick_full e q adm h).2.1] at hfl
      obtain ⟨o, _, qq, hq, hv, _⟩ := fill_from_resting q _ fl hfl
      show fl.time = d
      rw [(visit_fill_oid o qq fl hv).2.2.2.1]; exact hd _ _ hq
    · -- without the book invariant the fills are still those of the pass over the book
      have : (e.tick q adm).2.1 = (e.book.execute q).2.1 := by simp [Jura.tick]
      rw [this] at hfl
      have hp : (e.book.execute q).2.1 = (pass q e.book.inner).fills := by simp [Book.execute]
      rw [hp, (pass_fills q e.book.inner).1] at hfl
      obtain ⟨o, _, qq, hq, hv, _⟩ := fill_from_resting q _ fl hfl
      show fl.time = d
      rw [(visit_fill_oid o qq fl hv).2.2.2.1]; exact hd _ _ hq
end Jura

end SV
