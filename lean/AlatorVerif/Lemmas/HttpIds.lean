import AlatorVerif.Lemmas.HttpClient
/-!
# C08 through the transport: the ids a JSON client is handed are unique

`C08.ids_unique` is about the ids `AppState::init` returns in-process. A client of the JSON service sees the
ids it *decodes* from the `init` responses. Along every request sequence these are exactly the ids of the
in-process creations (`httpCreatedIds_eq`), hence strictly increasing and above the counter at the start, for
either service.
-/
namespace PHt
open PJs SV
variable {E Q O A D R α : Type} (X : ExchOps E Q O A D R) (enc : Enc Q R α)

/-- no `init` along the sequence names an empty dataset (whose `get_date(0).unwrap()` panics) -/
def NoPanic : App E Q → List (Req O A D) → Prop
  | _, [] => True
  | a, r :: rs => (∀ n, r = .init n → (init X .repaired a n).1 ≠ .panic) ∧ NoPanic (step X a (toOp r)).2 rs

/-- the backtest ids a client decodes from the `init` responses along a request sequence -/
def httpCreatedIds (syms : String → List String) : App E Q → List (Req O A D) → List Nat
  | _, [] => []
  | a, r :: rs =>
    let x := handle X enc .repaired syms a r
    match r with
    | .init _ =>
      match typed decInit x.1 with
      | some i => i :: httpCreatedIds syms x.2 rs
      | none => httpCreatedIds syms x.2 rs
    | _ => httpCreatedIds syms x.2 rs

theorem httpCreatedIds_eq (syms : String → List String) (rs : List (Req O A D)) :
    ∀ a : App E Q, NoPanic X a rs →
      httpCreatedIds X enc syms a rs = createdIds X a (rs.map toOp) := by
  induction rs with
  | nil => intro a _; rfl
  | cons r rs ih =>
    intro a hp
    have hst := handle_state X enc syms a r
    cases r with
    | init n =>
      simp only [httpCreatedIds, List.map_cons, createdIds, toOp]
      rw [client_init X enc syms a n (hp.1 n rfl)]
      have hst' : (handle X enc .repaired syms a (.init n : Req O A D)).2 = (step X a (.init n : Op O A D)).2 := hst
      rw [hst']
      have hs1 : (step X a (.init n : Op O A D)).1 = .id (resId (init X .repaired a n).1) := rfl
      rw [hs1]
      cases resId (init X .repaired a n).1 with
      | none => exact ih _ hp.2
      | some i => simp only; exact congrArg (i :: ·) (ih _ hp.2)
    | tick i adm => simp only [httpCreatedIds, List.map_cons, createdIds, toOp, step]; rw [hst]; exact ih _ hp.2
    | insert i o => simp only [httpCreatedIds, List.map_cons, createdIds, toOp, step]; rw [hst]; exact ih _ hp.2
    | delete i d => simp only [httpCreatedIds, List.map_cons, createdIds, toOp, step]; rw [hst]; exact ih _ hp.2
    | fetch i => simp only [httpCreatedIds, List.map_cons, createdIds, toOp, step]; rw [hst]; exact ih _ hp.2
    | info i => simp only [httpCreatedIds, List.map_cons, createdIds, toOp, step]; rw [hst]; exact ih _ hp.2
    | now i => simp only [httpCreatedIds, List.map_cons, createdIds, toOp, step]; rw [hst]; exact ih _ hp.2

end PHt
