import AlatorVerif.Model.Diff
import AlatorVerif.Lemmas.Thm
namespace PD
open Proto
variable {σ α : Type} [Field α] [LinearOrder α] [IsStrictOrderedRing α] [FloorRing α]

/-- C12: the result does not depend on the iteration order of the weights map -/
theorem diff_perm (c : Ctx σ α) (ws ws' : List (σ × α)) (h : ws.Perm ws') :
    ((diff c ws).filter isSell).Perm ((diff c ws').filter isSell) ∧
    ((diff c ws).filter (fun o => !isSell o)).Perm ((diff c ws').filter (fun o => !isSell o)) ∧
    (diff c ws).Perm (diff c ws') := by
  have hall : (ws.filterMap (entry c)).Perm (ws'.filterMap (entry c)) := h.filterMap _
  have hs := hall.filter isSell
  have hb := hall.filter (fun o => !isSell o)
  refine ⟨?_, ?_, hs.append hb⟩
  · simp only [diff, List.filter_append, List.filter_filter]
    simpa using hs.append (List.Perm.refl [])
  · simp only [diff, List.filter_append, List.filter_filter]
    simpa using (List.Perm.refl []).append hb

/-- all sells precede all buys -/
theorem diff_sells_first (c : Ctx σ α) (ws : List (σ × α)) :
    ∃ s b, diff c ws = s ++ b ∧ (∀ o ∈ s, isSell o = true) ∧ (∀ o ∈ b, isSell o = false) := by
  refine ⟨_, _, rfl, ?_, ?_⟩
  · intro o ho; exact (List.mem_filter.mp ho).2
  · intro o ho; simpa using (List.mem_filter.mp ho).2

theorem isZero_iff (x : α) : isZero x = true ↔ x = 0 := by
  simp only [isZero, Bool.and_eq_true, decide_eq_true_eq]
  exact ⟨fun ⟨a, b⟩ => le_antisymm a b, fun h => by subst h; exact ⟨le_refl _, le_refl _⟩⟩

theorem max0_floor (x : α) : ∃ z : ℤ, 0 ≤ z ∧ max0 (HasFloor.floor x) = (z : α) := by
  show ∃ z : ℤ, 0 ≤ z ∧ max0 ((⌊x⌋ : α)) = z
  by_cases h : ((⌊x⌋ : ℤ) : α) < 0
  · exact ⟨0, le_refl _, by simp [max0, h]⟩
  · refine ⟨⌊x⌋, ?_, by simp [max0, h]⟩
    have : (0:α) ≤ ((⌊x⌋ : ℤ) : α) := not_lt.mp h
    exact_mod_cast this

theorem pos_int_ge_one (m : α) (z : ℤ) (hz : 0 ≤ z) (hm : m = z) (hne : m ≠ 0) : 1 ≤ m := by
  have : z ≠ 0 := by intro hc; apply hne; rw [hm, hc]; simp
  have : 1 ≤ z := by omega
  rw [hm]; exact_mod_cast this

/-- direction and size: an entry yields a buy only when the position is worth less than target,
    a sell only when it is worth more; the size is a whole number ≥ 1, namely
    floor(net budget / net price) of the cost model on |gap| -/
theorem entry_dir (c : Ctx σ α) (s : σ) (w : α) (o : Ord σ α) (h : entry c (s, w) = some o) :
    let gap := c.total * w - (c.posValue s).getD 0
    ∃ q, c.quote s = some q ∧
    ((∃ n, o = .buy s n ∧ 0 < gap ∧ 1 ≤ n ∧
        n = HasFloor.floor ((impactTotal c.costs gap q.ask true).1 / (impactTotal c.costs gap q.ask true).2)) ∨
     (∃ n, o = .sell s n ∧ gap < 0 ∧ 1 ≤ n ∧
        n = HasFloor.floor ((impactTotal c.costs (-gap) q.bid false).1 / (impactTotal c.costs (-gap) q.bid false).2))) := by
  intro gap
  simp only [entry] at h
  have hg : c.total * w - (c.posValue s).getD 0 = gap := rfl
  simp only [hg] at h
  clear_value gap
  split at h
  · cases h
  · rename_i hz
    have hgap0 : gap ≠ 0 := fun hc => hz ((isZero_iff _).mpr hc)
    cases hq : c.quote s with
    | none => simp [hq] at h
    | some q =>
      refine ⟨q, rfl, ?_⟩
      simp only [hq] at h
      split at h
      · cases h
      · rename_i hrz
        have hr0 : requiredShares c.costs gap q ≠ 0 := fun hc => hrz ((isZero_iff _).mpr hc)
        by_cases hneg : gap < 0
        · right
          have habs : absv gap = -gap := by simp [absv, hneg]
          have hr : requiredShares c.costs gap q =
              -(max0 (HasFloor.floor ((impactTotal c.costs (-gap) q.bid false).1 /
                (impactTotal c.costs (-gap) q.bid false).2))) := by
            simp only [requiredShares, hneg, if_true, habs]
          obtain ⟨z, hz0, hmz⟩ := max0_floor ((impactTotal c.costs (-gap) q.bid false).1 /
                (impactTotal c.costs (-gap) q.bid false).2)
          generalize hm : max0 (HasFloor.floor ((impactTotal c.costs (-gap) q.bid false).1 /
                (impactTotal c.costs (-gap) q.bid false).2)) = m at hr hmz
          have hmne : m ≠ 0 := by intro hc; apply hr0; rw [hr, hc]; simp
          have h1 : 1 ≤ m := pos_int_ge_one m z hz0 hmz hmne
          have hnot : ¬ (0 < requiredShares c.costs gap q) := by rw [hr]; simp; linarith
          simp only [hnot, if_false] at h
          have habsr : absv (requiredShares c.costs gap q) = m := by
            rw [hr]; have : -m < 0 := by linarith
            simp [absv, this]
          refine ⟨m, by cases h; rw [habsr], hneg, h1, ?_⟩
          -- m = floor, because the clamp did not fire (m ≥ 1)
          rw [← hm]; simp only [max0]; split
          · rename_i hlt; exfalso; rw [← hm] at h1; simp only [max0, hlt, if_true] at h1; linarith
          · rfl
        · left
          have hpos : 0 < gap := lt_of_le_of_ne (not_lt.mp hneg) (Ne.symm hgap0)
          have habs : absv gap = gap := by simp [absv, hneg]
          have hr : requiredShares c.costs gap q =
              max0 (HasFloor.floor ((impactTotal c.costs gap q.ask true).1 /
                (impactTotal c.costs gap q.ask true).2)) := by
            simp only [requiredShares, hneg, if_false, habs]
          obtain ⟨z, hz0, hmz⟩ := max0_floor ((impactTotal c.costs gap q.ask true).1 /
                (impactTotal c.costs gap q.ask true).2)
          generalize hm : max0 (HasFloor.floor ((impactTotal c.costs gap q.ask true).1 /
                (impactTotal c.costs gap q.ask true).2)) = m at hr hmz
          have hmne : m ≠ 0 := by intro hc; apply hr0; rw [hr, hc]
          have h1 : 1 ≤ m := pos_int_ge_one m z hz0 hmz hmne
          have hp : 0 < requiredShares c.costs gap q := by rw [hr]; linarith
          simp only [hp, if_true] at h
          refine ⟨m, by cases h; rw [hr], hpos, h1, ?_⟩
          rw [← hm]; simp only [max0]; split
          · rename_i hlt; exfalso; rw [← hm] at h1; simp only [max0, hlt, if_true] at h1; linarith
          · rfl

end PD
