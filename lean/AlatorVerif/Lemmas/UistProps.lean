import AlatorVerif.Lemmas.UistHist
import Mathlib.Order.Basic
/-! C02, C17, C01 (exchange level) statements on the validated Uist model — prototype -/
namespace PU
variable {σ α : Type} [DecidableEq σ] [LinearOrder α] [Mul α]

/-- the property's table of fill conditions (priced orders carry `some` price) -/
def Cond (o : Order σ α) (q : Quote α) : Prop :=
  match o.kind, o.side, o.price with
  | .market, _, _ => True
  | .limit, .buy, some p => q.ask ≤ p
  | .limit, .sell, some p => p ≤ q.bid
  | .stop, .buy, some p => p ≤ q.ask
  | .stop, .sell, some p => q.bid ≤ p
  | .limit, .buy, none => False      -- `None >= Some(ask)` is false
  | .limit, .sell, none => True      -- `None <= Some(bid)` is true (malformed order, outside the property)
  | .stop, .buy, none => True
  | .stop, .sell, none => False

/-- C02: a resting order whose symbol is quoted fills iff its condition holds -/
theorem triggers_iff (o : Order σ α) (q : Quote α) : triggers o q = true ↔ Cond o q := by
  obtain ⟨id, kind, side, sym, sh, pr⟩ := o
  cases kind <;> cases side <;> cases pr <;> simp [triggers, Cond, optGe, optLe]

/-- C02: what a fill looks like: buys at the ask, sells at the bid, full quantity, dated by the quote -/
theorem tradeOn_spec (quotes : σ → Option (Quote α)) (o : Order σ α) :
    (∀ t, tradeOn quotes o = some t → ∃ q, quotes o.symbol = some q ∧ Cond o q ∧
        t.symbol = o.symbol ∧ t.quantity = o.shares ∧ t.date = q.date ∧ t.side = o.side ∧
        t.value = (match o.side with | .buy => q.ask | .sell => q.bid) * o.shares) ∧
    (tradeOn quotes o = none ↔ (quotes o.symbol = none ∨ ∃ q, quotes o.symbol = some q ∧ ¬ Cond o q)) := by
  unfold tradeOn
  cases hq : quotes o.symbol with
  | none => simp
  | some q =>
    by_cases ht : triggers o q = true
    · have hc := (triggers_iff o q).mp ht
      simp only [ht, if_true]
      refine ⟨?_, by simp [hc]⟩
      intro t h; cases h
      exact ⟨q, rfl, hc, rfl, rfl, rfl, rfl, rfl⟩
    · have hc : ¬ Cond o q := fun h => ht ((triggers_iff o q).mpr h)
      simp [ht, hc]

/-- C02 + C03 + C17, one tick: fills are exactly the conditioned resting orders, in book order; the
    others rest unchanged in their old relative order, followed by the admitted batch with
    consecutive fresh ids in admission order -/
theorem tick_spec (e : Uist σ α) (quotes : σ → Option (Quote α)) (adm : List (Order σ α))
    (hinv : BookInv e.book) :
    let r := e.tick quotes adm
    r.2.1 = e.book.inner.filterMap (tradeOn quotes)
    ∧ ids r.1.book.inner = ids (e.book.inner.filter (fun o => !fillsOn quotes o)) ++ List.range' e.book.last adm.length
    ∧ ids r.2.2 = List.range' e.book.last adm.length
    ∧ r.1.book.last = e.book.last + adm.length
    ∧ BookInv r.1.book := by
  obtain ⟨e1, e2, e3⟩ := execute_spec e.book quotes hinv
  have hinv1 : BookInv (e.book.execute quotes).1 := by
    refine ⟨?_, ?_⟩
    · rw [e1]; exact pairwise_filter _ hinv.1
    · intro o ho; rw [e1] at ho; rw [e3]; exact hinv.2 o (List.mem_filter.mp ho).1
  obtain ⟨a1, a2, a3, a4⟩ := admit_spec adm (e.book.execute quotes).1 []
  refine ⟨e2, ?_, ?_, ?_, a4 hinv1⟩
  · have : ids (e.tick quotes adm).1.book.inner
        = ids (e.book.execute quotes).1.inner ++ List.range' (e.book.execute quotes).1.last adm.length := a2
    rw [this, e1, e3]
  · have : ids (e.tick quotes adm).2.2 = ids ([] : List (Order σ α)) ++ List.range' (e.book.execute quotes).1.last adm.length := a3
    rw [this, e3]; simp [ids]
  · have : (e.tick quotes adm).1.book.last = (e.book.execute quotes).1.last + adm.length := a1
    rw [this, e3]

/-- C01 (exchange level): nothing admitted by a tick is filled by that tick — every fill belongs to an
    order whose id is below the next-id value at entry, every admitted order gets an id at or above it -/
theorem no_lookahead (e : Uist σ α) (quotes : σ → Option (Quote α)) (adm : List (Order σ α))
    (hinv : BookInv e.book) :
    (∀ i ∈ ids (e.book.inner.filter (fillsOn quotes)), i < e.book.last) ∧
    (∀ i ∈ ids (e.tick quotes adm).2.2, e.book.last ≤ i) := by
  constructor
  · intro i hi
    simp only [ids, List.mem_map, List.mem_filter] at hi
    obtain ⟨o, ⟨ho, _⟩, rfl⟩ := hi
    obtain ⟨j, hj, hlt⟩ := hinv.2 o ho
    simp [hj, hlt]
  · intro i hi
    rw [(tick_spec e quotes adm hinv).2.2.1] at hi
    exact (List.mem_range'_1.mp hi).1

/-- C17: within a tick, fills are reported in strictly increasing id order (= admission order) -/
theorem fills_in_id_order (e : Uist σ α) (quotes : σ → Option (Quote α)) (hinv : BookInv e.book) :
    (ids (e.book.inner.filter (fillsOn quotes))).Pairwise (· < ·) := by
  have hp := pairwise_filter (fillsOn quotes) hinv.1
  unfold ids
  rw [List.pairwise_map]
  exact hp.imp (fun {a b} ⟨i, j, hi, hj, hlt⟩ => by simp [hi, hj, hlt])

end PU

namespace PU
variable {σ α : Type} [DecidableEq σ] [LinearOrder α] [Mul α]

/-- the batch as admitted: same orders, in the same sequence, stamped with consecutive ids -/
def stamp (n : Nat) : List (Order σ α) → List (Order σ α)
  | [] => []
  | o :: os => { o with id := some n } :: stamp (n + 1) os

theorem admit_full (adm : List (Order σ α)) : ∀ (b : Book σ α) (acc : List (Order σ α)),
    let r := adm.foldl (fun (acc : Book σ α × List (Order σ α)) o =>
      let r := acc.1.insert o; (r.1, acc.2 ++ [r.2])) (b, acc)
    r.1.inner = b.inner ++ stamp b.last adm ∧ r.2 = acc ++ stamp b.last adm := by
  induction adm with
  | nil => intro b acc; simp [stamp]
  | cons o os ih =>
    intro b acc
    simp only [List.foldl_cons]
    obtain ⟨h1, h2⟩ := ih (b.insert o).1 (acc ++ [(b.insert o).2])
    refine ⟨?_, ?_⟩
    · rw [h1]; simp [Book.insert, stamp]
    · rw [h2]; simp [Book.insert, stamp]

/-- one tick, whole orders: the post-book is the non-filling resting orders, unchanged and in their
    old order, followed by the stamped batch, which is also the admitted list returned -/
theorem tick_full (e : Uist σ α) (quotes : σ → Option (Quote α)) (adm : List (Order σ α))
    (hinv : BookInv e.book) :
    let r := e.tick quotes adm
    r.1.book.inner = e.book.inner.filter (fun o => !fillsOn quotes o) ++ stamp e.book.last adm
    ∧ r.2.2 = stamp e.book.last adm
    ∧ r.1.log = e.log ++ e.book.inner.filterMap (tradeOn quotes)
    ∧ r.1.buffer = [] := by
  obtain ⟨e1, e2, e3⟩ := execute_spec e.book quotes hinv
  obtain ⟨a1, a2⟩ := admit_full adm (e.book.execute quotes).1 []
  refine ⟨?_, ?_, ?_, rfl⟩
  · have : (e.tick quotes adm).1.book.inner
        = (e.book.execute quotes).1.inner ++ stamp (e.book.execute quotes).1.last adm := a1
    rw [this, e1, e3]
  · have : (e.tick quotes adm).2.2 = [] ++ stamp (e.book.execute quotes).1.last adm := a2
    rw [this, e3]; simp
  · have : (e.tick quotes adm).1.log = e.log ++ (e.book.execute quotes).2 := rfl
    rw [this, e2]

theorem stamp_length (n : Nat) (l : List (Order σ α)) : (stamp n l).length = l.length := by
  induction l generalizing n with
  | nil => rfl
  | cons o os ih => simp [stamp, ih]

theorem stamp_getElem (n : Nat) (l : List (Order σ α)) (i : Nat) (h : i < l.length) :
    (stamp n l)[i]'(by rw [stamp_length]; exact h) = { l[i] with id := some (n + i) } := by
  induction l generalizing n i with
  | nil => simp at h
  | cons o os ih =>
    cases i with
    | zero => simp [stamp]
    | succ i =>
      simp only [stamp, List.getElem_cons_succ]
      rw [ih (n + 1) i (by simpa using h)]
      have : n + 1 + i = n + (i + 1) := by omega
      rw [this]

/-- the empty exchange, `UistV1::new()` -/
def uinit : Uist σ α := { book := { inner := [], last := 0 }, log := [], buffer := [] }

/-- every state reachable from the empty exchange by any sequence of insert / delete / tick
    (with any admission order) satisfies the id invariant the one-tick theorems need -/
theorem reachable_inv (ops : List (Op σ α)) : BookInv (run (uinit : Uist σ α) {} ops).1.book :=
  (run_conserved ops uinit {} ⟨⟨by simp [uinit], by simp [uinit]⟩, by simp [uinit, ids]⟩).1

end PU
