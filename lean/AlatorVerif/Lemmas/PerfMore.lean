import AlatorVerif.Lemmas.PerfThm
import AlatorVerif.Lemmas.MaxDDThm
import AlatorVerif.Model.PerfFull
import Mathlib.Tactic.NormNum
/-! C14 / C15: the whole `calculate` at carrier ℝ — lengths, extremes, variance, scale invariance, index -/
namespace PP
open Real

noncomputable instance : NatCast ℝ := inferInstance

/-! ### alignment of the output vectors -/

theorem returns_length : ∀ (vs cfs is : List ℝ), cfs.length = vs.length → is.length = vs.length →
    (returns vs cfs is).length = vs.length - 1
  | [], _, _, _, _ => by simp [returns]
  | [_], cfs, is, _, _ => by
    cases cfs with
    | nil => simp [returns]
    | cons c cs => cases cs <;> cases is <;> simp [returns] <;> (rename_i i is'; cases is' <;> simp [returns])
  | v0 :: v1 :: vs, [], _, h, _ => by simp at h
  | v0 :: v1 :: vs, [_], _, h, _ => by simp at h
  | v0 :: v1 :: vs, _ :: _ :: _, [], _, h => by simp at h
  | v0 :: v1 :: vs, _ :: _ :: _, [_], _, h => by simp at h
  | v0 :: v1 :: vs, c0 :: c1 :: cs, i0 :: i1 :: is, h1, h2 => by
    simp only [returns, List.length_cons]
    rw [returns_length (v1 :: vs) (c1 :: cs) (i1 :: is) (by simpa using h1) (by simpa using h2)]
    simp

theorem cashFlows_go_length (last : ℝ) (l : List (Snap ℝ)) : (cashFlows.go last l).length = l.length := by
  induction l generalizing last with
  | nil => rfl
  | cons s rest ih => simp [cashFlows.go, ih]

theorem cashFlows_length (l : List (Snap ℝ)) (h : l ≠ []) : (cashFlows l).length = l.length := by
  cases l with
  | nil => exact absurd rfl h
  | cons s rest => simp [cashFlows, cashFlows_go_length]

/-! ### best and worst are the extreme period returns -/

theorem foldl_max_spec (l : List ℝ) (x : ℝ) :
    let m := l.foldl (fun m y => if y < m then m else y) x
    (m = x ∨ m ∈ l) ∧ x ≤ m ∧ ∀ y ∈ l, y ≤ m := by
  induction l generalizing x with
  | nil => simp
  | cons y ys ih =>
    simp only [List.foldl_cons]
    obtain ⟨h1, h2, h3⟩ := ih (if y < x then x else y)
    by_cases hyx : y < x
    · simp only [hyx, if_true] at h1 h2 h3 ⊢
      refine ⟨h1.imp id (fun h => List.mem_cons_of_mem _ h), h2, ?_⟩
      intro z hz; rcases List.mem_cons.mp hz with rfl | hz
      · linarith
      · exact h3 z hz
    · simp only [hyx, if_false] at h1 h2 h3 ⊢
      refine ⟨Or.inr (h1.elim (fun h => by rw [h]; simp) (fun h => List.mem_cons_of_mem _ h)), by linarith [not_lt.mp hyx], ?_⟩
      intro z hz; rcases List.mem_cons.mp hz with rfl | hz
      · exact h2
      · exact h3 z hz

theorem foldl_min_spec (l : List ℝ) (x : ℝ) :
    let m := l.foldl (fun m y => if y < m then y else m) x
    (m = x ∨ m ∈ l) ∧ m ≤ x ∧ ∀ y ∈ l, m ≤ y := by
  induction l generalizing x with
  | nil => simp
  | cons y ys ih =>
    simp only [List.foldl_cons]
    obtain ⟨h1, h2, h3⟩ := ih (if y < x then y else x)
    by_cases hyx : y < x
    · simp only [hyx, if_true] at h1 h2 h3 ⊢
      refine ⟨Or.inr (h1.elim (fun h => by rw [h]; simp) (fun h => List.mem_cons_of_mem _ h)), by linarith, ?_⟩
      intro z hz; rcases List.mem_cons.mp hz with rfl | hz
      · exact h2
      · exact h3 z hz
    · simp only [hyx, if_false] at h1 h2 h3 ⊢
      refine ⟨h1.imp id (fun h => List.mem_cons_of_mem _ h), h2, ?_⟩
      intro z hz; rcases List.mem_cons.mp hz with rfl | hz
      · linarith [not_lt.mp hyx]
      · exact h3 z hz

theorem maxLast_spec (l : List ℝ) (m : ℝ) (h : maxLast l = some m) : m ∈ l ∧ ∀ y ∈ l, y ≤ m := by
  cases l with
  | nil => simp [maxLast] at h
  | cons x xs =>
    simp only [maxLast, Option.some.injEq] at h
    obtain ⟨h1, h2, h3⟩ := foldl_max_spec xs x
    rw [h] at h1 h2 h3
    refine ⟨h1.elim (fun e => by rw [e]; simp) (fun e => List.mem_cons_of_mem _ e), ?_⟩
    intro y hy; rcases List.mem_cons.mp hy with rfl | hy
    · exact h2
    · exact h3 y hy

theorem minFirst_spec (l : List ℝ) (m : ℝ) (h : minFirst l = some m) : m ∈ l ∧ ∀ y ∈ l, m ≤ y := by
  cases l with
  | nil => simp [minFirst] at h
  | cons x xs =>
    simp only [minFirst, Option.some.injEq] at h
    obtain ⟨h1, h2, h3⟩ := foldl_min_spec xs x
    rw [h] at h1 h2 h3
    refine ⟨h1.elim (fun e => by rw [e]; simp) (fun e => List.mem_cons_of_mem _ e), ?_⟩
    intro y hy; rcases List.mem_cons.mp hy with rfl | hy
    · exact h2
    · exact h3 y hy

/-! ### volatility: population variance -/

theorem sumL_eq (l : List ℝ) : sumL l = l.sum := by
  unfold sumL; rw [foldl_add_eq_sum]; simp

theorem var_eq (rs : List ℝ) :
    var rs = ((rs.map (fun r => (r - rs.sum / rs.length) ^ 2)).sum) / rs.length := by
  simp only [var, sumL_eq]
  congr 2
  apply List.map_congr_left
  intro r _
  show (r - rs.sum / (rs.length : ℝ)) ^ ((2.0 : ℝ)) = _
  have : (2.0 : ℝ) = (2 : ℕ) := by norm_num
  rw [this, Real.rpow_natCast]

/-! ### scale invariance -/

def scaleSnap (c : ℝ) (s : Snap ℝ) : Snap ℝ := { s with value := c * s.value, ncf := c * s.ncf }

theorem cashFlows_go_scale (c last : ℝ) (l : List (Snap ℝ)) :
    cashFlows.go (c * last) (l.map (scaleSnap c)) = (cashFlows.go last l).map (c * ·) := by
  induction l generalizing last with
  | nil => rfl
  | cons s rest ih =>
    simp only [List.map_cons, cashFlows.go, scaleSnap]
    rw [show c * s.ncf - c * last = c * (s.ncf - last) by ring]
    congr 1
    exact ih s.ncf

theorem cashFlows_scale (c : ℝ) (l : List (Snap ℝ)) :
    cashFlows (l.map (scaleSnap c)) = (cashFlows l).map (c * ·) := by
  cases l with
  | nil => simp [cashFlows]
  | cons s rest =>
    simp only [List.map_cons, cashFlows]
    rw [show (scaleSnap c s).ncf = c * s.ncf from rfl, cashFlows_go_scale]
    simp

theorem returns_scale (c : ℝ) (hc : 0 < c) : ∀ (vs cfs is : List ℝ),
    returns (vs.map (c * ·)) (cfs.map (c * ·)) is = returns vs cfs is
  | [], _, _ => by simp [returns]
  | [_], cfs, is => by
    cases cfs with
    | nil => simp [returns]
    | cons c0 cs => cases cs <;> cases is <;> simp [returns] <;> (rename_i i is'; cases is' <;> simp [returns])
  | v0 :: v1 :: vs, [], _ => by simp [returns]
  | v0 :: v1 :: vs, [_], _ => by simp [returns]
  | v0 :: v1 :: vs, _ :: _ :: _, [] => by simp [returns]
  | v0 :: v1 :: vs, _ :: _ :: _, [_] => by simp [returns]
  | v0 :: v1 :: vs, c0 :: c1 :: cs, i0 :: i1 :: is => by
    simp only [List.map_cons, returns]
    rw [periodReturn_scale _ _ _ _ c hc]
    congr 1
    have := returns_scale c hc (v1 :: vs) (c1 :: cs) (i1 :: is)
    simpa using this

/-- the return-based part of the output -/
structure RetBased where
  ret : ℝ
  cagr : ℝ
  vol : ℝ
  mdd : ℝ
  sharpe : ℝ
  returns : List ℝ
  best : ℝ
  worst : ℝ
  ddStart : Int
  ddEnd : Int

def Out.retBased (o : Out ℝ) : RetBased :=
  ⟨o.ret, o.cagr, o.vol, o.mdd, o.sharpe, o.returns, o.best, o.worst, o.ddStart, o.ddEnd⟩

/-- **scale invariance**: every return-based figure is unchanged when all values and cash flows are
    multiplied by the same positive constant -/
theorem calculate_scale (fixedDD : Bool) (c : ℝ) (hc : 0 < c) (states : List (Snap ℝ)) :
    (calculate fixedDD (states.map (scaleSnap c))).map Out.retBased
      = (calculate fixedDD states).map Out.retBased := by
  have hv : (states.map (scaleSnap c)).map (·.value) = (states.map (·.value)).map (c * ·) := by
    simp [List.map_map, Function.comp_def, scaleSnap]
  have hd : (states.map (scaleSnap c)).map (·.date) = states.map (·.date) := by
    simp [List.map_map, Function.comp_def, scaleSnap]
  have hi : (states.map (scaleSnap c)).map (·.infl) = states.map (·.infl) := by
    simp [List.map_map, Function.comp_def, scaleSnap]
  have hr : returns ((states.map (scaleSnap c)).map (·.value)) (cashFlows (states.map (scaleSnap c)))
      ((states.map (scaleSnap c)).map (·.infl)) = returns (states.map (·.value)) (cashFlows states) (states.map (·.infl)) := by
    rw [hv, hi, cashFlows_scale, returns_scale c hc]
  unfold calculate
  simp only [hr, hd]
  generalize returns (states.map (·.value)) (cashFlows states) (states.map (·.infl)) = rets
  generalize PDD.go (PDD.init : PDD.St ℝ) 0 (index rets) = st
  generalize (if fixedDD = true then (st.ddStart, st.ddEnd) else (st.peakPos, st.troughPos)) = se
  obtain ⟨s, e⟩ := se
  simp only []
  cases maxLast rets <;> cases minFirst rets <;> cases (states.map (·.date))[s]? <;>
    cases (states.map (·.date))[e]? <;> simp [Out.retBased]

end PP

namespace PDD
variable {α : Type} [Field α] [LinearOrder α] [IsStrictOrderedRing α]

/-- C15: the drawdown is never positive, is above −1 on a positive series, and is 0 when the series
    never falls -/
theorem maxdd_bounds (v : α) (vs : List α) (hpos : ∀ x ∈ v :: vs, 0 < x) :
    let r := maxdd (v :: vs)
    r.1 ≤ 0 ∧ -1 < r.1 ∧
    ((∀ (i j : Nat) (a b : α), i ≤ j → (v :: vs)[i]? = some a → (v :: vs)[j]? = some b → a ≤ b) → r.1 = 0) := by
  have hv : 0 < v := hpos v (by simp)
  have h := go_inv vs [v] (step (init : St α) 0 v) (by simpa using hv)
    (fun x hx => hpos x (by simp [hx])) (first_inv v hv)
  simp only [List.length_singleton, List.singleton_append, Nat.zero_add] at h
  simp only [maxdd, go]
  obtain ⟨a, b, ha, hb, hab⟩ := h.dd_val
  have ha_pos : 0 < a := hpos a (mem_of_getElem? ha)
  have hb_pos : 0 < b := hpos b (mem_of_getElem? hb)
  refine ⟨h.dd_nonpos, ?_, ?_⟩
  · rw [← hab]
    have : 0 < b / a := div_pos hb_pos ha_pos
    linarith
  · intro hmono
    have hle : a ≤ b := hmono _ _ a b h.dd_le ha hb
    have : 1 ≤ b / a := by rw [le_div_iff₀ ha_pos]; linarith
    have h0 : 0 ≤ b / a - 1 := by linarith
    rw [hab] at h0
    exact le_antisymm h.dd_nonpos h0

end PDD
