import AlatorVerif.Model.Uist
/-! refinement of the literal matching pass to its declarative form (core only) -/
namespace PU
variable {σ α : Type} [DecidableEq σ] [LE α] [DecidableLE α] [Mul α]

abbrev IdLt (x y : Order σ α) : Prop := ∃ i j, x.id = some i ∧ y.id = some j ∧ i < j

/-- declarative "this resting order fills on this tick" -/
def fillsOn (quotes : σ → Option (Quote α)) (o : Order σ α) : Bool := (tradeOn quotes o).isSome

theorem matchPass_ids (quotes : σ → Option (Quote α)) (l : List (Order σ α)) :
    (matchPass quotes l).1 = (l.filter (fillsOn quotes)).map (fun o => o.id.getD 0) := by
  induction l with
  | nil => simp [matchPass]
  | cons o os ih =>
    rcases h : tradeOn quotes o with _ | t
    · simp [matchPass, h, fillsOn, List.filter_cons]; simpa [fillsOn] using ih
    · simp [matchPass, h, fillsOn, List.filter_cons]; simpa [fillsOn] using ih

theorem matchPass_trades (quotes : σ → Option (Quote α)) (l : List (Order σ α)) :
    (matchPass quotes l).2 = l.filterMap (tradeOn quotes) := by
  induction l with
  | nil => simp [matchPass]
  | cons o os ih =>
    rcases h : tradeOn quotes o with _ | t
    · simp [matchPass, h, List.filterMap_cons]; exact ih
    · simp [matchPass, h, List.filterMap_cons]; exact ih

theorem pairwise_filter {l : List (Order σ α)} (p : Order σ α → Bool)
    (h : l.Pairwise IdLt) : (l.filter p).Pairwise IdLt :=
  h.sublist List.filter_sublist

/-- deleting a list of ids one after the other = filtering them all out (under the id invariant) -/
theorem foldl_delete_eq_filter (ids : List Nat) : ∀ (l : List (Order σ α)), l.Pairwise IdLt →
    ids.foldl (fun acc id => deleteFirst id acc) l = l.filter (fun o => ∀ id ∈ ids, o.id ≠ some id) := by
  induction ids with
  | nil => intro l _; simp; exact (List.filter_eq_self.mpr (fun _ _ => rfl)).symm
  | cons id ids ih =>
    intro l h
    simp only [List.foldl_cons]
    rw [deleteFirst_eq_filter id l h, ih _ (pairwise_filter _ h), List.filter_filter]
    apply List.filter_congr
    intro o _
    simp only [List.mem_cons, forall_eq_or_imp, Bool.decide_and, Bool.and_comm]

/-- C02/C03 core: under the invariant, the post-book of the matching pass is exactly the resting
    orders that did not fill, in their old order; and the fills are exactly the others. -/
theorem execute_spec (b : Book σ α) (quotes : σ → Option (Quote α)) (h : BookInv b) :
    (b.execute quotes).1.inner = b.inner.filter (fun o => !fillsOn quotes o)
    ∧ (b.execute quotes).2 = b.inner.filterMap (tradeOn quotes)
    ∧ (b.execute quotes).1.last = b.last := by
  obtain ⟨hp, hb⟩ := h
  have hfold : ∀ (ids : List Nat) (b : Book σ α),
      (ids.foldl Book.delete b).inner = ids.foldl (fun acc id => deleteFirst id acc) b.inner
      ∧ (ids.foldl Book.delete b).last = b.last := by
    intro ids; induction ids with
    | nil => intro b; simp
    | cons i is ih => intro b; simp only [List.foldl_cons]; rw [(ih _).1, (ih _).2]; simp [Book.delete]
  unfold Book.execute
  have e1 := matchPass_ids quotes b.inner
  have e2 := matchPass_trades quotes b.inner
  cases hm : matchPass quotes b.inner with
  | mk ids ts =>
    rw [hm] at e1 e2; simp only at e1 e2 ⊢
    refine ⟨?_, e2, (hfold ids b).2⟩
    rw [(hfold ids b).1, foldl_delete_eq_filter ids b.inner hp]
    apply List.filter_congr
    intro o ho
    obtain ⟨i, hi, _⟩ := hb o ho
    rw [e1]
    -- o is removed iff it is one of the filling orders (ids are unique)
    by_cases hf : fillsOn quotes o = true
    · simp only [hf, Bool.not_true, decide_eq_false_iff_not]
      intro hall
      refine hall i ?_ hi
      simp only [List.mem_map, List.mem_filter]
      exact ⟨o, ⟨ho, hf⟩, by simp [hi]⟩
    · simp only [hf, Bool.not_false, decide_eq_true_eq]
      intro id hid heq
      simp only [List.mem_map, List.mem_filter] at hid
      obtain ⟨o', ⟨ho', hf'⟩, hid'⟩ := hid
      obtain ⟨i', hi', _⟩ := hb o' ho'
      -- o and o' have the same id, hence are the same element of a strictly increasing list
      have hsame : o'.id = o.id := by
        rw [hi'] at hid'; simp at hid'; rw [hi', heq, hid']
      have : o' = o := by
        by_cases hoo : o' = o
        · exact hoo
        · exfalso
          -- either order of appearance contradicts strictness
          have hget := List.pairwise_iff_getElem.mp hp
          obtain ⟨n, hn, rfl⟩ := List.getElem_of_mem ho
          obtain ⟨m, hm', rfl⟩ := List.getElem_of_mem ho'
          rcases Nat.lt_trichotomy n m with hlt | heq' | hgt
          · obtain ⟨a, c, ha, hc, hac⟩ := hget n m hn hm' hlt
            rw [hsame, ha] at hc; cases hc; omega
          · subst heq'; exact hoo rfl
          · obtain ⟨a, c, ha, hc, hac⟩ := hget m n hm' hn hgt
            rw [hsame, hc] at ha; cases ha; omega
      rw [this] at hf'; exact hf hf'

end PU
