import AlatorVerif.Model.MaxDD
import Mathlib.Algebra.Order.Field.Basic
import Mathlib.Tactic.Linarith
import Mathlib.Tactic.Ring
import Mathlib.Tactic.Positivity

namespace PDD
variable {α : Type} [Field α] [LinearOrder α] [IsStrictOrderedRing α]

/-- invariant after having consumed the prefix `pre` (all positive, non-empty) -/
structure Inv (pre : List α) (st : St α) : Prop where
  pk_lt : st.peakPos < pre.length
  pk_val : pre[st.peakPos]? = some st.peak
  pk_max : ∀ x ∈ pre, x ≤ st.peak
  pk_pos : 0 < st.peak
  tr_ge : st.peakPos ≤ st.troughPos
  tr_lt : st.troughPos < pre.length
  tr_val : pre[st.troughPos]? = some st.trough
  tr_pos : 0 < st.trough
  tr_le_pk : st.trough ≤ st.peak
  dd_le : st.ddStart ≤ st.ddEnd
  dd_lt : st.ddEnd < pre.length
  dd_val : ∃ a b, pre[st.ddStart]? = some a ∧ pre[st.ddEnd]? = some b ∧ b / a - 1 = st.maxdd
  dd_nonpos : st.maxdd ≤ 0
  dd_cur : st.maxdd ≤ st.trough / st.peak - 1
  dd_all : ∀ (i j : Nat) (a b : α), i ≤ j → pre[i]? = some a → pre[j]? = some b → st.maxdd ≤ b / a - 1

theorem getElem?_append_of_some {l : List α} {i : Nat} {a : α} (t : α) (h : l[i]? = some a) :
    (l ++ [t])[i]? = some a := by
  have hi : i < l.length := by
    by_contra hc
    rw [List.getElem?_eq_none (by omega)] at h; cases h
  rw [List.getElem?_append_left hi]; exact h

theorem getElem?_append_last (l : List α) (t : α) : (l ++ [t])[l.length]? = some t := by
  simp

theorem getElem?_append_cases {l : List α} {i : Nat} {t a : α} (h : (l ++ [t])[i]? = some a) :
    l[i]? = some a ∨ (i = l.length ∧ a = t) := by
  by_cases hi : i < l.length
  · left; rwa [List.getElem?_append_left hi] at h
  · right
    have hle : l.length ≤ i := by omega
    rw [List.getElem?_append_right hle] at h
    by_cases h0 : i - l.length = 0
    · rw [h0] at h; simp at h; exact ⟨by omega, h.symm⟩
    · have : 1 ≤ i - l.length := by omega
      rw [List.getElem?_eq_none (by simp; omega)] at h; cases h

theorem mem_of_getElem? {l : List α} {i : Nat} {a : α} (h : l[i]? = some a) : a ∈ l :=
  List.mem_of_getElem? h

theorem div_sub_one_mono_num {a b c : α} (hc : 0 < c) (h : a ≤ b) : a / c - 1 ≤ b / c - 1 := by
  have := div_le_div_of_nonneg_right h hc.le
  linarith

theorem div_sub_one_anti_den {t a p : α} (ht : 0 < t) (ha : 0 < a) (h : a ≤ p) : t / p - 1 ≤ t / a - 1 := by
  have := div_le_div_of_nonneg_left ht.le ha h
  linarith

theorem step_inv (pre : List α) (st : St α) (t : α) (hpre : ∀ x ∈ pre, 0 < x) (ht : 0 < t)
    (h : Inv pre st) : Inv (pre ++ [t]) (step st pre.length t) := by
  have hlen : (pre ++ [t]).length = pre.length + 1 := by simp
  have hmem : ∀ x ∈ pre ++ [t], x ≤ st.peak ∨ x = t := by
    intro x hx; simp at hx; rcases hx with hx | hx
    · exact Or.inl (h.pk_max x hx)
    · exact Or.inr hx
  -- bound for a new pair (i, last)
  have newpair : ∀ (m : α), m ≤ 0 → m ≤ t / st.peak - 1 → 
      ∀ (i j : Nat) (a b : α), i ≤ j → (pre ++ [t])[i]? = some a → (pre ++ [t])[j]? = some b →
      (∀ (i j : Nat) (a b : α), i ≤ j → pre[i]? = some a → pre[j]? = some b → m ≤ b / a - 1) → m ≤ b / a - 1 := by
    intro m hm0 hmt i j a b hij hi hj hold
    rcases getElem?_append_cases hj with hj' | ⟨hjl, hb⟩
    · rcases getElem?_append_cases hi with hi' | ⟨hil, _⟩
      · exact hold i j a b hij hi' hj'
      · exfalso
        have : j < pre.length := by
          by_contra hc; rw [List.getElem?_eq_none (by omega)] at hj'; cases hj'
        omega
    · subst hb
      rcases getElem?_append_cases hi with hi' | ⟨_, ha⟩
      · have ha_pos : 0 < a := hpre a (mem_of_getElem? hi')
        have ha_le : a ≤ st.peak := h.pk_max a (mem_of_getElem? hi')
        exact le_trans hmt (div_sub_one_anti_den ht ha_pos ha_le)
      · subst ha; rw [div_self ht.ne']; simpa using hm0
  unfold step
  split
  · -- new peak
    rename_i hgt
    have hnew : st.maxdd ≤ t / st.peak - 1 := by
      have : 1 < t / st.peak := by rwa [one_lt_div h.pk_pos]
      linarith [h.dd_nonpos]
    refine ⟨by simp, by simp, ?_, ht, le_refl _, by simp, by simp, ht, le_refl _, h.dd_le,
      by simp; have := h.dd_lt; omega, ?_, h.dd_nonpos, ?_, ?_⟩
    · intro x hx; rcases hmem x hx with hx | hx
      · exact le_of_lt (lt_of_le_of_lt hx hgt)
      · exact hx.le
    · obtain ⟨a, b, ha, hb, hab⟩ := h.dd_val
      exact ⟨a, b, getElem?_append_of_some t ha, getElem?_append_of_some t hb, hab⟩
    · simp only; rw [div_self ht.ne']; simpa using h.dd_nonpos
    · intro i j a b hij hi hj
      exact newpair st.maxdd h.dd_nonpos hnew i j a b hij hi hj h.dd_all
  · rename_i hngt
    have hle : t ≤ st.peak := not_lt.mp hngt
    split
    · rename_i hlt
      have hpkv := getElem?_append_of_some t h.pk_val
      dsimp only
      split
      · -- new trough improving maxdd
        rename_i himp
        have hm0 : t / st.peak - 1 ≤ 0 := by
          have : t / st.peak ≤ 1 := by rwa [div_le_one h.pk_pos]
          linarith
        refine ⟨by simp; have := h.pk_lt; omega, hpkv, ?_, h.pk_pos, ?_, by simp, by simp, ht, hle,
          ?_, by simp, ?_, hm0, le_refl _, ?_⟩
        · intro x hx; rcases hmem x hx with hx | hx
          · exact hx
          · exact hx ▸ hle
        · simp only; have := h.pk_lt; omega
        · simp only; have := h.pk_lt; omega
        · exact ⟨st.peak, t, hpkv, by simp, rfl⟩
        · intro i j a b hij hi hj
          exact newpair _ hm0 (le_refl _) i j a b hij hi hj
            (fun i j a b hij hi hj => le_trans himp.le (h.dd_all i j a b hij hi hj))
      · -- new trough, not improving
        rename_i hnimp
        have hcur : st.maxdd ≤ t / st.peak - 1 := not_lt.mp hnimp
        refine ⟨by simp; have := h.pk_lt; omega, hpkv, ?_, h.pk_pos, ?_, by simp, by simp, ht, hle,
          h.dd_le, by simp; have := h.dd_lt; omega, ?_, h.dd_nonpos, hcur, ?_⟩
        · intro x hx; rcases hmem x hx with hx | hx
          · exact hx
          · exact hx ▸ hle
        · simp only; have := h.pk_lt; omega
        · obtain ⟨a, b, ha, hb, hab⟩ := h.dd_val
          exact ⟨a, b, getElem?_append_of_some t ha, getElem?_append_of_some t hb, hab⟩
        · intro i j a b hij hi hj
          exact newpair st.maxdd h.dd_nonpos hcur i j a b hij hi hj h.dd_all
    · -- unchanged
      rename_i hnlt
      have hge : st.trough ≤ t := not_lt.mp hnlt
      have hcur : st.maxdd ≤ t / st.peak - 1 :=
        le_trans h.dd_cur (div_sub_one_mono_num h.pk_pos hge)
      refine ⟨by simp; have := h.pk_lt; omega, getElem?_append_of_some t h.pk_val, ?_, h.pk_pos,
        h.tr_ge, by simp; have := h.tr_lt; omega, getElem?_append_of_some t h.tr_val, h.tr_pos,
        h.tr_le_pk, h.dd_le, by simp; have := h.dd_lt; omega, ?_, h.dd_nonpos, h.dd_cur, ?_⟩
      · intro x hx; rcases hmem x hx with hx | hx
        · exact hx
        · exact hx ▸ hle
      · obtain ⟨a, b, ha, hb, hab⟩ := h.dd_val
        exact ⟨a, b, getElem?_append_of_some t ha, getElem?_append_of_some t hb, hab⟩
      · intro i j a b hij hi hj
        exact newpair st.maxdd h.dd_nonpos hcur i j a b hij hi hj h.dd_all


theorem first_inv (t : α) (ht : 0 < t) : Inv [t] (step (init : St α) 0 t) := by
  have h0 : (init : St α).peak < t := by simpa [init] using ht
  simp only [step, h0, if_true]
  refine ⟨by simp [init], by simp, by simp, ht, le_refl _, by simp, by simp, ht, le_refl _,
    by simp [init], by simp [init], ⟨t, t, by simp [init], by simp [init], by simp [init, div_self ht.ne']⟩,
    by simp [init], by simp [init, div_self ht.ne'], ?_⟩
  intro i j a b hij hi hj
  have hi0 : i = 0 := by
    by_contra hc; rw [List.getElem?_eq_none (by simp; omega)] at hi; cases hi
  have hj0 : j = 0 := by
    by_contra hc; rw [List.getElem?_eq_none (by simp; omega)] at hj; cases hj
  subst hi0; subst hj0; simp at hi hj; subst hi; subst hj
  simp [init, div_self ht.ne']

theorem go_inv (ts : List α) : ∀ (pre : List α) (st : St α), (∀ x ∈ pre, 0 < x) → (∀ x ∈ ts, 0 < x) →
    Inv pre st → Inv (pre ++ ts) (go st pre.length ts) := by
  induction ts with
  | nil => intro pre st _ _ h; simpa [go] using h
  | cons t ts ih =>
    intro pre st hpre hts h
    have ht : 0 < t := hts t (by simp)
    have h1 := step_inv pre st t hpre ht h
    have hpre' : ∀ x ∈ pre ++ [t], 0 < x := by
      intro x hx; simp at hx; rcases hx with hx | hx
      · exact hpre x hx
      · exact hx ▸ ht
    have := ih (pre ++ [t]) (step st pre.length t) hpre' (fun x hx => hts x (by simp [hx])) h1
    simpa [go, List.append_assoc] using this

/-- C15 core: on a non-empty positive series the result is the minimum over all i ≤ j of
    v_j / v_i - 1, and the returned positions realise it. -/
theorem maxdd_spec (v : α) (vs : List α) (hpos : ∀ x ∈ v :: vs, 0 < x) :
    let r := maxdd (v :: vs)
    (∀ (i j : Nat) (a b : α), i ≤ j → (v :: vs)[i]? = some a → (v :: vs)[j]? = some b → r.1 ≤ b / a - 1)
    ∧ r.2.1 ≤ r.2.2 ∧ r.2.2 < (v :: vs).length
    ∧ ∃ a b, (v :: vs)[r.2.1]? = some a ∧ (v :: vs)[r.2.2]? = some b ∧ b / a - 1 = r.1 := by
  have hv : 0 < v := hpos v (by simp)
  have h := go_inv vs [v] (step (init : St α) 0 v) (by simpa using hv)
    (fun x hx => hpos x (by simp [hx])) (first_inv v hv)
  simp only [maxdd, go]
  simp only [List.length_singleton, List.singleton_append, Nat.zero_add] at h
  exact ⟨h.dd_all, h.dd_le, h.dd_lt, h.dd_val⟩

end PDD
