import AlatorVerif.Model.Basic
import Mathlib.Algebra.Order.Field.Basic
import Mathlib.Algebra.Order.Floor.Ring
import Mathlib.Tactic.Ring
import Mathlib.Tactic.Linarith
import Mathlib.Tactic.Positivity

namespace Proto
open Proto

variable {α : Type} [Field α] [LinearOrder α] [IsStrictOrderedRing α]

instance [FloorRing α] : HasFloor α := ⟨fun x => (⌊x⌋ : α), fun x => (⌈x⌉ : α)⟩

def Cost.WF : Cost α → Prop
  | .perShare v => 0 ≤ v
  | .pct p => 0 ≤ p ∧ p < 1
  | .flat v => 0 ≤ v

def sumPct : List (Cost α) → α
  | [] => 0
  | .pct p :: cs => p + sumPct cs
  | _ :: cs => sumPct cs
def sumFlat : List (Cost α) → α
  | [] => 0
  | .flat p :: cs => p + sumFlat cs
  | _ :: cs => sumFlat cs
def sumPer : List (Cost α) → α
  | [] => 0
  | .perShare p :: cs => p + sumPer cs
  | _ :: cs => sumPer cs

theorem sumPct_nonneg (cs : List (Cost α)) (h : ∀ c ∈ cs, c.WF) : 0 ≤ sumPct cs := by
  induction cs with
  | nil => simp [sumPct]
  | cons c cs ih =>
    have ih' := ih (fun c hc => h c (List.mem_cons_of_mem _ hc))
    have hc := h c (List.mem_cons_self)
    cases c <;> simp only [sumPct] <;> first | exact ih' | (have := hc.1; linarith)

theorem sumPer_nonneg (cs : List (Cost α)) (h : ∀ c ∈ cs, c.WF) : 0 ≤ sumPer cs := by
  induction cs with
  | nil => simp [sumPer]
  | cons c cs ih =>
    have ih' := ih (fun c hc => h c (List.mem_cons_of_mem _ hc))
    have hc := h c (List.mem_cons_self)
    cases c <;> simp only [sumPer] <;> first | exact ih' | (have : (0:α) ≤ _ := hc; linarith)

/-- fees are additive: closed form of the fold -/
theorem totalFee_eq (cs : List (Cost α)) (n v : α) :
    totalFee cs n v = sumPer cs * n + v * sumPct cs + sumFlat cs := by
  unfold totalFee
  suffices h : ∀ acc, cs.foldl (fun acc c => acc + c.fee n v) acc
      = acc + (sumPer cs * n + v * sumPct cs + sumFlat cs) by simpa using h 0
  induction cs with
  | nil => intro acc; simp [sumPer, sumPct, sumFlat]
  | cons c cs ih =>
    intro acc
    simp only [List.foldl_cons, ih]
    cases c <;> simp only [Cost.fee, sumPer, sumPct, sumFlat] <;> ring

theorem impactTotal_cons (c : Cost α) (cs : List (Cost α)) (b q : α) (s : Bool) :
    impactTotal (c :: cs) b q s = impactTotal cs (c.impact b q s).1 (c.impact b q s).2 s := by
  simp [impactTotal]

theorem sumFlat_nonneg (cs : List (Cost α)) (h : ∀ c ∈ cs, c.WF) : 0 ≤ sumFlat cs := by
  induction cs with
  | nil => simp [sumFlat]
  | cons c cs ih =>
    have ih' := ih (fun c hc => h c (List.mem_cons_of_mem _ hc))
    have hc := h c (List.mem_cons_self)
    cases c <;> simp only [sumFlat] <;> first | exact ih' | (have : (0:α) ≤ _ := hc; linarith)

/-- key invariant, generalised over the accumulator -/
theorem impact_inv (cs : List (Cost α)) (h : ∀ c ∈ cs, c.WF) (b q : α)
    (hfin : 0 ≤ (impactTotal cs b q true).1) :
    (impactTotal cs b q true).1 * (1 + sumPct cs) + sumFlat cs ≤ b
    ∧ (impactTotal cs b q true).2 = q + sumPer cs ∧ 0 ≤ b := by
  induction cs generalizing b q with
  | nil => simp [impactTotal, sumPct, sumFlat, sumPer] at *; exact hfin
  | cons c cs ih =>
    have hWF := fun c hc => h c (List.mem_cons_of_mem _ hc)
    have hc := h c (List.mem_cons_self)
    have hP := sumPct_nonneg cs hWF
    have hF := sumFlat_nonneg cs hWF
    rw [impactTotal_cons] at hfin ⊢
    cases c with
    | perShare v =>
      simp only [Cost.impact, if_true] at hfin ⊢
      obtain ⟨h1, h2, h3⟩ := ih hWF b (q + v) hfin
      refine ⟨by simpa [sumPct, sumFlat] using h1, ?_, h3⟩
      rw [h2]; simp only [sumPer]; ring
    | pct p =>
      simp only [Cost.impact] at hfin ⊢
      obtain ⟨h1, h2, h3⟩ := ih hWF (b * (1 - p)) q hfin
      obtain ⟨p0, p1⟩ := hc
      have hb : 0 ≤ b := by
        have : 0 < 1 - p := by linarith
        exact nonneg_of_mul_nonneg_left h3 this
      refine ⟨?_, by rw [h2]; simp [sumPer], hb⟩
      simp only [sumPct, sumFlat]
      generalize (impactTotal cs (b * (1 - p)) q true).1 = X at *
      have hX : X ≤ b * (1 - p) := by nlinarith
      have hXp : X * p ≤ b * p := by
        have h1' : X * p ≤ b * (1 - p) * p := mul_le_mul_of_nonneg_right hX p0
        nlinarith [mul_nonneg (mul_nonneg hb p0) p0]
      nlinarith
    | flat v =>
      simp only [Cost.impact] at hfin ⊢
      obtain ⟨h1, h2, h3⟩ := ih hWF (b - v) q hfin
      have hv : 0 ≤ v := hc
      refine ⟨?_, by rw [h2]; simp [sumPer], by linarith⟩
      simp only [sumPct, sumFlat]; linarith

/-- C13 core: buying n = floor(netBudget/netPrice) ≥ 0 shares at gross price q, plus all fees, costs ≤ gross budget -/
theorem no_overspend [FloorRing α] (cs : List (Cost α)) (h : ∀ c ∈ cs, c.WF) (b q : α) (hq : 0 < q)
    (hn : 0 ≤ (impactTotal cs b q true).1) :
    let n := sizeBuy cs b q
    n * q + totalFee cs n (n * q) ≤ b := by
  intro n
  obtain ⟨h1, h2, hb⟩ := impact_inv cs h b q hn
  have hP := sumPct_nonneg cs h
  have hS := sumPer_nonneg cs h
  set nb := (impactTotal cs b q true).1 with hnb
  set np := (impactTotal cs b q true).2 with hnp
  have hnp_pos : 0 < np := by rw [h2]; linarith
  have hn_def : n = (⌊nb / np⌋ : α) := rfl
  have hn_le : n ≤ nb / np := by rw [hn_def]; exact Int.floor_le _
  have hn0 : 0 ≤ n := by
    rw [hn_def]; exact_mod_cast Int.floor_nonneg.mpr (div_nonneg hn hnp_pos.le)
  have hmul : n * np ≤ nb := by
    have := mul_le_mul_of_nonneg_right hn_le hnp_pos.le
    rwa [div_mul_cancel₀ _ hnp_pos.ne'] at this
  rw [totalFee_eq]
  rw [h2] at hmul
  -- n*q + S*n + n*q*P + F ≤ b
  have hnq : n * q ≤ nb := by nlinarith
  nlinarith [mul_nonneg hn0 hS, mul_nonneg (mul_nonneg hn0 hq.le) hP, mul_nonneg hn hP]

end Proto
