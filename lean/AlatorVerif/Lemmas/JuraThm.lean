import AlatorVerif.Model.Jura
namespace PJ
variable {α : Type} [LE α] [DecidableLE α] [Add α] [Sub α] [Mul α] [OfNat α 1] [OfScientific α]

/-- C18: a trigger order never fills itself; it fires exactly under the stated condition and the
    child keeps asset, side, size and limit, IOC iff `is_market` -/
theorem visit_trigger (o : Inner α) (q : Quote α) (px : α) (m : Bool) (t : Tpsl)
    (h : o.order.typ = .trigger px m t) :
    (visit o q).fill = none ∧ (visit o q).panic = false ∧ (visit o q).order = o ∧
    let fires := match t, o.order.isBuy with
      | .sl, true => q.ask ≥ px | .sl, false => q.bid ≤ px
      | .tp, true => q.ask ≤ px | .tp, false => q.bid ≥ px
    (fires → (visit o q).del = true ∧ (visit o q).child =
        some { o.order with typ := .limit (if m then .ioc else .gtc) }) ∧
    (¬ fires → (visit o q).del = false ∧ (visit o q).child = none) := by
  obtain ⟨id, ⟨asset, isBuy, lpx, sz, ro, cl, typ⟩, att⟩ := o
  simp only at h; subst h
  cases t <;> cases isBuy <;> simp only [visit] <;> (split <;> simp_all [childOf])

/-- C18: an IOC order already attempted never fills and is scheduled for deletion -/
theorem visit_ioc_attempted (o : Inner α) (q : Quote α) (h : o.order.typ = .limit .ioc)
    (ha : o.attempted = true) : (visit o q).fill = none ∧ (visit o q).del = true := by
  obtain ⟨id, ⟨asset, isBuy, lpx, sz, ro, cl, typ⟩, att⟩ := o
  simp only at h ha; subst h; subst ha
  simp [visit]

/-- C18: first attempt of an IOC order -/
theorem visit_ioc_first (o : Inner α) (q : Quote α) (h : o.order.typ = .limit .ioc)
    (ha : o.attempted = false) :
    (visit o q).order.attempted = true ∧
    let ok := if o.order.isBuy then q.ask ≤ o.order.limitPx * (1 + slippage)
              else o.order.limitPx * (1 - slippage) ≤ q.bid
    (ok → (visit o q).del = true ∧ ∃ f, (visit o q).fill = some f ∧ f.oid = o.id ∧ f.coin = o.order.asset
            ∧ f.sz = o.order.sz ∧ f.time = q.date ∧ f.px = (if o.order.isBuy then q.ask else q.bid)) ∧
    (¬ ok → (visit o q).del = false ∧ (visit o q).fill = none) := by
  obtain ⟨id, ⟨asset, isBuy, lpx, sz, ro, cl, typ⟩, att⟩ := o
  simp only at h ha; subst h; subst ha
  cases isBuy
  · by_cases hc : lpx * (1 - slippage) ≤ q.bid <;> simp [visit, hc, mkFill]
  · by_cases hc : q.ask ≤ lpx * (1 + slippage) <;> simp [visit, hc, mkFill]

end PJ

namespace PJ
variable {α : Type} [LE α] [DecidableLE α] [Add α] [Sub α] [Mul α] [OfNat α 1] [OfScientific α]

/-- C18: a good-till-cancel limit fills iff ask ≤ limit (buy) / bid ≥ limit (sell); otherwise it is
    left in the book untouched -/
theorem visit_gtc (o : Inner α) (q : Quote α) (h : o.order.typ = .limit .gtc) :
    (visit o q).order = o ∧ (visit o q).child = none ∧ (visit o q).panic = false ∧
    let ok := if o.order.isBuy then q.ask ≤ o.order.limitPx else o.order.limitPx ≤ q.bid
    (ok → (visit o q).del = true ∧ (visit o q).fill = some (mkFill o q o.order.isBuy)) ∧
    (¬ ok → (visit o q).del = false ∧ (visit o q).fill = none) := by
  obtain ⟨id, ⟨asset, isBuy, lpx, sz, ro, cl, typ⟩, att⟩ := o
  simp only at h; subst h
  cases isBuy
  · by_cases hc : lpx ≤ q.bid <;> simp [visit, hc]
  · by_cases hc : q.ask ≤ lpx <;> simp [visit, hc]

end PJ
