import AlatorVerif.Lemmas.SrvClock
/-!
# C07: the client that follows the tick's own `has_next`

`loopTicks` (SrvClock) asks `now()` before every tick. The repository's clients and the property's wording
("the tick reports has_next exactly when k < N; hence a client looping while has_next performs exactly N
ticks") describe the other style: tick first, continue while *the tick's response* says `has_next`. This
file models that do-while client and proves it performs exactly `N - pos` ticks from any live backtest with
`pos < N` (exactly `N` from a new one) and then stops, for any exchange and any admission oracle.
-/
namespace SV
variable {E Q O A D R : Type} (X : ExchOps E Q O A D R)

/-- tick, then continue while the tick's response says `has_next`; counts the ticks -/
def tickLoop (adm : App E Q → A) (i : Nat) : Nat → App E Q → Nat
  | 0, _ => 0
  | fuel + 1, a =>
    match (tick X .repaired a i (adm a)).1 with
    | some (true, _) => 1 + tickLoop adm i fuel (tick X .repaired a i (adm a)).2
    | some (false, _) => 1
    | none => 0

/-- **the tick-driven loop performs exactly `N - pos` ticks and stops** -/
theorem tickLoop_terminates (adm : App E Q → A) (i : Nat) : ∀ (fuel : Nat) (a : App E Q) (bt : Backtest E)
    (ds : Dataset Q), a.backtests i = some bt → a.datasets bt.dataset = some ds → ClockOK ds bt →
    bt.pos < ds.dates.length → ds.dates.length - bt.pos ≤ fuel →
    tickLoop X adm i fuel a = ds.dates.length - bt.pos := by
  intro fuel
  induction fuel with
  | zero => intro a bt ds _ _ _ hlt hf; omega
  | succ f ih =>
    intro a bt ds hb hd hc hlt hf
    have hN : 0 < ds.dates.length := by omega
    obtain ⟨⟨bt', h1, h2, h3, h4, _⟩, h5, _, h6⟩ := tick_clock X a i (adm a) bt ds hb hd hc hN
    simp only [tickLoop, h6]
    by_cases hnext : bt.pos + 1 < ds.dates.length
    · simp only [hnext, decide_true]
      have hd' : (tick X .repaired a i (adm a)).2.datasets bt'.dataset = some ds := by rw [h5, h2]; exact hd
      rw [ih _ bt' ds h1 hd' h4 (by omega) (by omega), h3]; omega
    · simp only [hnext, decide_false]; omega

end SV
