import AlatorVerif.Model.Perf
import Mathlib.Analysis.SpecialFunctions.Log.Basic
import Mathlib.Analysis.SpecialFunctions.Pow.Real
import Mathlib.Tactic.FieldSimp
namespace PP
open Real

noncomputable instance : HasTransc ℝ := ⟨Real.sqrt, Real.exp, Real.log, fun x y => x ^ y⟩

theorem isZero_iff (x : ℝ) : isZero x = true ↔ x = 0 := by
  simp only [isZero, Bool.and_eq_true, decide_eq_true_eq]
  exact ⟨fun ⟨a, b⟩ => le_antisymm a b, fun h => by subst h; exact ⟨le_refl _, le_refl _⟩⟩

/-- C14: the defining identity of a period return -/
theorem periodReturn_identity (s e cf i : ℝ) (hc : s + cf ≠ 0) (hi : 1 + i ≠ 0) :
    e = (s + cf) * (1 + periodReturn s e cf i) * (1 + i) := by
  have : isZero (s + cf) = false := by
    cases h : isZero (s + cf)
    · rfl
    · exact absurd ((isZero_iff _).mp h) hc
  simp only [periodReturn, this, Bool.false_eq_true, if_false]
  field_simp
  ring

/-- C14: scale invariance of every period return -/
theorem periodReturn_scale (s e cf i c : ℝ) (hc : 0 < c) :
    periodReturn (c * s) (c * e) (c * cf) i = periodReturn s e cf i := by
  simp only [periodReturn]
  have h0 : c * s + c * cf = c * (s + cf) := by ring
  by_cases hz : s + cf = 0
  · have : isZero (s + cf) = true := (isZero_iff _).mpr hz
    have h2 : isZero (c * s + c * cf) = true := (isZero_iff _).mpr (by rw [h0, hz]; ring)
    simp [this, h2]
  · have h1 : isZero (s + cf) = false := by
      cases h : isZero (s + cf)
      · rfl
      · exact absurd ((isZero_iff _).mp h) hz
    have h2 : isZero (c * s + c * cf) = false := by
      cases h : isZero (c * s + c * cf)
      · rfl
      · exfalso; have := (isZero_iff _).mp h; rw [h0] at this
        rcases mul_eq_zero.mp this with h | h
        · linarith
        · exact hz h
    simp only [h1, h2]
    have : (c * e - (c * s + c * cf)) / (c * s + c * cf) = (e - (s + cf)) / (s + cf) := by
      rw [h0, show c * e - c * (s + cf) = c * (e - (s + cf)) by ring, mul_div_mul_left _ _ hc.ne']
    rw [this]

theorem foldl_add_eq_sum (l : List ℝ) (a : ℝ) : l.foldl (· + ·) a = a + l.sum := by
  induction l generalizing a with
  | nil => simp
  | cons x xs ih => simp [ih, add_assoc]

/-- C14: total return is the compounded product of (1 + r) minus 1 -/
theorem portfolioReturn_compound (rs : List ℝ) (h : ∀ r ∈ rs, 0 < 1 + r) :
    portfolioReturn (rs.map (fun r => HasTransc.ln (1 + r))) = (rs.map (fun r => 1 + r)).prod - 1 := by
  simp only [portfolioReturn, foldl_add_eq_sum, zero_add]
  show Real.exp ((rs.map (fun r => Real.log (1 + r))).sum) - 1 = _
  rw [Real.exp_list_sum, List.map_map]
  congr 1
  apply congrArg
  apply List.map_congr_left
  intro r hr
  exact Real.exp_log (h r hr)

end PP
