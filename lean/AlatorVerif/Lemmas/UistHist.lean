import AlatorVerif.Lemmas.UistThm
/-! history-level conservation for Uist (prototype, core only) -/
namespace PU
variable {σ α : Type} [DecidableEq σ] [LE α] [DecidableLE α] [Mul α]

def ids (l : List (Order σ α)) : List Nat := l.map (fun o => o.id.getD 0)

/-- the admission loop of `tick` -/
def admitAll (b : Book σ α) (adm : List (Order σ α)) : Book σ α × List (Order σ α) :=
  adm.foldl (fun (acc : Book σ α × List (Order σ α)) o =>
      let r := acc.1.insert o; (r.1, acc.2 ++ [r.2])) (b, [])

theorem admit_spec (adm : List (Order σ α)) : ∀ (b : Book σ α) (acc : List (Order σ α)),
    let r := adm.foldl (fun (acc : Book σ α × List (Order σ α)) o =>
      let r := acc.1.insert o; (r.1, acc.2 ++ [r.2])) (b, acc)
    r.1.last = b.last + adm.length
    ∧ ids r.1.inner = ids b.inner ++ List.range' b.last adm.length
    ∧ ids r.2 = ids acc ++ List.range' b.last adm.length
    ∧ (BookInv b → BookInv r.1) := by
  induction adm with
  | nil => intro b acc; simp
  | cons o os ih =>
    intro b acc
    simp only [List.foldl_cons]
    obtain ⟨h1, h2, h3, h4⟩ := ih (b.insert o).1 (acc ++ [(b.insert o).2])
    refine ⟨?_, ?_, ?_, ?_⟩
    · rw [h1]; simp [Book.insert]; omega
    · rw [h2]; simp [Book.insert, ids, List.range'_succ]
    · rw [h3]; simp [Book.insert, ids, List.range'_succ]
    · intro hb; exact h4 (insert_inv b o hb)

/-- ghost record of what happened to admitted ids -/
structure Ghost where
  filled : List Nat := []
  cancelled : List Nat := []

inductive Op (σ α : Type) where
  | insert (o : Order σ α)
  | delete (id : Nat)
  | tick (quotes : σ → Option (Quote α)) (adm : List (Order σ α))

def step (s : Uist σ α) (g : Ghost) : Op σ α → Uist σ α × Ghost
  | .insert o => ({ s with buffer := s.buffer ++ [o] }, g)
  | .delete id =>
    ({ s with book := s.book.delete id },
     if id ∈ ids s.book.inner then { g with cancelled := g.cancelled ++ [id] } else g)
  | .tick quotes adm =>
    let e := s.book.execute quotes
    let a := admitAll e.1 adm
    ({ book := a.1, log := s.log ++ e.2, buffer := [] },
     { g with filled := g.filled ++ ids (s.book.inner.filter (fillsOn quotes)) })

def run (s : Uist σ α) (g : Ghost) : List (Op σ α) → Uist σ α × Ghost
  | [] => (s, g)
  | op :: ops => let r := step s g op; run r.1 r.2 ops

/-- conservation: every admitted id is in exactly one of filled / cancelled / resting -/
def Conserved (s : Uist σ α) (g : Ghost) : Prop :=
  BookInv s.book ∧ (g.filled ++ g.cancelled ++ ids s.book.inner).Perm (List.range s.book.last)

theorem ids_filter_perm (l : List (Order σ α)) (p : Order σ α → Bool) :
    (ids (l.filter p) ++ ids (l.filter (fun o => !p o))).Perm (ids l) := by
  unfold ids
  rw [← List.map_append]
  exact (List.filter_append_perm p l).map _

theorem deleteFirst_perm (id : Nat) (l : List (Order σ α)) (h : l.Pairwise IdLt)
    (hall : ∀ o ∈ l, ∃ i, o.id = some i) (hmem : id ∈ ids l) :
    (id :: ids (deleteFirst id l)).Perm (ids l) := by
  induction l with
  | nil => simp [ids] at hmem
  | cons o os ih =>
    rw [List.pairwise_cons] at h
    simp only [deleteFirst]
    split
    · rename_i heq; simp [ids, heq]
    · rename_i hne
      have hmem' : id ∈ ids os := by
        simp only [ids, List.map_cons, List.mem_cons] at hmem
        rcases hmem with hm | hm
        · exfalso; obtain ⟨i, hi⟩ := hall o (by simp); rw [hi] at hm hne; simp at hm; exact hne (by rw [hm])
        · exact hm
      have := ih h.2 (fun o ho => hall o (by simp [ho])) hmem'
      simp only [ids, List.map_cons] at this ⊢
      exact (List.Perm.swap _ _ _).trans (this.cons _)

theorem deleteFirst_absent (id : Nat) (l : List (Order σ α))
    (hall : ∀ o ∈ l, ∃ i, o.id = some i) (hmem : id ∉ ids l) : deleteFirst id l = l := by
  induction l with
  | nil => rfl
  | cons o os ih =>
    simp only [deleteFirst]
    split
    · rename_i heq; exfalso; apply hmem; simp [ids, heq]
    · rw [ih (fun o ho => hall o (by simp [ho])) (fun h => hmem (by simp [ids] at h ⊢; exact Or.inr h))]

theorem step_conserved (s : Uist σ α) (g : Ghost) (op : Op σ α) (h : Conserved s g) :
    Conserved (step s g op).1 (step s g op).2 := by
  obtain ⟨hinv, hperm⟩ := h
  cases op with
  | insert o => exact ⟨hinv, hperm⟩
  | delete id =>
    simp only [step]
    refine ⟨delete_inv _ _ hinv, ?_⟩
    have hall : ∀ o ∈ s.book.inner, ∃ i, o.id = some i := fun o ho => by
      obtain ⟨i, hi, _⟩ := hinv.2 o ho; exact ⟨i, hi⟩
    by_cases hm : id ∈ ids s.book.inner
    · simp only [hm, if_true, Book.delete]
      have hp := deleteFirst_perm id s.book.inner hinv.1 hall hm
      refine List.Perm.trans ?_ hperm
      -- filled ++ (cancelled ++ [id]) ++ ids rest  ~  filled ++ cancelled ++ ids book
      simp only [List.append_assoc]
      refine List.Perm.append_left _ (List.Perm.append_left _ ?_)
      simpa using hp
    · simp only [hm, if_false, Book.delete]
      rw [deleteFirst_absent id _ hall hm]; exact hperm
  | tick quotes adm =>
    simp only [step]
    obtain ⟨e1, _, e3⟩ := execute_spec s.book quotes hinv
    have hinv1 : BookInv (s.book.execute quotes).1 := by
      refine ⟨?_, ?_⟩
      · rw [e1]; exact pairwise_filter _ hinv.1
      · intro o ho; rw [e1] at ho; rw [e3]; exact hinv.2 o (List.mem_filter.mp ho).1
    obtain ⟨a1, a2, _, a4⟩ := admit_spec adm (s.book.execute quotes).1 []
    refine ⟨a4 hinv1, ?_⟩
    show (g.filled ++ ids (s.book.inner.filter (fillsOn quotes)) ++ g.cancelled ++
      ids (admitAll (s.book.execute quotes).1 adm).1.inner).Perm (List.range (admitAll (s.book.execute quotes).1 adm).1.last)
    unfold admitAll
    rw [a1, a2, e1, e3, List.range_eq_range', ← List.range'_append_1 (s := 0) (m := s.book.last) (n := adm.length)]
    simp only [Nat.zero_add, ← List.append_assoc]
    refine List.Perm.append_right _ ?_
    rw [← List.range_eq_range']
    refine List.Perm.trans ?_ hperm
    have hp := ids_filter_perm s.book.inner (fillsOn quotes)
    -- filled ++ F ++ cancelled ++ R  ~  filled ++ cancelled ++ (F ++ R)
    simp only [List.append_assoc]
    refine List.Perm.append_left _ ?_
    refine List.Perm.trans ?_ (List.Perm.append_left _ hp)
    simp only [← List.append_assoc]
    exact List.Perm.append_right _ List.perm_append_comm

theorem run_conserved (ops : List (Op σ α)) : ∀ (s : Uist σ α) (g : Ghost), Conserved s g →
    Conserved (run s g ops).1 (run s g ops).2 := by
  induction ops with
  | nil => intro s g h; exact h
  | cons op ops ih => intro s g h; exact ih _ _ (step_conserved s g op h)

end PU
