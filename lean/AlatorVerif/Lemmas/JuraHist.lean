import AlatorVerif.Lemmas.JuraBook
import AlatorVerif.Lemmas.JuraThm
/-! Jura: the id invariant over every operation history, and what a pass reports -/
namespace PJ
variable {α : Type} [LinearOrder α] [Add α] [Sub α] [Mul α] [OfNat α 1] [OfScientific α]

theorem deleteFirst_sublist (asset id : Nat) (l : List (Inner α)) : (deleteFirst asset id l).Sublist l := by
  induction l with
  | nil => simp [deleteFirst]
  | cons o os ih =>
    simp only [deleteFirst]; split
    · exact List.sublist_cons_self _ _
    · exact ih.cons_cons _

theorem JInv.delete {b : Book α} (h : JInv b) (asset id : Nat) : JInv (b.delete asset id) :=
  ⟨h.1.sublist (deleteFirst_sublist _ _ _), fun o ho => h.2 o ((deleteFirst_sublist _ _ _).subset ho)⟩

theorem JInv.insert {b : Book α} (h : JInv b) (o : Order α) : JInv (b.insert o).1 := by
  obtain ⟨h1, h2⟩ := h
  refine ⟨?_, ?_⟩
  · simp only [Book.insert, List.pairwise_append, List.pairwise_cons, List.Pairwise.nil, and_true]
    refine ⟨h1, by simp, ?_⟩
    intro x hx y hy
    simp at hy; subst hy
    exact h2 x hx
  · intro x hx
    simp only [Book.insert, List.mem_append, List.mem_singleton] at hx
    rcases hx with hx | hx
    · have := h2 x hx; simp [Book.insert]; omega
    · subst hx; simp [Book.insert]

theorem JInv.pass {b : Book α} (h : JInv b) (quotes : Nat → Option (Quote α)) :
    JInv ({ b with inner := (pass quotes b.inner).inner } : Book α) := by
  obtain ⟨hp, hb⟩ := h
  rw [(pass_spec quotes b.inner).1]
  refine ⟨?_, ?_⟩
  · rw [List.pairwise_map]
    exact hp.imp (fun {a c} hlt => by rw [(after_keeps quotes a).1, (after_keeps quotes c).1]; exact hlt)
  · intro o ho
    obtain ⟨o', ho', rfl⟩ := List.mem_map.mp ho
    rw [(after_keeps quotes o').1]; exact hb o' ho'

theorem JInv.foldDelete (dels : List (Nat × Nat)) : ∀ {b : Book α}, JInv b →
    JInv (dels.foldl (fun (acc : Book α) d => acc.delete d.1 d.2) b) := by
  induction dels with
  | nil => intro b h; exact h
  | cons d ds ih => intro b h; exact ih (h.delete d.1 d.2)

theorem JInv.foldInsert (cs : List (Order α)) : ∀ {b : Book α} (acc : List Nat), JInv b →
    JInv (cs.foldl (fun (acc : Book α × List Nat) c => let x := acc.1.insert c; (x.1, acc.2 ++ [x.2])) (b, acc)).1 := by
  induction cs with
  | nil => intro b acc h; exact h
  | cons c cs ih => intro b acc h; exact ih _ (h.insert c)

theorem JInv.execute {b : Book α} (h : JInv b) (quotes : Nat → Option (Quote α)) :
    JInv (b.execute quotes).1 :=
  JInv.foldInsert _ [] (JInv.foldDelete _ (h.pass quotes))

theorem JInv.admitBatch (adm : List (Order α)) : ∀ {b : Book α}, JInv b →
    JInv (adm.foldl (fun acc o => (acc.insert o).1) b) := by
  induction adm with
  | nil => intro b h; exact h
  | cons o os ih => intro b h; exact ih (h.insert o)

theorem JInv.tick {s : Jura α} (h : JInv s.book) (quotes : Nat → Option (Quote α)) (adm : List (Order α)) :
    JInv (s.tick quotes adm).1.book :=
  JInv.admitBatch adm (h.execute quotes)

inductive JOp (α : Type) where
  | insert (o : Order α)
  | delete (asset id : Nat)
  | tick (quotes : Nat → Option (Quote α)) (adm : List (Order α))

def jstep (s : Jura α) : JOp α → Jura α
  | .insert o => { s with buffer := s.buffer ++ [o] }
  | .delete a id => { s with book := s.book.delete a id }
  | .tick quotes adm => (s.tick quotes adm).1

def jrun (s : Jura α) : List (JOp α) → Jura α
  | [] => s
  | op :: ops => jrun (jstep s op) ops

theorem jstep_inv (s : Jura α) (op : JOp α) (h : JInv s.book) : JInv (jstep s op).book := by
  cases op with
  | insert o => exact h
  | delete a id => exact h.delete a id
  | tick quotes adm => exact h.tick quotes adm

theorem jrun_inv (ops : List (JOp α)) : ∀ (s : Jura α), JInv s.book → JInv (jrun s ops).book := by
  induction ops with
  | nil => intro s h; exact h
  | cons op ops ih => intro s h; exact ih _ (jstep_inv s op h)

theorem reachable_inv (ops : List (JOp α)) : JInv (jrun ({} : Jura α) ops).book :=
  jrun_inv ops {} ⟨by simp, by simp⟩

/-- what one resting order contributes to the fills of a pass -/
def fillOf (quotes : Nat → Option (Quote α)) (o : Inner α) : Option (Fill α) :=
  match quotes o.order.asset with
  | none => none
  | some q => (visit o q).fill

def childOf' (quotes : Nat → Option (Quote α)) (o : Inner α) : Option (Order α) :=
  match quotes o.order.asset with
  | none => none
  | some q => (visit o q).child

theorem pass_fills (quotes : Nat → Option (Quote α)) (l : List (Inner α)) :
    (pass quotes l).fills = l.filterMap (fillOf quotes) ∧
    (pass quotes l).children = l.filterMap (childOf' quotes) := by
  induction l with
  | nil => simp [pass]
  | cons o os ih =>
    rcases hq : quotes o.order.asset with _ | q
    · simp only [pass, hq, List.filterMap_cons, fillOf, childOf']; exact ih
    · rcases hf : (visit o q).fill with _ | f <;> rcases hc : (visit o q).child with _ | c <;>
        simp [pass, hq, hf, hc, List.filterMap_cons, fillOf, childOf', ih.1, ih.2]

theorem visit_fill_oid (o : Inner α) (q : Quote α) (f : Fill α) (h : (visit o q).fill = some f) :
    f.oid = o.id ∧ f.coin = o.order.asset ∧ f.sz = o.order.sz ∧ f.time = q.date
    ∧ f.px = (if o.order.isBuy then q.ask else q.bid) ∧ f.buy = o.order.isBuy := by
  obtain ⟨id, ⟨asset, isBuy, lpx, sz, ro, cl, typ⟩, att⟩ := o
  cases typ with
  | limit tif =>
    cases tif
    · simp [visit] at h
    · cases att
      · cases isBuy
        · by_cases hc : lpx * (1 - slippage) ≤ q.bid <;> simp [visit, hc, mkFill] at h
          subst h; simp
        · by_cases hc : q.ask ≤ lpx * (1 + slippage) <;> simp [visit, hc, mkFill] at h
          subst h; simp
      · simp [visit] at h
    · cases isBuy
      · by_cases hc : lpx ≤ q.bid <;> simp [visit, hc, mkFill] at h
        subst h; simp
      · by_cases hc : q.ask ≤ lpx <;> simp [visit, hc, mkFill] at h
        subst h; simp
  | trigger px m t =>
    have := (visit_trigger ⟨id, ⟨asset, isBuy, lpx, sz, ro, cl, .trigger px m t⟩, att⟩ q px m t rfl).1
    rw [this] at h; cases h

end PJ
