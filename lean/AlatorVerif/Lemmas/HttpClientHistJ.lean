import AlatorVerif.Lemmas.HttpClientHist
/-!
# C20 over whole request sequences, on the client's side of the wire (Jura service)

The Jura twin of `HttpClientHist`: init, tick (fills, inserted orders, triggered child ids), insert_order,
delete_order, fetch_quotes and info. The Jura service has no `now` route (DESIGN §2, observations), so
sequences containing `now` requests are outside the statement.
-/
namespace PHt
open PJs SV
variable {α : Type} [LE α] [DecidableLE α] [Add α] [Sub α] [Mul α] [OfNat α 1] [OfScientific α]

def decJQuote (j : Json α) : Option (String × PJ.Quote α) := do
  let b ← match (← j.get? "bid") with | .num x => some x | _ => none
  let a ← match (← j.get? "ask") with | .num x => some x | _ => none
  let s ← match (← j.get? "symbol") with | .str s => some s | _ => none
  let d ← match (← j.get? "date") with | .int n => some n | _ => none
  pure (s, ⟨b, a, d⟩)

omit [LE α] [DecidableLE α] [Add α] [Sub α] [Mul α] [OfNat α 1] [OfScientific α] in
theorem decJQuote_encJQuote (s : String) (q : PJ.Quote α) : decJQuote (encJQuote s q) = some (s, q) := by
  obtain ⟨b, a, d⟩ := q
  simp [decJQuote, encJQuote, Json.get?, List.find?, bind, Option.bind]

def decQuotesJ : Json α → Option (List (String × String × PJ.Quote α))
  | .obj kvs => decList (β := String × String × PJ.Quote α)
      (fun j => match j with
        | .arr [.str k, v] => (decJQuote v).map (fun q => (k, q))
        | _ => none)
      (kvs.map (fun kv => .arr [.str kv.1, kv.2]))
  | _ => none

omit [LE α] [DecidableLE α] [Add α] [Sub α] [Mul α] [OfNat α 1] [OfScientific α] in
/-- **Jura fetch_quotes**: for every symbol of the dataset quoted on the current date, exactly the stored quote -/
theorem client_fetch_jura (syms : List String) (q : JQ α) :
    decQuotesJ ((juraEnc (α := α) true).quotes q syms)
      = some (syms.filterMap (fun s => (q s.toNat!).map (fun x => (s, s, x)))) := by
  simp only [juraEnc, decQuotesJ]
  induction syms with
  | nil => simp [decList]
  | cons s ss ih =>
    cases hq : q s.toNat! with
    | none => simpa [List.filterMap_cons, hq] using ih
    | some x =>
      simp only [List.filterMap_cons, hq, Option.map_some, List.map_cons, decList, decJQuote_encJQuote]
      rw [ih]

inductive JView (α : Type) where
  | id (r : Option Nat)
  | tick (r : Option (Bool × List (String × Nat × α × Bool × α × Int) × List (PJ.Order α) × List Nat))
  | unit (ok : Bool)
  | quotes (r : Option (List (String × String × PJ.Quote α)))
  | info (r : Option (String × String))
  | noRoute

abbrev JReq (α : Type) := Req (PJ.Order α) (List (PJ.Order α)) (Nat × Nat)
abbrev JAppS (α : Type) := App (PJ.Jura α) (JQ α)

def decFetchJ (j : Json α) : Option (List (String × String × PJ.Quote α)) :=
  match j.get? "quotes" with | some q => decQuotesJ q | none => none

def httpViewJ : JReq α → Rsp α → JView α
  | .init _, r => .id (typed decInit r)
  | .tick _ _, r => .tick (typed decTickJ r)
  | .insert _ _, r => .unit (typed (fun _ => some ()) r).isSome
  | .delete _ _, r => .unit (typed (fun _ => some ()) r).isSome
  | .fetch _, r => .quotes (typed decFetchJ r)
  | .info _, r => .info (typed decInfo r)
  | .now _, _ => .noRoute

def procViewJ (syms : String → List String) (a : JAppS α) : JReq α → JView α
  | .init n => .id (resId (init juraOps .repaired a n).1)
  | .tick i adm => .tick ((tick juraOps .repaired a i adm).1.map (fun x =>
      (x.1, x.2.1.map (fun f => (toString f.coin, f.oid, f.px, f.buy, f.sz, f.time)), x.2.2.1, x.2.2.2.1)))
  | .insert i o => .unit (insert juraOps a i o).1
  | .delete i d => .unit (delete juraOps a i d).1
  | .fetch i =>
    .quotes ((fetch a i).map (fun dq =>
      (syms (((a.backtests i).map (·.dataset)).getD "")).filterMap (fun s => (dq.2 s.toNat!).map (fun x => (s, s, x)))))
  | .info i => .info ((info a i).map (fun d => ("v1", d)))
  | .now _ => .noRoute

theorem client_step_jura (syms : String → List String) (a : JAppS α) (r : JReq α)
    (hp : ∀ n, r = .init n → (init juraOps .repaired a n).1 ≠ .panic) :
    httpViewJ r (handle juraOps (juraEnc true) .repaired syms a r).1 = procViewJ syms a r := by
  cases r with
  | init n => simp only [httpViewJ, procViewJ]; rw [client_init juraOps (juraEnc true) syms a n (hp n rfl)]
  | tick i adm => simp only [httpViewJ, procViewJ]; rw [client_tick_jura syms a i adm]
  | insert i o =>
    simp only [httpViewJ, procViewJ, handle]
    rcases h : insert juraOps a i o with ⟨r, a'⟩
    cases r <;> simp [typed, ok, bad]
  | delete i d =>
    simp only [httpViewJ, procViewJ, handle]
    rcases h : delete juraOps a i d with ⟨r, a'⟩
    cases r <;> simp [typed, ok, bad]
  | fetch i =>
    simp only [httpViewJ, procViewJ, handle]
    cases hf : fetch a i with
    | none => simp [typed, bad]
    | some dq =>
      obtain ⟨d, q⟩ := dq
      simp [typed, ok, decFetchJ, Json.get?, List.find?, client_fetch_jura]
  | info i => simp only [httpViewJ, procViewJ]; rw [client_info juraOps (juraEnc true) syms a i]
  | now i => rfl

def NoInitPanicJ : JAppS α → List (JReq α) → Prop
  | _, [] => True
  | a, r :: rs =>
    (∀ n, r = .init n → (init juraOps .repaired a n).1 ≠ .panic) ∧ NoInitPanicJ (step juraOps a (toOp r)).2 rs

def procViewsJ (syms : String → List String) : JAppS α → List (JReq α) → List (JView α)
  | _, [] => []
  | a, r :: rs => procViewJ syms a r :: procViewsJ syms (step juraOps a (toOp r)).2 rs

/-- **every request sequence** (Jura service): the typed results decoded from the response list are the
    in-process results, one by one -/
theorem client_history_jura (syms : String → List String) (rs : List (JReq α)) :
    ∀ a : JAppS α, NoInitPanicJ a rs →
      List.zipWith httpViewJ rs (hrun juraOps (juraEnc true) syms a rs).1 = procViewsJ syms a rs := by
  induction rs with
  | nil => intro a _; rfl
  | cons r rs ih =>
    intro a hp
    simp only [hrun, List.zipWith_cons_cons, procViewsJ]
    rw [client_step_jura syms a r hp.1, handle_state juraOps (juraEnc true) syms a r, ih _ hp.2]

end PHt
