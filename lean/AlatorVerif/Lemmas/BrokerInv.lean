import AlatorVerif.Model.Broker
import AlatorVerif.Lemmas.UistHist
import AlatorVerif.Lemmas.Thm
/-! history-level invariants of broker + server + exchange (prototype) -/
namespace PBk
open PU Proto

variable {σ α : Type} [DecidableEq σ] [Field α] [LinearOrder α] [IsStrictOrderedRing α] [FloorRing α]

/-! ### small facts about the map helpers -/
theorem isZero_iff (x : α) : isZero x = true ↔ x = 0 := by
  simp only [isZero, Bool.and_eq_true, decide_eq_true_eq]
  exact ⟨fun ⟨a, b⟩ => le_antisymm a b, fun h => by subst h; exact ⟨le_refl _, le_refl _⟩⟩

theorem qty_put (m : σ → Option α) (s k : σ) (v : α) :
    qty (put m s v) k = if k = s then v else qty m k := by
  unfold qty put
  by_cases hk : k = s
  · simp only [hk, if_true]
    by_cases hz : isZero v = true
    · rw [if_pos hz]; exact ((isZero_iff v).mp hz).symm
    · simp [hz]
  · simp [hk]

theorem qty_setRaw (m : σ → Option α) (s k : σ) (v : α) :
    qty (setRaw m s v) k = if k = s then v else qty m k := by
  unfold qty setRaw; by_cases hk : k = s <;> simp [hk]

/-! ### outstanding exposure of a list of orders -/
def signed (o : Order σ α) : α := match o.side with | .buy => o.shares | .sell => -o.shares
def outst (l : List (Order σ α)) (s : σ) : α := (l.map (fun o => if o.symbol = s then signed o else 0)).sum

theorem outst_append (l₁ l₂ : List (Order σ α)) (s : σ) : outst (l₁ ++ l₂) s = outst l₁ s + outst l₂ s := by
  simp [outst]

theorem outst_perm {l₁ l₂ : List (Order σ α)} (h : l₁.Perm l₂) (s : σ) : outst l₁ s = outst l₂ s := by
  unfold outst; exact (h.map _).sum_eq

theorem outst_filter (l : List (Order σ α)) (p : Order σ α → Bool) (s : σ) :
    outst l s = outst (l.filter p) s + outst (l.filter (fun o => !p o)) s := by
  induction l with
  | nil => simp [outst]
  | cons o os ih =>
    simp only [List.filter_cons]
    by_cases hp : p o = true
    · simp only [hp, if_true, Bool.not_true, Bool.false_eq_true, if_false]
      simp only [outst, List.map_cons, List.sum_cons] at ih ⊢; rw [ih]; ring
    · have hpf : p o = false := by simpa using hp
      simp only [hpf, Bool.false_eq_true, if_false, Bool.not_false, if_true]
      simp only [outst, List.map_cons, List.sum_cons] at ih ⊢; rw [ih]; ring

/-- net quantity of a list of executed trades, per symbol -/
def netQty (s : σ) (ts : List (Trade σ α)) : α :=
  (ts.map (fun t => if t.symbol = s then (match t.side with | .buy => t.quantity | .sell => -t.quantity) else 0)).sum
def netCash (ts : List (Trade σ α)) : α :=
  (ts.map (fun t => match t.side with | .buy => -t.value | .sell => t.value)).sum

theorem netQty_append (s : σ) (a b : List (Trade σ α)) : netQty s (a ++ b) = netQty s a + netQty s b := by
  simp [netQty]
theorem netCash_append (a b : List (Trade σ α)) : netCash (a ++ b) = netCash a + netCash b := by
  simp [netCash]

/-- the trades of a matching pass carry exactly the exposure of the orders that filled -/
theorem netQty_fills (quotes : σ → Option (Quote α)) (l : List (Order σ α)) (s : σ) :
    netQty s (l.filterMap (tradeOn quotes)) = outst (l.filter (fillsOn quotes)) s := by
  induction l with
  | nil => simp [netQty, outst]
  | cons o os ih =>
    rcases h : tradeOn quotes o with _ | t
    · have hf : fillsOn quotes o = false := by simp [fillsOn, h]
      simp only [List.filterMap_cons, h, List.filter_cons, hf, Bool.false_eq_true, if_false]; exact ih
    · have hf : fillsOn quotes o = true := by simp [fillsOn, h]
      have ht : t.symbol = o.symbol ∧ t.quantity = o.shares ∧ t.side = o.side := by
        unfold tradeOn at h
        cases hq : quotes o.symbol with
        | none => simp [hq] at h
        | some q =>
          simp only [hq] at h
          by_cases htr : triggers o q = true
          · simp only [htr, if_true, Option.some.injEq] at h; subst h; simp [execOne]
          · simp [htr] at h
      simp only [List.filterMap_cons, h, List.filter_cons, hf, if_true]
      simp only [netQty, outst, List.map_cons, List.sum_cons] at ih ⊢
      rw [ih, ht.1, ht.2.1, ht.2.2]; rfl


/-! ### send_order -/

theorem qty_pendAfter (b : Brk σ α) (o : Order σ α) (k : σ) :
    qty (pendAfter b o) k = qty b.pend k + (if o.symbol = k then signed o else 0) := by
  unfold pendAfter
  cases hp : b.pend o.symbol with
  | none =>
    simp only [qty_setRaw]
    by_cases hk : k = o.symbol
    · subst hk; simp [qty, hp, signed]; cases o.side <;> rfl
    · have : ¬ o.symbol = k := fun h => hk h.symm
      simp [hk, this]
  | some p =>
    simp only [qty_setRaw]
    by_cases hk : k = o.symbol
    · subst hk; simp [qty, hp, signed]; cases o.side <;> rfl
    · have : ¬ o.symbol = k := fun h => hk h.symm
      simp [hk, this]

/-- `send_order` either changes nothing, or books the exposure and appends the order to the buffer -/
theorem sendOrder_cases (v : Variant) (b : Brk σ α) (srv : Srv σ α) (o : Order σ α) :
    ((sendOrder v b srv o).2.1 = b ∧ (sendOrder v b srv o).2.2 = srv ∧ (sendOrder v b srv o).1 ≠ .sent) ∨
    ((sendOrder v b srv o).1 = .sent ∧ b.failed = false ∧
      (sendOrder v b srv o).2.1 = { b with pend := pendAfter b o } ∧
      (sendOrder v b srv o).2.2 =
          { srv with exch := { srv.exch with buffer := srv.exch.buffer ++ [{ o with id := none }] } }) := by
  unfold sendOrder
  by_cases hf : b.failed = true
  · left; simp [hf]
  · have hf' : b.failed = false := by simpa using hf
    simp only [hf', Bool.false_eq_true, if_false]
    cases hq : b.latest o.symbol with
    | none => left; simp
    | some q =>
      simp only []
      cases hc : sufficientCash v b o (match o.side with | .buy => q.ask | .sell => q.bid) with
      | panic => left; simp
      | err => left; simp
      | ok =>
        simp only []
        by_cases hh : sufficientHoldings b o = true
        · by_cases hn : nonsense o = true
          · left; simp [hh, hn]
          · right; simp [hh, hn]
        · left; simp [hh]


/-! ### the invariant -/

/-- `net` is cumulative successful deposits minus withdrawals (ghost) -/
structure WInv (b : Brk σ α) (srv : Srv σ α) (net : α) : Prop where
  ledger : b.cash = net + netCash b.log
  logs : b.log = srv.exch.log
  pend : ∀ s, qty b.pend s = outst (srv.exch.buffer ++ srv.exch.book.inner) s
  hold : ∀ s, qty b.hold s = netQty s b.log
  nozero : ∀ s v, b.hold s = some v → v ≠ 0
  book : BookInv srv.exch.book

/-- fields `send_order` never touches -/
structure Frame (b b' : Brk σ α) (srv srv' : Srv σ α) : Prop where
  cash : b'.cash = b.cash
  hold : b'.hold = b.hold
  log : b'.log = b.log
  failed : b'.failed = b.failed
  latest : b'.latest = b.latest
  costs : b'.costs = b.costs
  ebook : srv'.exch.book = srv.exch.book
  elog : srv'.exch.log = srv.exch.log
  pos : srv'.pos = srv.pos
  date : srv'.date = srv.date
  dates : srv'.dates = srv.dates
  quotes : srv'.quotes = srv.quotes

theorem Frame.refl (b : Brk σ α) (srv : Srv σ α) : Frame b b srv srv := ⟨rfl, rfl, rfl, rfl, rfl, rfl, rfl, rfl, rfl, rfl, rfl, rfl⟩
theorem Frame.trans {b b' b'' : Brk σ α} {s s' s'' : Srv σ α} (h : Frame b b' s s') (g : Frame b' b'' s' s'') :
    Frame b b'' s s'' :=
  ⟨g.cash.trans h.cash, g.hold.trans h.hold, g.log.trans h.log, g.failed.trans h.failed, g.latest.trans h.latest,
   g.costs.trans h.costs, g.ebook.trans h.ebook, g.elog.trans h.elog, g.pos.trans h.pos, g.date.trans h.date,
   g.dates.trans h.dates, g.quotes.trans h.quotes⟩

theorem sendOrder_inv (v : Variant) (b : Brk σ α) (srv : Srv σ α) (o : Order σ α) (net : α)
    (h : WInv b srv net) :
    WInv (sendOrder v b srv o).2.1 (sendOrder v b srv o).2.2 net ∧
    Frame b (sendOrder v b srv o).2.1 srv (sendOrder v b srv o).2.2 := by
  rcases sendOrder_cases v b srv o with ⟨h1, h2, _⟩ | ⟨_, _, h1, h2⟩
  · rw [h1, h2]; exact ⟨h, Frame.refl _ _⟩
  · rw [h1, h2]
    refine ⟨⟨h.ledger, h.logs, ?_, h.hold, h.nozero, h.book⟩, ⟨rfl, rfl, rfl, rfl, rfl, rfl, rfl, rfl, rfl, rfl, rfl, rfl⟩⟩
    intro s
    simp only [qty_pendAfter, h.pend s, outst_append]
    simp only [outst, List.map_cons, List.map_nil, List.sum_cons, List.sum_nil, signed]
    ring

theorem sendOrders_inv (v : Variant) (os : List (Order σ α)) : ∀ (b : Brk σ α) (srv : Srv σ α) (net : α),
    WInv b srv net →
    WInv (sendOrders v b srv os).1 (sendOrders v b srv os).2.1 net ∧
    Frame b (sendOrders v b srv os).1 srv (sendOrders v b srv os).2.1 := by
  induction os with
  | nil => intro b srv net h; exact ⟨h, Frame.refl _ _⟩
  | cons o os ih =>
    intro b srv net h
    obtain ⟨h1, f1⟩ := sendOrder_inv v b srv o net h
    obtain ⟨h2, f2⟩ := ih _ _ net h1
    exact ⟨h2, f1.trans f2⟩

theorem debit_noop (b : Brk σ α) (c : α) (h : b.cash < c) : debit b c = b := by simp [debit, h]

/-- C04: a liquidation request above free cash never moves cash, whatever it returns -/
theorem withdrawLiq_inv (v : Variant) (b : Brk σ α) (srv : Srv σ α) (ks : List σ) (req net : α)
    (h : WInv b srv net) (hreq : b.cash < req) :
    WInv (withdrawLiq v b srv ks req).2.1 (withdrawLiq v b srv ks req).2.2 net ∧
    Frame b (withdrawLiq v b srv ks req).2.1 srv (withdrawLiq v b srv ks req).2.2 := by
  unfold withdrawLiq
  split
  · simp only [debit_noop b req hreq]; exact ⟨h, Frame.refl _ _⟩
  · have hfin : ∀ (os : List (σ × α)) (rem : α),
        let r := (if isZero rem then
            let r := sendOrders v b srv (os.map (fun o => mkSell o.1 o.2))
            if r.2.2 then (CashEv.panic, r.1, r.2.1) else (CashEv.wOk req, r.1, r.2.1)
          else (CashEv.wFail req, debit b req, srv) : CashEv α × Brk σ α × Srv σ α)
        WInv r.2.1 r.2.2 net ∧ Frame b r.2.1 srv r.2.2 := by
      intro os rem
      by_cases hz : isZero rem = true
      · simp only [hz, if_true]
        have := sendOrders_inv v (os.map (fun o => mkSell o.1 o.2)) b srv net h
        split <;> exact this
      · simp only [hz, Bool.false_eq_true, if_false, debit_noop b req hreq]; exact ⟨h, Frame.refl _ _⟩
    split
    · exact hfin _ 0
    · exact hfin _ _
    · exact ⟨h, Frame.refl _ _⟩


/-! ### booking executed trades -/

theorem noZero_put (m : σ → Option α) (s : σ) (v : α) (h : ∀ k w, m k = some w → w ≠ 0) :
    ∀ k w, put m s v k = some w → w ≠ 0 := by
  intro k w hk
  unfold put at hk
  by_cases hks : k = s
  · simp only [hks, if_true] at hk
    by_cases hz : isZero v = true
    · simp [hz] at hk
    · simp only [hz] at hk; cases hk; exact fun hc => hz ((isZero_iff _).mpr hc)
  · simp only [hks, if_false] at hk; exact h k w hk

theorem book_fold_spec (ts : List (Trade σ α)) : ∀ (b : Brk σ α), (∀ s v, b.hold s = some v → v ≠ 0) →
    let b' := ts.foldl book b
    b'.cash = b.cash + netCash ts
    ∧ (∀ s, qty b'.hold s = qty b.hold s + netQty s ts)
    ∧ (∀ s, qty b'.pend s = qty b.pend s - netQty s ts)
    ∧ (∀ s v, b'.hold s = some v → v ≠ 0)
    ∧ b'.log = b.log ++ ts
    ∧ b'.failed = b.failed ∧ b'.latest = b.latest ∧ b'.costs = b.costs := by
  induction ts with
  | nil => intro b h; simp [netCash, netQty]; exact h
  | cons t ts ih =>
    intro b h
    have hb : ∀ s v, (book b t).hold s = some v → v ≠ 0 := by
      exact noZero_put _ _ _ h
    obtain ⟨h1, h2, h3, h4, h5, h6, h7, h8⟩ := ih (book b t) hb
    simp only [List.foldl_cons] at h1 h2 h3 h4 h5 h6 h7 h8 ⊢
    refine ⟨?_, ?_, ?_, h4, ?_, by rw [h6]; rfl, by rw [h7]; rfl, by rw [h8]; rfl⟩
    · rw [h1]; simp only [book, netCash, List.map_cons, List.sum_cons]
      cases t.side <;> simp <;> ring
    · intro s; rw [h2 s]; simp only [book, netQty, List.map_cons, List.sum_cons, qty_put]
      by_cases hs : s = t.symbol
      · subst hs; cases t.side <;> simp <;> ring
      · have : ¬ t.symbol = s := fun hc => hs hc.symm
        simp [hs, this]
    · intro s; rw [h3 s]; simp only [book, netQty, List.map_cons, List.sum_cons, qty_put]
      by_cases hs : s = t.symbol
      · subst hs; cases t.side <;> simp <;> ring
      · have : ¬ t.symbol = s := fun hc => hs hc.symm
        simp [hs, this]
    · rw [h5]; simp [book]

/-! ### the exchange tick -/

theorem insert_outst (b : Book σ α) (o : Order σ α) (s : σ) :
    outst (b.insert o).1.inner s = outst b.inner s + outst [o] s := by
  simp [Book.insert, outst, signed]

theorem admitFold_spec (adm : List (Order σ α)) : ∀ (b : Book σ α) (acc : List (Order σ α)),
    let r := adm.foldl (fun (acc : Book σ α × List (Order σ α)) o =>
      match acc.1.insert o with | (b', o') => (b', acc.2 ++ [o'])) (b, acc)
    (∀ s, outst r.1.inner s = outst b.inner s + outst adm s) ∧ (BookInv b → BookInv r.1) := by
  induction adm with
  | nil => intro b acc; simp [outst]
  | cons o os ih =>
    intro b acc
    simp only [List.foldl_cons]
    obtain ⟨h1, h2⟩ := ih (b.insert o).1 (acc ++ [(b.insert o).2])
    refine ⟨?_, fun hb => h2 (insert_inv b o hb)⟩
    intro s
    rw [h1 s, insert_outst]
    simp only [outst, List.map_cons, List.map_nil, List.sum_cons, List.sum_nil]; ring

/-- effect of `UistV1::tick` on exposure, log and the id invariant -/
theorem uist_tick_spec (e : Uist σ α) (quotes : σ → Option (Quote α)) (adm : List (Order σ α))
    (hinv : BookInv e.book) (hperm : adm.Perm e.buffer) :
    let r := e.tick quotes adm
    r.1.log = e.log ++ r.2.1 ∧ r.1.buffer = [] ∧ BookInv r.1.book ∧
    (∀ s, outst r.1.book.inner s = outst (e.buffer ++ e.book.inner) s - netQty s r.2.1) := by
  obtain ⟨e1, e2, e3⟩ := execute_spec e.book quotes hinv
  have hinv1 : BookInv (e.book.execute quotes).1 := by
    refine ⟨?_, ?_⟩
    · rw [e1]; exact pairwise_filter _ hinv.1
    · intro o ho; rw [e1] at ho; rw [e3]; exact hinv.2 o (List.mem_filter.mp ho).1
  obtain ⟨a1, a2⟩ := admitFold_spec adm (e.book.execute quotes).1 []
  refine ⟨rfl, rfl, a2 hinv1, ?_⟩
  intro s
  have key : outst (e.tick quotes adm).1.book.inner s
      = outst (e.book.execute quotes).1.inner s + outst adm s := a1 s
  have hts : (e.tick quotes adm).2.1 = (e.book.execute quotes).2 := rfl
  rw [key, hts, e1, e2, netQty_fills, outst_append, outst_perm hperm s,
      outst_filter e.book.inner (fillsOn quotes) s]
  ring


/-! ### check -/

theorem WInv.of_failed {b : Brk σ α} {srv : Srv σ α} {net : α} (h : WInv b srv net) (f : Bool) :
    WInv { b with failed := f } srv net := ⟨h.ledger, h.logs, h.pend, h.hold, h.nozero, h.book⟩

/-- C04 + C05 core: `check` (tick, quote merge, booking, rebalancing) preserves the ledger identity,
    the equality of the two trade logs, "pending = outstanding orders", "holdings = net traded" -/
theorem check_inv (v : Variant) (b : Brk σ α) (srv : Srv σ α) (adm : List (Order σ α)) (ks : List σ)
    (net : α) (h : WInv b srv net) (hperm : adm.Perm srv.exch.buffer) :
    WInv (check v b srv adm ks).1 (check v b srv adm ks).2.1 net := by
  obtain ⟨t1, t2, t3, t4⟩ := uist_tick_spec srv.exch (srv.quotes srv.date) adm h.book hperm
  -- the state after tick + quote merge + booking
  have hstep : ∀ (latest' : σ → Option (Quote α)),
      WInv ((srv.tick adm).1.2.foldl book { b with latest := latest' }) (srv.tick adm).2 net := by
    intro latest'
    obtain ⟨c1, c2, c3, c4, c5, _, _, _⟩ :=
      book_fold_spec (srv.tick adm).1.2 { b with latest := latest' } h.nozero
    have htr : (srv.tick adm).1.2 = (srv.exch.tick (srv.quotes srv.date) adm).2.1 := rfl
    have hex : (srv.tick adm).2.exch = (srv.exch.tick (srv.quotes srv.date) adm).1 := rfl
    refine ⟨?_, ?_, ?_, ?_, c4, by rw [hex]; exact t3⟩
    · rw [c1, c5, netCash_append]; simp only []; rw [h.ledger]; ring
    · rw [c5, hex, t1, htr]; simp only []; rw [h.logs]
    · intro s; rw [c3 s, hex, t2, List.nil_append, t4 s, htr]; simp only []; rw [h.pend s]
    · intro s; rw [c2 s, c5, netQty_append]; simp only []; rw [h.hold s]
  unfold check
  simp only []
  split
  · rename_i hneg
    set b1 := (srv.tick adm).1.2.foldl book
      { b with latest := fun s => match (srv.tick adm).2.quotes (srv.tick adm).2.date s with
                                   | some q => some q | none => b.latest s } with hb1
    have hw := hstep (fun s => match (srv.tick adm).2.quotes (srv.tick adm).2.date s with
                                   | some q => some q | none => b.latest s)
    rw [← hb1] at hw
    have hplus : b1.cash < b1.cash * (-1) + 1000.0 := by
      have : (0:α) ≤ 1000.0 := by norm_num
      have hneg' : b1.cash < 0 := hneg
      linarith
    obtain ⟨hl, _⟩ := withdrawLiq_inv v b1 (srv.tick adm).2 ks (b1.cash * (-1) + 1000.0) net hw hplus
    split
    · exact hl.of_failed true
    · exact hl
    · exact hl
  · exact hstep _


/-! ### every history -/

inductive WOp (σ α : Type) where
  | deposit (c : α)
  | withdraw (c : α)
  | send (o : Order σ α)
  | check (adm : List (Order σ α)) (ks : List σ)
  | liq (ks : List σ) (req : α)

structure World (σ α : Type) where
  b : Brk σ α
  srv : Srv σ α
  net : α            -- ghost: successful deposits minus successful withdrawals

def stepW (v : Variant) (w : World σ α) : WOp σ α → World σ α
  | .deposit c =>
    let r := deposit w.b c
    { w with b := r.2, net := match r.1 with | .dOk _ => w.net + c | _ => w.net }
  | .withdraw c =>
    let r := withdraw w.b c
    { w with b := r.2, net := match r.1 with | .wOk _ => w.net - c | _ => w.net }
  | .send o => let r := sendOrder v w.b w.srv o; { w with b := r.2.1, srv := r.2.2 }
  | .check adm ks => let r := check v w.b w.srv adm ks; { w with b := r.1, srv := r.2.1 }
  | .liq ks req => let r := withdrawLiq v w.b w.srv ks req; { w with b := r.2.1, srv := r.2.2 }

/-- what the environment must respect: the admission order is a permutation of the batch (monitored,
    §5.1), and client liquidation requests exceed free cash (the property's own restriction) -/
def Admissible (w : World σ α) : WOp σ α → Prop
  | .check adm _ => adm.Perm w.srv.exch.buffer
  | .liq _ req => w.b.cash < req
  | _ => True

def runW (v : Variant) : World σ α → List (WOp σ α) → World σ α
  | w, [] => w
  | w, op :: ops => runW v (stepW v w op) ops

def AdmissibleRun (v : Variant) : World σ α → List (WOp σ α) → Prop
  | _, [] => True
  | w, op :: ops => Admissible w op ∧ AdmissibleRun v (stepW v w op) ops

theorem stepW_inv (v : Variant) (w : World σ α) (op : WOp σ α) (h : WInv w.b w.srv w.net)
    (ha : Admissible w op) : WInv (stepW v w op).b (stepW v w op).srv (stepW v w op).net := by
  cases op with
  | deposit c =>
    simp only [stepW, deposit]
    by_cases hf : w.b.failed = true
    · simp only [hf, if_true]; exact h
    · simp only [hf, Bool.false_eq_true, if_false]
      exact ⟨by simp only []; rw [h.ledger]; ring, h.logs, h.pend, h.hold, h.nozero, h.book⟩
  | withdraw c =>
    simp only [stepW, withdraw]
    by_cases hf : w.b.failed = true
    · simp only [hf, if_true]; exact h
    · simp only [hf, Bool.false_eq_true, if_false]
      by_cases hc : w.b.cash < c
      · simp only [hc, if_true]; exact h
      · simp only [hc, if_false, debit]
        exact ⟨by simp only []; rw [h.ledger]; ring, h.logs, h.pend, h.hold, h.nozero, h.book⟩
  | send o => exact (sendOrder_inv v w.b w.srv o w.net h).1
  | check adm ks => exact check_inv v w.b w.srv adm ks w.net h ha
  | liq ks req => exact (withdrawLiq_inv v w.b w.srv ks req w.net h ha).1

/-- C04 / C05 for every history: from any state satisfying the invariant (in particular a freshly
    built broker on a fresh backtest), after any admissible sequence of deposit / withdraw / send_order /
    check / liquidation request, for both code variants:
    cash = deposits − withdrawals − Σ buys + Σ sells; the broker's log is the exchange's log;
    pending exposure = signed quantity of the orders still at the exchange; holdings = net traded. -/
theorem runW_inv (v : Variant) (ops : List (WOp σ α)) : ∀ (w : World σ α), WInv w.b w.srv w.net →
    AdmissibleRun v w ops → WInv (runW v w ops).b (runW v w ops).srv (runW v w ops).net := by
  induction ops with
  | nil => intro w h _; exact h
  | cons op ops ih => intro w h ha; exact ih _ (stepW_inv v w op h ha.1) ha.2

/-- non-vacuity: a freshly built broker on a fresh exchange satisfies the invariant -/
example (latest : σ → Option (Quote α)) (costs : List (Cost α)) (dates : List Int)
    (quotes : Int → σ → Option (Quote α)) (d0 : Int) :
    WInv (σ := σ) (α := α)
      { cash := 0, hold := fun _ => none, pend := fun _ => none, latest := latest, log := [], costs := costs, failed := false }
      { dates := dates, quotes := quotes, pos := 0, date := d0, exch := { book := { inner := [], last := 0 }, log := [], buffer := [] } }
      0 := by
  refine ⟨by simp [netCash], rfl, fun s => by simp [qty, outst], fun s => by simp [qty, netQty],
    fun s v h => by simp at h, ⟨List.Pairwise.nil, fun o ho => by simp at ho⟩⟩

end PBk
