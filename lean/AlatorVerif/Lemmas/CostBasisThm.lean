import AlatorVerif.Model.CostBasis
import AlatorVerif.Lemmas.BrokerInv
namespace PCB
open PU PBk
variable {σ α : Type} [DecidableEq σ] [Field α] [LinearOrder α] [IsStrictOrderedRing α]

def sQ (sym : σ) (t : Trade σ α) : α :=
  if t.symbol = sym then (match t.side with | .buy => t.quantity | .sell => -t.quantity) else 0
def sV (sym : σ) (t : Trade σ α) : α :=
  if t.symbol = sym then (match t.side with | .buy => t.value | .sell => -t.value) else 0
def netQ (sym : σ) (l : List (Trade σ α)) : α := (l.map (sQ sym)).sum
def netV (sym : σ) (l : List (Trade σ α)) : α := (l.map (sV sym)).sum

theorem isZero_iff' (x : α) : isZero x = true ↔ x = 0 := by
  simp only [isZero, Bool.and_eq_true, decide_eq_true_eq]
  exact ⟨fun ⟨a, b⟩ => le_antisymm a b, fun h => by subst h; exact ⟨le_refl _, le_refl _⟩⟩

/-- one step, in terms of signed quantity and value -/
theorem cbStep_eq (sym : σ) (q v : α) (t : Trade σ α) :
    cbStep sym (q, v) t =
      if t.symbol = sym then (if q + sQ sym t = 0 then (q + sQ sym t, 0) else (q + sQ sym t, v + sV sym t))
      else (q, v) := by
  unfold cbStep
  by_cases hs : t.symbol = sym
  · simp only [hs, if_true, sQ, sV]
    cases t.side
    · simp only []
      by_cases hz : q + t.quantity = 0
      · simp [hz, (isZero_iff' (0:α)).mpr rfl]
      · have : isZero (q + t.quantity) = false := by
          cases h : isZero (q + t.quantity); rfl; exact absurd ((isZero_iff' _).mp h) hz
        simp [hz, this]
    · simp only []
      have e : q - t.quantity = q + -t.quantity := by ring
      have e2 : v - t.value = v + -t.value := by ring
      by_cases hz : q + -t.quantity = 0
      · simp [e, hz, (isZero_iff' (0:α)).mpr rfl]
      · have : isZero (q + -t.quantity) = false := by
          cases h : isZero (q + -t.quantity); rfl; exact absurd ((isZero_iff' _).mp h) hz
        simp [e, e2, hz, this]
  · simp [hs]

/-- C11: the accumulated quantity is the net quantity, and the accumulated value is the net amount
    paid over the trades after the last prefix with net quantity zero -/
theorem fold_spec (sym : σ) (l : List (Trade σ α)) :
    ∃ j, j ≤ l.length ∧ netQ sym (l.take j) = 0 ∧
      (∀ k, j < k → k ≤ l.length → netQ sym (l.take k) ≠ 0) ∧
      l.foldl (cbStep sym) (0, 0) = (netQ sym l, netV sym (l.drop j)) := by
  induction l using List.reverseRecOn with
  | nil => exact ⟨0, le_refl _, by simp [netQ], by intro k h1 h2; simp at h2; omega, by simp [netQ, netV]⟩
  | append_singleton l t ih =>
    obtain ⟨j, hj, hflat, hmax, hfold⟩ := ih
    have hlen : (l ++ [t]).length = l.length + 1 := by simp
    have hnetQ : netQ sym (l ++ [t]) = netQ sym l + sQ sym t := by simp [netQ]
    have htake : ∀ k, k ≤ l.length → (l ++ [t]).take k = l.take k := by
      intro k hk; rw [List.take_append_of_le_length hk]
    rw [List.foldl_append, hfold]
    simp only [List.foldl_cons, List.foldl_nil, cbStep_eq]
    by_cases hq0 : netQ sym l + sQ sym t = 0
    · -- flat after this trade: the reference point moves to the end
      refine ⟨l.length + 1, by rw [hlen], by rw [← hlen, List.take_length, hnetQ]; exact hq0,
        by intro k h1 h2; rw [hlen] at h2; omega, ?_⟩
      have hdrop : (l ++ [t]).drop (l.length + 1) = [] := by rw [← hlen]; exact List.drop_length
      rw [hdrop, hnetQ]
      by_cases hs : t.symbol = sym
      · simp [hs, hq0, netV]
      · -- a trade in another symbol while flat: the accumulator is already (0, 0)
        have hsq : sQ sym t = 0 := by simp [sQ, hs]
        have hl0 : netQ sym l = 0 := by rw [hsq] at hq0; simpa using hq0
        have hjl : j = l.length := by
          by_contra hne
          exact hmax l.length (by omega) (le_refl _) (by rw [List.take_length]; exact hl0)
        subst hjl
        simp [hs, hsq, hl0, netV]
    · -- not flat: same reference point
      refine ⟨j, by rw [hlen]; omega, by rw [htake j hj]; exact hflat, ?_, ?_⟩
      · intro k h1 h2
        rw [hlen] at h2
        by_cases hk : k ≤ l.length
        · rw [htake k hk]; exact hmax k h1 hk
        · have : k = l.length + 1 := by omega
          subst this
          rw [← hlen, List.take_length, hnetQ]; exact hq0
      · have hdrop : (l ++ [t]).drop j = l.drop j ++ [t] := by
          rw [List.drop_append_of_le_length hj]
        rw [hdrop, hnetQ]
        by_cases hs : t.symbol = sym
        · simp [hs, hq0, netV]
        · have hsq : sQ sym t = 0 := by simp [sQ, hs]
          have hsv : sV sym t = 0 := by simp [sV, hs]
          simp [hs, hsq, hsv, netV]

/-- C11: cost basis is undefined exactly for a flat position, otherwise net paid / net quantity since
    the position was last flat -/
theorem costBasis_spec (sym : σ) (l : List (Trade σ α)) :
    (costBasis l sym = none ↔ netQ sym l = 0) ∧
    (netQ sym l ≠ 0 → ∃ j, j ≤ l.length ∧ netQ sym (l.take j) = 0 ∧
        (∀ k, j < k → k ≤ l.length → netQ sym (l.take k) ≠ 0) ∧
        costBasis l sym = some (netV sym (l.drop j) / netQ sym (l.drop j))) := by
  obtain ⟨j, hj, hflat, hmax, hfold⟩ := fold_spec sym l
  have hsplit : netQ sym l = netQ sym (l.take j) + netQ sym (l.drop j) := by
    conv_lhs => rw [← List.take_append_drop j l]
    simp [netQ]
  unfold costBasis
  rw [hfold]
  simp only []
  constructor
  · by_cases hz : netQ sym l = 0
    · simp [hz, (isZero_iff' (0:α)).mpr rfl]
    · have : isZero (netQ sym l) = false := by
        cases h : isZero (netQ sym l); rfl; exact absurd ((isZero_iff' _).mp h) hz
      simp [this, hz]
  · intro hz
    have : isZero (netQ sym l) = false := by
      cases h : isZero (netQ sym l); rfl; exact absurd ((isZero_iff' _).mp h) hz
    refine ⟨j, hj, hflat, hmax, ?_⟩
    simp only [this, Bool.false_eq_true, if_false]
    rw [hsplit, hflat, zero_add]

end PCB
