import AlatorVerif.Lemmas.BrokerInv
/-! C06 and C09 (absorbing part) on the validated broker model — prototype -/
namespace PBk
open PU Proto
variable {σ α : Type} [DecidableEq σ] [Field α] [LinearOrder α] [IsStrictOrderedRing α] [FloorRing α]

/-! ### C09: Failed is absorbing, and refusals in Failed are inert -/

theorem failed_deposit (b : Brk σ α) (c : α) (h : b.failed = true) :
    (deposit b c).2 = b ∧ ∃ x, (deposit b c).1 = .opFail x := by simp [deposit, h]

theorem failed_withdraw (b : Brk σ α) (c : α) (h : b.failed = true) :
    (withdraw b c).2 = b ∧ ∃ x, (withdraw b c).1 = .opFail x := by simp [withdraw, h]

theorem failed_send (v : Variant) (b : Brk σ α) (srv : Srv σ α) (o : Order σ α) (h : b.failed = true) :
    sendOrder v b srv o = (.invalid, b, srv) := by simp [sendOrder, h]

theorem withdrawLiq_failed (v : Variant) (b : Brk σ α) (srv : Srv σ α) (ks : List σ) (req : α) :
    (withdrawLiq v b srv ks req).2.1.failed = b.failed := by
  -- every path returns `b`, `debit b _` or the result of `sendOrders`, none of which touches the flag
  have hs : ∀ os, (sendOrders v b srv os).1.failed = b.failed := by
    intro os
    induction os generalizing b srv with
    | nil => rfl
    | cons o os ih =>
      simp only [sendOrders]
      rw [ih]
      rcases sendOrder_cases v b srv o with ⟨h1, _, _⟩ | ⟨_, _, h1, _⟩ <;> rw [h1]
  have hd : (debit b req).failed = b.failed := by unfold debit; split <;> rfl
  unfold withdrawLiq
  split
  · exact hd
  · have hfin : ∀ (os : List (σ × α)) (rem : α),
        ((if isZero rem then
            let r := sendOrders v b srv (os.map (fun o => mkSell o.1 o.2))
            if r.2.2 then (CashEv.panic, r.1, r.2.1) else (CashEv.wOk req, r.1, r.2.1)
          else (CashEv.wFail req, debit b req, srv) : CashEv α × Brk σ α × Srv σ α)).2.1.failed = b.failed := by
      intro os rem
      by_cases hz : isZero rem = true
      · simp only [hz, if_true]; split <;> exact hs _
      · simp only [hz, Bool.false_eq_true, if_false]; exact hd
    split
    · exact hfin _ 0
    · exact hfin _ _
    · rfl

theorem check_failed_absorbing (v : Variant) (b : Brk σ α) (srv : Srv σ α) (adm : List (Order σ α))
    (ks : List σ) (h : b.failed = true) : (check v b srv adm ks).1.failed = true := by
  have hb : ∀ (latest' : σ → Option (Quote α)) (ts : List (Trade σ α)),
      (ts.foldl book { b with latest := latest' }).failed = true := by
    intro l ts
    have : ∀ (b0 : Brk σ α), b0.failed = true → (ts.foldl book b0).failed = true := by
      induction ts with
      | nil => intro b0 h0; exact h0
      | cons t ts ih => intro b0 h0; exact ih (book b0 t) (by simp [book, h0])
    exact this _ h
  unfold check
  simp only []
  split
  · split
    · rfl
    · rw [withdrawLiq_failed]; exact hb _ _
    · rw [withdrawLiq_failed]; exact hb _ _
  · exact hb _ _

/-- C09: once Failed, always Failed — for every operation, hence (by induction) every history -/
theorem stepW_failed (v : Variant) (w : World σ α) (op : WOp σ α) (h : w.b.failed = true) :
    (stepW v w op).b.failed = true := by
  cases op with
  | deposit c => simp only [stepW]; rw [(failed_deposit w.b c h).1]; exact h
  | withdraw c => simp only [stepW]; rw [(failed_withdraw w.b c h).1]; exact h
  | send o => simp only [stepW]; rw [failed_send v w.b w.srv o h]; exact h
  | check adm ks => exact check_failed_absorbing v w.b w.srv adm ks h
  | liq ks req => simp only [stepW]; rw [withdrawLiq_failed]; exact h

theorem runW_failed (v : Variant) (ops : List (WOp σ α)) : ∀ (w : World σ α), w.b.failed = true →
    (runW v w ops).b.failed = true := by
  induction ops with
  | nil => intro w h; exact h
  | cons op ops ih => intro w h; exact ih _ (stepW_failed v w op h)

/-! ### C06: gatekeeping (repaired variant) -/

/-- the property's acceptance condition, word for word -/
def Accepts (b : Brk σ α) (o : Order σ α) (q : Quote α) : Prop :=
  b.failed = false ∧ o.shares ≠ 0 ∧
  (o.side = .buy → o.shares * q.ask < b.cash) ∧
  (o.kind = .market → o.side = .sell → ∀ h, b.hold o.symbol = some h → o.shares ≤ h)

theorem sufficientCash_repaired (b : Brk σ α) (o : Order σ α) (price : α) :
    sufficientCash .repaired b o price =
      (match o.side with
       | .buy => if o.shares * price < b.cash then Chk.ok else Chk.err
       | .sell => Chk.ok) := by
  obtain ⟨id, kind, side, sym, sh, pr⟩ := o
  cases kind <;> cases side <;> simp [sufficientCash, Variant.repaired]

theorem sufficientHoldings_iff (b : Brk σ α) (o : Order σ α) :
    sufficientHoldings b o = true ↔
      (o.kind = .market → o.side = .sell → ∀ h, b.hold o.symbol = some h → o.shares ≤ h) := by
  obtain ⟨id, kind, side, sym, sh, pr⟩ := o
  cases kind <;> cases side <;> simp [sufficientHoldings]
  cases hh : b.hold sym <;> simp

/-- the event of `send_order`, in closed form (repaired tree, quoted symbol) -/
theorem sendOrder_event (b : Brk σ α) (srv : Srv σ α) (o : Order σ α) (q : Quote α)
    (hq : b.latest o.symbol = some q) :
    (sendOrder .repaired b srv o).1 =
      if b.failed = true then .invalid
      else if o.side = .buy ∧ ¬ (o.shares * q.ask < b.cash) then .invalid
      else if sufficientHoldings b o = false then .invalid
      else if nonsense o = true then .invalid else .sent := by
  unfold sendOrder
  by_cases hf : b.failed = true
  · simp [hf]
  · have hf' : b.failed = false := by simpa using hf
    simp only [hf', Bool.false_eq_true, if_false, hq, sufficientCash_repaired]
    cases hs : o.side with
    | sell =>
      simp only [reduceCtorEq, false_and, if_false]
      by_cases hh : sufficientHoldings b o = true
      · by_cases hn : nonsense o = true <;> simp [hh, hn]
      · simp [hh]
    | buy =>
      simp only [true_and]
      by_cases hc : o.shares * q.ask < b.cash
      · simp only [hc, if_true, not_true_eq_false, if_false]
        by_cases hh : sufficientHoldings b o = true
        · by_cases hn : nonsense o = true <;> simp [hh, hn]
        · simp [hh]
      · simp [hc]

/-- C06: for every order type, a well-formed order (its symbol has a last-seen quote) is answered with
    an event, never a panic; it is forwarded iff `Accepts`; forwarded = appended once, unchanged, to
    the exchange's buffer; refused = nothing changes -/
theorem sendOrder_iff (b : Brk σ α) (srv : Srv σ α) (o : Order σ α) (q : Quote α)
    (hq : b.latest o.symbol = some q) :
    (sendOrder .repaired b srv o).1 ≠ .panic ∧
    ((sendOrder .repaired b srv o).1 = .sent ↔ Accepts b o q) ∧
    ((sendOrder .repaired b srv o).1 = .sent →
        (sendOrder .repaired b srv o).2.2.exch.buffer = srv.exch.buffer ++ [{ o with id := none }] ∧
        (sendOrder .repaired b srv o).2.2.exch.book = srv.exch.book) ∧
    ((sendOrder .repaired b srv o).1 ≠ .sent →
        (sendOrder .repaired b srv o).2.1 = b ∧ (sendOrder .repaired b srv o).2.2 = srv) := by
  have hcases := sendOrder_cases .repaired b srv o
  have hev := sendOrder_event b srv o q hq
  have hnz : nonsense o = true ↔ o.shares = 0 := isZero_iff _
  have hhold := sufficientHoldings_iff b o
  refine ⟨?_, ?_, ?_, ?_⟩
  · rw [hev]; split_ifs <;> simp
  · rw [hev]; unfold Accepts
    by_cases hf : b.failed = true
    · rw [if_pos hf]
      constructor
      · intro h; cases h
      · intro ⟨h1, _⟩; rw [hf] at h1; cases h1
    · have hf' : b.failed = false := by simpa using hf
      rw [if_neg hf]
      by_cases hb : o.side = .buy ∧ ¬ (o.shares * q.ask < b.cash)
      · rw [if_pos hb]
        constructor
        · intro h; cases h
        · intro ⟨_, _, h2, _⟩; exact absurd (h2 hb.1) hb.2
      · rw [if_neg hb]
        have hb' : o.side = .buy → o.shares * q.ask < b.cash := by
          intro hs; by_contra hc; exact hb ⟨hs, hc⟩
        by_cases hh : sufficientHoldings b o = true
        · have hh' := hhold.mp hh
          have hhn : ¬ sufficientHoldings b o = false := by simp [hh]
          rw [if_neg hhn]
          by_cases hn : nonsense o = true
          · rw [if_pos hn]
            constructor
            · intro h; cases h
            · intro ⟨_, h0, _⟩; exact absurd (hnz.mp hn) h0
          · rw [if_neg hn]
            have h0 : o.shares ≠ 0 := fun hc => hn (hnz.mpr hc)
            exact ⟨fun _ => ⟨hf', h0, hb', hh'⟩, fun _ => rfl⟩
        · have hhf : sufficientHoldings b o = false := by simpa using hh
          rw [if_pos hhf]
          constructor
          · intro h; cases h
          · intro ⟨_, _, _, h3⟩; exact absurd (hhold.mpr h3) hh
  · intro hsent
    rcases hcases with ⟨_, _, hne⟩ | ⟨_, _, _, h2⟩
    · exact absurd hsent hne
    · rw [h2]; exact ⟨rfl, rfl⟩
  · intro hns
    rcases hcases with ⟨h1, h2, _⟩ | ⟨hs, _⟩
    · exact ⟨h1, h2⟩
    · exact absurd hs hns

end PBk
