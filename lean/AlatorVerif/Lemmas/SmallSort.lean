/-!
# The small-slice branch of `slice::sort_by` under the one-sided comparator (core only)

`sort_order_buffer` (both exchanges) calls `sort_by(|a, _b| if a is a sell { Less } else { Greater })`. The
comparator is not a total order, so the standard library promises nothing about the result, and the C17
theorems therefore quantify over *every* admission order that is a sell-first permutation of the batch,
with the actual order read from the implementation and checked on every batch (DESIGN §5).

This file shows that the assumption is not an empty hope for the batches a strategy usually sends: for
slices of at most 20 elements the standard library (1.95, `smallsort::insertion_sort_shift_left`) runs a
plain insertion sort — for each `i`, `insert_tail` moves `v[i]` left while `is_less(v[i], v[j-1])`, with
`is_less(a, b) = (compare(a, b) == Less)`. Modelled below for an arbitrary `is_less`; instantiated with the
one-sided comparator it returns the sells in *reverse* order of arrival followed by the buys in order of
arrival, which is a sell-first permutation of the batch. (The library's algorithm is trusted base, not
repository code; nothing in the C17 theorems depends on this file, it discharges their hypothesis for
one algorithm.)
-/
namespace SmallSort
variable {β : Type}

/-- `insert_tail` on the reversed sorted prefix (its head is the element just left of the tail):
    shift left while `isLess tail prev` -/
def insRev (isLess : β → β → Bool) (x : β) : List β → List β
  | [] => [x]
  | p :: ps => if isLess x p then p :: insRev isLess x ps else x :: p :: ps

/-- `insertion_sort_shift_left(v, 1, is_less)`: the sorted prefix grows by one element at a time -/
def sortRev (isLess : β → β → Bool) : List β → List β → List β
  | acc, [] => acc
  | acc, x :: xs => sortRev isLess (insRev isLess x acc) xs

def insertionSort (isLess : β → β → Bool) (v : List β) : List β := (sortRev isLess [] v).reverse

/-- the comparator of `sort_order_buffer`, as `is_less`: it looks at its first argument only -/
def oneSided (isSell : β → Bool) : β → β → Bool := fun a _ => isSell a

theorem insRev_sell (isSell : β → Bool) (x : β) (h : isSell x = true) :
    ∀ acc : List β, insRev (oneSided isSell) x acc = acc ++ [x]
  | [] => rfl
  | p :: ps => by simp [insRev, oneSided, h, insRev_sell isSell x h ps]

theorem insRev_buy (isSell : β → Bool) (x : β) (h : isSell x = false) :
    ∀ acc : List β, insRev (oneSided isSell) x acc = x :: acc
  | [] => rfl
  | p :: ps => by simp [insRev, oneSided, h]

/-- closed form of the loop: buys pile up (reversed) in front of the reversed prefix, sells behind it -/
theorem sortRev_closed (isSell : β → Bool) : ∀ (v acc : List β),
    sortRev (oneSided isSell) acc v
      = (v.filter (fun x => !isSell x)).reverse ++ acc ++ v.filter isSell
  | [], acc => by simp [sortRev]
  | x :: xs, acc => by
    cases h : isSell x
    · rw [sortRev, insRev_buy isSell x h, sortRev_closed isSell xs]
      simp [h]
    · rw [sortRev, insRev_sell isSell x h, sortRev_closed isSell xs]
      simp [h]

/-- **what the small-slice sort returns under the one-sided comparator**: the sells, last arrived first,
    then the buys in order of arrival -/
theorem insertionSort_oneSided (isSell : β → Bool) (v : List β) :
    insertionSort (oneSided isSell) v = (v.filter isSell).reverse ++ v.filter (fun x => !isSell x) := by
  simp [insertionSort, sortRev_closed]

end SmallSort
