import AlatorVerif.Model.Strategy
import AlatorVerif.Lemmas.FailedIff
/-! C16 on the validated strategy model: exactly N updates; trading alone creates no value — prototype -/
namespace PSt
open PU Proto PBk
variable {σ α : Type} [DecidableEq σ] [Field α] [LinearOrder α] [IsStrictOrderedRing α] [FloorRing α]

/-! ### the clock inside the strategy -/

theorem sendOrder_frame (v : Variant) (b : Brk σ α) (srv : Srv σ α) (o : Order σ α) :
    Frame b (sendOrder v b srv o).2.1 srv (sendOrder v b srv o).2.2 := by
  rcases sendOrder_cases v b srv o with ⟨e1, e2, _⟩ | ⟨_, _, e1, e2⟩
  · rw [e1, e2]; exact Frame.refl _ _
  · rw [e1, e2]; exact ⟨rfl, rfl, rfl, rfl, rfl, rfl, rfl, rfl, rfl, rfl, rfl, rfl⟩

theorem sendOrders_Frame (v : Variant) (os : List (Order σ α)) : ∀ (b : Brk σ α) (srv : Srv σ α),
    Frame b (sendOrders v b srv os).1 srv (sendOrders v b srv os).2.1 := by
  induction os with
  | nil => intro b srv; exact Frame.refl _ _
  | cons o os ih => intro b srv; exact (sendOrder_frame v b srv o).trans (ih _ _)

theorem sendOrders_frame (v : Variant) (os : List (Order σ α)) (b : Brk σ α) (srv : Srv σ α) :
    (sendOrders v b srv os).2.1.pos = srv.pos ∧ (sendOrders v b srv os).2.1.dates = srv.dates ∧
    (sendOrders v b srv os).2.1.date = srv.date ∧ (sendOrders v b srv os).2.1.quotes = srv.quotes ∧
    (sendOrders v b srv os).1.cash = b.cash ∧ (sendOrders v b srv os).1.hold = b.hold ∧
    (sendOrders v b srv os).1.latest = b.latest := by
  have f := sendOrders_Frame v os b srv
  exact ⟨f.pos, f.dates, f.date, f.quotes, f.cash, f.hold, f.latest⟩

theorem rebalance_frame (v : Variant) (s : Strat σ α) (ks : List σ) :
    (rebalance v s ks).srv.pos = s.srv.pos ∧ (rebalance v s ks).srv.dates = s.srv.dates ∧
    (rebalance v s ks).srv.date = s.srv.date ∧ (rebalance v s ks).srv.quotes = s.srv.quotes ∧
    (rebalance v s ks).b.cash = s.b.cash ∧ (rebalance v s ks).b.hold = s.b.hold ∧
    (rebalance v s ks).b.latest = s.b.latest ∧ (rebalance v s ks).hist = s.hist ∧ (rebalance v s ks).ncf = s.ncf := by
  unfold rebalance
  split
  · exact ⟨rfl, rfl, rfl, rfl, rfl, rfl, rfl, rfl, rfl⟩
  · rename_i os _
    obtain ⟨h1, h2, h3, h4, h5, h6, h7⟩ := sendOrders_frame v os s.b s.srv
    exact ⟨h1, h2, h3, h4, h5, h6, h7, rfl, rfl⟩

theorem check_clock (v : Variant) (b : Brk σ α) (srv : Srv σ α) (adm : List (Order σ α)) (ks : List σ) :
    (check v b srv adm ks).2.1.pos = srv.pos + 1 ∧ (check v b srv adm ks).2.1.dates = srv.dates ∧
    (check v b srv adm ks).2.1.date =
      (if srv.pos + 1 < srv.dates.length then srv.dates.getD (srv.pos + 1) srv.date else srv.date) := by
  have ht : (srv.tick adm).2.pos = srv.pos + 1 ∧ (srv.tick adm).2.dates = srv.dates ∧
      (srv.tick adm).2.date = (if srv.pos + 1 < srv.dates.length then srv.dates.getD (srv.pos + 1) srv.date else srv.date) := by
    simp [Srv.tick]
  have hcheck : check v b srv adm ks =
      (if (afterBooking b srv adm).cash < 0 then
        let w := withdrawLiq v (afterBooking b srv adm) (srv.tick adm).2 ks ((afterBooking b srv adm).cash * (-1) + 1000.0)
        match w.1 with
        | .wFail _ => ({ w.2.1 with failed := true }, w.2.2, false)
        | .panic => (w.2.1, w.2.2, true)
        | _ => (w.2.1, w.2.2, false)
      else (afterBooking b srv adm, (srv.tick adm).2, false)) := rfl
  rw [hcheck]
  split
  · -- the liquidation only touches pending exposure and the exchange buffer
    have hl : ∀ req, (withdrawLiq v (afterBooking b srv adm) (srv.tick adm).2 ks req).2.2.pos = (srv.tick adm).2.pos ∧
        (withdrawLiq v (afterBooking b srv adm) (srv.tick adm).2 ks req).2.2.dates = (srv.tick adm).2.dates ∧
        (withdrawLiq v (afterBooking b srv adm) (srv.tick adm).2 ks req).2.2.date = (srv.tick adm).2.date := by
      intro req
      unfold withdrawLiq
      split
      · exact ⟨rfl, rfl, rfl⟩
      · have hfin : ∀ (os : List (σ × α)) (rem : α),
            let r := ((if isZero rem then
                let r := sendOrders v (afterBooking b srv adm) (srv.tick adm).2 (os.map (fun o => mkSell o.1 o.2))
                if r.2.2 then (CashEv.panic, r.1, r.2.1) else (CashEv.wOk req, r.1, r.2.1)
              else (CashEv.wFail req, debit (afterBooking b srv adm) req, (srv.tick adm).2)) : CashEv α × Brk σ α × Srv σ α)
            r.2.2.pos = (srv.tick adm).2.pos ∧ r.2.2.dates = (srv.tick adm).2.dates ∧ r.2.2.date = (srv.tick adm).2.date := by
          intro os rem
          by_cases hz : isZero rem = true
          · simp only [hz, if_true]
            obtain ⟨h1, h2, h3, _⟩ := sendOrders_frame v (os.map (fun o => mkSell o.1 o.2)) (afterBooking b srv adm) (srv.tick adm).2
            split <;> exact ⟨h1, h2, h3⟩
          · simp [hz]
        split
        · exact hfin _ 0
        · exact hfin _ _
        · exact ⟨rfl, rfl, rfl⟩
    obtain ⟨l1, l2, l3⟩ := hl ((afterBooking b srv adm).cash * (-1) + 1000.0)
    simp only []
    split <;> (simp only []; rw [l1, l2, l3]; exact ht)
  · exact ht

/-- one `update` advances the clock by exactly one position and appends exactly one snapshot, dated with
    the clock after the tick -/
theorem update_clock (v : Variant) (s : Strat σ α) (adm : List (Order σ α)) (ks1 ks2 : List σ) :
    (update v s adm ks1 ks2).srv.pos = s.srv.pos + 1 ∧
    (update v s adm ks1 ks2).srv.dates = s.srv.dates ∧
    (update v s adm ks1 ks2).hist.length = s.hist.length + 1 ∧
    (∃ sn, (update v s adm ks1 ks2).hist = s.hist ++ [sn] ∧ sn.date = (update v s adm ks1 ks2).srv.date ∧
        sn.value = totalValue (update v s adm ks1 ks2).b ks2) := by
  obtain ⟨c1, c2, _⟩ := check_clock v s.b s.srv adm ks1
  set s1 : Strat σ α := { s with b := (check v s.b s.srv adm ks1).1, srv := (check v s.b s.srv adm ks1).2.1,
                                  panicked := s.panicked || (check v s.b s.srv adm ks1).2.2 } with hs1
  obtain ⟨r1, r2, _, _, _, _, _, r8, _⟩ := rebalance_frame v s1 ks2
  have hu : update v s adm ks1 ks2 =
      { rebalance v s1 ks2 with hist := (rebalance v s1 ks2).hist ++
          [{ date := (rebalance v s1 ks2).srv.date, value := totalValue (rebalance v s1 ks2).b ks2,
             ncf := (rebalance v s1 ks2).ncf }] } := rfl
  rw [hu]
  refine ⟨by simp only []; rw [r1]; exact c1, by simp only []; rw [r2]; exact c2, ?_, ?_⟩
  · simp only [List.length_append, List.length_singleton]; rw [r8]
  · exact ⟨_, by simp only []; rw [r8], rfl, rfl⟩

/-- C16: `k` updates from a fresh backtest leave the clock at position `k`; so `has_next` holds exactly
    while fewer than N updates were made — the loop performs exactly N updates and stops -/
theorem updates_pos (v : Variant) :
    ∀ (orc : List (List (Order σ α) × List σ × List σ)) (s : Strat σ α),
    let s' := orc.foldl (fun s o => update v s o.1 o.2.1 o.2.2) s
    s'.srv.pos = s.srv.pos + orc.length ∧ s'.srv.dates = s.srv.dates ∧ s'.hist.length = s.hist.length + orc.length := by
  intro orc
  induction orc with
  | nil => intro s; simp
  | cons o orc ih =>
    intro s
    simp only [List.foldl_cons, List.length_cons]
    obtain ⟨u1, u2, u3, _⟩ := update_clock v s o.1 o.2.1 o.2.2
    obtain ⟨h1, h2, h3⟩ := ih (update v s o.1 o.2.1 o.2.2)
    refine ⟨by rw [h1, u1]; omega, by rw [h2, u2], by rw [h3, u3]; omega⟩

theorem hasNext_iff (v : Variant) (orc : List (List (Order σ α) × List σ × List σ)) (s : Strat σ α)
    (h0 : s.srv.pos = 0) :
    hasNext (orc.foldl (fun s o => update v s o.1 o.2.1 o.2.2) s) = true ↔ orc.length < s.srv.dates.length := by
  obtain ⟨h1, h2, _⟩ := updates_pos v orc s
  simp only [hasNext, decide_eq_true_eq, h1, h2, h0]; omega


/-! ### trading alone creates no value -/

/-- book value of the portfolio at fixed per-symbol prices `p` -/
def V (p : σ → α) (b : Brk σ α) (ks : List σ) : α := b.cash + (ks.map (fun k => p k * qty b.hold k)).sum

theorem sum_update (p f : σ → α) (s : σ) (x : α) : ∀ (ks : List σ), ks.Nodup → s ∈ ks →
    (ks.map (fun k => p k * (if k = s then x else f k))).sum = (ks.map (fun k => p k * f k)).sum + p s * (x - f s) := by
  intro ks
  induction ks with
  | nil => intro _ h; simp at h
  | cons k ks ih =>
    intro hn hm
    rw [List.nodup_cons] at hn
    simp only [List.map_cons, List.sum_cons]
    by_cases hk : k = s
    · subst hk
      have : (ks.map (fun j => p j * (if j = k then x else f j))) = ks.map (fun j => p j * f j) := by
        apply List.map_congr_left
        intro j hj
        have : j ≠ k := fun h => hn.1 (h ▸ hj)
        simp [this]
      rw [this]; simp; ring
    · have hm' : s ∈ ks := by
        rcases List.mem_cons.mp hm with h | h
        · exact absurd h.symm hk
        · exact h
      rw [ih hn.2 hm']; simp [hk]; ring

/-- booking a trade executed at the valuation price leaves the book value unchanged -/
theorem book_V (p : σ → α) (b : Brk σ α) (t : Trade σ α) (ks : List σ) (hn : ks.Nodup) (hm : t.symbol ∈ ks)
    (hv : t.value = p t.symbol * t.quantity) : V p (book b t) ks = V p b ks := by
  unfold V
  have hq : ∀ k, qty (book b t).hold k = if k = t.symbol then
      (match t.side with | .buy => qty b.hold t.symbol + t.quantity | .sell => qty b.hold t.symbol - t.quantity)
      else qty b.hold k := by
    intro k; simp only [book, qty_put]
    split
    · cases t.side <;> rfl
    · rfl
  simp only [hq]
  rw [sum_update p (qty b.hold) t.symbol _ ks hn hm]
  cases hs : t.side <;> simp [book, hs, hv] <;> ring

theorem book_fold_V (p : σ → α) (ks : List σ) (hn : ks.Nodup) (ts : List (Trade σ α)) : ∀ (b : Brk σ α),
    (∀ t ∈ ts, t.symbol ∈ ks ∧ t.value = p t.symbol * t.quantity) → V p (ts.foldl book b) ks = V p b ks := by
  induction ts with
  | nil => intro b _; rfl
  | cons t ts ih =>
    intro b h
    simp only [List.foldl_cons]
    rw [ih (book b t) (fun t' ht' => h t' (by simp [ht'])), book_V p b t ks hn (h t (by simp)).1 (h t (by simp)).2]

/-- in a constant-price, zero-spread world every fill is at the valuation price -/
theorem tick_trades_at_p (p : σ → α) (srv : Srv σ α) (adm : List (Order σ α)) (hinv : BookInv srv.exch.book)
    (hc : ∀ d s q, srv.quotes d s = some q → q.bid = p s ∧ q.ask = p s) :
    ∀ t ∈ (srv.tick adm).1.2, t.value = p t.symbol * t.quantity := by
  intro t ht
  have htr : (srv.tick adm).1.2 = srv.exch.book.inner.filterMap (tradeOn (srv.quotes srv.date)) :=
    (execute_spec srv.exch.book (srv.quotes srv.date) hinv).2.1
  rw [htr] at ht
  obtain ⟨o, _, ho⟩ := List.mem_filterMap.mp ht
  unfold tradeOn at ho
  cases hq : srv.quotes srv.date o.symbol with
  | none => simp [hq] at ho
  | some q =>
    simp only [hq] at ho
    by_cases htg : triggers o q = true
    · simp only [htg, if_true, Option.some.injEq] at ho
      subst ho
      obtain ⟨h1, h2⟩ := hc _ _ _ hq
      cases hs : o.side <;> simp [execOne, hs, h1, h2]
    · simp [htg] at ho

/-- C16: with constant prices and zero spread, `check` (tick, booking, rebalancing) and order submission
    leave the book value of the portfolio unchanged, for every cost list and either code variant -/
theorem check_V (v : Variant) (p : σ → α) (b : Brk σ α) (srv : Srv σ α) (adm : List (Order σ α)) (ks1 ks : List σ)
    (hn : ks.Nodup) (hinv : BookInv srv.exch.book)
    (hc : ∀ d s q, srv.quotes d s = some q → q.bid = p s ∧ q.ask = p s)
    (hcover : ∀ t ∈ (srv.tick adm).1.2, t.symbol ∈ ks) :
    V p (check v b srv adm ks1).1 ks = V p b ks := by
  have hprice := tick_trades_at_p p srv adm hinv hc
  have hb1 : V p (afterBooking b srv adm) ks = V p b ks := by
    unfold afterBooking
    rw [book_fold_V p ks hn _ _ (fun t ht => ⟨hcover t ht, hprice t ht⟩)]
    rfl
  -- rebalancing touches neither cash nor holdings
  have hframe : (check v b srv adm ks1).1.cash = (afterBooking b srv adm).cash ∧
      (check v b srv adm ks1).1.hold = (afterBooking b srv adm).hold := by
    have hcheck : check v b srv adm ks1 =
        (if (afterBooking b srv adm).cash < 0 then
          let w := withdrawLiq v (afterBooking b srv adm) (srv.tick adm).2 ks1 ((afterBooking b srv adm).cash * (-1) + 1000.0)
          match w.1 with
          | .wFail _ => ({ w.2.1 with failed := true }, w.2.2, false)
          | .panic => (w.2.1, w.2.2, true)
          | _ => (w.2.1, w.2.2, false)
        else (afterBooking b srv adm, (srv.tick adm).2, false)) := rfl
    rw [hcheck]
    split
    · rename_i hneg
      -- the request exceeds cash, so `debit` is a no-op and only orders are queued
      have hplus : (afterBooking b srv adm).cash < (afterBooking b srv adm).cash * (-1) + 1000.0 := by
        have : (0:α) ≤ 1000.0 := by norm_num
        linarith
      have hw : ∀ req, (afterBooking b srv adm).cash < req →
          (withdrawLiq v (afterBooking b srv adm) (srv.tick adm).2 ks1 req).2.1.cash = (afterBooking b srv adm).cash ∧
          (withdrawLiq v (afterBooking b srv adm) (srv.tick adm).2 ks1 req).2.1.hold = (afterBooking b srv adm).hold := by
        intro req hreq
        unfold withdrawLiq
        split
        · rw [debit_noop _ _ hreq]; exact ⟨rfl, rfl⟩
        · have hfin : ∀ (os : List (σ × α)) (rem : α),
              let r := ((if isZero rem then
                  let r := sendOrders v (afterBooking b srv adm) (srv.tick adm).2 (os.map (fun o => mkSell o.1 o.2))
                  if r.2.2 then (CashEv.panic, r.1, r.2.1) else (CashEv.wOk req, r.1, r.2.1)
                else (CashEv.wFail req, debit (afterBooking b srv adm) req, (srv.tick adm).2)) : CashEv α × Brk σ α × Srv σ α)
              r.2.1.cash = (afterBooking b srv adm).cash ∧ r.2.1.hold = (afterBooking b srv adm).hold := by
            intro os rem
            by_cases hz : isZero rem = true
            · simp only [hz, if_true]
              have f := sendOrders_Frame v (os.map (fun o => mkSell o.1 o.2)) (afterBooking b srv adm) (srv.tick adm).2
              split <;> exact ⟨f.cash, f.hold⟩
            · simp only [hz, Bool.false_eq_true, if_false]; rw [debit_noop _ _ hreq]; exact ⟨rfl, rfl⟩
          split
          · exact hfin _ 0
          · exact hfin _ _
          · exact ⟨rfl, rfl⟩
      obtain ⟨w1, w2⟩ := hw _ hplus
      simp only []
      split <;> exact ⟨w1, w2⟩
    · exact ⟨rfl, rfl⟩
  unfold V at hb1 ⊢
  rw [hframe.1, hframe.2]; exact hb1

end PSt
