import AlatorVerif.Model.Broker
import AlatorVerif.Model.PenDs
/-!
# The broker's server is the projection of `AppState` on one backtest

The broker model (`PBk`) talks to a single-backtest server `PBk.Srv`; the server properties (C01, C07,
C08, C20) are proved on the generic `SV.App` with any number of backtests. Both are validated against
the same Rust `AppState` by the correspondence runs, but nothing so far related them *to each other*.
This file closes that seam: `absSrv a id` reads backtest `id` of an `App` over the Uist exchange as a
`PBk.Srv`, and every request the broker's client issues (`tick`, `insert_order`, `fetch_quotes`)
commutes with it. Hence every broker-level theorem stated over `PBk.Srv` is a theorem about the broker
talking to backtest `id` of a shared server, whatever happens on the other ids
(`other_backtests_do_not_move_the_view`).

Hypothesis `Rows`: every listed date of the dataset has a quotes row and the clock sits on a listed date.
It holds for every dataset built from a `Penelope` store (`ofPen_rows`) and is kept by `tick`
(`tick_rows`).
-/
namespace Refine
open PU SV
set_option linter.unusedSectionVars false
variable {σ α : Type} [DecidableEq σ] [LE α] [DecidableLE α] [Mul α]

abbrev UApp (σ α : Type) := App (Uist σ α) (UQ σ α)

/-- the quotes function `PBk.Srv` carries, read off a dataset -/
def flatQuotes (ds : Dataset (UQ σ α)) : Int → σ → Option (Quote α) :=
  fun d s => match ds.quotes d with | some q => q s | none => none

/-- backtest `id` of the generic server, seen as the broker's single-backtest server -/
def absSrv (a : UApp σ α) (id : Nat) : Option (PBk.Srv σ α) :=
  match a.backtests id with
  | none => none
  | some bt =>
    match a.datasets bt.dataset with
    | none => none
    | some ds => some { dates := ds.dates, quotes := flatQuotes ds, pos := bt.pos, date := bt.date, exch := bt.exch }

/-- every listed date has a row, and the clock of backtest `id` is on a listed date -/
def Rows (a : UApp σ α) (id : Nat) : Prop :=
  ∀ bt ds, a.backtests id = some bt → a.datasets bt.dataset = some ds →
    (∀ d ∈ ds.dates, ds.quotes d ≠ none) ∧ bt.date ∈ ds.dates

/-- a dataset built from a `Penelope` store has a row for every listed date -/
theorem ofPen_rows {Q : Type} (p : PPen.Pen σ α) (syms : List σ) (mk : List (PPen.Entry σ α) → Q) :
    ∀ d ∈ (Dataset.ofPen p syms mk).dates, (Dataset.ofPen p syms mk).quotes d ≠ none := by
  intro d hd
  simp only [Dataset.ofPen] at hd ⊢
  have : p.hasDate d = true := by simp [PPen.Pen.hasDate, hd]
  simp [this]

/-- **tick commutes**: the generic server's `tick` on backtest `id` is the broker-server's `tick` on the
    view — same `has_next`, same trades, same admitted orders, and the view of the new state is the new
    broker-server -/
theorem tick_refines (a : UApp σ α) (id : Nat) (s : PBk.Srv σ α) (adm : List (Order σ α))
    (hs : absSrv a id = some s) (hr : Rows a id) :
    (SV.tick uistOps .repaired a id adm).1
        = some ((s.tick adm).1.1, ((s.tick adm).1.2, (s.exch.tick (s.quotes s.date) adm).2.2))
    ∧ absSrv (SV.tick uistOps .repaired a id adm).2 id = some (s.tick adm).2 := by
  unfold absSrv at hs
  cases hbt : a.backtests id with
  | none => simp [hbt] at hs
  | some bt =>
    cases hds : a.datasets bt.dataset with
    | none => simp [hbt, hds] at hs
    | some ds =>
      simp only [hbt, hds, Option.some.injEq] at hs
      obtain ⟨hrows, hdate⟩ := hr bt ds hbt hds
      cases hq : ds.quotes bt.date with
      | none => exact absurd hq (hrows _ hdate)
      | some q =>
        subst hs
        have hfq : flatQuotes ds bt.date = q := by
          funext sym; simp [flatQuotes, hq]
        constructor
        · simp [SV.tick, hbt, hds, hq, PBk.Srv.tick, uistOps, hfq, Variant.repaired]
        · simp [SV.tick, hbt, hds, hq, PBk.Srv.tick, uistOps, hfq, Variant.repaired, absSrv, setBt]

/-- `tick` keeps `Rows` -/
theorem tick_rows (a : UApp σ α) (id j : Nat) (adm : List (Order σ α)) (hr : Rows a j) :
    Rows (SV.tick uistOps .repaired a id adm).2 j := by
  intro bt' ds' hbt' hds'
  unfold SV.tick at hbt' hds'
  cases hbt : a.backtests id with
  | none => simp only [hbt] at hbt' hds'; exact hr bt' ds' hbt' hds'
  | some bt =>
    cases hds : a.datasets bt.dataset with
    | none => simp only [hbt, hds] at hbt' hds'; exact hr bt' ds' hbt' hds'
    | some ds =>
      simp only [hbt, hds, setBt] at hbt' hds'
      by_cases hj : j = id
      · subst hj
        simp only [if_true, Option.some.injEq] at hbt'
        subst hbt'
        obtain ⟨hrows, hdate⟩ := hr bt ds hbt hds
        simp only at hds'
        rw [hds] at hds'; cases hds'
        refine ⟨hrows, ?_⟩
        simp only
        split
        · rename_i hlt
          have hlt' : bt.pos + 1 < ds'.dates.length := by simpa using hlt
          simp [List.getD_eq_getElem?_getD, List.getElem?_eq_getElem hlt']
        · exact hdate
      · simp only [hj, if_false] at hbt'
        exact hr bt' ds' hbt' hds'

/-- **insert commutes**: `insert_order` on backtest `id` is the push onto the exchange buffer that
    `PBk.sendOrder` performs on the view (the broker forwards the order with its id cleared) -/
theorem insert_refines (a : UApp σ α) (id : Nat) (s : PBk.Srv σ α) (o : Order σ α)
    (hs : absSrv a id = some s) :
    (SV.insert uistOps a id o).1 = true ∧
    absSrv (SV.insert uistOps a id o).2 id
      = some { s with exch := { s.exch with buffer := s.exch.buffer ++ [o] } } := by
  unfold absSrv at hs
  cases hbt : a.backtests id with
  | none => simp [hbt] at hs
  | some bt =>
    cases hds : a.datasets bt.dataset with
    | none => simp [hbt, hds] at hs
    | some ds =>
      simp only [hbt, hds, Option.some.injEq] at hs
      subst hs
      simp [SV.insert, hbt, hds, uistOps, absSrv, setBt]

/-- **fetch commutes**: `fetch_quotes` returns the row the view's `quotes` has at the view's clock -/
theorem fetch_refines (a : UApp σ α) (id : Nat) (s : PBk.Srv σ α)
    (hs : absSrv a id = some s) (hr : Rows a id) :
    ∃ q, SV.fetch a id = some (s.date, q) ∧ s.quotes s.date = q := by
  unfold absSrv at hs
  cases hbt : a.backtests id with
  | none => simp [hbt] at hs
  | some bt =>
    cases hds : a.datasets bt.dataset with
    | none => simp [hbt, hds] at hs
    | some ds =>
      simp only [hbt, hds, Option.some.injEq] at hs
      obtain ⟨hrows, hdate⟩ := hr bt ds hbt hds
      cases hq : ds.quotes bt.date with
      | none => exact absurd hq (hrows _ hdate)
      | some q =>
        subst hs
        refine ⟨q, by simp [SV.fetch, hbt, hds, hq], ?_⟩
        funext sym; simp [flatQuotes, hq]

/-- requests on *other* backtests do not move the view of backtest `id` -/
theorem other_backtests_do_not_move_the_view (a : UApp σ α) (id j : Nat) (hj : j ≠ id)
    (adm : List (Order σ α)) (o : Order σ α) (k : Nat) :
    absSrv (SV.tick uistOps .repaired a j adm).2 id = absSrv a id ∧
    absSrv (SV.insert uistOps a j o).2 id = absSrv a id ∧
    absSrv (SV.delete uistOps a j k).2 id = absSrv a id := by
  have hij : ¬ id = j := fun h => hj h.symm
  refine ⟨?_, ?_, ?_⟩
  · cases hbt : a.backtests j with
    | none => simp [SV.tick, hbt]
    | some bt =>
      cases hds : a.datasets bt.dataset with
      | none => simp [SV.tick, hbt, hds]
      | some ds => simp [SV.tick, hbt, hds, absSrv, setBt, hij]
  · cases hbt : a.backtests j with
    | none => simp [SV.insert, hbt]
    | some bt => simp [SV.insert, hbt, absSrv, setBt, hij]
  · cases hbt : a.backtests j with
    | none => simp [SV.delete, hbt]
    | some bt => simp [SV.delete, hbt, absSrv, setBt, hij]

end Refine
