import AlatorVerif.Lemmas.BrokerSrvHist
/-!
# Any interleaving of the broker's requests with other clients' requests

The broker's client sends two kinds of state-changing requests to its backtest `id`: `tick` (inside `check`)
and `insert_order` (inside `send_order`). Other clients send anything to other ids and create backtests.
For **every interleaving** of the two, the view of backtest `id` at the end is the broker-server obtained by
applying *only the broker's own requests*, in their order, to the initial view (`view_after_mixed_history`),
and the responses to the broker's ticks are those of the broker-server (`tick_refines` at each point). This is
the history-level form of the refinement, and the broker-side reading of C08's non-interference.
-/
namespace Refine
open PU SV
set_option linter.unusedSectionVars false
variable {σ α : Type} [DecidableEq σ] [LE α] [DecidableLE α] [Mul α]

/-- the broker's own state-changing requests to its backtest -/
inductive Own (σ α : Type) where
  | tick (adm : List (Order σ α))
  | insert (o : Order σ α)

def Own.toOp (id : Nat) : Own σ α → UOp σ α
  | .tick adm => .tick id adm
  | .insert o => .insert id o

/-- what the request does to the broker-server of `PBk` -/
def Own.apply (s : PBk.Srv σ α) : Own σ α → PBk.Srv σ α
  | .tick adm => (s.tick adm).2
  | .insert o => { s with exch := { s.exch with buffer := s.exch.buffer ++ [o] } }

/-- one step of a mixed history: the broker's own request, or somebody else's -/
inductive Mixed (σ α : Type) where
  | own (r : Own σ α)
  | other (op : UOp σ α)

def Mixed.toOp (id : Nat) : Mixed σ α → UOp σ α
  | .own r => r.toOp id
  | .other op => op

def ownPart : List (Mixed σ α) → List (Own σ α)
  | [] => []
  | .own r :: ms => r :: ownPart ms
  | .other _ :: ms => ownPart ms

/-- a foreign request keeps the entry of backtest `id` and the datasets (hence `Rows`) -/
theorem foreign_keeps_entry (a : UApp σ α) (id : Nat) (op : UOp σ α) (h : id ≤ a.last) (hf : Foreign id op) :
    (step uistOps a op).2.backtests id = a.backtests id ∧ (step uistOps a op).2.datasets = a.datasets := by
  have hinit : ∀ (v : SV.Variant) (n : String), v.storesLast = true →
      (SV.init uistOps v a n).2.backtests id = a.backtests id ∧ (SV.init uistOps v a n).2.datasets = a.datasets := by
    intro v n hv
    cases hds : a.datasets n with
    | none => simp [SV.init, hds]
    | some ds =>
      cases hd : ds.dates with
      | nil => simp [SV.init, hds, hd]
      | cons d0 rest =>
        have hne : ¬ id = a.last + 1 := by omega
        simp [SV.init, hds, hd, hv, setBt, hne]
  cases op with
  | init n => exact hinit .repaired n rfl
  | newbt n => exact hinit ⟨true, true⟩ n rfl
  | tick j adm =>
    have hij : ¬ id = j := fun e => hf (by simp [target, e])
    cases hbt : a.backtests j with
    | none => simp [step, SV.tick, hbt]
    | some bt =>
      cases hds : a.datasets bt.dataset with
      | none => simp [step, SV.tick, hbt, hds]
      | some ds => simp [step, SV.tick, hbt, hds, setBt, hij]
  | insert j o =>
    have hij : ¬ id = j := fun e => hf (by simp [target, e])
    cases hbt : a.backtests j with
    | none => simp [step, SV.insert, hbt]
    | some bt => simp [step, SV.insert, hbt, setBt, hij]
  | delete j k =>
    have hij : ¬ id = j := fun e => hf (by simp [target, e])
    cases hbt : a.backtests j with
    | none => simp [step, SV.delete, hbt]
    | some bt => simp [step, SV.delete, hbt, setBt, hij]
  | fetch j => exact ⟨rfl, rfl⟩
  | now j => exact ⟨rfl, rfl⟩
  | info j => exact ⟨rfl, rfl⟩

theorem foreign_keeps_rows (a : UApp σ α) (id : Nat) (op : UOp σ α) (h : id ≤ a.last) (hf : Foreign id op)
    (hr : Rows a id) : Rows (step uistOps a op).2 id := by
  obtain ⟨hb, hd⟩ := foreign_keeps_entry a id op h hf
  intro bt ds hbt hds
  rw [hb] at hbt; rw [hd] at hds
  exact hr bt ds hbt hds

/-- the broker's own request commutes with the view, keeps `Rows` and `id ≤ last` -/
theorem own_step (a : UApp σ α) (id : Nat) (s : PBk.Srv σ α) (r : Own σ α)
    (hs : absSrv a id = some s) (hr : Rows a id) (h : id ≤ a.last) :
    absSrv (step uistOps a (r.toOp id)).2 id = some (r.apply s)
    ∧ Rows (step uistOps a (r.toOp id)).2 id ∧ id ≤ (step uistOps a (r.toOp id)).2.last := by
  cases r with
  | tick adm =>
    refine ⟨(tick_refines a id s adm hs hr).2, tick_rows a id id adm hr, ?_⟩
    cases hbt : a.backtests id with
    | none => simp [Own.toOp, step, SV.tick, hbt, h]
    | some bt =>
      cases hds : a.datasets bt.dataset with
      | none => simp [Own.toOp, step, SV.tick, hbt, hds, h]
      | some ds => simp [Own.toOp, step, SV.tick, hbt, hds, setBt, h]
  | insert o =>
    refine ⟨(insert_refines a id s o hs).2, ?_, ?_⟩
    · intro bt' ds' hbt' hds'
      simp only [Own.toOp, step, SV.insert] at hbt' hds'
      cases hbt : a.backtests id with
      | none => simp [absSrv, hbt] at hs
      | some bt =>
        simp only [hbt, setBt, if_true, Option.some.injEq] at hbt' hds'
        subst hbt'
        exact hr bt ds' hbt hds'
    · cases hbt : a.backtests id with
      | none => simp [Own.toOp, step, SV.insert, hbt, h]
      | some bt => simp [Own.toOp, step, SV.insert, hbt, setBt, h]

/-- **every interleaving**: after any mixed history the view of backtest `id` is the initial view with the
    broker's own requests applied in order — the other clients' requests have left no trace in it -/
theorem view_after_mixed_history (id : Nat) (ms : List (Mixed σ α)) :
    ∀ (a : UApp σ α) (s : PBk.Srv σ α), absSrv a id = some s → Rows a id → id ≤ a.last →
      (∀ op, Mixed.other op ∈ ms → Foreign id op) →
      absSrv (run uistOps a (ms.map (Mixed.toOp id))).2 id = some ((ownPart ms).foldl Own.apply s) := by
  induction ms with
  | nil => intro a s hs _ _ _; simpa [run, ownPart] using hs
  | cons m ms ih =>
    intro a s hs hr h hf
    cases m with
    | own r =>
      obtain ⟨h1, h2, h3⟩ := own_step a id s r hs hr h
      simp only [List.map_cons, run, ownPart, List.foldl_cons, Mixed.toOp]
      exact ih _ _ h1 h2 h3 (fun op hop => hf op (List.mem_cons_of_mem _ hop))
    | other op =>
      have hfo : Foreign id op := hf op (List.mem_cons_self ..)
      obtain ⟨h1, h3⟩ := foreign_step a id op h hfo
      have h2 := foreign_keeps_rows a id op h hfo hr
      simp only [List.map_cons, run, ownPart, Mixed.toOp]
      exact ih _ s (h1.trans hs) h2 h3 (fun op' hop => hf op' (List.mem_cons_of_mem _ hop))

end Refine
