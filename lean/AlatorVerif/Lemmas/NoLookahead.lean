import AlatorVerif.Lemmas.UistProps
import AlatorVerif.Model.Broker
/-! C01 (server level): a fill is dated strictly after the clock at which its order was submitted — prototype -/
namespace PBk
open PU
variable {σ α : Type} [DecidableEq σ] [LinearOrder α] [Mul α]

/-- the server with a ghost map: id ↦ clock position at which the order was admitted; an order is
    admitted by the first tick after its insertion (C03), and the clock moves only on ticks, so this is
    also the clock position at which it was submitted -/
structure GSrv (σ α : Type) where
  srv : Srv σ α
  adAt : Nat → Option Nat

def GSrv.tick (g : GSrv σ α) (adm : List (Order σ α)) : GSrv σ α :=
  { srv := (g.srv.tick adm).2,
    adAt := fun j => if g.srv.exch.book.last ≤ j ∧ j < g.srv.exch.book.last + adm.length then some g.srv.pos
                     else g.adAt j }

def GSrv.insert (g : GSrv σ α) (o : Order σ α) : GSrv σ α :=
  { g with srv := { g.srv with exch := { g.srv.exch with buffer := g.srv.exch.buffer ++ [o] } } }

def GSrv.delete (g : GSrv σ α) (id : Nat) : GSrv σ α :=
  { g with srv := { g.srv with exch := { g.srv.exch with book := g.srv.exch.book.delete id } } }

structure GInv (g : GSrv σ α) : Prop where
  book : BookInv g.srv.exch.book
  admitted : ∀ o ∈ g.srv.exch.book.inner, ∃ j p, o.id = some j ∧ g.adAt j = some p ∧ p < g.srv.pos
  clock : g.srv.pos < g.srv.dates.length → g.srv.dates[g.srv.pos]? = some g.srv.date

/-- well-formed dataset: strictly increasing dates, each quote stored under its own date -/
structure WFData (s : Srv σ α) : Prop where
  sorted : s.dates.Pairwise (· < ·)
  own : ∀ d sym q, s.quotes d sym = some q → q.date = d

theorem tick_srv_fields (s : Srv σ α) (adm : List (Order σ α)) :
    (s.tick adm).2.pos = s.pos + 1 ∧ (s.tick adm).2.dates = s.dates ∧ (s.tick adm).2.quotes = s.quotes ∧
    (s.tick adm).2.exch = (s.exch.tick (s.quotes s.date) adm).1 ∧
    (s.tick adm).2.date = (if s.pos + 1 < s.dates.length then s.dates.getD (s.pos + 1) s.date else s.date) := by
  simp [Srv.tick]

/-- the invariant is kept by tick, insert and delete -/
theorem GInv.tick {g : GSrv σ α} (h : GInv g) (adm : List (Order σ α)) : GInv (g.tick adm) := by
  obtain ⟨f1, f2, f3, f4, f5⟩ := tick_srv_fields g.srv adm
  obtain ⟨t1, t2, t3, t4, t5⟩ := tick_spec g.srv.exch (g.srv.quotes g.srv.date) adm h.book
  obtain ⟨e1, _, e3⟩ := execute_spec g.srv.exch.book (g.srv.quotes g.srv.date) h.book
  refine ⟨?_, ?_, ?_⟩
  · show BookInv (g.srv.tick adm).2.exch.book
    rw [f4]; exact t5
  · intro o ho
    have ho' : o ∈ (g.srv.exch.tick (g.srv.quotes g.srv.date) adm).1.book.inner := by
      have : (g.tick adm).srv.exch = (g.srv.exch.tick (g.srv.quotes g.srv.date) adm).1 := f4
      rw [← this]; exact ho
    -- every order of the new book has an id below the new `last`
    obtain ⟨j, hj, hlt⟩ := t5.2 o ho'
    refine ⟨j, ?_⟩
    by_cases hnew : g.srv.exch.book.last ≤ j
    · refine ⟨g.srv.pos, hj, ?_, ?_⟩
      · have : j < g.srv.exch.book.last + adm.length := by rw [t4] at hlt; exact hlt
        simp [GSrv.tick, hnew, this]
      · show g.srv.pos < (g.srv.tick adm).2.pos
        rw [f1]; omega
    · -- an old id: the order was already resting, with its old admission position
      have hold : o ∈ g.srv.exch.book.inner := by
        -- ids of the new book = ids of the survivors ++ the fresh range; `j` is not fresh
        have hmem : j ∈ ids (g.srv.exch.tick (g.srv.quotes g.srv.date) adm).1.book.inner := by
          simp only [ids, List.mem_map]; exact ⟨o, ho', by simp [hj]⟩
        rw [t2, List.mem_append] at hmem
        rcases hmem with hm | hm
        · -- it is one of the survivors; by uniqueness of ids in the new book it is `o` itself
          simp only [ids, List.mem_map, List.mem_filter] at hm
          obtain ⟨o', ⟨ho'm, _⟩, hid'⟩ := hm
          obtain ⟨j', hj', _⟩ := h.book.2 o' ho'm
          have hjj : j' = j := by rw [hj'] at hid'; simpa using hid'
          -- o' is also in the new book (as a survivor) with the same id ⇒ o' = o
          have ho'new : o' ∈ (g.srv.exch.tick (g.srv.quotes g.srv.date) adm).1.book.inner := by
            have hsub : ∀ x ∈ (g.srv.exch.book.execute (g.srv.quotes g.srv.date)).1.inner,
                x ∈ (g.srv.exch.tick (g.srv.quotes g.srv.date) adm).1.book.inner := by
              have := (admit_spec adm (g.srv.exch.book.execute (g.srv.quotes g.srv.date)).1 [])
              intro x hx
              -- the admission loop only appends
              have happ : ∀ (adm : List (Order σ α)) (b : Book σ α) (acc : List (Order σ α)) (x : Order σ α),
                  x ∈ b.inner → x ∈ (adm.foldl (fun (acc : Book σ α × List (Order σ α)) o =>
                    let r := acc.1.insert o; (r.1, acc.2 ++ [r.2])) (b, acc)).1.inner := by
                intro adm
                induction adm with
                | nil => intro b acc x hx; exact hx
                | cons a as ih => intro b acc x hx; exact ih _ _ x (by simp [Book.insert, hx])
              exact happ adm _ [] x hx
            apply hsub; rw [e1]; exact List.mem_filter.mpr ⟨ho'm, by assumption⟩
          have hpw := t5.1
          have heq : o' = o := by
            have hget := List.pairwise_iff_getElem.mp hpw
            obtain ⟨n, hn, hnn⟩ := List.getElem_of_mem ho'new
            obtain ⟨m, hm', hmm⟩ := List.getElem_of_mem ho'
            rcases Nat.lt_trichotomy n m with hlt' | heq' | hgt'
            · obtain ⟨a, c, ha, hc, hac⟩ := hget n m hn hm' hlt'
              rw [hnn, hj'] at ha; rw [hmm, hj] at hc; cases ha; cases hc; omega
            · subst heq'; rw [← hnn, ← hmm]
            · obtain ⟨a, c, ha, hc, hac⟩ := hget m n hm' hn hgt'
              rw [hmm, hj] at ha; rw [hnn, hj'] at hc; cases ha; cases hc; omega
          rw [← heq]; exact ho'm
        · exfalso; have := (List.mem_range'_1.mp hm).1; exact hnew this
      obtain ⟨j0, p, hj0, hp, hlt0⟩ := h.admitted o hold
      have : j0 = j := by rw [hj] at hj0; simpa using hj0.symm
      subst this
      refine ⟨p, hj, ?_, ?_⟩
      · have : ¬ (g.srv.exch.book.last ≤ j0 ∧ j0 < g.srv.exch.book.last + adm.length) := fun hc => hnew hc.1
        simp [GSrv.tick, this, hp]
      · show p < (g.srv.tick adm).2.pos
        rw [f1]; omega
  · intro hlt0
    have hlt : (g.srv.tick adm).2.pos < (g.srv.tick adm).2.dates.length := hlt0
    show (g.srv.tick adm).2.dates[(g.srv.tick adm).2.pos]? = some (g.srv.tick adm).2.date
    rw [f1, f2] at hlt ⊢
    rw [f5, if_pos hlt]
    simp [List.getD_eq_getElem?_getD, List.getElem?_eq_getElem hlt]

/-- C01 (server level): while ticks are issued only as long as `has_next` allowed them (`pos < N`), every
    fill is dated strictly later than the clock at which the filled order was submitted -/
theorem fill_after_submission (g : GSrv σ α) (h : GInv g) (hwf : WFData g.srv) (hpos : g.srv.pos < g.srv.dates.length)
    (o : Order σ α) (ho : o ∈ g.srv.exch.book.inner) (t : Trade σ α)
    (ht : tradeOn (g.srv.quotes g.srv.date) o = some t) :
    ∃ j p dsub, o.id = some j ∧ g.adAt j = some p ∧ g.srv.dates[p]? = some dsub ∧ dsub < t.date := by
  obtain ⟨j, p, hj, hp, hlt⟩ := h.admitted o ho
  have hplt : p < g.srv.dates.length := by omega
  refine ⟨j, p, g.srv.dates[p], hj, hp, List.getElem?_eq_getElem hplt, ?_⟩
  -- the fill is dated with the quote, the quote with the clock
  obtain ⟨q, hq, _, _, _, hdate, _⟩ := (tradeOn_spec (g.srv.quotes g.srv.date) o).1 t ht
  have hqd : q.date = g.srv.date := hwf.own _ _ _ hq
  have hclock := h.clock hpos
  have hcur : g.srv.dates[g.srv.pos] = g.srv.date := by
    rw [List.getElem?_eq_getElem hpos] at hclock; exact Option.some.inj hclock
  rw [hdate, hqd, ← hcur]
  exact (List.pairwise_iff_getElem.mp hwf.sorted) p g.srv.pos hplt hpos hlt

end PBk
