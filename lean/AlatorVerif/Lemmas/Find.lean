import AlatorVerif.Model.MaxDD
namespace PDD
/-- pre-fix variant: returns last peak / trough positions -/
def maxddOld {α} [LT α] [DecidableLT α] [Sub α] [Div α] [OfNat α 0] [OfNat α 1] (vs : List α) : α × Nat × Nat :=
  let st := go (init : St α) 0 vs
  (st.maxdd, st.peakPos, st.troughPos)

def series : List Rat := [100, 50, 200, 190]

-- the pre-fix function returns positions whose values do not realise the reported loss
example : maxddOld series = (-1/2, 2, 3) := by decide +kernel
example : (190 : Rat) / 200 - 1 ≠ -1/2 := by decide +kernel
example : maxdd series = (-1/2, 0, 1) := by decide +kernel
end PDD
