import AlatorVerif.Lemmas.HttpThm
/-!
# C20 — what a typed client decodes from the service's responses is the in-process result

`HttpThm` proves that a 200 body *is the encoding* of the in-process result and that each item type
round-trips. This file composes the two, per route and for both services: the decoders below model the
`Deserialize` derives of the response structs as the repository's reqwest clients use them
(`res.json::<TickResponse>()` and friends; a non-200 status is an `Err`), and the theorems say that
decoding the response of `handle` gives exactly the result of the same call on `AppState` — `none`
(error) exactly where the in-process call returns `None`. Text-level JSON is not modelled (DESIGN §9).
-/
namespace PHt
open PJs SV
variable {α : Type}

/-- element-wise decoding of a JSON array (`Vec<T>`): fails if any element fails -/
def decList {β : Type} (f : Json α → Option β) : List (Json α) → Option (List β)
  | [] => some []
  | j :: js =>
    match f j, decList f js with
    | some x, some xs => some (x :: xs)
    | _, _ => none

theorem decList_map {β : Type} (enc : β → Json α) (dec : Json α → Option β)
    (h : ∀ x, dec (enc x) = some x) : ∀ xs : List β, decList dec (xs.map enc) = some xs
  | [] => rfl
  | x :: xs => by simp [decList, h x, decList_map enc dec h xs]

def getBool (j : Json α) (k : String) : Option Bool :=
  match j.get? k with | some (.bool b) => some b | _ => none
def getInt (j : Json α) (k : String) : Option Int :=
  match j.get? k with | some (.int n) => some n | _ => none
def getStr (j : Json α) (k : String) : Option String :=
  match j.get? k with | some (.str s) => some s | _ => none
def getArr (j : Json α) (k : String) : Option (List (Json α)) :=
  match j.get? k with | some (.arr xs) => some xs | _ => none

/-- a typed client call: `Err` (here `none`) on any status but 200 or an undecodable body -/
def typed {β : Type} (dec : Json α → Option β) (r : Rsp α) : Option β :=
  if r.status = 200 then r.body.bind dec else none

/-! ### the routes common to both services -/

def decInit (j : Json α) : Option Nat :=
  match getInt j "backtest_id" with | some n => (if 0 ≤ n then some n.toNat else none) | none => none
def decInfo (j : Json α) : Option (String × String) :=
  match getStr j "version", getStr j "dataset" with | some v, some d => some (v, d) | _, _ => none
def decNow (j : Json α) : Option (Int × Bool) :=
  match getInt j "now", getBool j "has_next" with | some d, some h => some (d, h) | _, _ => none

section Generic
variable {E Q O A D R : Type} (X : ExchOps E Q O A D R) (enc : Enc Q R α)

/-- `init`: the client gets the id the in-process call hands out, an error for an unknown dataset -/
theorem client_init (syms : String → List String) (a : App E Q) (name : String)
    (hp : (init X .repaired a name).1 ≠ .panic) :
    typed decInit (handle X enc .repaired syms a (.init name : Req O A D)).1 = resId (init X .repaired a name).1 := by
  have h := handle_init X enc .repaired syms a name
  cases hr : (init X .repaired a name).1 with
  | ok id => rw [h.2.1 id hr]; simp [typed, ok, decInit, getInt, Json.get?, List.find?, resId]
  | none => rw [h.2.2 hr]; simp [typed, bad, resId]
  | panic => exact absurd hr hp

/-- `info`: version and dataset name -/
theorem client_info (syms : String → List String) (a : App E Q) (id : Nat) :
    typed decInfo (handle X enc .repaired syms a (.info id : Req O A D)).1 = (info a id).map (fun d => ("v1", d)) := by
  have h := handle_readonly X enc .repaired syms a id
  cases hr : info a id with
  | none =>
    have : (handle X enc .repaired syms a (.info id : Req O A D)).1.status = 400 := h.2.2.2.2.1.mpr hr
    simp [typed, this]
  | some ds => rw [h.2.2.2.2.2.2.2.1 ds hr]; simp [typed, ok, decInfo, getStr, Json.get?, List.find?]

/-- `now` (Uist only): the clock and `has_next` -/
theorem client_now (syms : String → List String) (a : App E Q) (id : Nat) (hn : enc.hasNow = true) :
    typed decNow (handle X enc .repaired syms a (.now id : Req O A D)).1 = now a id := by
  have h := handle_readonly X enc .repaired syms a id
  cases hr : now a id with
  | none =>
    have : (handle X enc .repaired syms a (.now id : Req O A D)).1.status = 400 := (h.2.2.2.2.2.1 hn).mpr hr
    simp [typed, this]
  | some x =>
    obtain ⟨d, b⟩ := x
    rw [h.2.2.2.2.2.2.2.2 hn d b hr]; simp [typed, ok, decNow, getInt, getBool, Json.get?, List.find?]

/-- `insert_order` / `delete_order`: `Ok(())` exactly when the in-process call finds the backtest -/
theorem client_unit (syms : String → List String) (a : App E Q) (id : Nat) (o : O) (d : D) :
    ((typed (fun _ => some ()) (handle X enc .repaired syms a (.insert id o : Req O A D)).1).isSome = (insert X a id o).1) ∧
    ((typed (fun _ => some ()) (handle X enc .repaired syms a (.delete id d : Req O A D)).1).isSome = (delete X a id d).1) := by
  constructor
  · simp only [handle]
    rcases h : insert X a id o with ⟨r, a'⟩
    cases r <;> simp [typed, ok, bad]
  · simp only [handle]
    rcases h : delete X a id d with ⟨r, a'⟩
    cases r <;> simp [typed, ok, bad]
end Generic

/-! ### Uist: `TickResponse`, `FetchQuotesResponse` -/

def decTickU (j : Json α) : Option (Bool × List (PU.Trade String α) × List (PU.Order String α)) :=
  match getBool j "has_next", (getArr j "executed_trades").bind (decList decTrade),
        (getArr j "inserted_orders").bind (decList decOrd) with
  | some hn, some ts, some os => some (hn, ts, os)
  | _, _, _ => none

/-- **Uist tick**: `has_next`, the executed trades and the inserted orders (with the ids the exchange gave
    them), every list in order, or an error for an unknown backtest -/
theorem client_tick_uist (syms : String → List String) (a : App (PU.Uist String α) (UQ String α)) (id : Nat)
    (adm : List (PU.Order String α)) [LE α] [DecidableLE α] [Mul α] :
    typed decTickU (handle uistOps uistEnc .repaired syms a (.tick id adm : Req _ _ Nat)).1
      = (tick uistOps .repaired a id adm).1.map (fun x => (x.1, x.2.1, x.2.2)) := by
  have h := handle_tick uistOps (uistEnc (α := α)) .repaired syms a id adm
  cases hr : (tick uistOps .repaired a id adm).1 with
  | none => rw [h.2.1 hr]; simp [typed, bad]
  | some x =>
    obtain ⟨hn, ts, os⟩ := x
    rw [h.2.2 hn (ts, os) hr]
    simp [typed, ok, uistEnc, decTickU, getBool, getArr, Json.get?, List.find?,
      decList_map encTrade decTrade decTrade_encTrade, decList_map encOrd decOrd decOrd_encOrd]

/-- the `quotes` map of a fetch response, decoded entry by entry: key and the quote stored under it -/
def decQuotesU : Json α → Option (List (String × String × PU.Quote α))
  | .obj kvs => decList (β := String × String × PU.Quote α)
      (fun j => match j with
        | .arr [.str k, v] => (decQuote v).map (fun q => (k, q))
        | _ => none)
      (kvs.map (fun kv => .arr [.str kv.1, kv.2]))
  | _ => none

/-- **Uist fetch_quotes**: the client recovers, for every symbol of the dataset quoted on the current date,
    exactly the stored quote, keyed and labelled with that symbol -/
theorem client_fetch_uist (syms : List String) (q : UQ String α) :
    decQuotesU ((uistEnc (α := α)).quotes q syms)
      = some (syms.filterMap (fun s => (q s).map (fun x => (s, s, x)))) := by
  simp only [uistEnc, decQuotesU]
  induction syms with
  | nil => simp [decList]
  | cons s ss ih =>
    cases hq : q s with
    | none => simpa [List.filterMap_cons, hq] using ih
    | some x =>
      simp only [List.filterMap_cons, hq, Option.map_some, List.map_cons, decList, decQuote_encQuote]
      rw [ih]

/-! ### Jura: `TickResponse` with the triggered ids (F9) -/

def decNat : Json α → Option Nat
  | .int n => if 0 ≤ n then some n.toNat else none
  | _ => none

theorem decNat_int (n : Nat) : decNat (Json.int (n : Int) : Json α) = some n := by simp [decNat]

def decTickJ (j : Json α) :
    Option (Bool × List (String × Nat × α × Bool × α × Int) × List (PJ.Order α) × List Nat) :=
  match getBool j "has_next", (getArr j "executed_trades").bind (decList decFill),
        (getArr j "inserted_orders").bind (decList decJOrd),
        (getArr j "triggered_order_ids").bind (decList decNat) with
  | some hn, some fs, some os, some ids => some (hn, fs, os, ids)
  | _, _, _, _ => none

theorem decList_fill (fs : List (PJ.Fill α)) :
    decList decFill (fs.map encFill) = some (fs.map (fun f => (toString f.coin, f.oid, f.px, f.buy, f.sz, f.time))) := by
  induction fs with
  | nil => rfl
  | cons f fs ih => simp [decList, decFill_encFill, ih]

theorem decList_nat (ids : List Nat) :
    decList (α := α) decNat (ids.map (fun (i : Nat) => Json.int (i : Int))) = some ids := by
  induction ids with
  | nil => rfl
  | cons i is ih => simp [decList, decNat_int, ih]

/-- **Jura tick**: `has_next`, the fills (coin, order id, price, side, size, time), the inserted orders and
    the ids of the triggered children, or an error for an unknown backtest -/
theorem client_tick_jura (syms : String → List String) (a : App (PJ.Jura α) (JQ α)) (id : Nat)
    (adm : List (PJ.Order α)) [LE α] [DecidableLE α] [Add α] [Sub α] [Mul α] [OfNat α 1] [OfScientific α] :
    typed decTickJ (handle juraOps (juraEnc true) .repaired syms a (.tick id adm : Req _ _ (Nat × Nat))).1
      = (tick juraOps .repaired a id adm).1.map (fun x =>
          (x.1, x.2.1.map (fun f => (toString f.coin, f.oid, f.px, f.buy, f.sz, f.time)), x.2.2.1, x.2.2.2.1)) := by
  have h := handle_tick juraOps (juraEnc (α := α) true) .repaired syms a id adm
  cases hr : (tick juraOps .repaired a id adm).1 with
  | none => rw [h.2.1 hr]; simp [typed, bad]
  | some x =>
    obtain ⟨hn, fs, os, ids, un⟩ := x
    rw [h.2.2 hn (fs, os, ids, un) hr]
    simp [typed, ok, juraEnc, decTickJ, getBool, getArr, Json.get?, List.find?,
      decList_fill, decList_nat, decList_map encJOrd decJOrd decJOrd_encJOrd]

end PHt
