import AlatorVerif.Model.HttpU
/-! C20 on the validated handler model: transport faithfulness and codec round trips — prototype (core only) -/
namespace PH
open PU PSU PJs
variable {α : Type} [LE α] [DecidableLE α] [Mul α]

/-- C20: `tick` over HTTP answers 400 exactly when the in-process call knows no such backtest, otherwise
    200 with the encoding of exactly the in-process result, and leaves the same server state behind -/
theorem handle_tick (sl : Bool) (syms : List String) (a : App String α) (id : Nat) (adm : List (PU.Order String α)) :
    (handle sl syms a (.tick id adm)).2 = (tick a id adm).2 ∧
    ((tick a id adm).1 = none → (handle sl syms a (.tick id adm)).1 = bad) ∧
    (∀ hn ts ins, (tick a id adm).1 = some (hn, ts, ins) →
      (handle sl syms a (.tick id adm)).1 =
        ok (.obj [("has_next", .bool hn), ("executed_trades", .arr (ts.map encTrade)),
                  ("inserted_orders", .arr (ins.map encOrd))])) := by
  simp only [handle]
  rcases h : tick a id adm with ⟨r, a'⟩
  cases r with
  | none => simp
  | some x => obtain ⟨hn, ts, ins⟩ := x; simp

theorem handle_init (sl : Bool) (syms : List String) (a : App String α) (name : String) :
    (handle sl syms a (.init name)).2 = (init sl a name).2 ∧
    (∀ id, (init sl a name).1 = .ok id → (handle sl syms a (.init name)).1 = ok (.obj [("backtest_id", .int id)])) ∧
    ((init sl a name).1 = .none → (handle sl syms a (.init name)).1 = bad) := by
  simp only [handle]
  rcases h : init sl a name with ⟨r, a'⟩
  cases r <;> simp

theorem handle_insert (sl : Bool) (syms : List String) (a : App String α) (id : Nat) (o : PU.Order String α) :
    (handle sl syms a (.insert id o)).2 = (insert a id o).2 ∧
    ((handle sl syms a (.insert id o)).1.status = 200 ↔ (insert a id o).1 = true) ∧
    ((handle sl syms a (.insert id o)).1.status = 400 ↔ (insert a id o).1 = false) := by
  simp only [handle]
  rcases h : insert a id o with ⟨r, a'⟩
  cases r <;> simp [ok, bad]

theorem handle_readonly (sl : Bool) (syms : List String) (a : App String α) (id : Nat) :
    (handle sl syms a (.fetch id)).2 = a ∧ (handle sl syms a (.info id)).2 = a ∧ (handle sl syms a (.now id)).2 = a ∧
    ((handle sl syms a (.now id)).1.status = 400 ↔ now a id = none) ∧
    ((handle sl syms a (.fetch id)).1.status = 400 ↔ fetch a id = none) ∧
    ((handle sl syms a (.info id)).1.status = 400 ↔ a.backtests id = none) := by
  simp only [handle]
  refine ⟨?_, ?_, ?_, ?_, ?_, ?_⟩
  · cases fetch a id with | none => rfl | some x => rfl
  · cases a.backtests id with | none => rfl | some x => rfl
  · cases now a id with | none => rfl | some x => rfl
  · cases now a id with | none => simp [bad] | some x => simp [ok]
  · cases fetch a id with | none => simp [bad] | some x => simp [ok]
  · cases a.backtests id with | none => simp [bad] | some x => simp [ok]

/-! ### round trips over the JSON AST -/

def decSide : Json α → Option Side
  | .str "Buy" => some .buy
  | .str "Sell" => some .sell
  | _ => none

def decTrade (j : Json α) : Option (Trade String α) := do
  let sym ← match (← j.get? "symbol") with | .str s => some s | _ => none
  let v ← match (← j.get? "value") with | .num x => some x | _ => none
  let q ← match (← j.get? "quantity") with | .num x => some x | _ => none
  let d ← match (← j.get? "date") with | .int n => some n | _ => none
  let sd ← decSide (← j.get? "typ")
  pure ⟨sym, v, q, d, sd⟩

/-- C20: a trade keeps its meaning across a serialise / deserialise round trip -/
theorem decTrade_encTrade (t : Trade String α) : decTrade (encTrade t) = some t := by
  obtain ⟨sym, v, q, d, sd⟩ := t
  cases sd <;> simp [decTrade, encTrade, encSide, decSide, Json.get?, List.find?, bind, Option.bind]

def decQuote (j : Json α) : Option (String × Quote α) := do
  let b ← match (← j.get? "bid") with | .num x => some x | _ => none
  let a ← match (← j.get? "ask") with | .num x => some x | _ => none
  let s ← match (← j.get? "symbol") with | .str s => some s | _ => none
  let d ← match (← j.get? "date") with | .int n => some n | _ => none
  pure (s, ⟨b, a, d⟩)

theorem decQuote_encQuote (s : String) (q : Quote α) : decQuote (encQuote s q) = some (s, q) := by
  obtain ⟨b, a, d⟩ := q
  simp [decQuote, encQuote, Json.get?, List.find?, bind, Option.bind]

end PH
