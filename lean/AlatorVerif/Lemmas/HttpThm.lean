import AlatorVerif.Model.Http
import AlatorVerif.Lemmas.SrvThm
/-! C20: the handlers are a faithful transport for the in-process calls; codec round trips (core only) -/
namespace PHt
open PJs SV
variable {E Q O A D R α : Type} (X : ExchOps E Q O A D R) (enc : Enc Q R α)

/-! ### per request -/

theorem handle_tick (v : Variant) (syms : String → List String) (a : App E Q) (id : Nat) (adm : A) :
    (handle X enc v syms a (.tick id adm : Req O A D)).2 = (tick X v a id adm).2 ∧
    ((tick X v a id adm).1 = none → (handle X enc v syms a (.tick id adm : Req O A D)).1 = bad) ∧
    (∀ hn r, (tick X v a id adm).1 = some (hn, r) →
      (handle X enc v syms a (.tick id adm : Req O A D)).1 = ok (.obj (("has_next", .bool hn) :: enc.tickFields r))) := by
  simp only [handle]
  rcases h : tick X v a id adm with ⟨r, a'⟩
  cases r with
  | none => simp
  | some x => obtain ⟨hn, r⟩ := x; simp

theorem handle_init (v : Variant) (syms : String → List String) (a : App E Q) (name : String) :
    (handle X enc v syms a (.init name : Req O A D)).2 = (init X v a name).2 ∧
    (∀ id, (init X v a name).1 = .ok id →
      (handle X enc v syms a (.init name : Req O A D)).1 = ok (.obj [("backtest_id", .int id)])) ∧
    ((init X v a name).1 = .none → (handle X enc v syms a (.init name : Req O A D)).1 = bad) := by
  simp only [handle]
  rcases h : init X v a name with ⟨r, a'⟩
  cases r <;> simp

theorem handle_insert (v : Variant) (syms : String → List String) (a : App E Q) (id : Nat) (o : O) :
    (handle X enc v syms a (.insert id o : Req O A D)).2 = (insert X a id o).2 ∧
    ((handle X enc v syms a (.insert id o : Req O A D)).1.status = 200 ↔ (insert X a id o).1 = true) ∧
    ((handle X enc v syms a (.insert id o : Req O A D)).1.status = 400 ↔ (insert X a id o).1 = false) := by
  simp only [handle]
  rcases h : insert X a id o with ⟨r, a'⟩
  cases r <;> simp [ok, bad]

theorem handle_delete (v : Variant) (syms : String → List String) (a : App E Q) (id : Nat) (d : D) :
    (handle X enc v syms a (.delete id d : Req O A D)).2 = (delete X a id d).2 ∧
    ((handle X enc v syms a (.delete id d : Req O A D)).1.status = 200 ↔ (delete X a id d).1 = true) ∧
    ((handle X enc v syms a (.delete id d : Req O A D)).1.status = 400 ↔ (delete X a id d).1 = false) := by
  simp only [handle]
  rcases h : delete X a id d with ⟨r, a'⟩
  cases r <;> simp [ok, bad]

theorem handle_readonly (v : Variant) (syms : String → List String) (a : App E Q) (id : Nat) :
    (handle X enc v syms a (.fetch id : Req O A D)).2 = a ∧ (handle X enc v syms a (.info id : Req O A D)).2 = a ∧
    (handle X enc v syms a (.now id : Req O A D)).2 = a ∧
    ((handle X enc v syms a (.fetch id : Req O A D)).1.status = 400 ↔ fetch a id = none) ∧
    ((handle X enc v syms a (.info id : Req O A D)).1.status = 400 ↔ info a id = none) ∧
    (enc.hasNow = true → ((handle X enc v syms a (.now id : Req O A D)).1.status = 400 ↔ now a id = none)) ∧
    (∀ d q, fetch a id = some (d, q) → ∃ ds, (handle X enc v syms a (.fetch id : Req O A D)).1
        = ok (.obj [("quotes", enc.quotes q (syms ds))])) ∧
    (∀ ds, info a id = some ds → (handle X enc v syms a (.info id : Req O A D)).1
        = ok (.obj [("version", .str "v1"), ("dataset", .str ds)])) ∧
    (enc.hasNow = true → ∀ d hn, now a id = some (d, hn) → (handle X enc v syms a (.now id : Req O A D)).1
        = ok (.obj [("now", .int d), ("has_next", .bool hn)])) := by
  simp only [handle]
  refine ⟨?_, ?_, ?_, ?_, ?_, ?_, ?_, ?_, ?_⟩
  · cases fetch a id with | none => rfl | some x => rfl
  · cases info a id with | none => rfl | some x => rfl
  · cases enc.hasNow
    · rfl
    · cases now a id with | none => rfl | some x => rfl
  · cases fetch a id with | none => simp [bad] | some x => simp [ok]
  · cases info a id with | none => simp [bad] | some x => simp [ok]
  · intro hn; simp only [hn, if_true]
    cases now a id with | none => simp [bad] | some x => simp [ok]
  · intro d q h; rw [h]; exact ⟨_, rfl⟩
  · intro ds h; rw [h]
  · intro hn d hnx h; simp only [hn, if_true, h]

/-! ### every request sequence -/

/-- the in-process counterpart of a request -/
def toOp : Req O A D → Op O A D
  | .init n => .init n
  | .tick i adm => .tick i adm
  | .insert i o => .insert i o
  | .delete i d => .delete i d
  | .fetch i => .fetch i
  | .info i => .info i
  | .now i => .now i

/-- does the in-process response report "unknown backtest / dataset"? -/
def isNone {Q R : Type} : Resp Q R → Bool
  | .id none | .tick none | .unit false | .quotes none | .now none | .info none => true
  | _ => false

def hrun (syms : String → List String) (a : App E Q) : List (Req O A D) → List (Rsp α) × App E Q
  | [] => ([], a)
  | r :: rs =>
    let x := handle X enc .repaired syms a r
    let rest := hrun syms x.2 rs
    (x.1 :: rest.1, rest.2)

theorem handle_state (syms : String → List String) (a : App E Q) (r : Req O A D) :
    (handle X enc .repaired syms a r).2 = (step X a (toOp r)).2 := by
  cases r with
  | init n => exact (handle_init X enc .repaired syms a n).1
  | tick i adm => exact (handle_tick X enc .repaired syms a i adm).1
  | insert i o => exact (handle_insert X enc .repaired syms a i o).1
  | delete i d => exact (handle_delete X enc .repaired syms a i d).1
  | fetch i => exact (handle_readonly X enc .repaired syms a i).1
  | info i => exact (handle_readonly X enc .repaired syms a i).2.1
  | now i => exact (handle_readonly X enc .repaired syms a i).2.2.1

/-- **for every request sequence** the server behind the JSON service goes through exactly the states of
    the same calls made in-process -/
theorem hrun_state (syms : String → List String) (rs : List (Req O A D)) : ∀ (a : App E Q),
    (hrun X enc syms a rs).2 = (run X a (rs.map toOp)).2 := by
  induction rs with
  | nil => intro a; rfl
  | cons r rs ih =>
    intro a
    simp only [hrun, List.map_cons, run]
    rw [handle_state, ih]

/-- status 400 exactly where the in-process call reports an unknown backtest or dataset (for a non-empty
    dataset, whose `init` does not panic; `now` on a service that has the route) -/
theorem handle_status (syms : String → List String) (a : App E Q) (r : Req O A D)
    (hnow : (∃ i, r = .now i) → enc.hasNow = true)
    (hpanic : ∀ n, r = .init n → (init X .repaired a n).1 ≠ .panic) :
    ((handle X enc .repaired syms a r).1.status = 400 ↔ isNone (step X a (toOp r)).1 = true) ∧
    ((handle X enc .repaired syms a r).1.status = 200 ↔ isNone (step X a (toOp r)).1 = false) := by
  cases r with
  | init n =>
    simp only [handle, toOp, step, isNone]
    rcases h : init X .repaired a n with ⟨res, a'⟩
    have := hpanic n rfl; rw [h] at this
    cases res <;> simp_all [ok, bad, resId]
  | tick i adm =>
    simp only [handle, toOp, step, isNone]
    rcases h : tick X .repaired a i adm with ⟨res, a'⟩
    cases res with
    | none => simp [bad]
    | some x => simp [ok]
  | insert i o =>
    simp only [handle, toOp, step, isNone]
    rcases h : insert X a i o with ⟨res, a'⟩
    cases res <;> simp [ok, bad]
  | delete i d =>
    simp only [handle, toOp, step, isNone]
    rcases h : delete X a i d with ⟨res, a'⟩
    cases res <;> simp [ok, bad]
  | fetch i =>
    simp only [handle, toOp, step, isNone]
    cases fetch a i with | none => simp [bad] | some x => simp [ok]
  | info i =>
    simp only [handle, toOp, step, isNone]
    cases info a i with | none => simp [bad] | some x => simp [ok]
  | now i =>
    have hn := hnow ⟨i, rfl⟩
    simp only [handle, toOp, step, isNone, hn, if_true]
    cases now a i with | none => simp [bad] | some x => simp [ok]

/-! ### round trips over the JSON AST -/
section RoundTrip
variable {α : Type}

def decSide : Json α → Option PU.Side
  | .str "Buy" => some .buy
  | .str "Sell" => some .sell
  | _ => none

def decTrade (j : Json α) : Option (PU.Trade String α) := do
  let sym ← match (← j.get? "symbol") with | .str s => some s | _ => none
  let v ← match (← j.get? "value") with | .num x => some x | _ => none
  let q ← match (← j.get? "quantity") with | .num x => some x | _ => none
  let d ← match (← j.get? "date") with | .int n => some n | _ => none
  let sd ← decSide (← j.get? "typ")
  pure ⟨sym, v, q, d, sd⟩

theorem decTrade_encTrade (t : PU.Trade String α) : decTrade (encTrade t) = some t := by
  obtain ⟨sym, v, q, d, sd⟩ := t
  cases sd <;> simp [decTrade, encTrade, encSide, decSide, Json.get?, List.find?, bind, Option.bind]

def decQuote (j : Json α) : Option (String × PU.Quote α) := do
  let b ← match (← j.get? "bid") with | .num x => some x | _ => none
  let a ← match (← j.get? "ask") with | .num x => some x | _ => none
  let s ← match (← j.get? "symbol") with | .str s => some s | _ => none
  let d ← match (← j.get? "date") with | .int n => some n | _ => none
  pure (s, ⟨b, a, d⟩)

theorem decQuote_encQuote (s : String) (q : PU.Quote α) : decQuote (encQuote s q) = some (s, q) := by
  obtain ⟨b, a, d⟩ := q
  simp [decQuote, encQuote, Json.get?, List.find?, bind, Option.bind]

def kindSideOf : String → Option (PU.Kind × PU.Side)
  | "MarketSell" => some (.market, .sell) | "MarketBuy" => some (.market, .buy)
  | "LimitSell" => some (.limit, .sell) | "LimitBuy" => some (.limit, .buy)
  | "StopSell" => some (.stop, .sell) | "StopBuy" => some (.stop, .buy)
  | _ => none

def decOrd (j : Json α) : Option (PU.Order String α) := do
  let id ← (← j.get? "order_id") |> decOptNat
  let ks ← match (← j.get? "order_type") with | .str s => kindSideOf s | _ => none
  let sym ← match (← j.get? "symbol") with | .str s => some s | _ => none
  let sh ← match (← j.get? "shares") with | .num x => some x | _ => none
  let pr ← (← j.get? "price") |> decOptNum
  pure ⟨id, ks.1, ks.2, sym, sh, pr⟩

theorem decOrd_encOrd (o : PU.Order String α) : decOrd (encOrd o) = some o := by
  obtain ⟨id, kind, side, sym, sh, pr⟩ := o
  cases id <;> cases pr <;> cases kind <;> cases side <;>
    simp [decOrd, encOrd, typName, kindSideOf, Json.get?, List.find?, decOptNat, decOptNum, bind, Option.bind]

def decTif : Json α → Option PJ.Tif
  | .str "Alo" => some .alo | .str "Ioc" => some .ioc | .str "Gtc" => some .gtc | _ => none
def decTpsl : Json α → Option PJ.Tpsl
  | .str "Tp" => some .tp | .str "Sl" => some .sl | _ => none

def decOType (j : Json α) : Option (PJ.OType α) :=
  match j.get? "Limit" with
  | some l => do
    let tif ← decTif (← l.get? "tif")
    pure (.limit tif)
  | none => do
    let t ← j.get? "Trigger"
    let px ← match (← t.get? "trigger_px") with | .num x => some x | _ => none
    let m ← match (← t.get? "is_market") with | .bool b => some b | _ => none
    let tp ← decTpsl (← t.get? "tpsl")
    pure (.trigger px m tp)

theorem decOType_encOType (t : PJ.OType α) : decOType (encOType t) = some t := by
  cases t with
  | limit tif => cases tif <;> simp [decOType, encOType, encTif, decTif, Json.get?, List.find?, bind, Option.bind]
  | trigger px m tp =>
    cases tp <;> simp [decOType, encOType, encTpsl, decTpsl, Json.get?, List.find?, bind, Option.bind]

def decJOrd (j : Json α) : Option (PJ.Order α) := do
  let asset ← match (← j.get? "asset") with | .int n => (if 0 ≤ n then some n.toNat else none) | _ => none
  let isBuy ← match (← j.get? "is_buy") with | .bool b => some b | _ => none
  let px ← match (← j.get? "limit_px") with | .num x => some x | _ => none
  let sz ← match (← j.get? "sz") with | .num x => some x | _ => none
  let ro ← match (← j.get? "reduce_only") with | .bool b => some b | _ => none
  let cl ← match (← j.get? "cloid") with | .null => some none | .str s => some (some s) | _ => none
  let ty ← decOType (← j.get? "order_type")
  pure ⟨asset, isBuy, px, sz, ro, cl, ty⟩

theorem decJOrd_encJOrd (o : PJ.Order α) : decJOrd (encJOrd o) = some o := by
  obtain ⟨asset, isBuy, px, sz, ro, cl, ty⟩ := o
  cases cl <;>
    simp [decJOrd, encJOrd, Json.get?, List.find?, decOType_encOType, bind, Option.bind]

/-- what a client can recover from a `Fill`: coin (as written), order id, price, side, size, time -/
def decFill (j : Json α) : Option (String × Nat × α × Bool × α × Int) := do
  let coin ← match (← j.get? "coin") with | .str s => some s | _ => none
  let oid ← match (← j.get? "oid") with | .int n => (if 0 ≤ n then some n.toNat else none) | _ => none
  let px ← match (← j.get? "px") with | .num x => some x | _ => none
  let buy ← match (← j.get? "side") with | .str "A" => some true | .str "B" => some false | _ => none
  let sz ← match (← j.get? "sz") with | .num x => some x | _ => none
  let tm ← match (← j.get? "time") with | .int n => some n | _ => none
  pure (coin, oid, px, buy, sz, tm)

theorem decFill_encFill (f : PJ.Fill α) :
    decFill (encFill f) = some (toString f.coin, f.oid, f.px, f.buy, f.sz, f.time) := by
  obtain ⟨coin, oid, px, buy, sz, tm⟩ := f
  cases buy <;> simp [decFill, encFill, Json.get?, List.find?, bind, Option.bind]

end RoundTrip
end PHt
