import AlatorVerif.Model.Srv
/-! the server state machine, for any exchange: clock (C07), ids and non-interference (C08) — core only -/
namespace SV
variable {E Q O A D R : Type} (X : ExchOps E Q O A D R)

inductive Op (O A D : Type) where
  | init (name : String)
  | newbt (name : String)
  | tick (id : Nat) (adm : A)
  | insert (id : Nat) (o : O)
  | delete (id : Nat) (d : D)
  | fetch (id : Nat)
  | now (id : Nat)
  | info (id : Nat)

/-- responses, as far as a client can observe them -/
inductive Resp (Q R : Type) where
  | id (r : Option Nat)
  | tick (r : Option (Bool × R))
  | unit (ok : Bool)
  | quotes (r : Option (Int × Q))
  | now (r : Option (Int × Bool))
  | info (r : Option String)

def resId : Res Nat → Option Nat | .ok n => some n | _ => none

/-- one request against the repaired server -/
def step (a : App E Q) : Op O A D → Resp Q R × App E Q
  | .init n => let r := init X .repaired a n; (.id (resId r.1), r.2)
  | .newbt n => let r := newBacktest X a n; (.id (resId r.1), r.2)
  | .tick i adm => let r := tick X .repaired a i adm; (.tick r.1, r.2)
  | .insert i o => let r := insert X a i o; (.unit r.1, r.2)
  | .delete i d => let r := delete X a i d; (.unit r.1, r.2)
  | .fetch i => (.quotes (fetch a i), a)
  | .now i => (.now (now a i), a)
  | .info i => (.info (info a i), a)

/-- the backtest an operation is addressed to -/
def target : Op O A D → Option Nat
  | .tick i _ | .insert i _ | .delete i _ | .fetch i | .now i | .info i => some i
  | _ => none

def run (a : App E Q) : List (Op O A D) → List (Resp Q R) × App E Q
  | [] => ([], a)
  | op :: ops => let r := step X a op; let rest := run r.2 ops; (r.1 :: rest.1, rest.2)

/-- responses to the operations addressed to backtest `i`, in order -/
def respTo (i : Nat) (a : App E Q) : List (Op O A D) → List (Resp Q R)
  | [] => []
  | op :: ops =>
    let r := step X a op
    if target op = some i then r.1 :: respTo i r.2 ops else respTo i r.2 ops

/-! ### creation -/

theorem init_spec (a : App E Q) (n : String) :
    (∀ id, resId (init X .repaired a n).1 = some id → id = a.last + 1 ∧ (init X .repaired a n).2.last = id ∧
        (∀ j, j ≠ id → (init X .repaired a n).2.backtests j = a.backtests j) ∧
        (∃ ds d0 rest, a.datasets n = some ds ∧ ds.dates = d0 :: rest ∧
          (init X .repaired a n).2.backtests id = some { date := d0, pos := 0, exch := X.new, dataset := n })) ∧
    (resId (init X .repaired a n).1 = none → (init X .repaired a n).2 = a) ∧
    (a.datasets n = none → (init X .repaired a n).1 = .none) ∧
    (init X .repaired a n).2.datasets = a.datasets ∧ a.last ≤ (init X .repaired a n).2.last := by
  cases hd : a.datasets n with
  | none => simp [init, hd, resId]
  | some ds =>
    cases hdd : ds.dates with
    | nil => simp [init, hd, hdd, resId]
    | cons d0 rest =>
      simp only [init, hd, hdd, resId, Option.some.injEq, Variant.repaired, if_true]
      refine ⟨?_, by simp, by simp, rfl, by simp⟩
      intro id hid; subst hid
      refine ⟨rfl, rfl, fun j hj => by simp [setBt, hj], ds, d0, rest, rfl, hdd, ?_⟩
      simp [setBt]

/-- ids handed out only grow: a successful creation returns `last + 1` and stores it -/
theorem step_last_mono (a : App E Q) (op : Op O A D) : a.last ≤ (step X a op).2.last := by
  cases op with
  | init n => exact (init_spec X a n).2.2.2.2
  | newbt n => exact (init_spec X a n).2.2.2.2
  | tick i adm =>
    simp only [step, tick]
    split
    · exact Nat.le_refl _
    · split
      · exact Nat.le_refl _
      · simp [setBt]
  | insert i o => simp only [step, insert]; split <;> simp [setBt]
  | delete i d => simp only [step, delete]; split <;> simp [setBt]
  | fetch i => exact Nat.le_refl _
  | now i => exact Nat.le_refl _
  | info i => exact Nat.le_refl _

/-- every successful creation returns an id strictly above the id counter it found -/
theorem created_id_fresh (a : App E Q) (op : Op O A D) (id : Nat)
    (h : (step X a op).1 = .id (some id)) : a.last < id ∧ (step X a op).2.last = id := by
  cases op with
  | init n =>
    simp only [step] at h
    have := (init_spec X a n).1 id (by injection h)
    exact ⟨by omega, this.2.1⟩
  | newbt n =>
    simp only [step] at h
    have := (init_spec X a n).1 id (by injection h)
    exact ⟨by omega, this.2.1⟩
  | tick i adm => simp [step] at h
  | insert i o => simp [step] at h
  | delete i d => simp [step] at h
  | fetch i => simp [step] at h
  | now i => simp [step] at h
  | info i => simp [step] at h

/-- ids returned by the creations of a history, in order -/
def createdIds (a : App E Q) : List (Op O A D) → List Nat
  | [] => []
  | op :: ops =>
    match (step X a op).1 with
    | .id (some i) => i :: createdIds (step X a op).2 ops
    | _ => createdIds (step X a op).2 ops

/-- **fresh ids over every history**: the ids returned by successive successful creations are strictly
    increasing and all above the id counter at the start (hence never collide with existing backtests,
    in particular not with the pre-made backtest 0 of `single`, whose counter starts at 1) -/
theorem createdIds_increasing (ops : List (Op O A D)) : ∀ (a : App E Q),
    (createdIds X a ops).Pairwise (· < ·) ∧ ∀ i ∈ createdIds X a ops, a.last < i := by
  induction ops with
  | nil => intro a; simp [createdIds]
  | cons op ops ih =>
    intro a
    obtain ⟨ih1, ih2⟩ := ih (step X a op).2
    have hm := step_last_mono X a op
    simp only [createdIds]
    split
    · rename_i i hi
      obtain ⟨h1, h2⟩ := created_id_fresh X a op i hi
      refine ⟨List.pairwise_cons.mpr ⟨fun j hj => by have := ih2 j hj; omega, ih1⟩, ?_⟩
      intro j hj
      rcases List.mem_cons.mp hj with rfl | hj
      · exact h1
      · have := ih2 j hj; omega
    · exact ⟨ih1, fun j hj => by have := ih2 j hj; omega⟩

/-! ### non-interference -/

/-- an operation not addressed to `i` leaves backtest `i` and the datasets alone, provided `i` already
    lies at or below the id counter (so no creation can hit it) -/
theorem step_other (a : App E Q) (op : Op O A D) (i : Nat) (hi : i ≤ a.last) (ht : target op ≠ some i) :
    (step X a op).2.backtests i = a.backtests i ∧ (step X a op).2.datasets = a.datasets := by
  cases op with
  | init n =>
    obtain ⟨h1, h2, _, h3, _⟩ := init_spec X a n
    refine ⟨?_, h3⟩
    cases hr : resId (init X .repaired a n).1 with
    | none => simp only [step]; rw [h2 hr]
    | some id =>
      obtain ⟨e1, _, e3, _⟩ := h1 id hr
      exact e3 i (by omega)
  | newbt n =>
    obtain ⟨h1, h2, _, h3, _⟩ := init_spec X a n
    refine ⟨?_, h3⟩
    cases hr : resId (init X .repaired a n).1 with
    | none => simp only [step, newBacktest]; exact congrArg (fun s => s.backtests i) (h2 hr)
    | some id =>
      obtain ⟨e1, _, e3, _⟩ := h1 id hr
      exact e3 i (by omega)
  | tick j adm =>
    have hj : i ≠ j := fun h => ht (by simp [target, h])
    simp only [step, tick]
    split
    · exact ⟨rfl, rfl⟩
    · split
      · exact ⟨rfl, rfl⟩
      · simp [setBt, hj]
  | insert j o =>
    have hj : i ≠ j := fun h => ht (by simp [target, h])
    simp only [step, insert]; split <;> simp [setBt, hj]
  | delete j d =>
    have hj : i ≠ j := fun h => ht (by simp [target, h])
    simp only [step, delete]; split <;> simp [setBt, hj]
  | fetch j => exact ⟨rfl, rfl⟩
  | now j => exact ⟨rfl, rfl⟩
  | info j => exact ⟨rfl, rfl⟩

/-- an operation addressed to `i` sees only backtest `i` and the datasets -/
theorem step_same (a a' : App E Q) (op : Op O A D) (i : Nat) (ht : target op = some i)
    (hb : a.backtests i = a'.backtests i) (hd : a.datasets = a'.datasets) :
    (step X a op).1 = (step X a' op).1 ∧ (step X a op).2.backtests i = (step X a' op).2.backtests i ∧
    (step X a op).2.datasets = (step X a' op).2.datasets := by
  cases op with
  | init n => simp [target] at ht
  | newbt n => simp [target] at ht
  | tick j adm =>
    have : j = i := by simpa [target] using ht
    subst this
    simp only [step, tick, hb, hd]
    cases a'.backtests j with
    | none => exact ⟨rfl, hb ▸ rfl, hd⟩
    | some bt =>
      simp only []
      cases a'.datasets bt.dataset with
      | none => exact ⟨rfl, by simpa using hb, hd⟩
      | some ds => simp [setBt, hd]
  | insert j o =>
    have : j = i := by simpa [target] using ht
    subst this
    simp only [step, insert, hb]
    cases a'.backtests j with
    | none => exact ⟨rfl, by simpa using hb, hd⟩
    | some bt => simp [setBt, hd]
  | delete j d =>
    have : j = i := by simpa [target] using ht
    subst this
    simp only [step, delete, hb]
    cases a'.backtests j with
    | none => exact ⟨rfl, by simpa using hb, hd⟩
    | some bt => simp [setBt, hd]
  | fetch j =>
    have : j = i := by simpa [target] using ht
    subst this
    simp [step, fetch, hb, hd]
  | now j =>
    have : j = i := by simpa [target] using ht
    subst this
    simp [step, now, hb, hd]
  | info j =>
    have : j = i := by simpa [target] using ht
    subst this
    simp [step, info, hb, hd]

/-- **non-interference**: the responses a client obtains for backtest `i` are the same whatever
    operations are interleaved on other backtests (and whatever backtests are created meanwhile) -/
theorem noninterference (i : Nat) : ∀ (ops : List (Op O A D)) (a a' : App E Q),
    a.backtests i = a'.backtests i → a.datasets = a'.datasets → i ≤ a.last → i ≤ a'.last →
    respTo X i a ops = respTo X i a' (ops.filter (fun op => target op = some i)) := by
  intro ops
  induction ops with
  | nil => intro a a' _ _ _ _; rfl
  | cons op ops ih =>
    intro a a' hb hd hi hi'
    by_cases ht : target op = some i
    · obtain ⟨s1, s2, s3⟩ := step_same X a a' op i ht hb hd
      simp only [respTo, ht, if_true, List.filter_cons, decide_true]
      rw [s1, ih (step X a op).2 (step X a' op).2 s2 s3 (Nat.le_trans hi (step_last_mono X a op))
        (Nat.le_trans hi' (step_last_mono X a' op))]
    · obtain ⟨o1, o2⟩ := step_other X a op i hi ht
      simp only [respTo, ht, if_false, List.filter_cons, decide_false, Bool.false_eq_true]
      exact ih (step X a op).2 a' (o1.trans hb) (o2.trans hd) (Nat.le_trans hi (step_last_mono X a op)) hi'

/-- requests naming an unknown backtest are rejected and change nothing -/
theorem unknown_backtest_inert (a : App E Q) (op : Op O A D) (i : Nat) (ht : target op = some i)
    (hu : a.backtests i = none) :
    (step X a op).2 = a ∧
    ((step X a op).1 = .tick none ∨ (step X a op).1 = .unit false ∨ (step X a op).1 = .quotes none
      ∨ (step X a op).1 = .now none ∨ (step X a op).1 = .info none) := by
  cases op with
  | init n => simp [target] at ht
  | newbt n => simp [target] at ht
  | tick j adm =>
    have : j = i := by simpa [target] using ht
    subst this; simp [step, tick, hu]
  | insert j o =>
    have : j = i := by simpa [target] using ht
    subst this; simp [step, insert, hu]
  | delete j d =>
    have : j = i := by simpa [target] using ht
    subst this; simp [step, delete, hu]
  | fetch j =>
    have : j = i := by simpa [target] using ht
    subst this; simp [step, fetch, hu]
  | now j =>
    have : j = i := by simpa [target] using ht
    subst this; simp [step, now, hu]
  | info j =>
    have : j = i := by simpa [target] using ht
    subst this; simp [step, info, hu]

/-- a creation naming an unknown dataset is rejected and changes nothing -/
theorem unknown_dataset_inert (a : App E Q) (n : String) (h : a.datasets n = none) :
    step X a (.init n : Op O A D) = (.id none, a) ∧ step X a (.newbt n : Op O A D) = (.id none, a) := by
  simp [step, init, newBacktest, h, resId]

end SV
