import AlatorVerif.Lemmas.BrokerProps
/-! C09: the Failed state is entered iff the shortfall plus buffer exceeds the liquidation value — prototype -/
namespace PBk
open PU Proto
variable {σ α : Type} [DecidableEq σ] [Field α] [LinearOrder α] [IsStrictOrderedRing α] [FloorRing α]

/-- cost-adjusted budget never exceeds max(budget, 0) -/
theorem impact_budget_le_max (cs : List (Cost α)) (h : ∀ c ∈ cs, c.WF) (s : Bool) : ∀ (b q : α),
    (impactTotal cs b q s).1 ≤ max b 0 := by
  induction cs with
  | nil => intro b q; simp [impactTotal]
  | cons c cs ih =>
    intro b q
    have hWF := fun c hc => h c (List.mem_cons_of_mem _ hc)
    have hc := h c (List.mem_cons_self)
    rw [impactTotal_cons]
    refine le_trans (ih hWF _ _) ?_
    cases c with
    | perShare v => simp [Cost.impact]
    | pct p =>
      simp only [Cost.impact]
      obtain ⟨p0, p1⟩ := hc
      rcases le_total 0 b with hb | hb
      · rw [max_eq_left hb]; apply max_le
        · nlinarith
        · exact hb
      · rw [max_eq_right hb]; apply max_le
        · nlinarith
        · exact le_refl _
    | flat v =>
      simp only [Cost.impact]
      have hv : 0 ≤ v := hc
      apply max_le
      · exact le_trans (by linarith) (le_max_left _ _)
      · exact le_max_right _ _

theorem foldl_add_getD (f : σ → Option α) (ks : List σ) (a : α) :
    ks.foldl (fun acc k => match f k with | some v => acc + v | none => acc) a
      = a + (ks.map (fun k => (f k).getD 0)).sum := by
  induction ks generalizing a with
  | nil => simp
  | cons k ks ih =>
    simp only [List.foldl_cons, List.map_cons, List.sum_cons]
    rw [ih]; cases f k <;> simp [add_assoc]

theorem liqValue_eq (b : Brk σ α) (ks : List σ) :
    liqValue b ks = b.cash + (ks.map (fun k => (posLiq b k).getD 0)).sum := foldl_add_getD _ _ _
theorem totalValue_eq (b : Brk σ α) (ks : List σ) :
    totalValue b ks = b.cash + (ks.map (fun k => (posValue b k).getD 0)).sum := foldl_add_getD _ _ _

/-- C11: for a long portfolio with well-formed costs, liquidation value ≤ total value -/
theorem liq_le_total (b : Brk σ α) (ks : List σ) (hc : ∀ c ∈ b.costs, c.WF)
    (hpos : ∀ k v, posValue b k = some v → 0 ≤ v) : liqValue b ks ≤ totalValue b ks := by
  rw [liqValue_eq, totalValue_eq]
  suffices hs : (ks.map (fun k => (posLiq b k).getD 0)).sum ≤ (ks.map (fun k => (posValue b k).getD 0)).sum by
    linarith
  apply List.sum_le_sum
  intro k _
  unfold posLiq
  cases hv : posValue b k with
  | none => simp
  | some v =>
    cases hh : b.hold k with
    | none => simp; exact hpos k v hv
    | some n =>
      simp only [Option.getD_some]
      have := impact_budget_le_max b.costs hc false v (v / n)
      rwa [max_eq_left (hpos k v hv)] at this

/-- C11: without trade costs they are equal -/
theorem liq_eq_total_nocost (b : Brk σ α) (ks : List σ) (hc : b.costs = [])
    (hh : ∀ k v, posValue b k = some v → b.hold k ≠ none) : liqValue b ks = totalValue b ks := by
  rw [liqValue_eq, totalValue_eq]
  congr 2
  apply List.map_congr_left
  intro k _
  unfold posLiq
  cases hv : posValue b k with
  | none => rfl
  | some v =>
    cases hk : b.hold k with
    | none => exact absurd hk (hh k v hv)
    | some n => simp [hc, impactTotal]

/-- the walk ends in the partial-sale branch when enough value is still ahead -/
theorem walk_done_of_enough (v : Variant) (b : Brk σ α) :
    ∀ (ks : List σ) (rem : α) (acc : List (σ × α)), 0 ≤ rem →
    rem < (ks.map (fun k => (posValue b k).getD 0)).sum →
    ∃ os, walk v b ks rem acc = .done os ∧
      ∀ o ∈ os, o ∈ acc ∨ (b.latest o.1 ≠ none ∨ b.hold o.1 ≠ none) := by
  intro ks
  induction ks with
  | nil => intro rem acc h0 h; simp at h; linarith
  | cons k ks ih =>
    intro rem acc h0 h
    simp only [List.map_cons, List.sum_cons] at h
    simp only [walk]
    split
    · rename_i hle
      cases hh : b.hold k with
      | none =>
        have : (posValue b k).getD 0 = 0 := by
          simp only [posValue, hh]; cases b.latest k <;> rfl
        simp only []
        exact ih rem acc h0 (by rw [this] at h; linarith)
      | some n =>
        simp only []
        obtain ⟨os, h1, h2⟩ := ih (rem - (posValue b k).getD 0) (acc ++ [(k, n)]) (by linarith) (by linarith)
        refine ⟨os, h1, ?_⟩
        intro o ho
        rcases h2 o ho with hm | hm
        · rcases List.mem_append.mp hm with hm | hm
          · exact Or.inl hm
          · simp at hm; subst hm; exact Or.inr (Or.inr (by simp [hh]))
        · exact Or.inr hm
    · rename_i hnle
      cases hb : b.latest k with
      | some q =>
        refine ⟨_, rfl, ?_⟩
        intro o ho
        rcases List.mem_append.mp ho with hm | hm
        · exact Or.inl hm
        · simp at hm; subst hm; exact Or.inr (Or.inl (by simp [hb]))
      | none =>
        exfalso
        have : (posValue b k).getD 0 = 0 := by simp [posValue, hb]
        rw [this] at hnle; exact hnle h0


theorem sendOrder_sell_nopanic (v : Variant) (b : Brk σ α) (srv : Srv σ α) (k : σ) (n : α)
    (h : b.latest k ≠ none) : (sendOrder v b srv (mkSell k n)).1 ≠ .panic := by
  unfold sendOrder
  by_cases hf : b.failed = true
  · simp [hf]
  · have hf' : b.failed = false := by simpa using hf
    simp only [hf', Bool.false_eq_true, if_false, mkSell]
    cases hq : b.latest k with
    | none => exact absurd hq h
    | some q =>
      simp only [sufficientCash]
      split <;> (try split) <;> simp

theorem sendOrders_sell_nopanic (v : Variant) (os : List (σ × α)) : ∀ (b : Brk σ α) (srv : Srv σ α),
    (∀ o ∈ os, b.latest o.1 ≠ none) →
    (sendOrders v b srv (os.map (fun o => mkSell o.1 o.2))).2.2 = false := by
  induction os with
  | nil => intro b srv _; rfl
  | cons o os ih =>
    intro b srv h
    simp only [List.map_cons, sendOrders]
    have h1 := sendOrder_sell_nopanic v b srv o.1 o.2 (h o (by simp))
    have hl : (sendOrder v b srv (mkSell o.1 o.2)).2.1.latest = b.latest := by
      rcases sendOrder_cases v b srv (mkSell o.1 o.2) with ⟨e, _, _⟩ | ⟨_, _, e, _⟩ <;> rw [e]
    have h2 := ih (sendOrder v b srv (mkSell o.1 o.2)).2.1 (sendOrder v b srv (mkSell o.1 o.2)).2.2
      (fun x hx => by rw [hl]; exact h x (by simp [hx]))
    rw [h2]
    cases hev : (sendOrder v b srv (mkSell o.1 o.2)).1 <;> simp_all

/-- C09 core: for a long portfolio whose held symbols are quoted, with well-formed costs and negative
    cash, a liquidation request `req ≥ 0` reports failure **iff** it exceeds the liquidation value -/
theorem withdrawLiq_fail_iff (v : Variant) (b : Brk σ α) (srv : Srv σ α) (ks : List σ) (req : α)
    (hreq : 0 ≤ req) (hcash : b.cash < 0) (hc : ∀ c ∈ b.costs, c.WF)
    (hpos : ∀ k v, posValue b k = some v → 0 ≤ v)
    (hq : ∀ k, b.hold k ≠ none → b.latest k ≠ none) :
    (∃ x, (withdrawLiq v b srv ks req).1 = .wFail x) ↔ liqValue b ks < req := by
  unfold withdrawLiq
  by_cases hlt : liqValue b ks < req
  · simp [hlt]
  · simp only [hlt, if_false, iff_false, not_exists]
    -- enough value is ahead of the walk
    have hle : liqValue b ks ≤ totalValue b ks := liq_le_total b ks hc hpos
    have hsum : req < (ks.map (fun k => (posValue b k).getD 0)).sum := by
      rw [totalValue_eq] at hle
      have : req ≤ liqValue b ks := not_lt.mp hlt
      linarith
    obtain ⟨os, hw, hos⟩ := walk_done_of_enough v b ks req [] hreq hsum
    rw [hw]
    simp only []
    have hz : isZero (0:α) = true := (isZero_iff 0).mpr rfl
    simp only [hz, if_true]
    have hnp := sendOrders_sell_nopanic v os b srv (by
      intro o ho
      rcases hos o ho with hm | hm | hm
      · simp at hm
      · exact hm
      · exact hq _ hm)
    rw [hnp]
    intro x hx
    simp at hx


/-- the broker after tick, quote merge and booking, before `rebalance_cash` -/
def mergedQuotes (b : Brk σ α) (srv : Srv σ α) (adm : List (Order σ α)) : Brk σ α :=
  { b with latest := fun s => match (srv.tick adm).2.quotes (srv.tick adm).2.date s with
                             | some q => some q | none => b.latest s }

def afterBooking (b : Brk σ α) (srv : Srv σ α) (adm : List (Order σ α)) : Brk σ α :=
  (srv.tick adm).1.2.foldl book (mergedQuotes b srv adm)

theorem book_fold_failed (ts : List (Trade σ α)) : ∀ (b0 : Brk σ α), (ts.foldl book b0).failed = b0.failed := by
  induction ts with
  | nil => intro b0; rfl
  | cons t ts ih => intro b0; simp only [List.foldl_cons]; rw [ih]; rfl

/-- C09: after a tick is reconciled, a Ready broker with a long, quoted portfolio becomes Failed
    **iff** cash is negative and the shortfall plus the 1000 buffer exceeds the liquidation value -/
theorem check_failed_iff (v : Variant) (b : Brk σ α) (srv : Srv σ α) (adm : List (Order σ α)) (ks : List σ)
    (hready : b.failed = false)
    (hc : ∀ c ∈ (afterBooking b srv adm).costs, c.WF)
    (hpos : ∀ k x, posValue (afterBooking b srv adm) k = some x → 0 ≤ x)
    (hq : ∀ k, (afterBooking b srv adm).hold k ≠ none → (afterBooking b srv adm).latest k ≠ none) :
    (check v b srv adm ks).1.failed = true ↔
      ((afterBooking b srv adm).cash < 0 ∧
        liqValue (afterBooking b srv adm) ks < (afterBooking b srv adm).cash * (-1) + 1000.0) := by
  have hb1f : (afterBooking b srv adm).failed = false := by
    unfold afterBooking; rw [book_fold_failed]; exact hready
  have hcheck : check v b srv adm ks =
      (if (afterBooking b srv adm).cash < 0 then
        let w := withdrawLiq v (afterBooking b srv adm) (srv.tick adm).2 ks ((afterBooking b srv adm).cash * (-1) + 1000.0)
        match w.1 with
        | .wFail _ => ({ w.2.1 with failed := true }, w.2.2, false)
        | .panic => (w.2.1, w.2.2, true)
        | _ => (w.2.1, w.2.2, false)
      else (afterBooking b srv adm, (srv.tick adm).2, false)) := rfl
  rw [hcheck]
  by_cases hneg : (afterBooking b srv adm).cash < 0
  · simp only [hneg, if_true, true_and]
    have hreq : (0:α) ≤ (afterBooking b srv adm).cash * (-1) + 1000.0 := by
      have : (0:α) ≤ 1000.0 := by norm_num
      linarith
    have hiff := withdrawLiq_fail_iff v (afterBooking b srv adm) (srv.tick adm).2 ks _ hreq hneg hc hpos hq
    have hfl := withdrawLiq_failed v (afterBooking b srv adm) (srv.tick adm).2 ks
      ((afterBooking b srv adm).cash * (-1) + 1000.0)
    constructor
    · intro hfail
      apply hiff.mp
      cases hw : (withdrawLiq v (afterBooking b srv adm) (srv.tick adm).2 ks
          ((afterBooking b srv adm).cash * (-1) + 1000.0)).1 with
      | wFail x => exact ⟨x, rfl⟩
      | wOk x => rw [hw] at hfail; simp only [] at hfail; rw [hfl, hb1f] at hfail; cases hfail
      | dOk x => rw [hw] at hfail; simp only [] at hfail; rw [hfl, hb1f] at hfail; cases hfail
      | opFail x => rw [hw] at hfail; simp only [] at hfail; rw [hfl, hb1f] at hfail; cases hfail
      | panic => rw [hw] at hfail; simp only [] at hfail; rw [hfl, hb1f] at hfail; cases hfail
    · intro hlt
      obtain ⟨x, hx⟩ := hiff.mpr hlt
      rw [hx]
  · simp only [hneg, if_false, false_and, iff_false]
    rw [hb1f]; simp

end PBk
