import AlatorVerif.Model.Liq
import AlatorVerif.Lemmas.Thm
namespace PL
open Proto
variable {σ α : Type} [Field α] [LinearOrder α] [IsStrictOrderedRing α] [FloorRing α]

/-- value of a list of sell orders at the last seen bids -/
def worth (b : B σ α) (os : List (σ × α)) : α :=
  (os.map (fun o => (b.bid o.1).getD 0 * o.2)).sum

theorem worth_append (b : B σ α) (xs ys : List (σ × α)) : worth b (xs ++ ys) = worth b xs + worth b ys := by
  simp [worth]

/-- C10 core (sufficiency): whatever the walk order, if the loop ends with nothing left to raise,
    the sales queued are worth at least what was still to be raised when it started. -/
theorem walk_sufficient (b : B σ α) (hbid : ∀ s p, b.bid s = some p → 0 < p) :
    ∀ (ks : List σ) (rem : α) (acc os : List (σ × α)),
    (walk b ks rem acc = .done os ∨ walk b ks rem acc = .left 0 os) →
    worth b acc + rem ≤ worth b os := by
  intro ks
  induction ks with
  | nil => intro rem acc os h; simp [walk] at h; obtain ⟨h1, h2⟩ := h; subst h1; subst h2; simp
  | cons k ks ih =>
    intro rem acc os h
    simp only [walk] at h
    split at h
    · rename_i hle
      cases hh : b.hold k with
      | none => simp only [hh] at h; exact ih rem acc os h
      | some q =>
        simp only [hh] at h
        have := ih _ _ os h
        rw [worth_append] at this
        have hv : worth b [(k, q)] = (posValue b k).getD 0 := by
          simp only [worth, List.map_cons, List.map_nil, List.sum_cons, List.sum_nil, add_zero, posValue, hh]
          cases b.bid k <;> simp
        rw [hv] at this; linarith
    · cases hb : b.bid k with
      | none => simp [hb] at h
      | some p =>
        simp only [hb] at h
        have hp := hbid k p hb
        rcases h with h | h
        · cases h
          rw [worth_append]
          have : rem ≤ p * (⌈rem / p⌉ : α) := by
            have h1 : rem / p ≤ (⌈rem / p⌉ : α) := Int.le_ceil _
            have := mul_le_mul_of_nonneg_left h1 hp.le
            rwa [mul_div_cancel₀ _ hp.ne'] at this
          have hw : worth b [(k, (HasFloor.ceil (rem / p) : α))] = p * (⌈rem / p⌉ : α) := by
            simp only [worth, List.map_cons, List.map_nil, List.sum_cons, List.sum_nil, add_zero, hb, Option.getD_some]; rfl
          rw [hw]; linarith
        · cases h

/-- C10 core (no overselling): a partial sale never exceeds a whole-share position -/
theorem partial_le_position (p q rem : α) (hp : 0 < p) (hq : ∃ z : ℤ, q = z) (h : rem < p * q) :
    ((⌈rem / p⌉ : ℤ) : α) ≤ q := by
  obtain ⟨z, rfl⟩ := hq
  have : rem / p ≤ (z : α) := by
    rw [div_le_iff₀ hp]; linarith [mul_comm p (z : α)]
  exact_mod_cast Int.ceil_le.mpr this

/-- C09 core (the `←` direction of the iff): if the positions still to be visited are worth strictly
    more than what is left to raise, the walk ends in the partial-sale branch, whatever the order. -/
theorem walk_done_of_enough (b : B σ α)
    (hq : ∀ s, b.hold s ≠ none → b.bid s ≠ none) :
    ∀ (ks : List σ) (rem : α) (acc : List (σ × α)), 0 ≤ rem →
    rem < (ks.map (fun k => (posValue b k).getD 0)).sum →
    ∃ os, walk b ks rem acc = .done os := by
  intro ks
  induction ks with
  | nil => intro rem acc h0 h; simp at h; linarith
  | cons k ks ih =>
    intro rem acc h0 h
    simp only [List.map_cons, List.sum_cons] at h
    simp only [walk]
    split
    · rename_i hle
      cases hh : b.hold k with
      | none =>
        have : (posValue b k).getD 0 = 0 := by simp only [posValue, hh]; cases b.bid k <;> rfl
        simp only []; exact ih rem acc h0 (by rw [this] at h; linarith)
      | some q => simp only []; exact ih _ _ (by linarith) (by linarith)
    · rename_i hnle
      cases hb : b.bid k with
      | some p => exact ⟨_, rfl⟩
      | none =>
        exfalso
        have : (posValue b k).getD 0 = 0 := by simp [posValue, hb]
        rw [this] at hnle; exact hnle h0

end PL
