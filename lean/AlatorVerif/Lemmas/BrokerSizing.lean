import AlatorVerif.Lemmas.FailedIff
/-! C10 and C12 ported onto the validated broker model (repaired variant) — prototype -/
namespace PBk
open PU Proto
variable {σ α : Type} [DecidableEq σ] [Field α] [LinearOrder α] [IsStrictOrderedRing α] [FloorRing α]

/-! ### C10 -/

def worth (b : Brk σ α) (os : List (σ × α)) : α :=
  (os.map (fun o => ((b.latest o.1).map (·.bid)).getD 0 * o.2)).sum

theorem worth_append (b : Brk σ α) (xs ys : List (σ × α)) : worth b (xs ++ ys) = worth b xs + worth b ys := by
  simp [worth]

/-- C10: whatever the walk order, if the loop of the repaired code ends with nothing left to raise, the
    sales it queued are worth, at the last seen bids, at least what was still to be raised -/
theorem walk_sufficient (b : Brk σ α) (hbid : ∀ s q, b.latest s = some q → 0 < q.bid) :
    ∀ (ks : List σ) (rem : α) (acc os : List (σ × α)),
    (walk .repaired b ks rem acc = .done os ∨ walk .repaired b ks rem acc = .left 0 os) →
    worth b acc + rem ≤ worth b os := by
  intro ks
  induction ks with
  | nil => intro rem acc os h; simp [walk] at h; obtain ⟨h1, h2⟩ := h; subst h1; subst h2; simp
  | cons k ks ih =>
    intro rem acc os h
    simp only [walk] at h
    split at h
    · rename_i hle
      cases hh : b.hold k with
      | none => simp only [hh] at h; exact ih rem acc os h
      | some n =>
        simp only [hh] at h
        have := ih _ _ os h
        rw [worth_append] at this
        have hv : worth b [(k, n)] = (posValue b k).getD 0 := by
          simp only [worth, List.map_cons, List.map_nil, List.sum_cons, List.sum_nil, add_zero, posValue, hh]
          cases b.latest k <;> simp
        rw [hv] at this; linarith
    · rename_i hnle
      cases hb : b.latest k with
      | none => simp [hb] at h
      | some q =>
        simp only [hb, Variant.repaired, if_true] at h
        have hp := hbid k q hb
        have hceil : rem ≤ q.bid * (⌈rem / q.bid⌉ : α) := by
          have h1 : rem / q.bid ≤ (⌈rem / q.bid⌉ : α) := Int.le_ceil _
          have := mul_le_mul_of_nonneg_left h1 hp.le
          rwa [mul_div_cancel₀ _ hp.ne'] at this
        have hw : ∀ n : α, worth b [(k, n)] = q.bid * n := by
          intro n
          simp only [worth, List.map_cons, List.map_nil, List.sum_cons, List.sum_nil, add_zero, hb,
            Option.map_some, Option.getD_some]
        rcases h with h | h
        · cases h
          rw [worth_append, hw]
          -- the share count: ceil(rem / bid), capped at the position held
          cases hh : b.hold k with
          | none => simp only []; show worth b acc + rem ≤ worth b acc + q.bid * (⌈rem / q.bid⌉ : α); linarith
          | some hq =>
            simp only []
            by_cases hlt : hq < (HasFloor.ceil (rem / q.bid) : α)
            · simp only [hlt, if_true]
              -- the whole position: worth more than what is still to be raised
              have hpv : (posValue b k).getD 0 = q.bid * hq := by simp [posValue, hb, hh]
              rw [hpv] at hnle
              have := lt_of_not_ge hnle
              linarith
            · simp only [hlt, if_false]
              show worth b acc + rem ≤ worth b acc + q.bid * (⌈rem / q.bid⌉ : α); linarith
        · cases h

/-- C10: a partial sale never exceeds a whole-share position -/
theorem partial_le_position (p q rem : α) (hp : 0 < p) (hq : ∃ z : ℤ, q = z) (h : rem < p * q) :
    ((⌈rem / p⌉ : ℤ) : α) ≤ q := by
  obtain ⟨z, rfl⟩ := hq
  have : rem / p ≤ (z : α) := by
    rw [div_le_iff₀ hp]; linarith [mul_comm p (z : α)]
  exact_mod_cast Int.ceil_le.mpr this

/-- C10: on failure nothing is queued (the exchange is untouched) and, for a request above free cash,
    the broker is untouched too -/
theorem withdrawLiq_failure_inert (v : Variant) (b : Brk σ α) (srv : Srv σ α) (ks : List σ) (req x : α)
    (hreq : b.cash < req) (h : (withdrawLiq v b srv ks req).1 = .wFail x) :
    (withdrawLiq v b srv ks req).2.1 = b ∧ (withdrawLiq v b srv ks req).2.2 = srv := by
  unfold withdrawLiq at h ⊢
  split
  · exact ⟨debit_noop b req hreq, rfl⟩
  · rename_i hnl
    simp only [hnl, if_false] at h
    have hfin : ∀ (os : List (σ × α)) (rem : α),
        let r := ((if isZero rem then
            let r := sendOrders v b srv (os.map (fun o => mkSell o.1 o.2))
            if r.2.2 then (CashEv.panic, r.1, r.2.1) else (CashEv.wOk req, r.1, r.2.1)
          else (CashEv.wFail req, debit b req, srv)) : CashEv α × Brk σ α × Srv σ α)
        r.1 = .wFail x → r.2.1 = b ∧ r.2.2 = srv := by
      intro os rem
      by_cases hz : isZero rem = true
      · simp only [hz, if_true]; split <;> (intro hc; cases hc)
      · simp only [hz, Bool.false_eq_true, if_false]; intro _; simp [debit_noop b req hreq]
    split at h
    · exact hfin _ 0 h
    · exact hfin _ _ h
    · cases h

/-! ### C12 -/

/-- what one weight entry contributes (repaired code) -/
def entryR (b : Brk σ α) (total : α) (sw : σ × α) : Option (Order σ α) :=
  let d := total * sw.2 - (posValue b sw.1).getD 0
  if isZero d then none
  else match b.latest sw.1 with
    | none => none
    | some q =>
      let r := requiredShares .repaired b.costs d q
      if isZero r then none else if 0 < r then some (mkBuy sw.1 r) else some (mkSell sw.1 (absv r))

/-- the sequential loop of the repaired code accumulates exactly the sells and the buys of the entries -/
theorem diffLoop_eq (b : Brk σ α) (total : α) : ∀ (ws : List (σ × α)) (sells buys : List (Order σ α)),
    diffLoop .repaired b total ws sells buys =
      (sells ++ (ws.filterMap (entryR b total)).filter isSell,
       buys ++ (ws.filterMap (entryR b total)).filter (fun o => !isSell o)) := by
  intro ws
  induction ws with
  | nil => intro s bu; simp [diffLoop]
  | cons sw ws ih =>
    intro s bu
    obtain ⟨sym, w⟩ := sw
    simp only [diffLoop, List.filterMap_cons, entryR]
    by_cases hz : isZero (total * w - (posValue b sym).getD 0) = true
    · simp only [hz, if_true, Variant.repaired]; exact ih s bu
    · simp only [hz, Bool.false_eq_true, if_false]
      cases hq : b.latest sym with
      | none => simp only []; exact ih s bu
      | some q =>
        simp only []
        by_cases hr : isZero (requiredShares .repaired b.costs (total * w - (posValue b sym).getD 0) q) = true
        · simp only [hr, if_true]; exact ih s bu
        · simp only [hr, Bool.false_eq_true, if_false]
          by_cases hp : 0 < requiredShares .repaired b.costs (total * w - (posValue b sym).getD 0) q
          · simp only [hp, if_true]; rw [ih]
            simp [List.filter_cons, isSell, mkBuy, List.append_assoc]
          · simp only [hp, if_false]; rw [ih]
            simp [List.filter_cons, isSell, mkSell, List.append_assoc]

/-- C12: the repaired diff returns all sells before all buys, and its result for two iteration orders
    of the same weight map is the same up to permutation (within the sells and within the buys) -/
theorem diff_perm (b : Brk σ α) (ks : List σ) (ws ws' : List (σ × α)) (h : ws.Perm ws')
    (os os' : List (Order σ α)) (h1 : diff .repaired b ks ws = some os) (h2 : diff .repaired b ks ws' = some os') :
    (os.filter isSell).Perm (os'.filter isSell) ∧
    (os.filter (fun o => !isSell o)).Perm (os'.filter (fun o => !isSell o)) ∧ os.Perm os' ∧
    ∃ s bu, os = s ++ bu ∧ (∀ o ∈ s, isSell o = true) ∧ (∀ o ∈ bu, isSell o = false) := by
  simp only [diff] at h1 h2
  by_cases hz : isZero (liqValue b ks) = true
  · simp [hz] at h1
  · simp only [hz, Bool.false_eq_true, if_false, Option.some.injEq, diffLoop_eq, List.nil_append] at h1 h2
    subst h1; subst h2
    have hall : (ws.filterMap (entryR b (liqValue b ks))).Perm (ws'.filterMap (entryR b (liqValue b ks))) :=
      h.filterMap _
    have hs := hall.filter isSell
    have hb := hall.filter (fun o => !isSell o)
    refine ⟨?_, ?_, hs.append hb, ⟨_, _, rfl, ?_, ?_⟩⟩
    · simp only [List.filter_append, List.filter_filter]
      simpa using hs.append (List.Perm.refl [])
    · simp only [List.filter_append, List.filter_filter]
      simpa using (List.Perm.refl []).append hb
    · intro o ho; exact (List.mem_filter.mp ho).2
    · intro o ho; simpa using (List.mem_filter.mp ho).2

end PBk
