import AlatorVerif.Model.ServerU
/-! C08 on the validated server model: fresh ids and non-interference — prototype (core only) -/
namespace PSU
open PU
variable {σ α : Type} [DecidableEq σ] [LE α] [DecidableLE α] [Mul α]

inductive Op (σ α : Type) where
  | init (name : String)
  | newbt (name : String)
  | tick (id : Nat) (adm : List (Order σ α))
  | insert (id : Nat) (o : Order σ α)
  | delete (id oid : Nat)
  | fetch (id : Nat)
  | now (id : Nat)

/-- responses, as far as a client can observe them -/
inductive Resp (σ α : Type) where
  | id (r : Option Nat)
  | tick (r : Option (Bool × List (Trade σ α) × List (Order σ α)))
  | unit (ok : Bool)
  | quotes (r : Option (Int × (σ → Option (Quote α))))
  | now (r : Option (Int × Bool))

def resId : Res Nat → Option Nat | .ok n => some n | _ => none

/-- the repaired server (`init` stores the id it hands out) -/
def step (a : App σ α) : Op σ α → Resp σ α × App σ α
  | .init n => let r := init true a n; (.id (resId r.1), r.2)
  | .newbt n => let r := newBacktest a n; (.id (resId r.1), r.2)
  | .tick i adm => let r := tick a i adm; (.tick r.1, r.2)
  | .insert i o => let r := insert a i o; (.unit r.1, r.2)
  | .delete i oid => let r := delete a i oid; (.unit r.1, r.2)
  | .fetch i => (.quotes (fetch a i), a)
  | .now i => (.now (now a i), a)

/-- the backtest an operation is addressed to -/
def target : Op σ α → Option Nat
  | .tick i _ | .insert i _ | .delete i _ | .fetch i | .now i => some i
  | _ => none

def run (a : App σ α) : List (Op σ α) → List (Resp σ α) × App σ α
  | [] => ([], a)
  | op :: ops => let r := step a op; let rest := run r.2 ops; (r.1 :: rest.1, rest.2)

/-- responses to the operations addressed to backtest `i`, in order -/
def respTo (i : Nat) (a : App σ α) : List (Op σ α) → List (Resp σ α)
  | [] => []
  | op :: ops =>
    let r := step a op
    if target op = some i then r.1 :: respTo i r.2 ops else respTo i r.2 ops

/-! ### creation -/

theorem init_spec (a : App σ α) (n : String) :
    (∀ id, resId (init true a n).1 = some id → id = a.last + 1 ∧ (init true a n).2.last = id ∧
        (∀ j, j ≠ id → (init true a n).2.backtests j = a.backtests j) ∧
        (∃ bt, (init true a n).2.backtests id = some bt ∧ bt.pos = 0 ∧ bt.dataset = n ∧
            bt.exch.buffer = [] ∧ bt.exch.book.inner = [])) ∧
    (resId (init true a n).1 = none → (init true a n).2 = a) ∧
    (init true a n).2.datasets = a.datasets ∧ a.last ≤ (init true a n).2.last := by
  cases hd : a.datasets n with
  | none => simp [init, hd, resId]
  | some ds =>
    cases hdd : ds.dates with
    | nil => simp [init, hd, hdd, resId]
    | cons d0 rest =>
      simp only [init, hd, hdd, resId, Option.some.injEq, if_true]
      refine ⟨?_, by simp, rfl, by simp⟩
      intro id hid; subst hid
      refine ⟨rfl, rfl, fun j hj => by simp [setBt, hj], ?_⟩
      simp only [setBt, if_true]
      exact ⟨_, rfl, rfl, rfl, rfl, rfl⟩

/-- C08: ids handed out are fresh — strictly above every id handed out before -/
theorem step_last_mono (a : App σ α) (op : Op σ α) : a.last ≤ (step a op).2.last := by
  cases op with
  | init n => exact (init_spec a n).2.2.2
  | newbt n => exact (init_spec a n).2.2.2
  | tick i adm =>
    simp only [step, tick]
    split
    · exact Nat.le_refl _
    · split
      · exact Nat.le_refl _
      · simp [setBt]
  | insert i o => simp only [step, insert]; split <;> simp [setBt]
  | delete i oid => simp only [step, delete]; split <;> simp [setBt]
  | fetch i => exact Nat.le_refl _
  | now i => exact Nat.le_refl _

/-! ### non-interference -/

/-- an operation not addressed to `i` leaves backtest `i` and the datasets alone, provided `i` already
    lies at or below the id counter (so no creation can hit it) -/
theorem step_other (a : App σ α) (op : Op σ α) (i : Nat) (hi : i ≤ a.last) (ht : target op ≠ some i) :
    (step a op).2.backtests i = a.backtests i ∧ (step a op).2.datasets = a.datasets := by
  cases op with
  | init n =>
    obtain ⟨h1, h2, h3, _⟩ := init_spec a n
    refine ⟨?_, h3⟩
    cases hr : resId (init true a n).1 with
    | none => simp only [step]; rw [h2 hr]
    | some id =>
      obtain ⟨e1, _, e3, _⟩ := h1 id hr
      exact e3 i (by omega)
  | newbt n =>
    obtain ⟨h1, h2, h3, _⟩ := init_spec a n
    refine ⟨?_, h3⟩
    cases hr : resId (init true a n).1 with
    | none => simp only [step, newBacktest]; rw [h2 hr]
    | some id =>
      obtain ⟨e1, _, e3, _⟩ := h1 id hr
      exact e3 i (by omega)
  | tick j adm =>
    have hj : i ≠ j := fun h => ht (by simp [target, h])
    simp only [step, tick]
    split
    · exact ⟨rfl, rfl⟩
    · split
      · exact ⟨rfl, rfl⟩
      · simp [setBt, hj]
  | insert j o =>
    have hj : i ≠ j := fun h => ht (by simp [target, h])
    simp only [step, insert]; split <;> simp [setBt, hj]
  | delete j oid =>
    have hj : i ≠ j := fun h => ht (by simp [target, h])
    simp only [step, delete]; split <;> simp [setBt, hj]
  | fetch j => exact ⟨rfl, rfl⟩
  | now j => exact ⟨rfl, rfl⟩

/-- an operation addressed to `i` sees only backtest `i` and the datasets -/
theorem step_same (a a' : App σ α) (op : Op σ α) (i : Nat) (ht : target op = some i)
    (hb : a.backtests i = a'.backtests i) (hd : a.datasets = a'.datasets) :
    (step a op).1 = (step a' op).1 ∧ (step a op).2.backtests i = (step a' op).2.backtests i ∧
    (step a op).2.datasets = (step a' op).2.datasets := by
  cases op with
  | init n => simp [target] at ht
  | newbt n => simp [target] at ht
  | tick j adm =>
    have : j = i := by simpa [target] using ht
    subst this
    simp only [step, tick, hb, hd]
    cases a'.backtests j with
    | none => exact ⟨rfl, hb ▸ rfl, hd⟩
    | some bt =>
      simp only []
      cases a'.datasets bt.dataset with
      | none => exact ⟨rfl, by simpa using hb, hd⟩
      | some ds => simp [setBt, hd]
  | insert j o =>
    have : j = i := by simpa [target] using ht
    subst this
    simp only [step, insert, hb]
    cases a'.backtests j with
    | none => exact ⟨rfl, by simpa using hb, hd⟩
    | some bt => simp [setBt, hd]
  | delete j oid =>
    have : j = i := by simpa [target] using ht
    subst this
    simp only [step, delete, hb]
    cases a'.backtests j with
    | none => exact ⟨rfl, by simpa using hb, hd⟩
    | some bt => simp [setBt, hd]
  | fetch j =>
    have : j = i := by simpa [target] using ht
    subst this
    simp [step, fetch, hb, hd]
  | now j =>
    have : j = i := by simpa [target] using ht
    subst this
    simp [step, now, hb, hd]

/-- C08: the responses a client obtains for backtest `i` are the same whatever operations are
    interleaved on other backtests (and whatever backtests are created meanwhile) -/
theorem noninterference (i : Nat) : ∀ (ops : List (Op σ α)) (a a' : App σ α),
    a.backtests i = a'.backtests i → a.datasets = a'.datasets → i ≤ a.last → i ≤ a'.last →
    respTo i a ops = respTo i a' (ops.filter (fun op => target op = some i)) := by
  intro ops
  induction ops with
  | nil => intro a a' _ _ _ _; rfl
  | cons op ops ih =>
    intro a a' hb hd hi hi'
    by_cases ht : target op = some i
    · obtain ⟨s1, s2, s3⟩ := step_same a a' op i ht hb hd
      simp only [respTo, ht, if_true, List.filter_cons, decide_true]
      rw [s1, ih (step a op).2 (step a' op).2 s2 s3 (Nat.le_trans hi (step_last_mono a op))
        (Nat.le_trans hi' (step_last_mono a' op))]
    · obtain ⟨o1, o2⟩ := step_other a op i hi ht
      simp only [respTo, ht, if_false, List.filter_cons, decide_false, Bool.false_eq_true]
      exact ih (step a op).2 a' (o1.trans hb) (o2.trans hd) (Nat.le_trans hi (step_last_mono a op)) hi'

end PSU
