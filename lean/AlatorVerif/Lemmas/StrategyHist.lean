import AlatorVerif.Lemmas.StrategyThm
/-! C16 over every history of strategy operations: cash-flow bookkeeping and value conservation -/
namespace PSt
open PU Proto PBk
variable {σ α : Type} [DecidableEq σ] [Field α] [LinearOrder α] [IsStrictOrderedRing α] [FloorRing α]

/-- operations a client can perform on the strategy (after repair F8) -/
inductive SOp (σ α : Type) where
  | init (cash : α) (ks : List σ)
  | withdraw (cash : α)
  | update (adm : List (Order σ α)) (ks : List σ)

def sstep (v : Variant) (s : Strat σ α) : SOp σ α → Strat σ α
  | .init c ks => init v true s c ks
  | .withdraw c => PSt.withdraw s c
  | .update adm ks => update v s adm ks ks

def srun (v : Variant) : Strat σ α → List (SOp σ α) → Strat σ α
  | s, [] => s
  | s, op :: ops => srun v (sstep v s op) ops

/-- ghost: cumulative successful deposits minus successful withdrawals -/
def netAfter (s : Strat σ α) (net : α) : SOp σ α → α
  | .init c _ => if s.b.failed then net else net + c
  | .withdraw c => if s.b.failed then net else if s.b.cash < c then net else net - c
  | .update _ _ => net

def netRun (v : Variant) : Strat σ α → α → List (SOp σ α) → α
  | _, net, [] => net
  | s, net, op :: ops => netRun v (sstep v s op) (netAfter s net op) ops

/-- what the environment must respect (checked by the driver on every run, §5.1) -/
def SOk (s : Strat σ α) : SOp σ α → Prop
  | .update adm _ => adm.Perm s.srv.exch.buffer
  | _ => True

def SOkRun (v : Variant) : Strat σ α → List (SOp σ α) → Prop
  | _, [] => True
  | s, op :: ops => SOk s op ∧ SOkRun v (sstep v s op) ops

/-- `init` (after F8) is: deposit if Ready (crediting the cash flow), then the rebalancing step -/
theorem init_eq (v : Variant) (s : Strat σ α) (c : α) (ks : List σ) :
    init v true s c ks =
      rebalance v (if s.b.failed = true then s
                   else { s with b := { s.b with cash := c + s.b.cash }, ncf := s.ncf + c }) ks := by
  simp only [init, deposit]
  by_cases hf : s.b.failed = true <;> simp [hf]

theorem rebalance_inv (v : Variant) (s : Strat σ α) (ks : List σ) (net : α) (h : WInv s.b s.srv net) :
    WInv (rebalance v s ks).b (rebalance v s ks).srv net := by
  unfold rebalance
  split
  · exact h
  · exact (sendOrders_inv v _ s.b s.srv net h).1

/-- the strategy's `net_cash_flow` is the ghost `net`, and the broker invariants of C04/C05 hold -/
structure SInv (s : Strat σ α) (net : α) : Prop where
  w : WInv s.b s.srv net
  ncf : s.ncf = net

theorem sstep_inv (v : Variant) (s : Strat σ α) (op : SOp σ α) (net : α) (h : SInv s net) (ok : SOk s op) :
    SInv (sstep v s op) (netAfter s net op) := by
  cases op with
  | init c ks =>
    simp only [sstep, init_eq, netAfter]
    by_cases hf : s.b.failed = true
    · simp only [hf, if_true]
      refine ⟨rebalance_inv v _ ks net h.w, ?_⟩
      rw [(rebalance_frame v _ ks).2.2.2.2.2.2.2.2]; exact h.ncf
    · rw [if_neg hf, if_neg hf]
      have hw : WInv ({ s.b with cash := c + s.b.cash } : Brk σ α) s.srv (net + c) :=
        ⟨by simp only []; rw [h.w.ledger]; ring, h.w.logs, h.w.pend, h.w.hold, h.w.nozero, h.w.book⟩
      refine ⟨rebalance_inv v _ ks (net + c) hw, ?_⟩
      rw [(rebalance_frame v _ ks).2.2.2.2.2.2.2.2]; simp only []; rw [h.ncf]
  | withdraw c =>
    simp only [sstep, PSt.withdraw, netAfter, PBk.withdraw]
    by_cases hf : s.b.failed = true
    · simp only [hf, if_true]; exact ⟨h.w, h.ncf⟩
    · simp only [hf, Bool.false_eq_true, if_false]
      by_cases hc : s.b.cash < c
      · simp only [hc, if_true]; exact ⟨h.w, h.ncf⟩
      · simp only [hc, if_false, debit]
        refine ⟨⟨by simp only []; rw [h.w.ledger]; ring, h.w.logs, h.w.pend, h.w.hold, h.w.nozero, h.w.book⟩, ?_⟩
        simp only []; rw [h.ncf]
  | update adm ks =>
    simp only [sstep, netAfter]
    have hc := check_inv v s.b s.srv adm ks net h.w ok
    set s1 : Strat σ α := { s with b := (check v s.b s.srv adm ks).1, srv := (check v s.b s.srv adm ks).2.1,
                                    panicked := s.panicked || (check v s.b s.srv adm ks).2.2 } with hs1
    have hr := rebalance_inv v s1 ks net hc
    have hu : update v s adm ks ks =
        { rebalance v s1 ks with hist := (rebalance v s1 ks).hist ++
            [{ date := (rebalance v s1 ks).srv.date, value := totalValue (rebalance v s1 ks).b ks,
               ncf := (rebalance v s1 ks).ncf }] } := rfl
    rw [hu]
    refine ⟨hr, ?_⟩
    simp only []; rw [(rebalance_frame v s1 ks).2.2.2.2.2.2.2.2]; exact h.ncf

theorem srun_inv (v : Variant) (ops : List (SOp σ α)) : ∀ (s : Strat σ α) (net : α), SInv s net → SOkRun v s ops →
    SInv (srun v s ops) (netRun v s net ops) := by
  induction ops with
  | nil => intro s net h _; exact h
  | cons op ops ih => intro s net h ok; exact ih _ _ (sstep_inv v s op net h ok.1) ok.2

/-- every snapshot an update appends carries the strategy's running net cash flow -/
theorem update_snapshot_ncf (v : Variant) (s : Strat σ α) (adm : List (Order σ α)) (ks : List σ) :
    ∃ sn, (update v s adm ks ks).hist = s.hist ++ [sn] ∧ sn.ncf = s.ncf ∧ (update v s adm ks ks).ncf = s.ncf := by
  set s1 : Strat σ α := { s with b := (check v s.b s.srv adm ks).1, srv := (check v s.b s.srv adm ks).2.1,
                                  panicked := s.panicked || (check v s.b s.srv adm ks).2.2 } with hs1
  have hu : update v s adm ks ks =
      { rebalance v s1 ks with hist := (rebalance v s1 ks).hist ++
          [{ date := (rebalance v s1 ks).srv.date, value := totalValue (rebalance v s1 ks).b ks,
             ncf := (rebalance v s1 ks).ncf }] } := rfl
  obtain ⟨_, _, _, _, _, _, _, r8, r9⟩ := rebalance_frame v s1 ks
  rw [hu]
  exact ⟨_, by simp only []; rw [r8], by simp only []; rw [r9], by simp only []; rw [r9]⟩

/-! ### trading alone creates no value -/

/-- one update leaves the book value at the fixed prices `p` unchanged (constant prices, zero spread),
    over a duplicate-free symbol universe `U` that covers the symbols traded on this tick -/
theorem update_V (v : Variant) (p : σ → α) (s : Strat σ α) (adm : List (Order σ α)) (ks U : List σ)
    (hn : U.Nodup) (hinv : BookInv s.srv.exch.book)
    (hc : ∀ d sym q, s.srv.quotes d sym = some q → q.bid = p sym ∧ q.ask = p sym)
    (hcover : ∀ t ∈ (s.srv.tick adm).1.2, t.symbol ∈ U) :
    V p (update v s adm ks ks).b U = V p s.b U := by
  set s1 : Strat σ α := { s with b := (check v s.b s.srv adm ks).1, srv := (check v s.b s.srv adm ks).2.1,
                                  panicked := s.panicked || (check v s.b s.srv adm ks).2.2 } with hs1
  have hu : (update v s adm ks ks).b = (rebalance v s1 ks).b := rfl
  obtain ⟨_, _, _, _, r5, r6, _⟩ := rebalance_frame v s1 ks
  rw [hu]
  unfold V
  rw [r5, r6]
  exact check_V v p s.b s.srv adm ks U hn hinv hc hcover

/-- deposits and withdrawals move the book value by exactly the amount that moved; order submission not at all -/
theorem init_V (v : Variant) (p : σ → α) (s : Strat σ α) (c : α) (ks U : List σ) :
    V p (init v true s c ks).b U = V p s.b U + (if s.b.failed then 0 else c) := by
  rw [init_eq]
  obtain ⟨_, _, _, _, r5, r6, _⟩ := rebalance_frame v
    (if s.b.failed = true then s else { s with b := { s.b with cash := c + s.b.cash }, ncf := s.ncf + c }) ks
  unfold V
  rw [r5, r6]
  by_cases hf : s.b.failed = true
  · simp [hf]
  · simp [hf]; ring

theorem withdraw_V (p : σ → α) (s : Strat σ α) (c : α) (U : List σ) :
    V p (PSt.withdraw s c).b U = V p s.b U - (if s.b.failed then 0 else if s.b.cash < c then 0 else c) := by
  simp only [PSt.withdraw, PBk.withdraw]
  by_cases hf : s.b.failed = true
  · simp [hf]
  · by_cases hc : s.b.cash < c
    · simp [hf, hc]
    · simp [hf, hc, debit, V]; ring

/-- the per-update side conditions of the value theorem -/
def VOk (p : σ → α) (U : List σ) (s : Strat σ α) : SOp σ α → Prop
  | .update adm _ => adm.Perm s.srv.exch.buffer ∧ (∀ t ∈ (s.srv.tick adm).1.2, t.symbol ∈ U)
  | _ => True

def VOkRun (v : Variant) (p : σ → α) (U : List σ) : Strat σ α → List (SOp σ α) → Prop
  | _, [] => True
  | s, op :: ops => VOk p U s op ∧ VOkRun v p U (sstep v s op) ops

theorem sstep_quotes (v : Variant) (s : Strat σ α) (op : SOp σ α) : (sstep v s op).srv.quotes = s.srv.quotes := by
  cases op with
  | init c ks =>
    simp only [sstep, init_eq]
    rw [(rebalance_frame v _ ks).2.2.2.1]
    by_cases hf : s.b.failed = true <;> simp [hf]
  | withdraw c =>
    simp only [sstep, PSt.withdraw]
    split <;> rfl
  | update adm ks =>
    set s1 : Strat σ α := { s with b := (check v s.b s.srv adm ks).1, srv := (check v s.b s.srv adm ks).2.1,
                                    panicked := s.panicked || (check v s.b s.srv adm ks).2.2 } with hs1
    have hu : (sstep v s (.update adm ks)).srv = (rebalance v s1 ks).srv := rfl
    rw [hu, (rebalance_frame v s1 ks).2.2.2.1]
    -- check only ticks the server and queues orders: quotes untouched
    have hq : (check v s.b s.srv adm ks).2.1.quotes = s.srv.quotes := by
      have hcheck : check v s.b s.srv adm ks =
          (if (afterBooking s.b s.srv adm).cash < 0 then
            let w := withdrawLiq v (afterBooking s.b s.srv adm) (s.srv.tick adm).2 ks ((afterBooking s.b s.srv adm).cash * (-1) + 1000.0)
            match w.1 with
            | .wFail _ => ({ w.2.1 with failed := true }, w.2.2, false)
            | .panic => (w.2.1, w.2.2, true)
            | _ => (w.2.1, w.2.2, false)
          else (afterBooking s.b s.srv adm, (s.srv.tick adm).2, false)) := rfl
      rw [hcheck]
      have ht : (s.srv.tick adm).2.quotes = s.srv.quotes := by simp [Srv.tick]
      split
      · have hl : ∀ req, (withdrawLiq v (afterBooking s.b s.srv adm) (s.srv.tick adm).2 ks req).2.2.quotes
            = (s.srv.tick adm).2.quotes := by
          intro req
          unfold withdrawLiq
          split
          · rfl
          · have hfin : ∀ (os : List (σ × α)) (rem : α),
                ((if isZero rem then
                    let r := sendOrders v (afterBooking s.b s.srv adm) (s.srv.tick adm).2 (os.map (fun o => mkSell o.1 o.2))
                    if r.2.2 then (CashEv.panic, r.1, r.2.1) else (CashEv.wOk req, r.1, r.2.1)
                  else (CashEv.wFail req, debit (afterBooking s.b s.srv adm) req, (s.srv.tick adm).2)) :
                    CashEv α × Brk σ α × Srv σ α).2.2.quotes = (s.srv.tick adm).2.quotes := by
              intro os rem
              by_cases hz : isZero rem = true
              · simp only [hz, if_true]
                have f := sendOrders_Frame v (os.map (fun o => mkSell o.1 o.2)) (afterBooking s.b s.srv adm) (s.srv.tick adm).2
                split <;> exact f.quotes
              · simp only [hz, Bool.false_eq_true, if_false]
            split
            · exact hfin _ 0
            · exact hfin _ _
            · rfl
        simp only []
        split <;> (simp only []; rw [hl, ht])
      · exact ht
    exact hq

/-- **trading alone creates no value**: with constant prices and zero spread, after any sequence of
    deposits (init), withdrawals and updates, for every weight map, cost list and code variant, the book
    value of the portfolio at those prices equals its initial book value plus the net cash flow -/
theorem srun_V (v : Variant) (p : σ → α) (U : List σ) (hn : U.Nodup) (ops : List (SOp σ α)) :
    ∀ (s : Strat σ α) (net : α), SInv s net →
    (∀ d sym q, s.srv.quotes d sym = some q → q.bid = p sym ∧ q.ask = p sym) →
    VOkRun v p U s ops →
    V p (srun v s ops).b U = V p s.b U + (netRun v s net ops - net) := by
  induction ops with
  | nil => intro s net _ _ _; simp [srun, netRun]
  | cons op ops ih =>
    intro s net h hc ok
    have hok : SOk s op := by
      cases op with
      | init c ks => trivial
      | withdraw c => trivial
      | update adm ks => exact ok.1.1
    have h' := sstep_inv v s op net h hok
    have hc' : ∀ d sym q, (sstep v s op).srv.quotes d sym = some q → q.bid = p sym ∧ q.ask = p sym := by
      rw [sstep_quotes]; exact hc
    rw [srun, netRun, ih _ _ h' hc' ok.2]
    have hstep : V p (sstep v s op).b U = V p s.b U + (netAfter s net op - net) := by
      cases op with
      | init c ks =>
        simp only [sstep, netAfter, init_V]
        by_cases hf : s.b.failed = true
        · rw [if_pos hf, if_pos hf]; ring
        · rw [if_neg hf, if_neg hf]; ring
      | withdraw c =>
        simp only [sstep, netAfter, withdraw_V]
        by_cases hf : s.b.failed = true
        · simp [hf]
        · by_cases hcc : s.b.cash < c
          · simp [hf, hcc]
          · simp [hf, hcc]; ring
      | update adm ks =>
        simp only [sstep, netAfter]
        rw [update_V v p s adm ks U hn h.w.book hc ok.1.2]; ring
    rw [hstep]; ring

end PSt
