import AlatorVerif.Model.Ledger
import Mathlib.Algebra.Order.Field.Basic
import Mathlib.Tactic.Ring
import Mathlib.Tactic.Linarith
namespace PB
variable {σ α : Type} [DecidableEq σ] [Field α] [LinearOrder α] [IsStrictOrderedRing α]

def netCash (ts : List (Trade σ α)) : α := (ts.map (fun t => if t.buy then -t.value else t.value)).sum
def netQty (s : σ) (ts : List (Trade σ α)) : α :=
  (ts.map (fun t => if t.symbol = s then (if t.buy then t.quantity else -t.quantity) else 0)).sum

def NoZero (m : σ → Option α) : Prop := ∀ s v, m s = some v → v ≠ 0

theorem isZero_iff (x : α) : isZero x = true ↔ x = 0 := by
  simp only [isZero, Bool.and_eq_true, decide_eq_true_eq]
  exact ⟨fun ⟨a, b⟩ => le_antisymm a b, fun h => by subst h; exact ⟨le_refl _, le_refl _⟩⟩

theorem qty_put (m : σ → Option α) (s k : σ) (v : α) :
    qty (put m s v) k = if k = s then v else qty m k := by
  unfold qty put
  by_cases hk : k = s
  · simp only [hk, if_true]
    by_cases hz : isZero v = true
    · rw [if_pos hz]; exact ((isZero_iff v).mp hz).symm
    · simp [hz]
  · simp [hk]

theorem noZero_put (m : σ → Option α) (s : σ) (v : α) (h : NoZero m) : NoZero (put m s v) := by
  intro k w hk
  unfold put at hk
  by_cases hks : k = s
  · simp only [hks, if_true] at hk
    by_cases hz : isZero v = true
    · simp [hz] at hk
    · simp only [hz] at hk; cases hk; exact fun hc => hz ((isZero_iff _).mpr hc)
  · simp only [hks, if_false] at hk; exact h k w hk

/-- C04/C05 core: effect of reconciling a batch of executed trades -/
theorem reconcile_spec (ts : List (Trade σ α)) : ∀ (b : Broker σ α), NoZero b.hold →
    (reconcile b ts).cash = b.cash + netCash ts
    ∧ (∀ s, qty (reconcile b ts).hold s = qty b.hold s + netQty s ts)
    ∧ (∀ s, qty (reconcile b ts).pend s = qty b.pend s - netQty s ts)
    ∧ NoZero (reconcile b ts).hold
    ∧ (reconcile b ts).log = b.log ++ ts
    ∧ (reconcile b ts).seen = b.seen + ts.length := by
  induction ts with
  | nil => intro b h; simp [reconcile, netCash, netQty, h]
  | cons t ts ih =>
    intro b h
    have hb : NoZero (book b t).hold := noZero_put _ _ _ h
    obtain ⟨h1, h2, h3, h4, h5, h6⟩ := ih (book b t) hb
    simp only [reconcile, List.foldl_cons] at h1 h2 h3 h4 h5 h6 ⊢
    refine ⟨?_, ?_, ?_, h4, ?_, ?_⟩
    · rw [h1]; simp only [book, netCash, List.map_cons, List.sum_cons]
      cases t.buy <;> simp <;> ring
    · intro s; rw [h2 s]; simp only [book, netQty, List.map_cons, List.sum_cons, qty_put]
      by_cases hs : s = t.symbol
      · subst hs; cases t.buy <;> simp <;> ring
      · have : ¬ t.symbol = s := fun hc => hs hc.symm
        simp [hs, this]
    · intro s; rw [h3 s]; simp only [book, netQty, List.map_cons, List.sum_cons, qty_put]
      by_cases hs : s = t.symbol
      · subst hs; cases t.buy <;> simp <;> ring
      · have : ¬ t.symbol = s := fun hc => hs hc.symm
        simp [hs, this]
    · rw [h5]; simp [book]
    · rw [h6]; simp [book]; omega

end PB
