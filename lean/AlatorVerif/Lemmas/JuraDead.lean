import AlatorVerif.Lemmas.JuraHist
/-! Jura: whole-book form of a tick, and "an id that is gone (or spent) never fills again" -/
namespace PJ
variable {α : Type} [LinearOrder α] [Add α] [Sub α] [Mul α] [OfNat α 1] [OfScientific α]

/-- orders stamped with consecutive ids from `n`, flag clear -/
def jstamp (n : Nat) : List (Order α) → List (Inner α)
  | [] => []
  | o :: os => { id := n, order := o, attempted := false } :: jstamp (n + 1) os

theorem jstamp_ids (n : Nat) (l : List (Order α)) : ∀ x ∈ jstamp n l, n ≤ x.id ∧ x.id < n + l.length := by
  induction l generalizing n with
  | nil => intro x hx; simp [jstamp] at hx
  | cons o os ih =>
    intro x hx
    simp only [jstamp, List.mem_cons] at hx
    rcases hx with rfl | hx
    · simp
    · have := ih (n + 1) x hx; simp only [List.length_cons]; omega

theorem admitFold_spec (adm : List (Order α)) : ∀ (b : Book α),
    (adm.foldl (fun acc o => (acc.insert o).1) b).inner = b.inner ++ jstamp b.last adm
    ∧ (adm.foldl (fun acc o => (acc.insert o).1) b).last = b.last + adm.length := by
  induction adm with
  | nil => intro b; simp [jstamp]
  | cons o os ih =>
    intro b
    simp only [List.foldl_cons]
    obtain ⟨h1, h2⟩ := ih (b.insert o).1
    refine ⟨?_, ?_⟩
    · rw [h1]; simp [Book.insert, jstamp]
    · rw [h2]; simp [Book.insert]; omega

theorem childFold_spec (cs : List (Order α)) : ∀ (b : Book α) (acc : List Nat),
    let r := cs.foldl (fun (acc : Book α × List Nat) c => let x := acc.1.insert c; (x.1, acc.2 ++ [x.2])) (b, acc)
    r.1.inner = b.inner ++ jstamp b.last cs := by
  induction cs with
  | nil => intro b acc; simp [jstamp]
  | cons c cs ih =>
    intro b acc
    simp only [List.foldl_cons]
    rw [ih (b.insert c).1 (acc ++ [(b.insert c).2])]
    simp [Book.insert, jstamp]

/-- the survivors of a pass: not scheduled for deletion, flag possibly updated, old order -/
def survivors (quotes : Nat → Option (Quote α)) (l : List (Inner α)) : List (Inner α) :=
  (l.filter (fun o => !(after quotes o).2)).map (fun o => (after quotes o).1)

/-- whole-book form of `execute_orders` under the id invariant -/
theorem execute_full (b : Book α) (quotes : Nat → Option (Quote α)) (h : JInv b) :
    (b.execute quotes).1.inner = survivors quotes b.inner ++ jstamp b.last (b.inner.filterMap (childOf' quotes))
    ∧ (b.execute quotes).2.1 = b.inner.filterMap (fillOf quotes)
    ∧ (b.execute quotes).2.2.1 = List.range' b.last (b.inner.filterMap (childOf' quotes)).length
    ∧ (b.execute quotes).1.last = b.last + (b.inner.filterMap (childOf' quotes)).length := by
  obtain ⟨e1, e2, e3, e4⟩ := execute_spec b quotes h
  obtain ⟨p1, p2⟩ := pass_fills quotes b.inner
  refine ⟨?_, by rw [e4, p1], by rw [e2, p2], by rw [e3, p2]⟩
  -- redo the inner computation with `jstamp` instead of `zipIdx`
  obtain ⟨hp, hb⟩ := h
  obtain ⟨q1, q2⟩ := pass_spec quotes b.inner
  let b0 : Book α := { b with inner := (pass quotes b.inner).inner }
  have hc := childFold_spec (pass quotes b.inner).children
    ((pass quotes b.inner).dels.foldl (fun (acc : Book α) d => acc.delete d.1 d.2) b0) []
  have hlast := (foldl_bookdelete (pass quotes b.inner).dels b0).2
  have hi : (b.execute quotes).1.inner = _ := hc
  rw [hi, hlast, p2]
  congr 1
  -- the deleted book is the survivors (already shown inside execute_spec; recover it by cancellation)
  have := e1
  have hi2 : (b.execute quotes).1.inner =
      ((pass quotes b.inner).dels.foldl (fun (acc : Book α) d => acc.delete d.1 d.2) b0).inner
        ++ jstamp b.last (pass quotes b.inner).children := by rw [hi, hlast]
  rw [hi2] at this
  have hlen : (jstamp b.last (pass quotes b.inner).children).length
      = ((pass quotes b.inner).children.zipIdx.map
          (fun ci => ({ id := b.last + ci.2, order := ci.1, attempted := false } : Inner α))).length := by
    simp
    generalize (pass quotes b.inner).children = cs
    generalize b.last = n
    induction cs generalizing n with
    | nil => rfl
    | cons c cs ih => simp [jstamp, ih]
  exact (List.append_inj' this hlen).1

theorem tick_full (s : Jura α) (quotes : Nat → Option (Quote α)) (adm : List (Order α)) (h : JInv s.book) :
    let kids := s.book.inner.filterMap (childOf' quotes)
    let r := s.tick quotes adm
    r.1.book.inner = survivors quotes s.book.inner ++ jstamp s.book.last kids
                      ++ jstamp (s.book.last + kids.length) adm
    ∧ r.2.1 = s.book.inner.filterMap (fillOf quotes)
    ∧ r.2.2.1 = List.range' s.book.last kids.length
    ∧ r.1.book.last = s.book.last + kids.length + adm.length := by
  obtain ⟨e1, e2, e3, e4⟩ := execute_full s.book quotes h
  obtain ⟨a1, a2⟩ := admitFold_spec adm (s.book.execute quotes).1
  refine ⟨?_, e2, e3, ?_⟩
  · have : (s.tick quotes adm).1.book.inner = _ := a1
    rw [this, e1, e4]
  · have : (s.tick quotes adm).1.book.last = _ := a2
    rw [this, e4]

/-- every fill of a pass comes from a resting order and carries its id, asset and size -/
theorem fill_from_resting (quotes : Nat → Option (Quote α)) (l : List (Inner α)) (f : Fill α)
    (hf : f ∈ l.filterMap (fillOf quotes)) :
    ∃ o ∈ l, ∃ q, quotes o.order.asset = some q ∧ (visit o q).fill = some f ∧ f.oid = o.id := by
  obtain ⟨o, ho, hfo⟩ := List.mem_filterMap.mp hf
  refine ⟨o, ho, ?_⟩
  unfold fillOf at hfo
  rcases hq : quotes o.order.asset with _ | q
  · rw [hq] at hfo; cases hfo
  · rw [hq] at hfo; exact ⟨q, rfl, hfo, (visit_fill_oid o q f hfo).1⟩

/-- an id is *spent* in a book when it is below the next id and any resting order carrying it is an
    IOC order that has already had its single attempt (in particular: when no resting order carries it) -/
def Spent (b : Book α) (id : Nat) : Prop :=
  id < b.last ∧ ∀ o ∈ b.inner, o.id = id → o.order.typ = .limit .ioc ∧ o.attempted = true

theorem after_spent (quotes : Nat → Option (Quote α)) (o : Inner α)
    (h : o.order.typ = .limit .ioc ∧ o.attempted = true) :
    fillOf quotes o = none ∧ ((after quotes o).2 = false → (after quotes o).1 = o) := by
  unfold fillOf after
  rcases hq : quotes o.order.asset with _ | q
  · simp
  · obtain ⟨h1, h2⟩ := visit_ioc_attempted o q h.1 h.2
    simp [h1, h2]

theorem Spent.tick {s : Jura α} {id : Nat} (hinv : JInv s.book) (h : Spent s.book id)
    (quotes : Nat → Option (Quote α)) (adm : List (Order α)) :
    Spent (s.tick quotes adm).1.book id ∧ ∀ f ∈ (s.tick quotes adm).2.1, f.oid ≠ id := by
  obtain ⟨t1, t2, _, t4⟩ := tick_full s quotes adm hinv
  refine ⟨⟨by rw [t4]; have := h.1; omega, ?_⟩, ?_⟩
  · intro o ho hid
    rw [t1] at ho
    simp only [List.mem_append] at ho
    rcases ho with (ho | ho) | ho
    · -- a survivor: it is the same spent order
      obtain ⟨o', ho', rfl⟩ := List.mem_map.mp ho
      obtain ⟨ho'l, hnd⟩ := List.mem_filter.mp ho'
      rw [(after_keeps quotes o').1] at hid
      have hs := h.2 o' ho'l hid
      have := (after_spent quotes o' hs).2 (by simpa using hnd)
      rw [this]; exact hs
    · have := (jstamp_ids _ _ o ho).1; have := h.1; omega
    · have := (jstamp_ids _ _ o ho).1; have := h.1; omega
  · intro f hf hid
    rw [t2] at hf
    obtain ⟨o, ho, q, hq, hv, hoid⟩ := fill_from_resting quotes _ f hf
    have hs := h.2 o ho (by rw [← hoid, hid])
    have := (after_spent quotes o hs).1
    simp only [fillOf, hq] at this
    rw [this] at hv; cases hv

/-- after a tick that quotes its asset, the id of a resting IOC order is spent (it filled and was
    removed, or it had its attempt, or it was removed as already attempted); likewise any order the pass
    scheduled for deletion (a GTC fill, a fired trigger) -/
theorem spent_after_tick {s : Jura α} (hinv : JInv s.book) (quotes : Nat → Option (Quote α))
    (adm : List (Order α)) (o : Inner α) (ho : o ∈ s.book.inner)
    (h : (after quotes o).2 = true ∨
         (o.order.typ = .limit .ioc ∧ ∃ q, quotes o.order.asset = some q)) :
    Spent (s.tick quotes adm).1.book o.id := by
  obtain ⟨t1, _, _, t4⟩ := tick_full s quotes adm hinv
  refine ⟨by rw [t4]; have := hinv.2 o ho; omega, ?_⟩
  intro x hx hid
  rw [t1] at hx
  simp only [List.mem_append] at hx
  rcases hx with (hx | hx) | hx
  · obtain ⟨o', ho', rfl⟩ := List.mem_map.mp hx
    obtain ⟨ho'l, hnd⟩ := List.mem_filter.mp ho'
    rw [(after_keeps quotes o').1] at hid
    have heq := eq_of_id_eq hinv.1 ho'l ho hid
    subst heq
    rcases h with h | ⟨hty, q, hq⟩
    · rw [h] at hnd; simp at hnd
    · -- the survivor is the flag-updated IOC order
      have hnd' : (after quotes o').2 = false := by simpa using hnd
      unfold after at hnd' ⊢
      rw [hq] at hnd' ⊢
      simp only at hnd' ⊢
      refine ⟨by rw [(visit_keeps o' q).2]; exact hty, ?_⟩
      by_cases ha : o'.attempted = true
      · have := (visit_ioc_attempted o' q hty ha).2; rw [this] at hnd'; cases hnd'
      · have ha' : o'.attempted = false := by simpa using ha
        exact (visit_ioc_first o' q hty ha').1
  · have := (jstamp_ids _ _ x hx).1; have := hinv.2 o ho; omega
  · have := (jstamp_ids _ _ x hx).1; have := hinv.2 o ho; omega

/-- cancelling an order spends its id -/
theorem spent_after_delete {b : Book α} (hinv : JInv b) (o : Inner α) (ho : o ∈ b.inner) :
    Spent (b.delete o.order.asset o.id) o.id := by
  refine ⟨hinv.2 o ho, ?_⟩
  intro x hx hid
  exfalso
  have hm : ∀ y ∈ b.inner, y.id = o.id → y.order.asset = o.order.asset := fun y hy hyid => by
    rw [eq_of_id_eq hinv.1 hy ho hyid]
  have : x ∈ deleteFirst o.order.asset o.id b.inner := hx
  rw [deleteFirst_eq_filter _ _ _ hinv.1 hm] at this
  have := (List.mem_filter.mp this).2
  simp [hid] at this

theorem Spent.delete {b : Book α} {id : Nat} (h : Spent b id) (asset i : Nat) : Spent (b.delete asset i) id :=
  ⟨h.1, fun o ho => h.2 o ((deleteFirst_sublist _ _ _).subset ho)⟩

/-- all fills reported over a sequence of operations -/
def jfills (s : Jura α) : List (JOp α) → List (Fill α)
  | [] => []
  | .tick quotes adm :: ops => (s.tick quotes adm).2.1 ++ jfills (s.tick quotes adm).1 ops
  | op :: ops => jfills (jstep s op) ops

/-- **never fills again**: once an id is spent (its order filled, was cancelled, fired, or is an IOC
    order that had its attempt), no later tick of any continuation reports a fill for it -/
theorem spent_never_fills (ops : List (JOp α)) : ∀ (s : Jura α) (id : Nat), JInv s.book → Spent s.book id →
    ∀ f ∈ jfills s ops, f.oid ≠ id := by
  induction ops with
  | nil => intro s id _ _ f hf; simp [jfills] at hf
  | cons op ops ih =>
    intro s id hinv hs f hf
    cases op with
    | insert o =>
      simp only [jfills] at hf
      exact ih (jstep s (.insert o)) id hinv hs f hf
    | delete a i =>
      simp only [jfills] at hf
      exact ih (jstep s (.delete a i)) id (hinv.delete a i) (hs.delete a i) f hf
    | tick quotes adm =>
      simp only [jfills, List.mem_append] at hf
      obtain ⟨hs', hno⟩ := hs.tick hinv quotes adm
      rcases hf with hf | hf
      · exact hno f hf
      · exact ih _ id (hinv.tick quotes adm) hs' f hf

end PJ
