import AlatorVerif.Lemmas.HttpClient
/-!
# C20 over whole request sequences, on the client's side of the wire (Uist service)

`HttpClient` shows, request by request, that what a typed client decodes from the service's response is
the in-process result. This file lifts it to **every request sequence**: the list of typed results a
client of the Uist JSON service obtains along any sequence of `init`, `tick`, `insert_order`,
`delete_order`, `fetch_quotes`, `info` and `now` requests is, element by element, the list of results of
the same calls on `AppState` — because each response decodes to the in-process result (`client_step`) and
the two servers go through the same states (`handle_state`).
-/
namespace PHt
open PJs SV
variable {α : Type} [LE α] [DecidableLE α] [Mul α]

/-- what a client sees of one call, in-process or decoded from JSON -/
inductive CView (α : Type) where
  | id (r : Option Nat)
  | tick (r : Option (Bool × List (PU.Trade String α) × List (PU.Order String α)))
  | unit (ok : Bool)
  | quotes (r : Option (List (String × String × PU.Quote α)))
  | now (r : Option (Int × Bool))
  | info (r : Option (String × String))

abbrev UReq (α : Type) := Req (PU.Order String α) (List (PU.Order String α)) Nat
abbrev UAppS (α : Type) := App (PU.Uist String α) (UQ String α)

def decFetchU (j : Json α) : Option (List (String × String × PU.Quote α)) :=
  match j.get? "quotes" with | some q => decQuotesU q | none => none

/-- the typed result of the repository's client for each route (a non-200 status is an error) -/
def httpView : UReq α → Rsp α → CView α
  | .init _, r => .id (typed decInit r)
  | .tick _ _, r => .tick (typed decTickU r)
  | .insert _ _, r => .unit (typed (fun _ => some ()) r).isSome
  | .delete _ _, r => .unit (typed (fun _ => some ()) r).isSome
  | .fetch _, r => .quotes (typed decFetchU r)
  | .info _, r => .info (typed decInfo r)
  | .now _, r => .now (typed decNow r)

/-- the same call made in-process, as the client sees it (`syms` lists the symbols of a dataset: the keys of
    the quotes map) -/
def procView (syms : String → List String) (a : UAppS α) : UReq α → CView α
  | .init n => .id (resId (init uistOps .repaired a n).1)
  | .tick i adm => .tick ((tick uistOps .repaired a i adm).1.map (fun x => (x.1, x.2.1, x.2.2)))
  | .insert i o => .unit (insert uistOps a i o).1
  | .delete i d => .unit (delete uistOps a i d).1
  | .fetch i =>
    .quotes ((fetch a i).map (fun dq =>
      (syms (((a.backtests i).map (·.dataset)).getD "")).filterMap (fun s => (dq.2 s).map (fun x => (s, s, x)))))
  | .info i => .info ((info a i).map (fun d => ("v1", d)))
  | .now i => .now (now a i)

/-- **one request**: the decoded response is the in-process result -/
theorem client_step (syms : String → List String) (a : UAppS α) (r : UReq α)
    (hp : ∀ n, r = .init n → (init uistOps .repaired a n).1 ≠ .panic) :
    httpView r (handle uistOps uistEnc .repaired syms a r).1 = procView syms a r := by
  cases r with
  | init n => simp only [httpView, procView]; rw [client_init uistOps uistEnc syms a n (hp n rfl)]
  | tick i adm => simp only [httpView, procView]; rw [client_tick_uist syms a i adm]
  | insert i o =>
    simp only [httpView, procView]; rw [(client_unit uistOps (uistEnc (α := α)) syms a i o 0).1]
  | delete i d =>
    simp only [httpView, procView, handle]
    rcases h : delete uistOps a i d with ⟨r, a'⟩
    cases r <;> simp [typed, ok, bad]
  | fetch i =>
    simp only [httpView, procView, handle]
    cases hf : fetch a i with
    | none => simp [typed, bad]
    | some dq =>
      obtain ⟨d, q⟩ := dq
      simp [typed, ok, decFetchU, Json.get?, List.find?, client_fetch_uist]
  | info i => simp only [httpView, procView]; rw [client_info uistOps uistEnc syms a i]
  | now i => simp only [httpView, procView]; rw [client_now uistOps uistEnc syms a i rfl]

/-- no `init` along the sequence hits the empty-dataset panic (the property's datasets have N ≥ 1 dates) -/
def NoInitPanic : UAppS α → List (UReq α) → Prop
  | _, [] => True
  | a, r :: rs =>
    (∀ n, r = .init n → (init uistOps .repaired a n).1 ≠ .panic) ∧ NoInitPanic (step uistOps a (toOp r)).2 rs

/-- the in-process results along a request sequence, as the client sees them -/
def procViews (syms : String → List String) : UAppS α → List (UReq α) → List (CView α)
  | _, [] => []
  | a, r :: rs => procView syms a r :: procViews syms (step uistOps a (toOp r)).2 rs

/-- the typed results a client of the JSON service obtains along the same sequence -/
def httpViews (syms : String → List String) : UAppS α → List (UReq α) → List (CView α)
  | _, [] => []
  | a, r :: rs =>
    httpView r (handle uistOps uistEnc .repaired syms a r).1
      :: httpViews syms (handle uistOps (uistEnc (α := α)) .repaired syms a r).2 rs

/-- **every request sequence**: what the client of the Uist JSON service decodes, request after request, is
    what the same calls return in-process -/
theorem client_history (syms : String → List String) (rs : List (UReq α)) :
    ∀ a : UAppS α, NoInitPanic a rs → httpViews syms a rs = procViews syms a rs := by
  induction rs with
  | nil => intro a _; rfl
  | cons r rs ih =>
    intro a hp
    simp only [httpViews, procViews]
    rw [client_step syms a r hp.1, handle_state uistOps uistEnc syms a r, ih _ hp.2]

/-- `httpViews` is the decoding of the responses `hrun` collects (so the statement above is about the very
    response list of `C20.same_states_as_in_process`) -/
theorem httpViews_eq_hrun (syms : String → List String) (rs : List (UReq α)) :
    ∀ a : UAppS α, httpViews syms a rs = List.zipWith httpView rs (hrun uistOps uistEnc syms a rs).1 := by
  induction rs with
  | nil => intro a; rfl
  | cons r rs ih => intro a; simp only [httpViews, hrun, List.zipWith_cons_cons, ih]

end PHt
