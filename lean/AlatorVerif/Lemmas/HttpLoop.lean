import AlatorVerif.Lemmas.HttpClient
import AlatorVerif.Lemmas.SrvClock
import AlatorVerif.Lemmas.SrvTickLoop
/-!
# C07 through the transport: a client looping on the JSON service's `now` / `tick`

The client of `C07.loop_performs_exactly_N_ticks` calls `AppState` directly. This one talks to the JSON
service: it decodes the `now` response (`typed decNow`), ticks while the decoded `has_next` is true, and the
server moves through the states `handle` produces. It performs exactly the same number of ticks — exactly
`N - pos` — because the decoded `now` is the in-process `now` (`client_now`) and the handler's state is the
in-process state (`handle_tick`). For services that have the `now` route (Uist).
-/
namespace PHt
open PJs SV
variable {E Q O A D R α : Type} (X : ExchOps E Q O A D R) (enc : Enc Q R α)

/-- a client of the JSON service that ticks while the decoded `now().has_next` is true; counts its ticks -/
def httpLoopTicks (adm : App E Q → A) (syms : String → List String) (i : Nat) : Nat → App E Q → Nat
  | 0, _ => 0
  | fuel + 1, a =>
    match typed decNow (handle X enc .repaired syms a (.now i : Req O A D)).1 with
    | some (_, true) => 1 + httpLoopTicks adm syms i fuel (handle X enc .repaired syms a (.tick i (adm a) : Req O A D)).2
    | _ => 0

/-- the HTTP loop is the in-process loop -/
theorem httpLoop_eq_loop (adm : App E Q → A) (syms : String → List String) (i : Nat) (hn : enc.hasNow = true) :
    ∀ (fuel : Nat) (a : App E Q),
      httpLoopTicks (O := O) (D := D) X enc adm syms i fuel a = loopTicks X adm i fuel a := by
  intro fuel
  induction fuel with
  | zero => intro a; rfl
  | succ f ih =>
    intro a
    simp only [httpLoopTicks, loopTicks]
    rw [client_now X enc syms a i hn, (handle_tick X enc .repaired syms a i (adm a)).1]
    cases hnow : now a i with
    | none => rfl
    | some x =>
      obtain ⟨d, b⟩ := x
      cases b
      · rfl
      · simp only [ih]

/-- the `has_next` field a client decodes from a tick response is the in-process tick's `has_next`
    (an error exactly for an unknown backtest), for either service -/
theorem client_tick_has_next (syms : String → List String) (a : App E Q) (i : Nat) (adm : A) :
    typed (fun j => getBool j "has_next") (handle X enc .repaired syms a (.tick i adm : Req O A D)).1
      = (tick X .repaired a i adm).1.map (·.1) := by
  have h := handle_tick X enc .repaired syms a i adm
  cases hr : (tick X .repaired a i adm).1 with
  | none => rw [h.2.1 hr]; simp [typed, bad]
  | some x =>
    obtain ⟨hn, r⟩ := x
    rw [h.2.2 hn r hr]; simp [typed, ok, getBool, Json.get?, List.find?]

/-- the client that follows the tick response's own `has_next`, over the JSON service -/
def httpTickLoop (adm : App E Q → A) (syms : String → List String) (i : Nat) : Nat → App E Q → Nat
  | 0, _ => 0
  | fuel + 1, a =>
    match typed (fun j => getBool j "has_next") (handle X enc .repaired syms a (.tick i (adm a) : Req O A D)).1 with
    | some true => 1 + httpTickLoop adm syms i fuel (handle X enc .repaired syms a (.tick i (adm a) : Req O A D)).2
    | some false => 1
    | none => 0

/-- it is the in-process tick-driven loop, for either service -/
theorem httpTickLoop_eq_tickLoop (adm : App E Q → A) (syms : String → List String) (i : Nat) :
    ∀ (fuel : Nat) (a : App E Q),
      httpTickLoop (O := O) (D := D) X enc adm syms i fuel a = tickLoop X adm i fuel a := by
  intro fuel
  induction fuel with
  | zero => intro a; rfl
  | succ f ih =>
    intro a
    simp only [httpTickLoop, tickLoop]
    rw [client_tick_has_next X enc syms a i (adm a), (handle_tick X enc .repaired syms a i (adm a)).1]
    cases hr : (tick X .repaired a i (adm a)).1 with
    | none => rfl
    | some x =>
      obtain ⟨hn, r⟩ := x
      cases hn
      · rfl
      · simp only [Option.map_some, ih]

end PHt
