import AlatorVerif.Model.Broker
import AlatorVerif.Model.CostBasis
import AlatorVerif.DriverX.Uist
namespace DrvX.Broker
open PU Proto PBk PCB Drv DrvX

structure World (α : Type) where
  v : Variant
  syms : List String := []
  dates : List Int := []
  qs : List (Int × String × Quote α) := []
  costs : List (Cost α) := []
  b : Option (Brk String α) := none
  s : Option (Srv String α) := none
  lastDiff : List (Order String α) := []


variable {α : Type} [Carrier α] [Add α] [Sub α] [Mul α] [Div α] [Neg α] [OfNat α 0] [OfNat α 1] [OfScientific α] [LT α] [DecidableLT α] [LE α] [DecidableLE α] [HasFloor α]
local notation "B" => Brk String α
local notation "S" => Srv String α
local notation "W" => World α


/-- the symbols a case can mention: those of its `DATA` line plus the never-quoted `ZZZ` -/
def symUniverse (syms : List String) : List String :=
  if syms.isEmpty then ["AAA", "BBB", "CCC", "ZZZ"]        -- a case without a `DATA` line (older corpus files)
  else if syms.contains "ZZZ" then syms else syms ++ ["ZZZ"]


def parseCosts : Nat → List String → List (Cost α)
  | 0, _ => []
  | n + 1, k :: x :: rest =>
    let c : Cost α := if k == "P" then .perShare (Carrier.ofTok x) else if k == "C" then .pct (Carrier.ofTok x) else .flat (Carrier.ofTok x)
    c :: parseCosts n rest
  | _, _ => []

def parseQ (date : Int) : Nat → List String → List (Int × String × Quote α)
  | 0, _ => []
  | n + 1, sym :: b :: a :: rest => (date, sym, ⟨Carrier.ofTok b, Carrier.ofTok a, date⟩) :: parseQ date n rest
  | _, _ => []

def parseW : Nat → List String → List (String × α)
  | 0, _ => []
  | n + 1, sym :: w :: rest => (sym, Carrier.ofTok w) :: parseW n rest
  | _, _ => []

def sortStr (l : List String) : List String := (l.toArray.qsort (· < ·)).toList

def showMap (univ : List String) (m : String → Option α) : String :=
  let es := (sortStr univ).filterMap (fun s => (m s).map (fun v => s!"{s} {Carrier.tok v}"))
  s!"{es.length} {joinSp es}"

def showEv : CashEv α → String
  | .wOk c => s!"WOK {Carrier.tok c}" | .wFail c => s!"WFAIL {Carrier.tok c}" | .dOk c => s!"DOK {Carrier.tok c}"
  | .opFail c => s!"OPFAIL {Carrier.tok c}" | .panic => "PANIC"

def optF (x : Option α) : String := match x with | some v => Carrier.tok v | none => "-"

/-- split the annotation sections after `@`: returns (op tokens, sections) -/
def splitAnn (ts : List String) : List String × List (List String) :=
  let op := ts.takeWhile (· != "@")
  let rest := (ts.dropWhile (· != "@")).drop 1
  -- sections separated by ";"
  let secs := rest.foldl (fun (acc : List (List String)) t =>
    if t == ";" then acc ++ [[]] else
      match acc.reverse with
      | [] => [[t]]
      | last :: init => init.reverse ++ [last ++ [t]]) []
  (op, secs)

def secOf (secs : List (List String)) (tag : String) : Option (List String) :=
  (secs.find? (fun s => s.head? == some tag)).map (·.drop 1)

/-- the maps of the model are functions; every operation wraps them once more. After each line the driver replaces them
    by a table lookup over the case's symbols (the same function on every symbol the case can mention), so that a history of
    thousands of operations does not make every lookup walk thousands of wrappers. The table is built *before* the closure
    that reads it is made (`compact` returns a structure, not a function, so its `let`s are evaluated once). -/
def lookupTbl {β : Type} (tbl : Array (String × Option β)) (k : String) : Option β :=
  match tbl.find? (fun e => e.1 == k) with
  | some e => e.2
  | none => none

def mkTbl {β : Type} (univ : List String) (m : String → Option β) : Array (String × Option β) :=
  (univ.map (fun s => (s, m s))).toArray

def compact (univ : List String) (b : B) : B :=
  let th := mkTbl univ b.hold
  let tp := mkTbl univ b.pend
  let tl := mkTbl univ b.latest
  { b with hold := lookupTbl th, pend := lookupTbl tp, latest := lookupTbl tl }

def observe (univ : List String) (b : B) (srv : S) (ks : List String) : String :=
  let st := if b.failed then "Failed" else "Ready"
  let per := univ.map (fun s =>
    let q := match b.latest s with | some q => s!"{Carrier.tok q.bid} {Carrier.tok q.ask}" | none => "- -"
    s!"{s} {optF (posValue b s)} {optF (posLiq b s)} {optF (costBasis b.log s)} {optF (positionProfit b s)} {q}")
  let hp : String → Option α := holdPend b
  s!"G {Carrier.tok b.cash} ; H {showMap univ b.hold} ; P {showMap univ b.pend} ; HP {showMap univ hp} ; S {st} ; TV {Carrier.tok (totalValue b ks)} ; LV {Carrier.tok (liqValue b ks)} ; K {srv.pos} {srv.date} ; T {b.log.length} {joinSp (b.log.map DrvX.Uist.showTrade)} ; V {joinSp per} ; XB {srv.exch.buffer.length} {joinSp (srv.exch.buffer.map DrvX.Uist.showOrder)} ; XK {srv.exch.book.inner.length} {joinSp (srv.exch.book.inner.map DrvX.Uist.showOrder)} ; XL {srv.exch.log.length} {joinSp (srv.exch.log.map DrvX.Uist.showTrade)} ; W {ks.length} {joinSp ks}"

def step (w : W) (ts : List String) : W × String :=
  let (op, secs) := splitAnn ts
  match op with
  | "CLIENT" :: _ => (w, "ok")
  | "COSTS" :: n :: rest => ({ w with costs := parseCosts n.toNat! rest }, "ok")
  | "DATA" :: _ :: _ :: rest => ({ w with syms := rest, dates := [], qs := [] }, "ok")
  | "Q" :: _ :: d :: nq :: rest =>
    let date := d.toInt!
    -- a date exists in Penelope only once `add_quote` was called for it
    if nq.toNat! == 0 then (w, "ok")
    else ({ w with dates := if w.dates.contains date then w.dates else w.dates ++ [date],
                   qs := w.qs ++ parseQ date nq.toNat! rest }, "ok")
  | ["BUILD"] =>
    let quotes : Int → String → Option (Quote α) := fun d s =>
      (w.qs.reverse.find? (fun e => e.1 == d && e.2.1 == s)).map (·.2.2)
    let d0 := w.dates.headD 0
    let srv : S := { dates := w.dates, quotes := quotes, pos := 0, date := d0,
                     exch := { book := { inner := [], last := 0 }, log := [], buffer := [] } }
    let b : B := { cash := 0, hold := fun _ => none, pend := fun _ => none, latest := quotes d0,
                   log := [], costs := w.costs, failed := false }
    ({ w with b := some b, s := some srv }, "ok")
  | o :: rest =>
    -- `~OP`: performed as usual, only the event is printed
    let quiet := o.startsWith "~"
    let o := if quiet then (o.drop 1).toString else o
    match w.b, w.s with
    | some b, some srv =>
      let ks := (secOf secs "W").map (fun l => l.drop 1) |>.getD []
      let fin (w' : W) (ev : String) : W × String :=
        match w'.b, w'.s with
        | some b', some s' =>
          let b' := compact (symUniverse w'.syms) b'
          let w' := { w' with b := some b' }
          if quiet then (w', s!"EV {ev}") else (w', s!"EV {ev} ; {observe (symUniverse w'.syms) b' s' ks}")
        | _, _ => (w', "bad-op")
      match o, rest with
      | "DEP", [x] => let r := deposit b (Carrier.ofTok x); fin { w with b := some r.2 } (showEv r.1)
      | "WD", [x] => let r := withdraw b (Carrier.ofTok x); fin { w with b := some r.2 } (showEv r.1)
      | "SEND", [t, sym, sh, pr] =>
        let o := DrvX.Uist.parseOrder t sym sh pr
        let r := sendOrder w.v b srv o
        let ev := match r.1 with | .sent => "sent" | .invalid => "invalid" | .panic => "PANIC"
        fin { w with b := some r.2.1, s := some r.2.2 } ev
      | "CHECK", [] =>
        match secOf secs "A" with
        | some (_ :: ["BAD"]) => (w, "REJECT-ADMISSION not-a-permutation-of-the-batch")
        | some (n :: idx) =>
          let idx := idx.map String.toNat!
          let sellAt := fun i => match srv.exch.buffer[i]? with | some o => isSell o | none => false
          if n.toNat! != srv.exch.buffer.length || !sellFirstPerm n.toNat! idx sellAt then
            (w, s!"REJECT-ADMISSION not-sell-first {srv.exch.buffer.length}")
          else
            let adm := idx.filterMap (fun i => srv.exch.buffer[i]?)
            let r := check w.v b srv adm ks
            fin { w with b := some r.1, s := some r.2.1 } (if r.2.2 then "PANIC" else "ok")
        | _ => (w, "bad-op")
      | "LIQ", [x] =>
        let r := withdrawLiq w.v b srv ks (Carrier.ofTok x)
        fin { w with b := some r.2.1, s := some r.2.2 } (showEv r.1)
      | "DIFF", n :: ws =>
        match diff w.v b ks (parseW n.toNat! ws) with
        | none => fin { w with lastDiff := [] } "PANIC"
        | some os =>
          let ss := os.map (fun o => (if isSell o then "S " else "B ") ++ o.symbol ++ " " ++ Carrier.tok o.shares)
          fin { w with lastDiff := os } s!"D {os.length} {joinSp ss}"
      | "SENDDIFF", _ =>
        let r := w.lastDiff.foldl (fun (acc : B × S × List String × Bool) o =>
          let x := sendOrder w.v acc.1 acc.2.1 o
          let e := match x.1 with | .sent => "sent" | .invalid => "invalid" | .panic => "PANIC"
          (x.2.1, x.2.2, acc.2.2.1 ++ [e], acc.2.2.2 || x.1 == .panic)) (b, srv, [], false)
        if r.2.2.2 then fin { w with b := some r.1, s := some r.2.1, lastDiff := [] } "PANIC"
        else fin { w with b := some r.1, s := some r.2.1, lastDiff := [] } s!"SD {r.2.2.1.length} {joinSp r.2.2.1}"
      | "GET", [] => fin w "get"
      | _, _ => (w, "bad-op")
    | _, _ => (w, "bad-op")
  | _ => (w, "bad-op")

def variantOf (args : List String) : Variant :=
  ⟨!args.contains "pinned-F4", !args.contains "pinned-F5a", !args.contains "pinned-F5b", !args.contains "pinned-F6a",
   !args.contains "pinned-F10"⟩

def main (α : Type) [Carrier α] [Add α] [Sub α] [Mul α] [Div α] [Neg α] [OfNat α 0] [OfNat α 1] [OfScientific α] [LT α] [DecidableLT α] [LE α] [DecidableLE α] [HasFloor α] (args : List String) : IO Unit := do
  let v := variantOf args
  loopWith (← IO.getStdin) ({ v := v } : World α) step { v := v }

end DrvX.Broker
