import AlatorVerif.Model.Uist
import AlatorVerif.DriverX.Util
namespace DrvX.Uist
open PU Drv DrvX
variable {α : Type} [Carrier α] [LE α] [DecidableLE α] [Mul α]

abbrev UOrd (α : Type) := Order String α
abbrev St (α : Type) := PU.Uist String α

def kindSide (t : Nat) : Kind × Side :=
  match t with
  | 0 => (.market, .sell) | 1 => (.market, .buy) | 2 => (.limit, .sell)
  | 3 => (.limit, .buy) | 4 => (.stop, .sell) | _ => (.stop, .buy)
def typNum (o : UOrd α) : Nat :=
  match o.kind, o.side with
  | .market, .sell => 0 | .market, .buy => 1 | .limit, .sell => 2
  | .limit, .buy => 3 | .stop, .sell => 4 | .stop, .buy => 5

def parseQuotes : Nat → List String → List (String × Quote α) × List String
  | 0, rest => ([], rest)
  | n + 1, sym :: b :: a :: d :: rest =>
    let (qs, r) := parseQuotes n rest
    ((sym, { bid := Carrier.ofTok b, ask := Carrier.ofTok a, date := d.toInt! }) :: qs, r)
  | _, rest => ([], rest)

def quotesFn (qs : List (String × Quote α)) : String → Option (Quote α) :=
  fun sym => (qs.find? (fun q => q.1 == sym)).map (·.2)

def showOrder (o : UOrd α) : String :=
  let pr := match o.price with | some p => Carrier.tok p | none => "-"
  let id := match o.id with | some i => toString i | none => "-"
  s!"{id} {typNum o} {o.symbol} {Carrier.tok o.shares} {pr}"
def showTrade (t : Trade String α) : String :=
  let sd := match t.side with | .buy => "B" | .sell => "S"
  s!"{t.symbol} {Carrier.tok t.value} {Carrier.tok t.quantity} {t.date} {sd}"

def snapshot (s : St α) : String :=
  s!"B {s.book.inner.length} {joinSp (s.book.inner.map showOrder)} ; U {s.buffer.length} ; N {s.book.last} ; L {s.log.length}"

def parseOrder (t sym shs pr : String) : UOrd α :=
  let (k, sd) := kindSide t.toNat!
  let price : Option α := if pr == "-" then none else some (Carrier.ofTok pr)
  ⟨none, k, sd, sym, Carrier.ofTok shs, price⟩

def step (s : St α) (ts : List String) : St α × String :=
  match ts with
  | ["I", t, sym, shs, pr] =>
    ({ s with buffer := s.buffer ++ [parseOrder t sym shs pr] }, "ok")
  | ["I", t, sym, shs, pr, id] =>       -- an order object whose `order_id` is already set when it is handed in
    ({ s with buffer := s.buffer ++ [{ parseOrder t sym shs pr with id := some id.toNat! }] }, "ok")
  | ["D", id] =>
    let s' := { s with book := s.book.delete id.toNat! }
    (s', s!"ok ; {snapshot s'}")
  | "T" :: nq :: rest =>
    let (qs, rest) := parseQuotes nq.toNat! rest
    match rest with
    | "A" :: _ :: ["BAD"] => (s, "REJECT-ADMISSION not-a-permutation-of-the-batch")
    | "A" :: n :: idx =>
      let idx := idx.map String.toNat!
      let sellAt := fun i => match s.buffer[i]? with | some o => isSell o | none => false
      if n.toNat! != s.buffer.length || !sellFirstPerm n.toNat! idx sellAt then
        (s, "REJECT-ADMISSION not-sell-first")
      else
        let adm := idx.filterMap (fun i => s.buffer[i]?)
        let (s', ts, admitted) := s.tick (quotesFn qs) adm
        (s', s!"F {ts.length} {joinSp (ts.map showTrade)} ; A {admitted.length} {joinSp (admitted.map showOrder)} ; {snapshot s'}")
    | _ => (s, "bad-op")
  | _ => (s, "bad-op")

def init : St α := { book := { inner := [], last := 0 }, log := [], buffer := [] }

def main (α : Type) [Carrier α] [LE α] [DecidableLE α] [Mul α] : IO Unit := do
  loopWith (← IO.getStdin) (init (α := α)) step init

end DrvX.Uist
