import AlatorVerif.Model.Basic
import AlatorVerif.DriverX.Util
namespace DrvX.Cost
open Proto Drv DrvX
variable {α : Type} [Carrier α] [Add α] [Sub α] [Mul α] [Div α] [OfNat α 0] [OfNat α 1] [HasFloor α]

def parseCosts : Nat → List String → List (Cost α)
  | 0, _ => []
  | n + 1, k :: x :: rest =>
    let c : Cost α := if k == "P" then .perShare (Carrier.ofTok x) else if k == "C" then .pct (Carrier.ofTok x) else .flat (Carrier.ofTok x)
    c :: parseCosts n rest
  | _, _ => []

def step (α : Type) [Carrier α] [Add α] [Sub α] [Mul α] [Div α] [OfNat α 0] [OfNat α 1] [HasFloor α] (_ : Unit) (ts : List String) : Unit × String :=
  match ts with
  | "COST" :: n :: rest =>
    let cs : List (Cost α) := parseCosts n.toNat! rest
    match rest.dropWhile (· != ";") with
    | _ :: b :: q :: s :: _ =>
      let r := impactTotal cs (Carrier.ofTok b) (Carrier.ofTok q) (s == "1")
      let nn := HasFloor.floor (r.1 / r.2)
      let fee := totalFee cs nn (nn * Carrier.ofTok q)
      ((), s!"NB {Carrier.tok r.1} ; NP {Carrier.tok r.2} ; N {Carrier.tok nn} ; FEE {Carrier.tok fee} ; SAME true")
    | _ => ((), "bad-op")
  | _ => ((), "bad-op")

def main (α : Type) [Carrier α] [Add α] [Sub α] [Mul α] [Div α] [OfNat α 0] [OfNat α 1] [HasFloor α] : IO Unit := do
  loopWith (← IO.getStdin) () (step α) ()
end DrvX.Cost
