import AlatorVerif.Model.Jura
import AlatorVerif.DriverX.Util
namespace DrvX.Jura
open PJ Drv DrvX
variable {α : Type} [Carrier α] [LE α] [DecidableLE α] [Add α] [Sub α] [Mul α] [OfNat α 1] [OfScientific α]

local notation "JOrd" => Order α

-- order encoding: asset isBuy f<limitPx> f<sz> kind   where kind = L:ioc | L:gtc | L:alo | T:f<px>:<isMarket 0/1>:<tp|sl>
def parseTyp (k : String) : OType α :=
  match k.splitOn ":" with
  | ["L", "ioc"] => .limit .ioc
  | ["L", "gtc"] => .limit .gtc
  | ["L", "alo"] => .limit .alo
  | ["T", px, m, t] => .trigger (Carrier.ofTok px) (m == "1") (if t == "tp" then .tp else .sl)
  | _ => .limit .alo

/-- the two order fields that do not influence matching, as the harness annotates them (`X1` reduce_only,
    `X2` a client order id, `X3` both) -/
def extras (x : String) : Bool × Option String :=
  match x with
  | "X1" => (true, none)
  | "X2" => (false, some "0x1234567890abcdef1234567890abcdef")
  | "X3" => (true, some "0xfeedfacefeedfacefeedfacefeedface")
  | _ => (false, none)

def showTyp : OType α → String
  | .limit .ioc => "L:ioc" | .limit .gtc => "L:gtc" | .limit .alo => "L:alo"
  | .trigger px m t =>
    let ms := if m then "1" else "0"
    let tt := match t with | .tp => "tp" | .sl => "sl"
    s!"T:{Carrier.tok px}:{ms}:{tt}"

def showOrder (o : JOrd) : String :=
  let b := if o.isBuy then "1" else "0"
  s!"{o.asset} {b} {Carrier.tok o.limitPx} {Carrier.tok o.sz} {showTyp o.typ}"

def showInner (i : Inner α) : String :=
  let a := if i.attempted then "1" else "0"
  s!"{i.id} {showOrder i.order} {a}"

/-- quotes are keyed by the symbol *string*; the exchange looks an order's quote up under `asset.to_string()`, so a
    symbol such as "07" or "+3" is not the quote of asset 7 or 3 -/
def parseQuotes : Nat → List String → List (String × Quote α) × List String
  | 0, rest => ([], rest)
  | n + 1, sym :: b :: a :: d :: rest =>
    let (qs, r) := parseQuotes n rest
    ((sym, ⟨Carrier.ofTok b, Carrier.ofTok a, d.toInt!⟩) :: qs, r)
  | _, rest => ([], rest)

def showFill (f : Fill α) : String :=
  let sd := if f.buy then "A" else "B"
  s!"{f.coin} {f.oid} {Carrier.tok f.px} {sd} {Carrier.tok f.sz} {f.time}"

def snapshot (s : Jura α) : String :=
  s!"B {s.book.inner.length} {joinSp (s.book.inner.map showInner)} ; U {s.buffer.length} ; X {s.book.last} ; L {s.log.length}"

def step (s : Jura α) (ts : List String) : Jura α × String :=
  match ts with
  | ["I", asset, isBuy, lpx, sz, kind] =>
    let o : JOrd := ⟨asset.toNat!, isBuy == "1", Carrier.ofTok lpx, Carrier.ofTok sz, false, none, parseTyp kind⟩
    ({ s with buffer := s.buffer ++ [o] }, "ok")
  | ["I", asset, isBuy, lpx, sz, kind, x] =>
    let o : JOrd := ⟨asset.toNat!, isBuy == "1", Carrier.ofTok lpx, Carrier.ofTok sz, (extras x).1, (extras x).2, parseTyp kind⟩
    ({ s with buffer := s.buffer ++ [o] }, "ok")
  | ["D", asset, id] =>
    let s' := { s with book := s.book.delete asset.toNat! id.toNat! }
    (s', s!"ok ; {snapshot s'}")
  | "T" :: nq :: rest =>
    let (qs, rest) := parseQuotes nq.toNat! rest
    match rest with
    | "A" :: _ :: ["BAD"] => (s, "REJECT-ADMISSION not-a-permutation-of-the-batch")
    | "A" :: n :: idx =>
      let idx := idx.map String.toNat!
      let sellAt := fun i => match s.buffer[i]? with | some o => !o.isBuy | none => false
      if n.toNat! != s.buffer.length || !sellFirstPerm n.toNat! idx sellAt then (s, "REJECT-ADMISSION not-sell-first")
      else
        let adm := idx.filterMap (fun i => s.buffer[i]?)
        -- a later entry for the same symbol overwrites an earlier one (`HashMap::insert`)
        let quotes : Nat → Option (Quote α) := fun a => (qs.reverse.find? (fun q => q.1 == toString a)).map (·.2)
        let (s', fills, kids, pn) := s.tick quotes adm
        if pn then (s', "PANIC")
        else
          (s', s!"F {fills.length} {joinSp (fills.map showFill)} ; K {kids.length} {joinSp (kids.map toString)} ; N {adm.length} ; {snapshot s'}")
    | _ => (s, "bad-op")
  | _ => (s, "bad-op")

def main (α : Type) [Carrier α] [LE α] [DecidableLE α] [Add α] [Sub α] [Mul α] [OfNat α 1] [OfScientific α] : IO Unit := do
  loopWith (← IO.getStdin) ({} : Jura α) step {}

end DrvX.Jura
