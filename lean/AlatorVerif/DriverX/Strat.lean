import AlatorVerif.Model.Strategy
import AlatorVerif.DriverX.Broker
namespace DrvX.Strat
open PU Proto PBk PSt Drv DrvX

structure World (α : Type) where
  v : Variant
  ncfFixed : Bool
  syms : List String := []
  dates : List Int := []
  qs : List (Int × String × Quote α) := []
  costs : List (Cost α) := []
  weights : List (String × α) := []
  st : Option (Strat String α) := none
  dead : Bool := false

variable {α : Type} [Carrier α] [Add α] [Sub α] [Mul α] [Div α] [Neg α] [OfNat α 0] [OfNat α 1] [OfScientific α] [LT α] [DecidableLT α] [LE α] [DecidableLE α] [HasFloor α]
local notation "S" => Strat String α
local notation "W" => World α

def tail (univ : List String) (s : S) (ks : List String) : String :=
  let st := if s.b.failed then "Failed" else "Ready"
  s!"G {Carrier.tok s.b.cash} ; TV {Carrier.tok (totalValue s.b ks)} ; S {st} ; K {s.srv.pos} {s.srv.date} {s.srv.dates.length} ; HL {s.hist.length} ; XB {s.srv.exch.buffer.length} ; H {DrvX.Broker.showMap univ s.b.hold} ; W {ks.length} {joinSp ks}"

def step (w : W) (ts : List String) : W × String :=
  let (op, secs) := DrvX.Broker.splitAnn ts
  if (DrvX.Broker.secOf secs "DEAD").isSome then (w, "dead") else
  match op with
  | "CLIENT" :: _ => (w, "ok")
  | "COSTS" :: n :: rest => ({ w with costs := DrvX.Broker.parseCosts n.toNat! rest }, "ok")
  | "DATA" :: _ :: _ :: rest => ({ w with syms := rest, dates := [], qs := [] }, "ok")
  | "Q" :: _ :: d :: nq :: rest =>
    if nq.toNat! == 0 then (w, "ok")
    else ({ w with dates := if w.dates.contains d.toInt! then w.dates else w.dates ++ [d.toInt!],
                   qs := w.qs ++ DrvX.Broker.parseQ d.toInt! nq.toNat! rest }, "ok")
  | "WEIGHTS" :: n :: ws => ({ w with weights := DrvX.Broker.parseW n.toNat! ws }, "ok")
  | ["BUILD"] =>
    let quotes : Int → String → Option (Quote α) := fun d s =>
      (w.qs.reverse.find? (fun e => e.1 == d && e.2.1 == s)).map (·.2.2)
    let d0 := w.dates.headD 0
    let srv : Srv String α := ⟨w.dates, quotes, 0, d0, ⟨⟨[], 0⟩, [], []⟩⟩
    let b : Brk String α := ⟨0, fun _ => none, fun _ => none, quotes d0, [], w.costs, false⟩
    ({ w with st := some { b := b, srv := srv, weights := w.weights, ncf := 0, hist := [] } }, "ok")
  | o :: rest =>
    match w.st with
    | none => (w, "bad-op")
    | some s =>
      let ks := (DrvX.Broker.secOf secs "W").map (fun l => l.drop 1) |>.getD []
      match o, rest with
      | "INIT", [x] =>
        let s' := init w.v w.ncfFixed s (Carrier.ofTok x) ks
        if s'.panicked then ({ w with st := some { s' with b := DrvX.Broker.compact (DrvX.Broker.symUniverse w.syms) s'.b } }, "PANIC")
        else ({ w with st := some { s' with b := DrvX.Broker.compact (DrvX.Broker.symUniverse w.syms) s'.b } }, s!"EV ok ; {tail (DrvX.Broker.symUniverse w.syms) s' ks}")
      | "WD", [x] =>
        let r := PBk.withdraw s.b (Carrier.ofTok x)
        let s' := PSt.withdraw s (Carrier.ofTok x)
        let e := match r.1 with | .wOk _ => "WOK" | _ => "WFAIL"
        ({ w with st := some { s' with b := DrvX.Broker.compact (DrvX.Broker.symUniverse w.syms) s'.b } }, s!"EV {e} ; {tail (DrvX.Broker.symUniverse w.syms) s' ks}")
      | "UPDATE", [] =>
        match DrvX.Broker.secOf secs "A" with
        | some (_ :: ["BAD"]) => (w, "REJECT-ADMISSION not-a-permutation-of-the-batch")
        | some (n :: idx) =>
          let idx := idx.map String.toNat!
          let sellAt := fun i => match s.srv.exch.buffer[i]? with | some o => isSell o | none => false
          if n.toNat! != s.srv.exch.buffer.length || !sellFirstPerm n.toNat! idx sellAt then
            (w, s!"REJECT-ADMISSION not-sell-first {s.srv.exch.buffer.length}")
          else
            let adm := idx.filterMap (fun i => s.srv.exch.buffer[i]?)
            let s' := update w.v s adm ks ks
            match s'.hist.getLast? with
            | some sn =>
              if s'.panicked then ({ w with st := some { s' with b := DrvX.Broker.compact (DrvX.Broker.symUniverse w.syms) s'.b } }, "PANIC")
              else ({ w with st := some { s' with b := DrvX.Broker.compact (DrvX.Broker.symUniverse w.syms) s'.b } }, s!"EV ok ; SN {sn.date} {Carrier.tok sn.value} {Carrier.tok sn.ncf} ; {tail (DrvX.Broker.symUniverse w.syms) s' ks}")
            | none => (w, "bad-op")
        | _ => (w, "bad-op")
      | "RUNREST", [] =>
        if (DrvX.Broker.secOf secs "RUNPANIC").isSome then (w, "PANIC") else
        -- the loop `while has_next { update }` performs exactly N - pos updates (C16.loop_length)
        let n := s.srv.dates.length - s.srv.pos
        (w, s!"EV ok ; RR {n} ; PARTIAL")
      | _, _ => (w, "bad-op")
  | _ => (w, "bad-op")

def main (α : Type) [Carrier α] [Add α] [Sub α] [Mul α] [Div α] [Neg α] [OfNat α 0] [OfNat α 1] [OfScientific α] [LT α] [DecidableLT α] [LE α] [DecidableLE α] [HasFloor α] (args : List String) : IO Unit := do
  let v := DrvX.Broker.variantOf args
  let nf := !args.contains "pinned-F8"
  loopWith (← IO.getStdin) ({ v := v, ncfFixed := nf } : World α) step { v := v, ncfFixed := nf }

end DrvX.Strat
