import AlatorVerif.Model.Basic
import AlatorVerif.Driver.Util
/-!
Carrier-generic line-protocol drivers (core only): the same driver code instantiated at `Float` (what
`Driver/*` does) and at `Rat` — exact rational arithmetic, i.e. an instance of the ordered-field hypotheses
under which the theorems are proved. A binary64 token `f<bits>` is read as the rational it denotes; results
are printed as `q<num>/<den>` and compared numerically by the check.
-/
namespace DrvX

class Carrier (α : Type) where
  ofTok : String → α
  tok : α → String

instance : Carrier Float := ⟨Drv.f64, Drv.fb⟩

/-- the rational denoted by an IEEE-754 binary64 bit pattern (finite values; an infinity or NaN reads as 0
    and is flagged by the check on the implementation side) -/
def ratOfBits (b : Nat) : Rat :=
  let sign : Nat := b / 2 ^ 63
  let e : Nat := (b / 2 ^ 52) % 2048
  let m : Nat := b % 2 ^ 52
  let num : Nat := if e == 0 then m else (2 ^ 52 + m) * (if e ≥ 1075 then 2 ^ (e - 1075) else 1)
  let den : Nat := if e == 0 then 2 ^ 1074 else if e ≥ 1075 then 1 else 2 ^ (1075 - e)
  let mag : Rat := if e == 2047 then 0 else (num : Rat) / (den : Rat)
  if sign == 1 then -mag else mag

instance : Carrier Rat :=
  ⟨fun s => ratOfBits (s.drop 1).toString.toNat!, fun x => s!"q{x.num}/{x.den}"⟩

end DrvX
