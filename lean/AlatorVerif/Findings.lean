import AlatorVerif.Model.Broker
import AlatorVerif.Model.Srv
import AlatorVerif.Model.Http
/-!
# Findings — kernel-checked witnesses of the repaired defects, on the model

For every defect of DESIGN §2 whose *pinned* behaviour the model carries as a `Variant`, a concrete
witness (exact rationals, `decide +kernel`) that the pinned variant violates the clause of the property
named, next to the same input on the repaired variant. These are **tests of the model at one point**,
labelled as such: they document the negation of the property on the pinned tree (the third case of the
brief: model and code agree and the property is false of both), they are the inputs kept under
`corpus/<component>/F*.ops` and replayed against the real code on every check, and they keep the
`Variant` switches honest (a switch that changed nothing would make these fail to build).

F1 (Jura trigger comparisons) and F6b/F7/F8 have their witnesses in `Props/C18` (`trigger_fires_iff` is
the truth table itself), `Props/C06`, `Props/C15` and `Props/C16`; F2 in `Props/C08`.
-/
namespace Findings
open PU Proto PBk

/-- one-symbol broker state at carrier `Rat` -/
def brk (cash : Rat) (hold : Nat → Option Rat) (latest : Nat → Option (Quote Rat))
    (costs : List (Cost Rat)) : Brk Nat Rat :=
  { cash := cash, hold := hold, pend := fun _ => none, latest := latest, log := [], costs := costs, failed := false }

def walkOrders : Walk Nat Rat → Option (List (Nat × Rat))
  | .done os => some os
  | .left _ os => some os
  | .panic => none

def only (k : Nat) (x : β) : Nat → Option β := fun i => if i = k then some x else none

/-! ## F4 (C10): `remaining / ceil(bid)` instead of `ceil(remaining / bid)`

1000 shares held at a bid of 150.5, 20 000 to raise: the pinned walk queues 20000/151 shares, worth
19 933.77… < 20 000, and reports success; the repaired walk queues 133 shares, worth 20 016.5. -/
def b4 : Brk Nat Rat := brk 0 (only 0 1000) (only 0 ⟨301/2, 151, 0⟩) []

example : walkOrders (walk ⟨false, true, true, true, true⟩ b4 [0] 20000 []) = some [(0, 20000/151)] := by
  decide +kernel
example : (301/2 : Rat) * (20000/151) < 20000 := by decide +kernel
example : walkOrders (walk .repaired b4 [0] 20000 []) = some [(0, 133)] := by decide +kernel
example : (20000 : Rat) ≤ (301/2) * 133 := by decide +kernel

/-! ## F10 (C09, C10): the partial sale rounded up past a fractional position

37.25 shares held at a bid of 10, 372 to raise: ceil(37.2) = 38 > 37.25 — the sale is refused by the
gatekeeper (`sufficientHoldings`), nothing is queued, success is reported. The repaired walk caps the
sale at the position. -/
def b10 : Brk Nat Rat := brk 0 (only 0 (149/4)) (only 0 ⟨10, 10, 0⟩) []

example : walkOrders (walk ⟨true, true, true, true, false⟩ b10 [0] 372 []) = some [(0, 38)] := by decide +kernel
example : sufficientHoldings b10 (mkSell 0 38) = false := by decide +kernel
example : walkOrders (walk .repaired b10 [0] 372 []) = some [(0, 149/4)] := by decide +kernel
example : sufficientHoldings b10 (mkSell 0 (149/4)) = true := by decide +kernel

/-! ## F5a (C12): `break` on a symbol that is already on target

cash 100, symbol 0 held 10 @ 10 (value 100 = 0.5 × 200, on target), symbol 1 not held, quoted at 10:
the pinned loop stops at symbol 0 and never buys symbol 1; the repaired loop buys 10 shares. -/
def b5 : Brk Nat Rat :=
  brk 100 (only 0 10) (fun i => if i = 0 then some ⟨10, 10, 0⟩ else if i = 1 then some ⟨10, 10, 0⟩ else none) []

def ordersOf (r : List (Order Nat Rat) × List (Order Nat Rat)) : List (Bool × Nat × Rat) :=
  (r.1 ++ r.2).map (fun o => (o.side == .buy, o.symbol, o.shares))

example : liqValue b5 [0] = 200 := by decide +kernel
example : ordersOf (diffLoop ⟨true, false, true, true, true⟩ b5 200 [(0, 1/2), (1, 1/2)] [] []) = [] := by
  decide +kernel
example : ordersOf (diffLoop .repaired b5 200 [(0, 1/2), (1, 1/2)] [] []) = [(true, 1, 10)] := by
  decide +kernel
/-- and the result of the pinned loop depended on the map order: visiting symbol 1 first buys it -/
example : ordersOf (diffLoop ⟨true, false, true, true, true⟩ b5 200 [(1, 1/2), (0, 1/2)] [] []) = [(true, 1, 10)] := by
  decide +kernel

/-! ## F5b (C12): a gap smaller than a flat fee produced an order in the opposite direction

gap +2 (under-weight), flat fee 5, ask 1: net budget −3, floor(−3/1) = −3 shares, i.e. a **sell** of 3
for a holding that is below its target. The repaired code clamps the share count at 0: no order. -/
example : requiredShares ⟨true, true, false, true, true⟩ [Cost.flat (5 : Rat)] 2 ⟨1, 1, 0⟩ = -3 := by decide +kernel
example : requiredShares .repaired [Cost.flat (5 : Rat)] 2 ⟨1, 1, 0⟩ = 0 := by decide +kernel

/-! ## F6a (C06): `unreachable!()` for every limit / stop order -/
example : sufficientCash (σ := Nat) (α := Rat) ⟨true, true, true, false, true⟩ (brk 100 (fun _ => none) (fun _ => none) [])
    ⟨none, .stop, .sell, 0, 1, some 5⟩ 5 = .panic := by decide +kernel
example : sufficientCash (σ := Nat) (α := Rat) .repaired (brk 100 (fun _ => none) (fun _ => none) [])
    ⟨none, .stop, .sell, 0, 1, some 5⟩ 5 = .ok := by decide +kernel

/-! ## F3 (C07, C01): Jura `AppState::tick` never advanced `backtest.pos`

dataset with dates 10, 20, 30 and a toy exchange: after two pinned ticks the position is still 0 and the
clock sits on 20 for ever (`has_next` stays true); repaired, two ticks reach position 2, date 30, and the
third tick reports `has_next = false`. -/
section
open SV
def tx : ExchOps Nat Nat Unit Unit Unit Nat := ⟨0, fun e q _ => (e + q, q), fun e _ => e, fun e _ => e, 0⟩
def ds3 : Dataset Nat := { dates := [10, 20, 30], quotes := fun d => some d.toNat }
def a3 : App Nat Nat :=
  { backtests := fun i => if i = 0 then some { date := 10, pos := 0, exch := 0, dataset := "D" } else none,
    last := 1, datasets := fun n => if n = "D" then some ds3 else none }

def ticks (v : SV.Variant) : Nat → App Nat Nat → List Bool × App Nat Nat
  | 0, a => ([], a)
  | n + 1, a =>
    let r := SV.tick tx v a 0 ()
    let rest := ticks v n r.2
    ((r.1.map (·.1)).getD false :: rest.1, rest.2)

def clock (a : App Nat Nat) : Option (Int × Nat) := (a.backtests 0).map (fun b => (b.date, b.pos))

example : (ticks ⟨true, false⟩ 5 a3).1 = [true, true, true, true, true]
    ∧ clock (ticks ⟨true, false⟩ 5 a3).2 = some (20, 0) := by decide +kernel
example : (ticks .repaired 3 a3).1 = [true, true, false]
    ∧ clock (ticks .repaired 3 a3).2 = some (30, 3) := by decide +kernel
end

/-! ## F9 (C20): the Jura `TickResponse` had no field for the triggered child ids -/
section
open PHt PJs
example : ((juraEnc (α := Rat) false).tickFields ([], [], [7, 8], true)).length = 2 := by decide +kernel
example : ((juraEnc (α := Rat) true).tickFields ([], [], [7, 8], true)).length = 3 := by decide +kernel
end

end Findings
