import AlatorVerif.Model.HttpU
namespace Drv.Http
open PU PSU PJs PH

abbrev A := App String Float
def f64 (s : String) : Float := Float.ofBits (s.toNat!.toUInt64)
def bits (x : Float) : String := if x == 0.0 then "0" else toString x.toBits.toNat

partial def canon : Json Float → String
  | .null => "N"
  | .bool b => if b then "T" else "F"
  | .int n => s!"I{n}"
  | .num x => s!"D{bits x}"
  | .str s => "S" ++ s
  | .arr xs => "[ " ++ " ".intercalate (xs.map canon) ++ " ]"
  | .obj kvs =>
    let sorted := kvs.toArray.qsort (fun a b => a.1 < b.1) |>.toList
    "{ " ++ " ".intercalate (sorted.map (fun kv => kv.1 ++ " " ++ canon kv.2)) ++ " }"

structure W where
  storesLast : Bool
  syms : List String := []
  dates : List Int := []
  qs : List (Int × String × Quote Float) := []
  app : Option A := none

def kindSide (t : Nat) : Kind × Side :=
  match t with
  | 0 => (.market, .sell) | 1 => (.market, .buy) | 2 => (.limit, .sell)
  | 3 => (.limit, .buy) | 4 => (.stop, .sell) | _ => (.stop, .buy)
def parseQ (date : Int) : Nat → List String → List (Int × String × Quote Float)
  | 0, _ => []
  | n + 1, sym :: b :: a :: rest => (date, sym, ⟨f64 b, f64 a, date⟩) :: parseQ date n rest
  | _, _ => []
def sellFirstPerm (n : Nat) (idx : List Nat) (buf : List (PU.Order String Float)) : Bool :=
  let sides := idx.map (fun i => match buf[i]? with | some o => isSell o | none => false)
  idx.length == n && (List.range n).all (fun i => idx.count i == 1) && (sides.dropWhile id).all (fun b => !b)

def showRsp (r : Rsp Float) : String :=
  match r.body with
  | some j => s!"{r.status} {canon j}"
  | none => s!"{r.status}"

def stepLine (w : W) (line : String) : W × String :=
  match (line.trimAscii.toString.splitOn " ").filter (fun t => t != "") with
  | "DATA" :: _ :: rest => ({ w with syms := rest, dates := [], qs := [] }, "ok")
  | "Q" :: d :: nq :: rest =>
    let date := d.toInt!
    if nq.toNat! == 0 then (w, "ok")
    else ({ w with dates := if w.dates.contains date then w.dates else w.dates ++ [date],
                   qs := w.qs ++ parseQ date nq.toNat! rest }, "ok")
  | ["SINGLE", name] =>
    let quotes : Int → String → Option (Quote Float) := fun d s =>
      (w.qs.reverse.find? (fun e => e.1 == d && e.2.1 == s)).map (·.2.2)
    match single name (⟨w.dates, quotes⟩ : Dataset String Float) with
    | some a => ({ w with app := some a }, "ok")
    | none => (w, "PANIC")
  | op :: rest =>
    match w.app with
    | none => (w, "bad-op")
    | some a =>
      let req : Option (Req Float) := match op, rest with
        | "INIT", [name] => some (.init name)
        | "INS", [id, t, sym, sh, pr] =>
          let ks := kindSide t.toNat!
          let price : Option Float := if pr == "-" then none else some (f64 pr)
          some (.insert id.toNat! ⟨none, ks.1, ks.2, sym, f64 sh, price⟩)
        | "DEL", [id, oid] => some (.delete id.toNat! oid.toNat!)
        | "TICK", id :: "A" :: n :: idx =>
          let idx := (idx.take n.toNat!).map String.toNat!
          let buf := match a.backtests id.toNat! with | some bt => bt.exch.buffer | none => []
          if !sellFirstPerm n.toNat! idx buf then none
          else some (.tick id.toNat! (idx.filterMap (fun i => buf[i]?)))
        | "FETCH", [id] => some (.fetch id.toNat!)
        | "INFO", [id] => some (.info id.toNat!)
        | "NOW", [id] => some (.now id.toNat!)
        | _, _ => none
      match req with
      | none => (w, "bad-op-or-REJECT-ADMISSION")
      | some r => let out := handle w.storesLast w.syms a r; ({ w with app := some out.2 }, showRsp out.1)
  | _ => (w, "bad-op")

partial def loop (h : IO.FS.Stream) (sl : Bool) (w : W) : IO Unit := do
  let line ← h.getLine
  if line.isEmpty then return ()
  if line.trimAscii.toString == "RESET" then
    IO.println "reset"
    loop h sl { storesLast := sl }
  else
    let (w', out) := stepLine w line
    IO.println out
    loop h sl w'

def main (args : List String) : IO Unit := do
  let sl := args.contains "repaired"
  loop (← IO.getStdin) sl { storesLast := sl }

end Drv.Http
