import AlatorVerif.Model.Http
import AlatorVerif.Driver.Srv
namespace Drv.Http
open SV PJs PHt Drv Drv.Srv

/-- canonical token stream of a JSON AST: keys sorted, floats as bit patterns -/
partial def canon : Json Float → String
  | .null => "N"
  | .bool b => if b then "T" else "F"
  | .int n => s!"I{n}"
  | .num x => fb x
  | .str s => s!"S{s}"
  | .arr xs => s!"[ {joinSp (xs.map canon)} ]"
  | .obj kvs =>
    let ks := (kvs.toArray.qsort (fun a b => a.1 < b.1)).toList
    s!"\{ {joinSp (ks.map (fun kv => s!"k:{kv.1} {canon kv.2}"))} }"

variable {E Q O D R : Type}

def step (ad : Adapter E Q O D R) (enc : Enc Q R Float) (v : Variant) (w : W E Q) (ts : List String) : W E Q × String :=
  match ts with
  | "DATA" :: _ | "Q" :: _ | ["SINGLE", _] | ["CREATE"] => Drv.Srv.step ad v w ts
  | op :: rest =>
    match w.app with
    | none => (w, "bad-op")
    | some a =>
      let symsOf : String → List String := fun ds => ((w.defs.find? (fun d => d.name == ds)).map (·.syms)).getD []
      let fin (r : Rsp Float × App E Q) : W E Q × String :=
        let j := match r.1.body with | some b => canon b | none => "-"
        ({ w with app := some r.2 }, s!"ST {r.1.status} ; J {j} ; EQ true ; SEQ true")
      match op, rest with
      | "NEWBT", [name] =>
        let r := newBacktest ad.ops a name
        let i := match r.1 with | .ok i => toString i | _ => "-"
        ({ w with app := some r.2 }, s!"NB {i} ; EQ true")
      | "INIT", [name] => fin (handle ad.ops enc v symsOf a (.init name))
      | "INS", id :: otoks =>
        match ad.parseIns otoks with
        | none => (w, "bad-op")
        | some o => fin (handle ad.ops enc v symsOf a (.insert id.toNat! o))
      | "DEL", id :: dtoks =>
        match ad.parseDel dtoks with
        | none => (w, "bad-op")
        | some d => fin (handle ad.ops enc v symsOf a (.delete id.toNat! d))
      | "TICK", id :: "A" :: _ :: ["BAD"] => (w, s!"REJECT-ADMISSION not-a-permutation-of-the-batch {id}")
      | "TICK", id :: "A" :: n :: idx =>
        let idx := (idx.take n.toNat!).map String.toNat!
        let buf := match a.backtests id.toNat! with | some bt => ad.bufOf bt.exch | none => []
        let sellAt := fun i => match buf[i]? with | some o => ad.isSellO o | none => false
        if (a.backtests id.toNat!).isSome && (n.toNat! != buf.length || !sellFirstPerm n.toNat! idx sellAt) then
          (w, "REJECT-ADMISSION not-sell-first")
        else fin (handle ad.ops enc v symsOf a (.tick id.toNat! (idx.filterMap (fun i => buf[i]?))))
      | "FETCH", [id] => fin (handle ad.ops enc v symsOf a (.fetch id.toNat!))
      | "NOW", [id] => fin (handle ad.ops enc v symsOf a (.now id.toNat!))
      | "INFO", [id] => fin (handle ad.ops enc v symsOf a (.info id.toNat!))
      -- a request whose id segment is not a backtest id at all (`-1`, `abc`, 2^64): no in-process call corresponds to it;
      -- the model's state does not move and it answers for no section (the harness checks 4xx and an unchanged state)
      | "RAW", _ => (w, "PARTIAL")
      | _, _ => (w, "bad-op")
  | _ => (w, "bad-op")

def mainUist (args : List String) : IO Unit := do
  loopWith (← IO.getStdin) ({} : W _ _) (step uistAd uistEnc (variantOf args)) {}

def mainJura (args : List String) : IO Unit := do
  loopWith (← IO.getStdin) ({} : W _ _) (step juraAd (juraEnc (!args.contains "pinned-F9")) (variantOf args)) {}

end Drv.Http
