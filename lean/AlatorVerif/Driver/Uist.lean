import AlatorVerif.Model.Uist
namespace Drv.Uist
open PU

abbrev UOrd := Order String Float
abbrev St := Uist String Float

def f64 (s : String) : Float := Float.ofBits (s.toNat!.toUInt64)
def bits (x : Float) : String := toString x.toBits.toNat

def kindSide (t : Nat) : Kind × Side :=
  match t with
  | 0 => (.market, .sell) | 1 => (.market, .buy) | 2 => (.limit, .sell)
  | 3 => (.limit, .buy) | 4 => (.stop, .sell) | _ => (.stop, .buy)
def typNum (o : UOrd) : Nat :=
  match o.kind, o.side with
  | .market, .sell => 0 | .market, .buy => 1 | .limit, .sell => 2
  | .limit, .buy => 3 | .stop, .sell => 4 | .stop, .buy => 5

instance : LE Float := inferInstance

def parseQuotes : Nat → List String → List (String × Quote Float) × List String
  | 0, rest => ([], rest)
  | n + 1, sym :: b :: a :: d :: rest =>
    let (qs, r) := parseQuotes n rest
    ((sym, { bid := f64 b, ask := f64 a, date := d.toInt! }) :: qs, r)
  | _, rest => ([], rest)

def showOrder (o : UOrd) : String :=
  let pr := match o.price with | some p => bits p | none => "-"
  s!"{o.id.getD 0} {typNum o} {o.symbol} {bits o.shares} {pr}"
def showTrade (t : Trade String Float) : String :=
  let sd := match t.side with | .buy => "B" | .sell => "S"
  s!"{t.symbol} {bits t.value} {bits t.quantity} {t.date} {sd}"

def sellFirstPerm (n : Nat) (idx : List Nat) (buf : List UOrd) : Bool :=
  idx.length == n && (List.range n).all (fun i => idx.count i == 1) &&
  (let sides := idx.map (fun i => match buf[i]? with | some o => isSell o | none => false)
   -- no buy before a sell
   (sides.dropWhile id).all (fun b => !b))

def stepLine (s : St) (line : String) : St × String :=
  match line.trimAscii.toString.splitOn " " with
  | ["I", t, sym, shs, pr] =>
    let (k, sd) := kindSide t.toNat!
    let price : Option Float := if pr == "-" then none else some (f64 pr)
    let o : UOrd := ⟨none, k, sd, sym, f64 shs, price⟩
    ({ s with buffer := s.buffer ++ [o] }, "ok")
  | ["D", id] => ({ s with book := s.book.delete id.toNat! }, "ok")
  | "T" :: nq :: rest =>
    let (qs, rest) := parseQuotes nq.toNat! rest
    match rest with
    | "A" :: n :: idx =>
      let idx := idx.map String.toNat!
      if !sellFirstPerm n.toNat! idx s.buffer || n.toNat! != s.buffer.length then (s, "REJECT-ADMISSION")
      else
        let adm := idx.filterMap (fun i => s.buffer[i]?)
        let quotes : String → Option (Quote Float) := fun sym => (qs.find? (fun q => q.1 == sym)).map (·.2)
        let (s', ts, admitted) := s.tick quotes adm
        let fs := " ".intercalate (ts.map showTrade)
        let as := " ".intercalate (admitted.map showOrder)
        (s', s!"F {ts.length} {fs} ; A {admitted.length} {as}")
    | _ => (s, "bad-op")
  | _ => (s, "bad-op")

partial def loop (h : IO.FS.Stream) (s : St) : IO Unit := do
  let line ← h.getLine
  if line.isEmpty then return ()
  if line.trimAscii.toString == "RESET" then
    IO.println "reset"
    loop h { book := { inner := [], last := 0 }, log := [], buffer := [] }
  else
    let (s', out) := stepLine s line
    IO.println out
    loop h s'

def main : IO Unit := do
  loop (← IO.getStdin) { book := { inner := [], last := 0 }, log := [], buffer := [] }

end Drv.Uist
