import AlatorVerif.Model.Jura
namespace Drv.Jura
open PJ

abbrev JOrd := Order Float
def f64 (s : String) : Float := Float.ofBits (s.toNat!.toUInt64)
def bits (x : Float) : String := toString x.toBits.toNat

-- order encoding: asset isBuy limitPxBits szBits kind  where kind = L:ioc | L:gtc | L:alo | T:<pxBits>:<isMarket 0/1>:<tp|sl>
def parseTyp (k : String) : OType Float :=
  match k.splitOn ":" with
  | ["L", "ioc"] => .limit .ioc
  | ["L", "gtc"] => .limit .gtc
  | ["L", "alo"] => .limit .alo
  | ["T", px, m, t] => .trigger (f64 px) (m == "1") (if t == "tp" then .tp else .sl)
  | _ => .limit .alo

def isSellO (o : JOrd) : Bool := !o.isBuy

def sellFirstPerm (n : Nat) (idx : List Nat) (buf : List JOrd) : Bool :=
  let sides := idx.map (fun i => match buf[i]? with | some o => isSellO o | none => false)
  idx.length == n && (List.range n).all (fun i => idx.count i == 1) && (sides.dropWhile id).all (fun b => !b)

def parseQuotes : Nat → List String → List (Nat × Quote Float) × List String
  | 0, rest => ([], rest)
  | n + 1, sym :: b :: a :: d :: rest =>
    let (qs, r) := parseQuotes n rest
    ((sym.toNat!, ⟨f64 b, f64 a, d.toInt!⟩) :: qs, r)
  | _, rest => ([], rest)

def showFill (f : Fill Float) : String :=
  let sd := if f.buy then "A" else "B"
  s!"{f.coin} {f.oid} {bits f.px} {sd} {bits f.sz} {f.time}"

def stepLine (s : Jura Float) (line : String) : Jura Float × String :=
  match line.trimAscii.toString.splitOn " " with
  | ["I", asset, isBuy, lpx, sz, kind] =>
    let o : JOrd := ⟨asset.toNat!, isBuy == "1", f64 lpx, f64 sz, false, none, parseTyp kind⟩
    ({ s with buffer := s.buffer ++ [o] }, "ok")
  | ["D", asset, id] => ({ s with book := s.book.delete asset.toNat! id.toNat! }, "ok")
  | "T" :: nq :: rest =>
    let (qs, rest) := parseQuotes nq.toNat! rest
    match rest with
    | "A" :: n :: idx =>
      let idx := idx.map String.toNat!
      if !sellFirstPerm n.toNat! idx s.buffer || n.toNat! != s.buffer.length then (s, "REJECT-ADMISSION")
      else
        let adm := idx.filterMap (fun i => s.buffer[i]?)
        let quotes : Nat → Option (Quote Float) := fun a => (qs.find? (fun q => q.1 == a)).map (·.2)
        let (s', fills, kids, pn) := s.tick quotes adm
        if pn then (s', "PANIC")
        else
          let fs := " ".intercalate (fills.map showFill)
          let ks := " ".intercalate (kids.map toString)
          (s', s!"F {fills.length} {fs} ; K {kids.length} {ks} ; N {adm.length}")
    | _ => (s, "bad-op")
  | _ => (s, "bad-op")

partial def loop (h : IO.FS.Stream) (s : Jura Float) : IO Unit := do
  let line ← h.getLine
  if line.isEmpty then return ()
  if line.trimAscii.toString == "RESET" then
    IO.println "reset"
    loop h {}
  else
    let (s', out) := stepLine s line
    IO.println out
    loop h s'

def main : IO Unit := do loop (← IO.getStdin) {}

end Drv.Jura
