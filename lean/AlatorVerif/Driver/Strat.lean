import AlatorVerif.Model.Strategy
namespace Drv.Strat
open PU Proto PBk PSt

abbrev S := Strat String Float
def f64 (s : String) : Float := Float.ofBits (s.toNat!.toUInt64)
def bits (x : Float) : String := if x == 0.0 then "0" else toString x.toBits.toNat

structure W where
  v : Variant
  ncfFixed : Bool
  syms : List String := []
  dates : List Int := []
  qs : List (Int × String × Quote Float) := []
  costs : List (Cost Float) := []
  st : Option S := none
  ambiguous : Bool := false      -- cash went negative: the liquidation walk order would matter

def parseCosts : Nat → List String → List (Cost Float)
  | 0, _ => []
  | n + 1, k :: x :: rest =>
    let c : Cost Float := if k == "P" then .perShare (f64 x) else if k == "C" then .pct (f64 x) else .flat (f64 x)
    c :: parseCosts n rest
  | _, _ => []
def parseQ (date : Int) : Nat → List String → List (Int × String × Quote Float)
  | 0, _ => []
  | n + 1, sym :: b :: a :: rest => (date, sym, ⟨f64 b, f64 a, date⟩) :: parseQ date n rest
  | _, _ => []
def parseW : Nat → List String → List (String × Float)
  | 0, _ => []
  | n + 1, sym :: w :: rest => (sym, f64 w) :: parseW n rest
  | _, _ => []

def sellFirstPerm (n : Nat) (idx : List Nat) (buf : List (Order String Float)) : Bool :=
  let sides := idx.map (fun i => match buf[i]? with | some o => isSell o | none => false)
  idx.length == n && (List.range n).all (fun i => idx.count i == 1) && (sides.dropWhile id).all (fun b => !b)

def stepLine (w : W) (line : String) : W × String :=
  match (line.trimAscii.toString.splitOn " ").filter (fun t => t != "") with
  | "COSTS" :: n :: rest => ({ w with costs := parseCosts n.toNat! rest }, "ok")
  | "DATA" :: _ :: rest => ({ w with syms := rest, dates := [], qs := [] }, "ok")
  | "Q" :: d :: nq :: rest =>
    if nq.toNat! == 0 then (w, "ok")
    else ({ w with dates := w.dates ++ [d.toInt!], qs := w.qs ++ parseQ d.toInt! nq.toNat! rest }, "ok")
  | "BUILD" :: n :: ws =>
    let quotes : Int → String → Option (Quote Float) := fun d s =>
      (w.qs.find? (fun e => e.1 == d && e.2.1 == s)).map (·.2.2)
    let d0 := w.dates.headD 0
    let srv : Srv String Float := ⟨w.dates, quotes, 0, d0, ⟨⟨[], 0⟩, [], []⟩⟩
    let b : Brk String Float := ⟨0, fun _ => none, fun _ => none, quotes d0, [], w.costs, false⟩
    ({ w with st := some { b := b, srv := srv, weights := parseW n.toNat! ws, ncf := 0, hist := [] } }, "ok")
  | op :: rest =>
    match w.st with
    | none => (w, "bad-op")
    | some s =>
      match op, rest with
      | "INIT", [x] =>
        let s' := init w.v w.ncfFixed s (f64 x) w.syms
        ({ w with st := some s' }, if s'.panicked then "PANIC" else "ok")
      | "UPDATE", "A" :: n :: idx =>
        let idx := (idx.take n.toNat!).map String.toNat!
        if !sellFirstPerm n.toNat! idx s.srv.exch.buffer || n.toNat! != s.srv.exch.buffer.length then (w, "REJECT-ADMISSION")
        else
          let adm := idx.filterMap (fun i => s.srv.exch.buffer[i]?)
          let s' := update w.v s adm w.syms w.syms
          let amb := w.ambiguous || decide (s'.b.cash < 0) || s'.b.failed
          match s'.hist.getLast? with
          | some sn => ({ w with st := some s', ambiguous := amb },
              if s'.panicked then "PANIC" else s!"{sn.date} {bits sn.value} {bits sn.ncf} {hasNext s'}")
          | none => (w, "bad-op")
      | "WD", [x] =>
        let s' := PSt.withdraw s (f64 x)
        ({ w with st := some s' }, s!"{bits s'.ncf}")
      | "END", [] => (w, if w.ambiguous then "AMBIGUOUS" else "clean")
      | _, _ => (w, "bad-op")
  | _ => (w, "bad-op")

partial def loop (h : IO.FS.Stream) (v : Variant) (nf : Bool) (w : W) : IO Unit := do
  let line ← h.getLine
  if line.isEmpty then return ()
  if line.trimAscii.toString == "RESET" then
    IO.println "reset"
    loop h v nf { v := v, ncfFixed := nf }
  else
    let (w', out) := stepLine w line
    IO.println out
    loop h v nf w'

def main (args : List String) : IO Unit := do
  let rep := args.contains "repaired"
  let v := if rep then Variant.repaired else Variant.pinned
  loop (← IO.getStdin) v rep { v := v, ncfFixed := rep }

end Drv.Strat
