import AlatorVerif.Model.Strategy
import AlatorVerif.Driver.Broker
namespace Drv.Strat
open PU Proto PBk PSt Drv

abbrev S := Strat String Float

structure W where
  v : Variant
  ncfFixed : Bool
  syms : List String := []
  dates : List Int := []
  qs : List (Int × String × Quote Float) := []
  costs : List (Cost Float) := []
  weights : List (String × Float) := []
  st : Option S := none
  dead : Bool := false

def tail (univ : List String) (s : S) (ks : List String) : String :=
  let st := if s.b.failed then "Failed" else "Ready"
  s!"G {fb s.b.cash} ; TV {fb (totalValue s.b ks)} ; S {st} ; K {s.srv.pos} {s.srv.date} {s.srv.dates.length} ; HL {s.hist.length} ; XB {s.srv.exch.buffer.length} ; H {Drv.Broker.showMap univ s.b.hold} ; W {ks.length} {joinSp ks}"

def step (w : W) (ts : List String) : W × String :=
  let (op, secs) := Drv.Broker.splitAnn ts
  if (Drv.Broker.secOf secs "DEAD").isSome then (w, "dead") else
  match op with
  | "CLIENT" :: _ => (w, "ok")
  | "COSTS" :: n :: rest => ({ w with costs := Drv.Broker.parseCosts n.toNat! rest }, "ok")
  | "DATA" :: _ :: _ :: rest => ({ w with syms := rest, dates := [], qs := [] }, "ok")
  | "Q" :: _ :: d :: nq :: rest =>
    if nq.toNat! == 0 then (w, "ok")
    else ({ w with dates := if w.dates.contains d.toInt! then w.dates else w.dates ++ [d.toInt!],
                   qs := w.qs ++ Drv.Broker.parseQ d.toInt! nq.toNat! rest }, "ok")
  | "WEIGHTS" :: n :: ws => ({ w with weights := Drv.Broker.parseW n.toNat! ws }, "ok")
  | ["BUILD"] =>
    let quotes : Int → String → Option (Quote Float) := fun d s =>
      (w.qs.reverse.find? (fun e => e.1 == d && e.2.1 == s)).map (·.2.2)
    let d0 := w.dates.headD 0
    let srv : Srv String Float := ⟨w.dates, quotes, 0, d0, ⟨⟨[], 0⟩, [], []⟩⟩
    let b : Brk String Float := ⟨0, fun _ => none, fun _ => none, quotes d0, [], w.costs, false⟩
    ({ w with st := some { b := b, srv := srv, weights := w.weights, ncf := 0, hist := [] } }, "ok")
  | o :: rest =>
    match w.st with
    | none => (w, "bad-op")
    | some s =>
      let ks := (Drv.Broker.secOf secs "W").map (fun l => l.drop 1) |>.getD []
      match o, rest with
      | "INIT", [x] =>
        let s' := init w.v w.ncfFixed s (f64 x) ks
        if s'.panicked then ({ w with st := some { s' with b := Drv.Broker.compact (Drv.Broker.symUniverse w.syms) s'.b } }, "PANIC")
        else ({ w with st := some { s' with b := Drv.Broker.compact (Drv.Broker.symUniverse w.syms) s'.b } }, s!"EV ok ; {tail (Drv.Broker.symUniverse w.syms) s' ks}")
      | "WD", [x] =>
        let r := PBk.withdraw s.b (f64 x)
        let s' := PSt.withdraw s (f64 x)
        let e := match r.1 with | .wOk _ => "WOK" | _ => "WFAIL"
        ({ w with st := some { s' with b := Drv.Broker.compact (Drv.Broker.symUniverse w.syms) s'.b } }, s!"EV {e} ; {tail (Drv.Broker.symUniverse w.syms) s' ks}")
      | "UPDATE", [] =>
        match Drv.Broker.secOf secs "A" with
        | some (_ :: ["BAD"]) => (w, "REJECT-ADMISSION not-a-permutation-of-the-batch")
        | some (n :: idx) =>
          let idx := idx.map String.toNat!
          let sellAt := fun i => match s.srv.exch.buffer[i]? with | some o => isSell o | none => false
          if n.toNat! != s.srv.exch.buffer.length || !sellFirstPerm n.toNat! idx sellAt then
            (w, s!"REJECT-ADMISSION not-sell-first {s.srv.exch.buffer.length}")
          else
            let adm := idx.filterMap (fun i => s.srv.exch.buffer[i]?)
            let s' := update w.v s adm ks ks
            match s'.hist.getLast? with
            | some sn =>
              if s'.panicked then ({ w with st := some { s' with b := Drv.Broker.compact (Drv.Broker.symUniverse w.syms) s'.b } }, "PANIC")
              else ({ w with st := some { s' with b := Drv.Broker.compact (Drv.Broker.symUniverse w.syms) s'.b } }, s!"EV ok ; SN {sn.date} {fb sn.value} {fb sn.ncf} ; {tail (Drv.Broker.symUniverse w.syms) s' ks}")
            | none => (w, "bad-op")
        | _ => (w, "bad-op")
      | "RUNREST", [] =>
        if (Drv.Broker.secOf secs "RUNPANIC").isSome then (w, "PANIC") else
        -- the loop `while has_next { update }` performs exactly N - pos updates (C16.loop_length)
        let n := s.srv.dates.length - s.srv.pos
        (w, s!"EV ok ; RR {n} ; PARTIAL")
      | _, _ => (w, "bad-op")
  | _ => (w, "bad-op")

def main (args : List String) : IO Unit := do
  let v := Drv.Broker.variantOf args
  let nf := !args.contains "pinned-F8"
  loopWith (← IO.getStdin) ({ v := v, ncfFixed := nf } : W) step { v := v, ncfFixed := nf }

end Drv.Strat
