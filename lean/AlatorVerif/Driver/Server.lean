import AlatorVerif.Model.ServerU
namespace Drv.Server
open PU PSU

abbrev A := App String Float
def f64 (s : String) : Float := Float.ofBits (s.toNat!.toUInt64)
def bits (x : Float) : String := if x == 0.0 then "0" else toString x.toBits.toNat

structure W where
  storesLast : Bool
  syms : List String := []
  dates : List Int := []
  qs : List (Int × String × Quote Float) := []
  app : Option A := none

def kindSide (t : Nat) : Kind × Side :=
  match t with
  | 0 => (.market, .sell) | 1 => (.market, .buy) | 2 => (.limit, .sell)
  | 3 => (.limit, .buy) | 4 => (.stop, .sell) | _ => (.stop, .buy)
def typNum (o : Order String Float) : Nat :=
  match o.kind, o.side with
  | .market, .sell => 0 | .market, .buy => 1 | .limit, .sell => 2
  | .limit, .buy => 3 | .stop, .sell => 4 | .stop, .buy => 5

def parseQ (date : Int) : Nat → List String → List (Int × String × Quote Float)
  | 0, _ => []
  | n + 1, sym :: b :: a :: rest => (date, sym, ⟨f64 b, f64 a, date⟩) :: parseQ date n rest
  | _, _ => []

def showOrder (o : Order String Float) : String :=
  let pr := match o.price with | some p => bits p | none => "-"
  s!"{o.id.getD 0} {typNum o} {o.symbol} {bits o.shares} {pr}"
def showTrade (t : Trade String Float) : String :=
  let sd := match t.side with | .buy => "B" | .sell => "S"
  s!"{t.symbol} {bits t.value} {bits t.quantity} {t.date} {sd}"

def sellFirstPerm (n : Nat) (idx : List Nat) (buf : List (Order String Float)) : Bool :=
  let sides := idx.map (fun i => match buf[i]? with | some o => isSell o | none => false)
  idx.length == n && (List.range n).all (fun i => idx.count i == 1) && (sides.dropWhile id).all (fun b => !b)

def showRes : Res Nat → String
  | .ok n => s!"ok {n}" | .none => "none" | .panic => "PANIC"

def stepLine (w : W) (line : String) : W × String :=
  match (line.trimAscii.toString.splitOn " ").filter (fun t => t != "") with
  | "DATA" :: _ :: rest => ({ w with syms := rest, dates := [], qs := [] }, "ok")
  | "Q" :: d :: nq :: rest =>
    let date := d.toInt!
    if nq.toNat! == 0 then (w, "ok")
    else ({ w with dates := if w.dates.contains date then w.dates else w.dates ++ [date],
                   qs := w.qs ++ parseQ date nq.toNat! rest }, "ok")
  | ["SINGLE", name] =>
    let quotes : Int → String → Option (Quote Float) := fun d s =>
      -- later `add_quote`s for the same (date, symbol) overwrite earlier ones
      (w.qs.reverse.find? (fun e => e.1 == d && e.2.1 == s)).map (·.2.2)
    match single name ({ dates := w.dates, quotes := quotes } : Dataset String Float) with
    | some a => ({ w with app := some a }, "ok")
    | none => (w, "PANIC")
  | op :: rest =>
    match w.app with
    | none => (w, "bad-op")
    | some a =>
      match op, rest with
      | "INIT", [name] => let r := init w.storesLast a name; ({ w with app := some r.2 }, showRes r.1)
      | "NEWBT", [name] => let r := newBacktest a name; ({ w with app := some r.2 }, showRes r.1)
      | "INS", [id, t, sym, sh, pr] =>
        let ks := kindSide t.toNat!
        let price : Option Float := if pr == "-" then none else some (f64 pr)
        let r := insert a id.toNat! ⟨none, ks.1, ks.2, sym, f64 sh, price⟩
        ({ w with app := some r.2 }, if r.1 then "ok" else "none")
      | "DEL", [id, oid] => let r := delete a id.toNat! oid.toNat!; ({ w with app := some r.2 }, if r.1 then "ok" else "none")
      | "TICK", id :: "A" :: n :: idx =>
        let idx := (idx.take n.toNat!).map String.toNat!
        let buf := match a.backtests id.toNat! with | some bt => bt.exch.buffer | none => []
        if !sellFirstPerm n.toNat! idx buf then (w, "REJECT-ADMISSION")
        else
          let adm := idx.filterMap (fun i => buf[i]?)
          let r := tick a id.toNat! adm
          match r.1 with
          | none => ({ w with app := some r.2 }, "none")
          | some (hn, ts, ins) =>
            let fs := " ".intercalate (ts.map showTrade)
            let as := " ".intercalate (ins.map showOrder)
            ({ w with app := some r.2 }, s!"{hn} F {ts.length} {fs} ; A {ins.length} {as}")
      | "FETCH", [id] =>
        match fetch a id.toNat! with
        | none => (w, "none")
        | some (d, q) =>
          let es := w.syms.filterMap (fun s => (q s).map (fun x => s!"{s} {bits x.bid} {bits x.ask} {x.date}"))
          (w, s!"{d} {es.length} {" ".intercalate es}")
      | "NOW", [id] =>
        match now a id.toNat! with
        | none => (w, "none")
        | some (d, hn) => (w, s!"{d} {hn}")
      | _, _ => (w, "bad-op")
  | _ => (w, "bad-op")

partial def loop (h : IO.FS.Stream) (sl : Bool) (w : W) : IO Unit := do
  let line ← h.getLine
  if line.isEmpty then return ()
  if line.trimAscii.toString == "RESET" then
    IO.println "reset"
    loop h sl { storesLast := sl }
  else
    let (w', out) := stepLine w line
    IO.println out
    loop h sl w'

def main (args : List String) : IO Unit := do
  let sl := args.contains "repaired"
  loop (← IO.getStdin) sl { storesLast := sl }

end Drv.Server
