import AlatorVerif.Model.Broker
namespace Drv.Broker
open PU Proto PBk

abbrev B := Brk String Float
abbrev S := Srv String Float
def f64 (s : String) : Float := Float.ofBits (s.toNat!.toUInt64)
def bits (x : Float) : String :=
  -- identify -0 with +0
  if x == 0.0 then "0" else toString x.toBits.toNat

structure W where
  v : Variant
  syms : List String := []
  dates : List Int := []
  qs : List (Int × String × Quote Float) := []
  costs : List (Cost Float) := []
  b : Option B := none
  s : Option S := none

def kindSide (t : Nat) : Kind × Side :=
  match t with
  | 0 => (.market, .sell) | 1 => (.market, .buy) | 2 => (.limit, .sell)
  | 3 => (.limit, .buy) | 4 => (.stop, .sell) | _ => (.stop, .buy)

def takeN (n : Nat) (l : List String) : List String × List String := (l.take n, l.drop n)

def parseCosts : Nat → List String → List (Cost Float)
  | 0, _ => []
  | n + 1, k :: x :: rest =>
    let c : Cost Float := if k == "P" then .perShare (f64 x) else if k == "C" then .pct (f64 x) else .flat (f64 x)
    c :: parseCosts n rest
  | _, _ => []

def parseQ (date : Int) : Nat → List String → List (Int × String × Quote Float)
  | 0, _ => []
  | n + 1, sym :: b :: a :: rest => (date, sym, ⟨f64 b, f64 a, date⟩) :: parseQ date n rest
  | _, _ => []

def parseW : Nat → List String → List (String × Float)
  | 0, _ => []
  | n + 1, sym :: w :: rest => (sym, f64 w) :: parseW n rest
  | _, _ => []

def showMap (syms : List String) (m : String → Option Float) : String :=
  let es := syms.filterMap (fun s => (m s).map (fun v => s!"{s} {bits v}"))
  s!"{es.length} {" ".intercalate es}"

def sellFirstPerm (n : Nat) (idx : List Nat) (buf : List (Order String Float)) : Bool :=
  let sides := idx.map (fun i => match buf[i]? with | some o => isSell o | none => false)
  idx.length == n && (List.range n).all (fun i => idx.count i == 1) && (sides.dropWhile id).all (fun b => !b)

def showEv : CashEv Float → String
  | .wOk c => s!"WOK {bits c}" | .wFail c => s!"WFAIL {bits c}" | .dOk c => s!"DOK {bits c}"
  | .opFail c => s!"OPFAIL {bits c}" | .panic => "PANIC"

def stepLine (w : W) (line : String) : W × String :=
  match (line.trimAscii.toString.splitOn " ").filter (fun t => t != "") with
  | "COSTS" :: n :: rest => ({ w with costs := parseCosts n.toNat! rest }, "ok")
  | "DATA" :: _ :: rest => ({ w with syms := rest, dates := [], qs := [] }, "ok")
  | "Q" :: d :: nq :: rest =>
    let date := d.toInt!
    -- a date exists in Penelope only once `add_quote` was called for it
    if nq.toNat! == 0 then (w, "ok")
    else ({ w with dates := w.dates ++ [date], qs := w.qs ++ parseQ date nq.toNat! rest }, "ok")
  | ["BUILD"] =>
    let quotes : Int → String → Option (Quote Float) := fun d s =>
      (w.qs.find? (fun e => e.1 == d && e.2.1 == s)).map (·.2.2)
    let d0 := w.dates.headD 0
    let srv : S := { dates := w.dates, quotes := quotes, pos := 0, date := d0,
                     exch := { book := { inner := [], last := 0 }, log := [], buffer := [] } }
    let b : B := { cash := 0, hold := fun _ => none, pend := fun _ => none, latest := quotes d0,
                   log := [], costs := w.costs, failed := false }
    ({ w with b := some b, s := some srv }, "ok")
  | op :: rest =>
    match w.b, w.s with
    | some b, some srv =>
      match op, rest with
      | "DEP", [x] => let r := deposit b (f64 x); ({ w with b := some r.2 }, showEv r.1)
      | "WD", [x] => let r := withdraw b (f64 x); ({ w with b := some r.2 }, showEv r.1)
      | "SEND", [t, sym, sh, pr] =>
        let ks := kindSide t.toNat!
        let price : Option Float := if pr == "-" then none else some (f64 pr)
        let o : Order String Float := ⟨none, ks.1, ks.2, sym, f64 sh, price⟩
        let r := sendOrder w.v b srv o
        let ev := match r.1 with | .sent => "sent" | .invalid => "invalid" | .panic => "PANIC"
        ({ w with b := some r.2.1, s := some r.2.2 }, ev)
      | "CHECK", "A" :: n :: rest =>
        let (idx, rest) := takeN n.toNat! rest
        let idx := idx.map String.toNat!
        match rest with
        | "W" :: m :: ks =>
          let ks := ks.take m.toNat!
          if !sellFirstPerm n.toNat! idx srv.exch.buffer || n.toNat! != srv.exch.buffer.length then (w, s!"REJECT-ADMISSION {srv.exch.buffer.length}")
          else
            let adm := idx.filterMap (fun i => srv.exch.buffer[i]?)
            let r := check w.v b srv adm ks
            ({ w with b := some r.1, s := some r.2.1 }, if r.2.2 then "PANIC" else "ok")
        | _ => (w, "bad-op")
      | "LIQ", x :: "W" :: m :: ks =>
        let r := withdrawLiq w.v b srv (ks.take m.toNat!) (f64 x)
        ({ w with b := some r.2.1, s := some r.2.2 }, showEv r.1)
      | "DIFF", "W" :: m :: rest =>
        let (ks, rest) := takeN m.toNat! rest
        match rest with
        | ";" :: n :: ws =>
          match diff w.v b ks (parseW n.toNat! ws) with
          | none => (w, "PANIC")
          | some os =>
            let ss := os.map (fun o => (if isSell o then "S " else "B ") ++ o.symbol ++ " " ++ bits o.shares)
            (w, s!"{os.length} {" ".intercalate ss}")
        | _ => (w, "bad-op")
      | "GET", "W" :: m :: ks =>
        let ks := ks.take m.toNat!
        let st := if b.failed then "Failed" else "Ready"
        (w, s!"{bits b.cash} ; H {showMap w.syms b.hold} ; P {showMap w.syms b.pend} ; {st} ; {bits (totalValue b ks)} ; {bits (liqValue b ks)} ; {srv.pos} {srv.date} {b.log.length}")
      | _, _ => (w, "bad-op")
    | _, _ => (w, "bad-op")
  | _ => (w, "bad-op")

partial def loop (h : IO.FS.Stream) (v : Variant) (w : W) : IO Unit := do
  let line ← h.getLine
  if line.isEmpty then return ()
  if line.trimAscii.toString == "RESET" then
    IO.println "reset"
    loop h v { v := v }
  else
    let (w', out) := stepLine w line
    IO.println out
    loop h v w'

def main (args : List String) : IO Unit := do
  let v := if args.contains "repaired" then Variant.repaired else Variant.pinned
  loop (← IO.getStdin) v { v := v }

end Drv.Broker
