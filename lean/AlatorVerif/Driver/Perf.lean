import AlatorVerif.Model.PerfFull
import AlatorVerif.Driver.Util
namespace Drv.Perf
open PP Drv

instance : NatCast Float := ⟨Float.ofNat⟩

def parseSnaps : Nat → List String → List (Snap Float)
  | 0, _ => []
  | n + 1, d :: v :: c :: i :: rest => ⟨d.toInt!, f64 v, f64 c, f64 i⟩ :: parseSnaps n rest
  | _, _ => []

def lst (l : List Float) : String := s!"{l.length} {joinSp (l.map fb)}"

def step (fixed : Bool) (_ : Unit) (ts : List String) : Unit × String :=
  match ts with
  | "CALC" :: n :: rest =>
    match calculate fixed (parseSnaps n.toNat! rest) with
    | none => ((), "PANIC")
    | some o =>
      let ds := joinSp (o.dates.map toString)
      let fd := o.dates.headD 0
      let ld := o.dates.getLastD 0
      ((), s!"R {fb o.ret} {fb o.cagr} {fb o.vol} {fb o.sharpe} ; DD {fb o.mdd} {o.ddStart} {o.ddEnd} ; BW {fb o.best} {fb o.worst} ; VAL {lst o.values} ; RET {lst o.returns} ; DAT {o.dates.length} {ds} ; CF {lst o.cashFlows} ; FL {fd} {ld}")
  | _ => ((), "bad-op")

def main (args : List String) : IO Unit := do
  loopWith (← IO.getStdin) () (step (!args.contains "pinned-F7")) ()

end Drv.Perf
