import AlatorVerif.Model.PerfFull
namespace Drv.Perf
open PP

def f64 (s : String) : Float := Float.ofBits (s.toNat!.toUInt64)
def bits (x : Float) : String := if x == 0.0 then "0" else toString x.toBits.toNat
instance : NatCast Float := ⟨Float.ofNat⟩

def parseSnaps : Nat → List String → List (Snap Float)
  | 0, _ => []
  | n + 1, d :: v :: c :: i :: rest => ⟨d.toInt!, f64 v, f64 c, f64 i⟩ :: parseSnaps n rest
  | _, _ => []

def lst (l : List Float) : String := " ".intercalate (l.map bits)

def stepLine (fixed : Bool) (line : String) : String :=
  match (line.trimAscii.toString.splitOn " ").filter (fun t => t != "") with
  | "CALC" :: n :: rest =>
    match calculate fixed (parseSnaps n.toNat! rest) with
    | none => "PANIC"
    | some o =>
      let ds := " ".intercalate (o.dates.map toString)
      s!"{bits o.ret} {bits o.cagr} {bits o.vol} {bits o.mdd} {bits o.sharpe} {o.ddStart} {o.ddEnd} {bits o.best} {bits o.worst} ; {lst o.values} ; {lst o.returns} ; {ds} ; {lst o.cashFlows}"
  | _ => "bad-op"

partial def loop (h : IO.FS.Stream) (fixed : Bool) : IO Unit := do
  let line ← h.getLine
  if line.isEmpty then return ()
  IO.println (stepLine fixed line)
  loop h fixed

def main (args : List String) : IO Unit := do loop (← IO.getStdin) (args.contains "repaired")

end Drv.Perf
