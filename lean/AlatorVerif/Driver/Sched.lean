import AlatorVerif.Model.Cal
import AlatorVerif.Driver.Util
namespace Drv.Sched
open PC Drv

/-- state: the day number reached and its date (days are requested in non-decreasing order) -/
structure St where
  n : Nat := 0
  x : Date := epoch

def step (s : St) (ts : List String) : St × String :=
  match ts with
  | ["D", m] =>
    let m := m.toNat!
    if m < s.n then (s, "bad-op days-must-be-non-decreasing")
    else
      let x := adv (m - s.n) s.x
      ({ n := m, x := x }, s!"C {x.y} {x.m} {x.d} {x.wd} ; A {shouldTradeFrom x} ; T true ; DEF {defaultSchedule m}")
  | _ => (s, "bad-op")

def main (_ : List String) : IO Unit := do loopWith (← IO.getStdin) ({} : St) step {}

end Drv.Sched
