import AlatorVerif.Model.Cal
namespace Drv.Sched
open PC

/-- the schedule evaluated from the date of the day (streaming form; equal to `shouldTrade` by `dateOf_add`) -/
def shouldTradeFrom (x : Date) : Bool :=
  if x.d < 28 - 7 then false
  else if weekend x then false
  else
    let chk (i : Nat) : Bool := let o := adv i x; if weekend o then false else o.m == x.m
    if chk 1 then false else if chk 2 then false else if chk 3 then false else true

partial def loop (n : Nat) (last : Nat) (x : Date) : IO Unit := do
  if n > last then return ()
  IO.println s!"{n} {x.y} {x.m} {x.d} {x.wd} {shouldTradeFrom x}"
  loop (n + 1) last (next x)

def main (args : List String) : IO Unit := do
  let last := (args.headD "84000").toNat!
  loop 0 last epoch

end Drv.Sched
