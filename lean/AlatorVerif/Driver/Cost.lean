import AlatorVerif.Model.Basic
import AlatorVerif.Driver.Util
namespace Drv.Cost
open Proto Drv

def parseCosts : Nat → List String → List (Cost Float)
  | 0, _ => []
  | n + 1, k :: x :: rest =>
    let c : Cost Float := if k == "P" then .perShare (f64 x) else if k == "C" then .pct (f64 x) else .flat (f64 x)
    c :: parseCosts n rest
  | _, _ => []

def step (_ : Unit) (ts : List String) : Unit × String :=
  match ts with
  | "COST" :: n :: rest =>
    let cs := parseCosts n.toNat! rest
    match rest.dropWhile (· != ";") with
    | _ :: b :: q :: s :: _ =>
      let r := impactTotal cs (f64 b) (f64 q) (s == "1")
      let nn := HasFloor.floor (r.1 / r.2)
      let fee := totalFee cs nn (nn * f64 q)
      ((), s!"NB {fb r.1} ; NP {fb r.2} ; N {fb nn} ; FEE {fb fee} ; SAME true")
    | _ => ((), "bad-op")
  | _ => ((), "bad-op")

def main : IO Unit := do loopWith (← IO.getStdin) () step ()
end Drv.Cost
