import AlatorVerif.Model.PenDs
import AlatorVerif.DriverX.Uist
import AlatorVerif.DriverX.Jura
namespace Drv.Srv
open SV Drv DrvX

/-- what the generic server driver needs to know about an exchange -/
structure Adapter (E Q O D R : Type) where
  ops : ExchOps E Q O (List O) D R
  parseIns : List String → Option O
  parseDel : List String → Option D
  bufOf : E → List O
  isSellO : O → Bool
  showR : R → String
  panicR : R → Bool
  snap : E → String
  mkQuotes : List (String × Float × Float × Int) → Q
  showQuotes : Q → List String → String

structure DsDef where
  name : String
  syms : List String := []
  pen : PPen.Pen String Float := {}                     -- built by `add_quote`, call by call

structure W (E Q : Type) where
  defs : List DsDef := []
  app : Option (App E Q) := none

variable {E Q O D R : Type}

def buildDs (ad : Adapter E Q O D R) (d : DsDef) : Dataset Q :=
  Dataset.ofPen d.pen d.syms (fun es => ad.mkQuotes (es.map (fun e => (e.sym, e.bid, e.ask, e.date))))

def parseEntries (date : Int) : Nat → List String → List (PPen.Entry String Float)
  | 0, _ => []
  | n + 1, sym :: b :: a :: rest => ⟨date, sym, f64 b, f64 a⟩ :: parseEntries date n rest
  | _, _ => []

def tail (ad : Adapter E Q O D R) (a : App E Q) (bt : Nat) (live : List Nat) : String :=
  let c := match a.backtests bt with
    | some b => s!"C {b.pos} {b.date} {b.dataset}"
    | none => "C -"
  let e := match a.backtests bt with
    | some b => ad.snap b.exch
    | none => "B -"
  let ids := (live.filter (fun i => (a.backtests i).isSome))
  s!"{c} ; {e} ; Z {a.last} {joinSp (ids.map toString)}"

def showRes : Res Nat → String
  | .ok n => s!"R ok {n}" | .none => "R none" | .panic => "PANIC"

/-- ids that may be live: 0 … last+1 is enough (ids are handed out as last+1) -/
def candidates (a : App E Q) : List Nat := List.range (a.last + 3)

/-- the backtest map of the model is a function that every request wraps once more; after each line the driver replaces
    it by a table over the ids that can be live (the same function on all of them), built before the closure that reads
    it is made -/
def lookupBt {β : Type} (tbl : Array (Nat × Option β)) (i : Nat) : Option β :=
  match tbl.find? (fun e => e.1 == i) with
  | some e => e.2
  | none => none

def compactApp (a : App E Q) : App E Q :=
  let tbl := ((candidates a).map (fun i => (i, a.backtests i))).toArray
  { a with backtests := lookupBt tbl }

def step (ad : Adapter E Q O D R) (v : Variant) (w : W E Q) (ts : List String) : W E Q × String :=
  match ts with
  | "DATA" :: name :: _ :: syms => ({ w with defs := w.defs.filter (fun d => d.name != name) ++ [{ name := name, syms := syms }] }, "ok")
  | "Q" :: name :: d :: nq :: rest =>
    let date := d.toInt!
    let n := nq.toNat!
    if n == 0 then (w, "ok")
    else
      ({ w with defs := w.defs.map (fun df =>
          if df.name == name then
            { df with pen := df.pen.addAll (parseEntries date n rest) }
          else df) }, "ok")
  | ["SINGLE", name] =>
    match w.defs.find? (fun d => d.name == name) with
    | none => (w, "bad-op")
    | some df =>
      match single ad.ops name (buildDs ad df) with
      | some a => ({ w with app := some a }, "ok")
      | none => (w, "PANIC")
  | ["CREATE"] =>
    let dsl := w.defs.map (fun d => (d.name, buildDs ad d))
    ({ w with app := some { backtests := fun _ => none, last := 0,
                            datasets := fun n => (dsl.find? (fun e => e.1 == n)).map (·.2) } }, "ok")
  | op :: rest =>
    match w.app with
    | none => (w, "bad-op")
    | some a =>
      match op, rest with
      | "INIT", [name] =>
        let r := init ad.ops v a name
        let bt := match r.1 with | .ok i => i | _ => 0
        ({ w with app := some (compactApp r.2) }, s!"{showRes r.1} ; {tail ad r.2 bt (candidates r.2)}")
      | "NEWBT", [name] =>
        let r := newBacktest ad.ops a name
        let bt := match r.1 with | .ok i => i | _ => 0
        ({ w with app := some (compactApp r.2) }, s!"{showRes r.1} ; {tail ad r.2 bt (candidates r.2)}")
      | "INS", id :: otoks =>
        match ad.parseIns otoks with
        | none => (w, "bad-op")
        | some o =>
          let r := insert ad.ops a id.toNat! o
          let rs := if r.1 then "ok" else "none"
          ({ w with app := some (compactApp r.2) }, s!"R {rs} ; {tail ad r.2 id.toNat! (candidates r.2)}")
      | "DEL", id :: dtoks =>
        match ad.parseDel dtoks with
        | none => (w, "bad-op")
        | some d =>
          let r := delete ad.ops a id.toNat! d
          let rs := if r.1 then "ok" else "none"
          ({ w with app := some (compactApp r.2) }, s!"R {rs} ; {tail ad r.2 id.toNat! (candidates r.2)}")
      | "TICK", id :: "A" :: _ :: ["BAD"] => (w, s!"REJECT-ADMISSION not-a-permutation-of-the-batch {id}")
      | "TICK", id :: "A" :: n :: idx =>
        let idx := (idx.take n.toNat!).map String.toNat!
        let buf := match a.backtests id.toNat! with | some bt => ad.bufOf bt.exch | none => []
        let sellAt := fun i => match buf[i]? with | some o => ad.isSellO o | none => false
        if (a.backtests id.toNat!).isSome && (n.toNat! != buf.length || !sellFirstPerm n.toNat! idx sellAt) then
          (w, "REJECT-ADMISSION not-sell-first")
        else
          let adm := idx.filterMap (fun i => buf[i]?)
          let r := tick ad.ops v a id.toNat! adm
          match r.1 with
          | none => ({ w with app := some (compactApp r.2) }, s!"R none ; {tail ad r.2 id.toNat! (candidates r.2)}")
          | some (hn, res) =>
            if ad.panicR res then ({ w with app := some (compactApp r.2) }, "PANIC")
            else ({ w with app := some (compactApp r.2) }, s!"R ok ; H {hn} ; {ad.showR res} ; {tail ad r.2 id.toNat! (candidates r.2)}")
      | "FETCH", [id] =>
        let tl := tail ad a id.toNat! (candidates a)
        match fetch a id.toNat! with
        | none => (w, s!"R none ; {tl}")
        | some (_, q) =>
          let syms := match a.backtests id.toNat! with
            | some bt => ((w.defs.find? (fun d => d.name == bt.dataset)).map (·.syms)).getD []
            | none => []
          (w, s!"R ok ; Q {ad.showQuotes q syms} ; {tl}")
      | "NOW", [id] =>
        let tl := tail ad a id.toNat! (candidates a)
        match now a id.toNat! with
        | none => (w, s!"R none ; {tl}")
        | some (d, hn) => (w, s!"R ok ; W {d} {hn} ; {tl}")
      | "INFO", [id] =>
        let tl := tail ad a id.toNat! (candidates a)
        match info a id.toNat! with
        | none => (w, s!"R none ; {tl}")
        | some d => (w, s!"R ok ; I v1 {d} ; {tl}")
      | _, _ => (w, "bad-op")
  | _ => (w, "bad-op")

/-! the two adapters -/

def uistAd : Adapter (PU.Uist String Float) (UQ String Float) (PU.Order String Float) Nat (UR String Float) where
  ops := uistOps
  parseIns := fun t => match t with
    | [ty, sym, sh, pr] => some (DrvX.Uist.parseOrder ty sym sh pr)
    | [ty, sym, sh, pr, id] => some { DrvX.Uist.parseOrder ty sym sh pr with id := some id.toNat! }
    | _ => none
  parseDel := fun t => match t with | [id] => some id.toNat! | _ => none
  bufOf := fun e => e.buffer
  isSellO := PU.isSell
  showR := fun r => s!"F {r.1.length} {joinSp (r.1.map DrvX.Uist.showTrade)} ; A {r.2.length} {joinSp (r.2.map DrvX.Uist.showOrder)}"
  panicR := fun _ => false
  snap := DrvX.Uist.snapshot
  mkQuotes := fun l => fun sym => (l.find? (fun e => e.1 == sym)).map (fun e => ⟨e.2.1, e.2.2.1, e.2.2.2⟩)
  showQuotes := fun q syms =>
    let es := (syms.filterMap (fun s => (q s).map (fun x => (s, x))))
    let es := es.toArray.qsort (fun a b => a.1 < b.1) |>.toList
    s!"{es.length} {joinSp (es.map (fun e => s!"{e.1} {fb e.2.bid} {fb e.2.ask} {e.2.date}"))}"

def juraAd : Adapter (PJ.Jura Float) (JQ Float) (PJ.Order Float) (Nat × Nat) (JR Float) where
  ops := juraOps
  parseIns := fun t => match t with
    | [asset, isBuy, lpx, sz, kind] => some ⟨asset.toNat!, isBuy == "1", f64 lpx, f64 sz, false, none, DrvX.Jura.parseTyp kind⟩
    | [asset, isBuy, lpx, sz, kind, x] => some ⟨asset.toNat!, isBuy == "1", f64 lpx, f64 sz, (DrvX.Jura.extras x).1, (DrvX.Jura.extras x).2, DrvX.Jura.parseTyp kind⟩
    | _ => none
  parseDel := fun t => match t with | [asset, id] => some (asset.toNat!, id.toNat!) | _ => none
  bufOf := fun e => e.buffer
  isSellO := fun o => !o.isBuy
  showR := fun r => s!"F {r.1.length} {joinSp (r.1.map DrvX.Jura.showFill)} ; K {r.2.2.1.length} {joinSp (r.2.2.1.map toString)} ; N {r.2.1.length}"
  panicR := fun r => r.2.2.2
  snap := DrvX.Jura.snapshot
  mkQuotes := fun l => fun a => (l.find? (fun e => e.1 == toString a)).map (fun e => ⟨e.2.1, e.2.2.1, e.2.2.2⟩)
  showQuotes := fun q syms =>
    let es := (syms.filterMap (fun s => (q s.toNat!).map (fun x => (s, x))))
    let es := es.toArray.qsort (fun a b => a.1 < b.1) |>.toList
    s!"{es.length} {joinSp (es.map (fun e => s!"{e.1} {fb e.2.bid} {fb e.2.ask} {e.2.date}"))}"

def variantOf (args : List String) : Variant :=
  ⟨!args.contains "pinned-F2", !args.contains "pinned-F3"⟩

def mainUist (args : List String) : IO Unit := do
  loopWith (← IO.getStdin) ({} : W _ _) (step uistAd (variantOf args)) {}

def mainJura (args : List String) : IO Unit := do
  loopWith (← IO.getStdin) ({} : W _ _) (step juraAd (variantOf args)) {}

end Drv.Srv
