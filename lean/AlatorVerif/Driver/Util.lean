/-! shared helpers of the line-protocol drivers (core only) -/
namespace Drv

/-- float token `f<bits>` -/
def f64 (s : String) : Float := Float.ofBits ((s.drop 1).toString.toNat!.toUInt64)
def fb (x : Float) : String :=
  let x := if x == 0.0 then 0.0 else x
  "f" ++ toString x.toBits.toNat

def toks (line : String) : List String :=
  (line.trimAscii.toString.splitOn " ").filter (fun t => !t.isEmpty)

def joinSp (xs : List String) : String := " ".intercalate xs

/-- generic read-eval-print loop over stdin: `RESET` restores the initial state -/
partial def loopWith {σ : Type} (h : IO.FS.Stream) (init : σ) (step : σ → List String → σ × String) (s : σ) : IO Unit := do
  let line ← h.getLine
  if line.isEmpty then return ()
  let ts := toks line
  match ts with
  | [] => loopWith h init step s
  | ["RESET"] =>
    IO.println "reset"
    loopWith h init step init
  | _ =>
    let (s', out) := step s ts
    IO.println out
    loopWith h init step s'

/-- is `idx` a permutation of `0..n-1` under which no `false` (buy) precedes a `true` (sell)? -/
def sellFirstPerm (n : Nat) (idx : List Nat) (isSellAt : Nat → Bool) : Bool :=
  idx.length == n && (List.range n).all (fun i => idx.count i == 1) &&
  ((idx.map isSellAt).dropWhile id).all (fun b => !b)

end Drv
