import AlatorVerif.Model.CostBasis
namespace Drv.Cb
open PU PBk PCB
def f64 (s : String) : Float := Float.ofBits (s.toNat!.toUInt64)
def bits (x : Float) : String := if x == 0.0 then "0" else if x != x then "NaN" else toString x.toBits.toNat
def parseT : Nat → List String → List (Trade String Float)
  | 0, _ => []
  | n + 1, sym :: v :: q :: sd :: rest => ⟨sym, f64 v, f64 q, 0, if sd == "B" then .buy else .sell⟩ :: parseT n rest
  | _, _ => []
partial def loop (h : IO.FS.Stream) : IO Unit := do
  let line ← h.getLine
  if line.isEmpty then return ()
  match (line.trimAscii.toString.splitOn " ").filter (fun t => t != "") with
  | n :: rest =>
    let log := parseT n.toNat! rest
    let out := ["AAA", "BBB"].map (fun s => match costBasis log s with | none => "none" | some x => bits x)
    IO.println (" ".intercalate out)
  | _ => IO.println "bad"
  loop h
def main : IO Unit := do loop (← IO.getStdin)

end Drv.Cb
