import AlatorVerif.Lemmas.UistProps
import AlatorVerif.Lemmas.JuraDead
import AlatorVerif.Lemmas.SmallSort
/-!
# C17 — sells before buys: batch ordering and time priority (both exchanges)

`sort_order_buffer` calls `slice::sort_by` with a comparator that looks only at its first argument; the
standard library leaves the result unspecified for such a comparator. The model therefore takes the
admission order `adm` as an argument constrained by `SellFirstPerm batch adm`, which the driver checks on
every batch the implementation admits; everything below is proved for *every* such `adm`.
-/
namespace C17

/-- `adm` is a rearrangement of `batch` in which no buy-side order precedes a sell-side order -/
def SellFirstPerm {β : Type} (isSell : β → Bool) (batch adm : List β) : Prop :=
  adm.Perm batch ∧ adm.Pairwise (fun x y => ¬ (isSell x = false ∧ isSell y = true))

/-- non-vacuity: the stable partition (what a correct stable sort would produce) is one -/
theorem stable_partition_ok {β : Type} (isSell : β → Bool) (batch : List β) :
    SellFirstPerm isSell batch (batch.filter isSell ++ batch.filter (fun x => !isSell x)) := by
  refine ⟨List.filter_append_perm isSell batch, ?_⟩
  rw [List.pairwise_append]
  refine ⟨?_, ?_, ?_⟩
  · exact List.Pairwise.imp_of_mem (R := fun _ _ => True)
      (fun {a b} ha _ _ => by simp [(List.mem_filter.mp ha).2]) (List.pairwise_of_forall (fun _ _ => trivial))
  · exact List.Pairwise.imp_of_mem (R := fun _ _ => True)
      (fun {a b} _ hb _ => by
        have := (List.mem_filter.mp hb).2; simp at this; simp [this]) (List.pairwise_of_forall (fun _ _ => trivial))
  · intro a ha b hb
    simp [(List.mem_filter.mp ha).2]

/-- **the hypothesis discharged for the library's small-slice algorithm**: the insertion sort that
    `slice::sort_by` runs on slices of at most 20 elements (`Lemmas/SmallSort.lean`, modelled for an arbitrary
    `is_less`), under the one-sided comparator of `sort_order_buffer`, returns a sell-first permutation of the
    batch — namely the sells, last arrived first, followed by the buys in order of arrival. Larger slices go
    through driftsort, for which the hypothesis stays an assumption checked on every batch -/
theorem small_slice_sort_is_sell_first {β : Type} (isSell : β → Bool) (batch : List β) :
    SellFirstPerm isSell batch (SmallSort.insertionSort (SmallSort.oneSided isSell) batch)
    ∧ SmallSort.insertionSort (SmallSort.oneSided isSell) batch
        = (batch.filter isSell).reverse ++ batch.filter (fun x => !isSell x) := by
  refine ⟨?_, SmallSort.insertionSort_oneSided isSell batch⟩
  rw [SmallSort.insertionSort_oneSided]
  refine ⟨((List.reverse_perm _).append_right _).trans (List.filter_append_perm isSell batch), ?_⟩
  rw [List.pairwise_append]
  refine ⟨?_, ?_, ?_⟩
  · exact List.Pairwise.imp_of_mem (R := fun _ _ => True)
      (fun {a b} ha _ _ => by simp [(List.mem_filter.mp (List.mem_reverse.mp ha)).2])
      (List.pairwise_of_forall (fun _ _ => trivial))
  · exact List.Pairwise.imp_of_mem (R := fun _ _ => True)
      (fun {a b} _ hb _ => by
        have := (List.mem_filter.mp hb).2; simp at this; simp [this]) (List.pairwise_of_forall (fun _ _ => trivial))
  · intro a ha b hb
    simp [(List.mem_filter.mp (List.mem_reverse.mp ha)).2]

/-- in a sell-first arrangement every sell stands before every buy -/
theorem sell_index_lt_buy_index {β : Type} (isSell : β → Bool) (adm : List β)
    (h : adm.Pairwise (fun x y => ¬ (isSell x = false ∧ isSell y = true)))
    (i j : Nat) (hi : i < adm.length) (hj : j < adm.length)
    (hs : isSell adm[i] = true) (hb : isSell adm[j] = false) : i < j := by
  rcases Nat.lt_trichotomy i j with hlt | heq | hgt
  · exact hlt
  · subst heq; rw [hs] at hb; cases hb
  · exact absurd ⟨hb, hs⟩ ((List.pairwise_iff_getElem.mp h) j i hj hi hgt)

section Uist
open PU
variable {σ α : Type} [DecidableEq σ] [LinearOrder α] [Mul α]

/-- Uist: the admitted list returned by a tick is `adm` itself, stamped with the consecutive ids
    `last, last+1, …` in admission order, and it is appended to the book in that order -/
theorem uist_admitted (ops : List (Op σ α)) (quotes : σ → Option (Quote α)) (adm : List (Order σ α)) :
    let s := (run (uinit : Uist σ α) {} ops).1
    (s.tick quotes adm).2.2 = stamp s.book.last adm ∧
    ∀ i (h : i < adm.length), ((stamp s.book.last adm)[i]'(by rw [stamp_length]; exact h))
        = { adm[i] with id := some (s.book.last + i) } := by
  intro s
  exact ⟨(tick_full s quotes adm (PU.reachable_inv ops)).2.1, fun i h => stamp_getElem _ _ i h⟩

/-- Uist: the admitted set is exactly the submitted set (ids aside), and every sell-side order of the
    batch receives a smaller id than every buy-side order -/
theorem uist_sells_before_buys (ops : List (Op σ α)) (quotes : σ → Option (Quote α))
    (batch adm : List (Order σ α)) (h : SellFirstPerm isSell batch adm) :
    let s := (run (uinit : Uist σ α) {} ops).1
    let admitted := (s.tick quotes adm).2.2
    (admitted.map (fun o => { o with id := none })).Perm (batch.map (fun o => { o with id := none })) ∧
    ∀ i j (hi : i < adm.length) (hj : j < adm.length), isSell adm[i] = true → isSell adm[j] = false →
      s.book.last + i < s.book.last + j := by
  intro s admitted
  refine ⟨?_, fun i j hi hj hs hb => by
    have := sell_index_lt_buy_index isSell adm h.2 i j hi hj hs hb; omega⟩
  have e : admitted = stamp s.book.last adm := (tick_full s quotes adm (PU.reachable_inv ops)).2.1
  rw [e]
  have hmap : ∀ (n : Nat) (l : List (Order σ α)),
      (stamp n l).map (fun o => { o with id := none }) = l.map (fun o => { o with id := none }) := by
    intro n l
    induction l generalizing n with
    | nil => rfl
    | cons o os ih => simp [stamp, ih]
  rw [hmap]; exact h.1.map _

/-- Uist: ids in the book grow strictly with admission order in every reachable state, and the next
    id is above all of them, so ids grow strictly over the life of the exchange -/
theorem uist_ids_strictly_increasing (ops : List (Op σ α)) :
    BookInv (run (uinit : Uist σ α) {} ops).1.book := PU.reachable_inv ops

/-- Uist: within a tick, fills are reported in strictly increasing id order (book = admission order),
    hence the sells of any batch before its buys -/
theorem uist_fills_in_id_order (ops : List (Op σ α)) (quotes : σ → Option (Quote α)) :
    let s := (run (uinit : Uist σ α) {} ops).1
    (ids (s.book.inner.filter (fillsOn quotes))).Pairwise (· < ·) ∧
    ∀ adm, (s.tick quotes adm).2.1 = (s.book.inner.filter (fillsOn quotes)).filterMap (tradeOn quotes) := by
  intro s
  have hinv := PU.reachable_inv (σ := σ) (α := α) ops
  refine ⟨fills_in_id_order s quotes hinv, fun adm => ?_⟩
  rw [(tick_spec s quotes adm hinv).1]
  -- filterMap over the book = filterMap over the filling orders (the others contribute nothing)
  generalize s.book.inner = l
  induction l with
  | nil => rfl
  | cons o os ih =>
    by_cases hf : fillsOn quotes o = true
    · rcases ht : tradeOn quotes o with _ | t
      · simp [fillsOn, ht] at hf
      · simp [List.filterMap_cons, List.filter_cons, hf, ht, ih]
    · have ht : tradeOn quotes o = none := by
        rcases ht : tradeOn quotes o with _ | t
        · rfl
        · simp [fillsOn, ht] at hf
      simp [List.filterMap_cons, List.filter_cons, hf, ht, ih]
end Uist

section Jura
open PJ
variable {α : Type} [LinearOrder α] [Add α] [Sub α] [Mul α] [OfNat α 1] [OfScientific α]

/-- Jura: after the children of fired triggers, the batch is appended in admission order with the
    consecutive ids `last + #children, …`; so the admitted set is the submitted set and every sell of the
    batch gets a smaller id than every buy -/
theorem jura_sells_before_buys (ops : List (JOp α)) (quotes : Nat → Option (Quote α))
    (batch adm : List (Order α)) (h : SellFirstPerm (fun o : Order α => !o.isBuy) batch adm) :
    let s := jrun ({} : Jura α) ops
    let kids := s.book.inner.filterMap (childOf' quotes)
    (s.tick quotes adm).1.book.inner = survivors quotes s.book.inner ++ jstamp s.book.last kids
        ++ jstamp (s.book.last + kids.length) adm
    ∧ adm.Perm batch
    ∧ ∀ i j (hi : i < adm.length) (hj : j < adm.length), adm[i].isBuy = false → adm[j].isBuy = true → i < j := by
  intro s kids
  refine ⟨(tick_full s quotes adm (PJ.reachable_inv ops)).1, h.1, fun i j hi hj hs hb => ?_⟩
  exact sell_index_lt_buy_index (fun o : Order α => !o.isBuy) adm h.2 i j hi hj (by simp [hs]) (by simp [hb])

theorem jstamp_getElem (n : Nat) (l : List (Order α)) (i : Nat) (h : i < l.length) :
    ∃ h' : i < (jstamp n l).length, (jstamp n l)[i] = { id := n + i, order := l[i], attempted := false } := by
  induction l generalizing n i with
  | nil => simp at h
  | cons o os ih =>
    cases i with
    | zero => exact ⟨by simp [jstamp], by simp [jstamp]⟩
    | succ i =>
      obtain ⟨h', e⟩ := ih (n + 1) i (by simpa using h)
      refine ⟨by simp only [jstamp, List.length_cons]; omega, ?_⟩
      simp only [jstamp, List.getElem_cons_succ, e]
      have : n + 1 + i = n + (i + 1) := by omega
      rw [this]

/-- Jura: ids in the book are strictly increasing in every reachable state -/
theorem jura_ids_strictly_increasing (ops : List (JOp α)) : JInv (jrun ({} : Jura α) ops).book :=
  PJ.reachable_inv ops

/-- Jura: within a tick, fills are reported in strictly increasing order of order id -/
theorem jura_fills_in_id_order (ops : List (JOp α)) (quotes : Nat → Option (Quote α)) (adm : List (Order α)) :
    (((jrun ({} : Jura α) ops).tick quotes adm).2.1.map (·.oid)).Pairwise (· < ·) := by
  have hinv := PJ.reachable_inv (α := α) ops
  rw [(tick_full _ quotes adm hinv).2.1]
  have hp := hinv.1
  generalize (jrun ({} : Jura α) ops).book.inner = l at hp ⊢
  induction l with
  | nil => simp
  | cons o os ih =>
    rw [List.pairwise_cons] at hp
    rcases hf : fillOf quotes o with _ | f
    · simp only [List.filterMap_cons, hf]; exact ih hp.2
    · simp only [List.filterMap_cons, hf, List.map_cons, List.pairwise_cons]
      refine ⟨?_, ih hp.2⟩
      intro x hx
      obtain ⟨f', hf', rfl⟩ := List.mem_map.mp hx
      obtain ⟨o', ho', _, _, _, hoid'⟩ := fill_from_resting quotes os f' hf'
      have hoid : f.oid = o.id := by
        unfold fillOf at hf
        rcases hq : quotes o.order.asset with _ | q
        · rw [hq] at hf; cases hf
        · rw [hq] at hf; exact (visit_fill_oid o q f hf).1
      rw [hoid, hoid']; exact hp.1 o' ho'
end Jura

/-! non-vacuity of the hypothesis on a concrete batch -/
example : SellFirstPerm (fun b : Bool => b) [false, true, false, true] [true, true, false, false] := by
  refine ⟨by decide, by decide⟩

end C17
