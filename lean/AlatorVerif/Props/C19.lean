import AlatorVerif.Model.Cal
/-!
# C19 — last-business-day schedule is true exactly on the last weekday of each month

Model: `PC.shouldTrade` (`AlatorVerif/Model/Cal.lean`), the literal reading of
`LastBusinessDayTradingSchedule::should_trade` (`day < 28 - 7`, weekend test, look-ahead of one to three
days), over a proleptic Gregorian calendar obtained by iterating `next` from 1970-01-01 (a Thursday).
The `time` crate's calendar is compared with this one on every day 1970–2200 by the correspondence run.
The theorems hold for *every* day number, not only up to 2200.
-/
namespace C19
open PC

/-- **iff**: for every UTC timestamp ≥ 0 the schedule answers true iff the date is a Monday–Friday and
    every later day of the same calendar month is a Saturday or Sunday -/
theorem true_exactly_on_last_weekday (ts : Nat) :
    shouldTrade ts = true ↔
      (weekend (dateOf (ts / 86400)) = false ∧
       ∀ k, 0 < k → sameMonth (dateOf (ts / 86400)) (dateOf (ts / 86400 + k)) →
         weekend (dateOf (ts / 86400 + k)) = true) :=
  shouldTrade_iff ts

/-- the answer depends only on the calendar date, not on the time of day -/
theorem independent_of_time_of_day (n s s' : Nat) (hs : s < 86400) (hs' : s' < 86400) :
    shouldTrade (86400 * n + s) = shouldTrade (86400 * n + s') :=
  shouldTrade_time_of_day n s s' hs hs'

/-- the default schedule is always true -/
theorem default_always_true (ts : Nat) : defaultSchedule ts = true := rfl

/-- the calendar the model iterates is well formed on every day: month 1–12, day within the month's
    length, weekday 0–6 -/
theorem calendar_valid (n : Nat) : Valid (dateOf n) := dateOf_valid n

/-- the driver's streaming evaluation is this model -/
theorem streaming_form_is_the_model (n s : Nat) (hs : s < 86400) :
    shouldTradeFrom (dateOf n) = shouldTrade (86400 * n + s) := shouldTradeFrom_eq n s hs

/-! non-vacuity on the first month of the range: Friday 30 January 1970 (day 29) is the last weekday of
    its month, Thursday 29 January (day 28) and Saturday 31 January (day 30) are not -/
example : shouldTrade (86400 * 29 + 61200) = true ∧ shouldTrade (86400 * 28) = false
    ∧ shouldTrade (86400 * 30 + 1) = false := by decide +kernel

end C19
