import AlatorVerif.Lemmas.SizingMore
/-!
# C12 — rebalancing orders move each holding toward its target, within budget

Model: `PBk.diff` / `diffLoop` / `requiredShares` (`AlatorVerif/Model/Broker.lean`), the literal reading of
`diff_brkr_against_target_weights`; `ws` is the weight map in the iteration order the code happens to use.
-/
namespace C12
open PU Proto PBk
variable {σ α : Type} [DecidableEq σ] [Field α] [LinearOrder α] [IsStrictOrderedRing α] [FloorRing α]

/-- the sequential loop is, entry by entry, the per-entry rule: the result is the sells of all entries
    followed by the buys of all entries (all sells precede all buys), each in map order; an unquoted
    symbol yields nothing and does not affect the others -/
theorem result_is_sells_then_buys (b : Brk σ α) (ks : List σ) (ws : List (σ × α)) (os : List (Order σ α))
    (h : diff .repaired b ks ws = some os) :
    os = (ws.filterMap (entryR b (liqValue b ks))).filter isSell
          ++ (ws.filterMap (entryR b (liqValue b ks))).filter (fun o => !isSell o) := by
  simp only [diff] at h
  by_cases hz : isZero (liqValue b ks) = true
  · simp [hz] at h
  · simp only [hz, Bool.false_eq_true, if_false, Option.some.injEq, diffLoop_eq, List.nil_append] at h
    exact h.symm

/-- **per target symbol**: gap = weight × liquidation value − position value; `n = ⌊net budget / net price⌋`
    from the cost model on |gap|: a market buy of `n` iff gap > 0 and n ≥ 1, a market sell of `n` iff gap < 0
    and n ≥ 1, and no order otherwise (zero gap, no quote, n < 1) — never zero-sized, never the opposite side -/
theorem per_symbol_rule (b : Brk σ α) (total : α) (sym : σ) (w : α) :
    let gap := total * w - (posValue b sym).getD 0
    (gap = 0 → entryR b total (sym, w) = none) ∧
    (b.latest sym = none → entryR b total (sym, w) = none) ∧
    (∀ q, b.latest sym = some q → 0 < gap →
      let n : ℤ := ⌊(impactTotal b.costs (absv gap) q.ask true).1 / (impactTotal b.costs (absv gap) q.ask true).2⌋
      (n < 1 → entryR b total (sym, w) = none) ∧ (1 ≤ n → entryR b total (sym, w) = some (mkBuy sym (n : α)))) ∧
    (∀ q, b.latest sym = some q → gap < 0 →
      let n : ℤ := ⌊(impactTotal b.costs (absv gap) q.bid false).1 / (impactTotal b.costs (absv gap) q.bid false).2⌋
      (n < 1 → entryR b total (sym, w) = none) ∧ (1 ≤ n → entryR b total (sym, w) = some (mkSell sym (n : α)))) :=
  entryR_spec b total sym w

/-- at most one order per target symbol, and only for target symbols -/
theorem at_most_one_order_per_symbol (b : Brk σ α) (total : α) (ws : List (σ × α)) :
    ((ws.filterMap (entryR b total)).map (·.symbol)).Sublist (ws.map (·.1)) :=
  entries_symbols_sublist b total ws

/-- **independent of the iteration order of the weights map**: for two orders of the same map the
    results are permutations of each other, within the sells and within the buys, and each result is
    "sells then buys" -/
theorem independent_of_map_order (b : Brk σ α) (ks : List σ) (ws ws' : List (σ × α)) (h : ws.Perm ws')
    (os os' : List (Order σ α)) (h1 : diff .repaired b ks ws = some os) (h2 : diff .repaired b ks ws' = some os') :
    (os.filter isSell).Perm (os'.filter isSell) ∧
    (os.filter (fun o => !isSell o)).Perm (os'.filter (fun o => !isSell o)) ∧ os.Perm os' ∧
    ∃ s bu, os = s ++ bu ∧ (∀ o ∈ s, isSell o = true) ∧ (∀ o ∈ bu, isSell o = false) :=
  diff_perm b ks ws ws' h os os' h1 h2

end C12
