import AlatorVerif.Lemmas.PerfMore
/-!
# C15 — maximum drawdown is the worst peak-to-trough loss and its dates bracket it

Model: `PDD.maxdd` (`AlatorVerif/Model/MaxDD.lean`), the peak/trough scan of `CalculationAlgos::maxdd` after
repair F7 (the positions are remembered when the drawdown improves), and `PP.index`, the compounded index
`100000 × Π(1 + r)` that `get_maxdd` builds. Carrier: any linearly ordered field.
-/
namespace C15
open PDD
variable {α : Type} [Field α] [LinearOrder α] [IsStrictOrderedRing α]

/-- **minimum over all i ≤ j**: on a non-empty positive series the reported drawdown is a lower bound of
    `v_j / v_i − 1` over all `i ≤ j`, the reported positions satisfy `start ≤ end < length`, and their values
    realise exactly that loss — so it *is* the minimum -/
theorem maxdd_is_min_over_pairs (v : α) (vs : List α) (hpos : ∀ x ∈ v :: vs, 0 < x) :
    let r := maxdd (v :: vs)
    (∀ (i j : Nat) (a b : α), i ≤ j → (v :: vs)[i]? = some a → (v :: vs)[j]? = some b → r.1 ≤ b / a - 1)
    ∧ r.2.1 ≤ r.2.2 ∧ r.2.2 < (v :: vs).length
    ∧ ∃ a b, (v :: vs)[r.2.1]? = some a ∧ (v :: vs)[r.2.2]? = some b ∧ b / a - 1 = r.1 :=
  maxdd_spec v vs hpos

/-- 0 when the index never falls, never positive, and above −1 (returns above −100 % keep the index positive) -/
theorem maxdd_range (v : α) (vs : List α) (hpos : ∀ x ∈ v :: vs, 0 < x) :
    let r := maxdd (v :: vs)
    r.1 ≤ 0 ∧ -1 < r.1 ∧
    ((∀ (i j : Nat) (a b : α), i ≤ j → (v :: vs)[i]? = some a → (v :: vs)[j]? = some b → a ≤ b) → r.1 = 0) :=
  maxdd_bounds v vs hpos

/-- the index built from the returns has one entry per snapshot and is positive when every return is above
    −100 %, so the positions found on it are snapshot positions (they index `dates`) -/
theorem index_positive_and_aligned (rets : List ℝ) (h : ∀ r ∈ rets, 0 < 1 + r) :
    (PP.index rets).length = rets.length + 1 ∧ ∀ x ∈ PP.index rets, 0 < x := by
  have hgo : ∀ (rs : List ℝ) (last : ℝ), 0 < last → (∀ r ∈ rs, 0 < 1 + r) →
      (PP.index.go last rs).length = rs.length ∧ ∀ x ∈ PP.index.go last rs, 0 < x := by
    intro rs
    induction rs with
    | nil => intro last _ _; simp [PP.index.go]
    | cons r rs ih =>
      intro last hl hr
      have hv : 0 < last * (1 + r) := mul_pos hl (hr r (by simp))
      obtain ⟨h1, h2⟩ := ih (last * (1 + r)) hv (fun x hx => hr x (by simp [hx]))
      simp only [PP.index.go, List.length_cons, h1, List.mem_cons, true_and]
      rintro x (rfl | hx)
      · exact hv
      · exact h2 x hx
  have h0 : (0:ℝ) < 100000.0 := by norm_num
  obtain ⟨h1, h2⟩ := hgo rets 100000.0 h0 h
  simp only [PP.index, List.length_cons, h1, List.mem_cons, true_and]
  rintro x (rfl | hx)
  · exact h0
  · exact h2 x hx

/-! the pinned scan (F7) returned the positions of the *last* peak and trough: on 100, 50, 200, 190 the
    drawdown is −1/2 (100 → 50) but the last peak/trough are 200 → 190 -/
example : maxdd ([100, 50, 200, 190] : List Rat) = (-1/2, 0, 1) := by decide +kernel
example : (PDD.go (PDD.init : St Rat) 0 [100, 50, 200, 190]).peakPos = 2
    ∧ (PDD.go (PDD.init : St Rat) 0 [100, 50, 200, 190]).troughPos = 3 := by decide +kernel

end C15
