import AlatorVerif.Lemmas.StrategyHist
/-!
# C16 — the strategy loop walks the whole dataset and records a faithful history

Model: `PSt` (`AlatorVerif/Model/Strategy.lean`): `init` (deposit + rebalance), `update` (broker `check`,
rebalance, snapshot), `withdraw`, over the broker and single-backtest server models. "Withdrawals" are
`withdraw_cash`; `withdraw_cash_with_liquidation` reports success without paying cash out (C10's subject)
and is not part of the cash-flow bookkeeping claim.
-/
namespace C16
open PU Proto PBk PSt
variable {σ α : Type} [DecidableEq σ] [Field α] [LinearOrder α] [IsStrictOrderedRing α] [FloorRing α]

/-- one update = one tick of the clock and exactly one snapshot, dated with the clock after the tick and
    valued at the broker's total value at that moment -/
theorem update_records_one_snapshot (v : Variant) (s : Strat σ α) (adm : List (Order σ α)) (ks1 ks2 : List σ) :
    (update v s adm ks1 ks2).srv.pos = s.srv.pos + 1 ∧
    (update v s adm ks1 ks2).srv.dates = s.srv.dates ∧
    (update v s adm ks1 ks2).hist.length = s.hist.length + 1 ∧
    (∃ sn, (update v s adm ks1 ks2).hist = s.hist ++ [sn] ∧ sn.date = (update v s adm ks1 ks2).srv.date ∧
        sn.value = totalValue (update v s adm ks1 ks2).b ks2) :=
  update_clock v s adm ks1 ks2

/-- **exactly N updates**: from a fresh backtest, whatever the admission and hash orders of each update
    (`orc`), `has_next` holds after k updates iff k < N: the loop `while has_next { update }` performs exactly
    N updates, records N snapshots, and stops -/
theorem loop_length (v : Variant) (orc : List (List (Order σ α) × List σ × List σ)) (s : Strat σ α)
    (h0 : s.srv.pos = 0) :
    (hasNext (orc.foldl (fun s o => update v s o.1 o.2.1 o.2.2) s) = true ↔ orc.length < s.srv.dates.length) ∧
    (orc.foldl (fun s o => update v s o.1 o.2.1 o.2.2) s).hist.length = s.hist.length + orc.length :=
  ⟨hasNext_iff v orc s h0, (updates_pos v orc s).2.2⟩

/-- the clock after an update shows `dates[pos+1]` while that exists, else stays: dates are non-decreasing
    for a dataset with non-decreasing dates -/
theorem update_date (v : Variant) (s : Strat σ α) (adm : List (Order σ α)) (ks : List σ) :
    (update v s adm ks ks).srv.date =
      (if s.srv.pos + 1 < s.srv.dates.length then s.srv.dates.getD (s.srv.pos + 1) s.srv.date else s.srv.date) := by
  set s1 : Strat σ α := { s with b := (check v s.b s.srv adm ks).1, srv := (check v s.b s.srv adm ks).2.1,
                                  panicked := s.panicked || (check v s.b s.srv adm ks).2.2 } with hs1
  have hu : (update v s adm ks ks).srv = (rebalance v s1 ks).srv := rfl
  rw [hu, (rebalance_frame v s1 ks).2.2.1]
  exact (check_clock v s.b s.srv adm ks).2.2

/-- **net cash flow**: over every history of init (deposit) / withdraw / update, `net_cash_flow` equals
    cumulative successful deposits minus successful withdrawals, and every snapshot records its value at
    the time of the update -/
theorem net_cash_flow_is_deposits_minus_withdrawals (v : Variant) (ops : List (SOp σ α)) (s : Strat σ α) (net : α)
    (h : SInv s net) (ok : SOkRun v s ops) :
    (srun v s ops).ncf = netRun v s net ops := (srun_inv v ops s net h ok).ncf

theorem snapshot_carries_net_cash_flow (v : Variant) (s : Strat σ α) (adm : List (Order σ α)) (ks : List σ) :
    ∃ sn, (update v s adm ks ks).hist = s.hist ++ [sn] ∧ sn.ncf = s.ncf ∧ (update v s adm ks ks).ncf = s.ncf :=
  update_snapshot_ncf v s adm ks

/-- **trading alone creates no value**: with constant prices and zero spread, after any sequence of
    deposits, withdrawals and updates, for every weight map, cost list and code variant, the book value
    of the portfolio at those prices equals the initial one plus the net cash flow — from an empty
    portfolio: exactly the cash deposited minus the cash withdrawn (`U`: a duplicate-free list of symbols
    covering those traded; orders are only ever created for weight symbols and held symbols) -/
theorem trading_creates_no_value (v : Variant) (p : σ → α) (U : List σ) (hn : U.Nodup) (ops : List (SOp σ α))
    (s : Strat σ α) (net : α) (h : SInv s net)
    (hc : ∀ d sym q, s.srv.quotes d sym = some q → q.bid = p sym ∧ q.ask = p sym)
    (ok : VOkRun v p U s ops) :
    V p (srun v s ops).b U = V p s.b U + (netRun v s net ops - net) :=
  srun_V v p U hn ops s net h hc ok

/-- the book value at the constant prices *is* the broker's total value when the held symbols carry the
    constant quote (so the snapshot's portfolio_value is that number) -/
theorem total_value_is_book_value (p : σ → α) (b : Brk σ α) (ks : List σ)
    (hq : ∀ k ∈ ks, ∃ n, b.hold k = some n ∧ ∃ q, b.latest k = some q ∧ q.bid = p k) :
    totalValue b ks = V p b ks := by
  rw [totalValue_eq]
  unfold V
  congr 1
  apply congrArg
  apply List.map_congr_left
  intro k hk
  obtain ⟨n, hn, q, hq', hp⟩ := hq k hk
  simp [posValue, hq', hn, qty, hp]

/-! the pinned `deposit_cash` (F8) added `net_cash_flow` to itself: it stayed 0 for ever -/
example (s : Strat σ α) (c : α) (ks : List σ) (h : s.ncf = 0) : (init .repaired false s c ks).ncf = 0 := by
  have := (rebalance_frame .repaired
    ({ s with b := (deposit s.b c).2, ncf := s.ncf + s.ncf } : Strat σ α) ks).2.2.2.2.2.2.2.2
  simp only [init, Bool.false_eq_true, if_false]
  rw [this]; simp [h]

end C16
