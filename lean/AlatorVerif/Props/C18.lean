import AlatorVerif.Lemmas.JuraDead
/-!
# C18 — Jura: one-shot market (IOC) orders, resting limits, triggers spawn a next-tick child

Model: `PJ.visit` / `PJ.pass` / `PJ.Book.execute` / `PJ.Jura.tick` (`AlatorVerif/Model/Jura.lean`), the
literal reading of `OrderBook::execute_orders`, `delete_order`, `insert_order`, `JuraV1::tick`.
Carrier: any linear order with `+ - *`, `1` and decimal literals (`slippage = 0.1`).
`limit × 1.1` and `limit × 0.9` are `limit * (1 + 0.1)` and `limit * (1 - 0.1)` as the code writes them.
-/
namespace C18
open PJ
variable {α : Type} [LinearOrder α] [Add α] [Sub α] [Mul α] [OfNat α 1] [OfScientific α]

/-- IOC, first visit (first tick that quotes its asset): the attempt is recorded; a buy fills at the
    ask iff ask ≤ limit·(1+0.1), a sell at the bid iff bid ≥ limit·(1−0.1); the fill carries the order's
    id, asset, size and the quote's price and date -/
theorem ioc_first_attempt (o : Inner α) (q : Quote α) (h : o.order.typ = .limit .ioc)
    (ha : o.attempted = false) :
    (visit o q).order.attempted = true ∧
    let ok := if o.order.isBuy then q.ask ≤ o.order.limitPx * (1 + slippage)
              else o.order.limitPx * (1 - slippage) ≤ q.bid
    (ok → (visit o q).del = true ∧ ∃ f, (visit o q).fill = some f ∧ f.oid = o.id ∧ f.coin = o.order.asset
            ∧ f.sz = o.order.sz ∧ f.time = q.date ∧ f.px = (if o.order.isBuy then q.ask else q.bid)) ∧
    (¬ ok → (visit o q).del = false ∧ (visit o q).fill = none) :=
  visit_ioc_first o q h ha

/-- IOC, any later visit: no fill, removed -/
theorem ioc_later_visit (o : Inner α) (q : Quote α) (h : o.order.typ = .limit .ioc)
    (ha : o.attempted = true) : (visit o q).fill = none ∧ (visit o q).del = true :=
  visit_ioc_attempted o q h ha

/-- GTC: fills iff ask ≤ limit (buy) / bid ≥ limit (sell); otherwise rests untouched -/
theorem gtc_rests_until (o : Inner α) (q : Quote α) (h : o.order.typ = .limit .gtc) :
    (visit o q).order = o ∧ (visit o q).child = none ∧
    let ok := if o.order.isBuy then q.ask ≤ o.order.limitPx else o.order.limitPx ≤ q.bid
    (ok → (visit o q).del = true ∧ (visit o q).fill = some (mkFill o q o.order.isBuy)) ∧
    (¬ ok → (visit o q).del = false ∧ (visit o q).fill = none) := by
  obtain ⟨h1, h2, _, h4⟩ := visit_gtc o q h
  exact ⟨h1, h2, h4⟩

/-- a trigger never fills itself; it fires iff SL-buy ask ≥ t, SL-sell bid ≤ t, TP-buy ask ≤ t,
    TP-sell bid ≥ t; firing removes it and produces a child with the same asset, side, size, limit,
    IOC iff `is_market`, otherwise GTC -/
theorem trigger_fires_iff (o : Inner α) (q : Quote α) (px : α) (m : Bool) (t : Tpsl)
    (h : o.order.typ = .trigger px m t) :
    (visit o q).fill = none ∧ (visit o q).panic = false ∧ (visit o q).order = o ∧
    let fires := match t, o.order.isBuy with
      | .sl, true => q.ask ≥ px | .sl, false => q.bid ≤ px
      | .tp, true => q.ask ≤ px | .tp, false => q.bid ≥ px
    (fires → (visit o q).del = true ∧ (visit o q).child =
        some { o.order with typ := .limit (if m then .ioc else .gtc) }) ∧
    (¬ fires → (visit o q).del = false ∧ (visit o q).child = none) :=
  visit_trigger o q px m t h

/-- every fill of any visit carries the order's id, asset, size, side and the quote's price and date -/
theorem fill_carries (o : Inner α) (q : Quote α) (f : Fill α) (h : (visit o q).fill = some f) :
    f.oid = o.id ∧ f.coin = o.order.asset ∧ f.sz = o.order.sz ∧ f.time = q.date
    ∧ f.px = (if o.order.isBuy then q.ask else q.bid) ∧ f.buy = o.order.isBuy :=
  visit_fill_oid o q f h

/-- every state reachable by insert / delete / tick (any admission order) has strictly increasing ids
    below the next id -/
theorem reachable_inv (ops : List (JOp α)) : JInv (jrun ({} : Jura α) ops).book :=
  PJ.reachable_inv ops

/-- **one tick after any history**, whole book: the fills are those of the per-order visits of the
    resting orders whose asset is quoted, in book order; the survivors keep their order; the children
    of the fired triggers follow with fresh consecutive ids `last, last+1, …`, which are exactly the ids
    the tick announces; the admitted batch follows with the next ids -/
theorem tick_after_any_history (ops : List (JOp α)) (quotes : Nat → Option (Quote α)) (adm : List (Order α)) :
    let s := jrun ({} : Jura α) ops
    let kids := s.book.inner.filterMap (childOf' quotes)
    let r := s.tick quotes adm
    r.1.book.inner = survivors quotes s.book.inner ++ jstamp s.book.last kids
                      ++ jstamp (s.book.last + kids.length) adm
    ∧ r.2.1 = s.book.inner.filterMap (fillOf quotes)
    ∧ r.2.2.1 = List.range' s.book.last kids.length
    ∧ r.1.book.last = s.book.last + kids.length + adm.length :=
  tick_full _ quotes adm (PJ.reachable_inv ops)

/-- a child (and an order admitted by this tick) is eligible only from the following tick: every fill
    of the tick belongs to an id below the next-id value at entry, every announced child id is at or
    above it -/
theorem child_not_before_next_tick (ops : List (JOp α)) (quotes : Nat → Option (Quote α)) (adm : List (Order α)) :
    let s := jrun ({} : Jura α) ops
    (∀ f ∈ (s.tick quotes adm).2.1, f.oid < s.book.last) ∧
    (∀ k ∈ (s.tick quotes adm).2.2.1, s.book.last ≤ k) := by
  intro s
  have hinv := PJ.reachable_inv (α := α) ops
  obtain ⟨_, t2, t3, _⟩ := tick_full s quotes adm hinv
  constructor
  · intro f hf
    rw [t2] at hf
    obtain ⟨o, ho, _, _, _, hoid⟩ := fill_from_resting quotes _ f hf
    rw [hoid]; exact hinv.2 o ho
  · intro k hk
    rw [t3] at hk
    exact (List.mem_range'_1.mp hk).1

/-- **dropped and never fills later**: after the first tick that quotes its asset, the id of an IOC
    order is spent, and a spent id is not filled by any later tick of any continuation of the history
    (likewise a GTC order that filled, a trigger that fired, an order that was cancelled) -/
theorem ioc_one_shot (ops : List (JOp α)) (quotes : Nat → Option (Quote α)) (adm : List (Order α))
    (o : Inner α) (ho : o ∈ (jrun ({} : Jura α) ops).book.inner)
    (hty : o.order.typ = .limit .ioc) (q : Quote α) (hq : quotes o.order.asset = some q)
    (later : List (JOp α)) :
    ∀ f ∈ jfills ((jrun ({} : Jura α) ops).tick quotes adm).1 later, f.oid ≠ o.id := by
  have hinv := PJ.reachable_inv (α := α) ops
  exact spent_never_fills later _ o.id (hinv.tick quotes adm)
    (spent_after_tick hinv quotes adm o ho (Or.inr ⟨hty, q, hq⟩))

theorem removed_never_fills (ops : List (JOp α)) (quotes : Nat → Option (Quote α)) (adm : List (Order α))
    (o : Inner α) (ho : o ∈ (jrun ({} : Jura α) ops).book.inner)
    (hdel : (after quotes o).2 = true) (later : List (JOp α)) :
    ∀ f ∈ jfills ((jrun ({} : Jura α) ops).tick quotes adm).1 later, f.oid ≠ o.id := by
  have hinv := PJ.reachable_inv (α := α) ops
  exact spent_never_fills later _ o.id (hinv.tick quotes adm)
    (spent_after_tick hinv quotes adm o ho (Or.inl hdel))

/-! non-vacuity on a concrete book (carrier `Rat`): an IOC buy at the slippage boundary, a stop-loss
    sell at its trigger, a take-profit sell below its trigger -/
section
def qx : Quote Rat := { bid := 90, ask := 110, date := 7 }
def bookx : List (Inner Rat) :=
  [ ⟨0, ⟨0, true, 100, 1, false, none, .limit .ioc⟩, false⟩,          -- ask 110 = 100·1.1: fills
    ⟨1, ⟨0, false, 95, 2, false, none, .trigger 90 true .sl⟩, false⟩,  -- bid 90 ≤ 90: fires, IOC child
    ⟨2, ⟨0, false, 95, 3, false, none, .trigger 91 false .tp⟩, false⟩ ] -- bid 90 < 91: rests
def sx : Jura Rat := { book := { inner := bookx, last := 3 } }
def quotesx : Nat → Option (Quote Rat) := fun a => if a = 0 then some qx else none

example : ((sx.tick quotesx []).2.1.map (fun f => (f.oid, f.px))) = [(0, 110)] := by decide +kernel
example : (sx.tick quotesx []).2.2.1 = [3] := by decide +kernel
example : ((sx.tick quotesx []).1.book.inner.map (fun i => i.id)) = [2, 3] := by decide +kernel
end

end C18
