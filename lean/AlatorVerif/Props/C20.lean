import AlatorVerif.Lemmas.HttpThm
import AlatorVerif.Lemmas.HttpClient
import AlatorVerif.Lemmas.HttpClientHist
import AlatorVerif.Lemmas.HttpClientHistJ
/-!
# C20 — the JSON server is a faithful transport for the in-process exchange (Uist and Jura)

Model: `PHt.handle` (`AlatorVerif/Model/Http.lean`) over the server model `SV`, with the wire formats
`uistEnc` and `juraEnc` in serde's derive layout. Text-level (de)serialisation (ryu, serde_json's number
parser) and actix extraction are exercised by the correspondence run, not modelled.
-/
namespace C20
open PJs SV PHt
variable {E Q O A D R α : Type} (X : ExchOps E Q O A D R) (enc : Enc Q R α)

/-- **every request sequence**: the server behind the JSON service goes through exactly the states of the
    same calls made in-process -/
theorem same_states_as_in_process (syms : String → List String) (rs : List (Req O A D)) (a : App E Q) :
    (hrun X enc syms a rs).2 = (run X a (rs.map toOp)).2 := hrun_state X enc syms rs a

/-- HTTP 400 exactly where the in-process call reports an unknown backtest or dataset, 200 otherwise -/
theorem status_400_iff_unknown (syms : String → List String) (a : App E Q) (r : Req O A D)
    (hnow : (∃ i, r = .now i) → enc.hasNow = true)
    (hpanic : ∀ n, r = .init n → (init X .repaired a n).1 ≠ .panic) :
    ((handle X enc .repaired syms a r).1.status = 400 ↔ isNone (step X a (toOp r)).1 = true) ∧
    ((handle X enc .repaired syms a r).1.status = 200 ↔ isNone (step X a (toOp r)).1 = false) :=
  handle_status X enc syms a r hnow hpanic

/-- a 200 body is the encoding of exactly the in-process result -/
theorem body_is_encoding_of_result (v : Variant) (syms : String → List String) (a : App E Q) (id : Nat) :
    (∀ adm hn r, (tick X v a id adm).1 = some (hn, r) →
      (handle X enc v syms a (.tick id adm : Req O A D)).1 = ok (.obj (("has_next", .bool hn) :: enc.tickFields r))) ∧
    (∀ name i, (init X v a name).1 = .ok i →
      (handle X enc v syms a (.init name : Req O A D)).1 = ok (.obj [("backtest_id", .int i)])) ∧
    (∀ d q, fetch a id = some (d, q) → ∃ ds, (handle X enc v syms a (.fetch id : Req O A D)).1
        = ok (.obj [("quotes", enc.quotes q (syms ds))])) ∧
    (∀ ds, info a id = some ds → (handle X enc v syms a (.info id : Req O A D)).1
        = ok (.obj [("version", .str "v1"), ("dataset", .str ds)])) ∧
    (enc.hasNow = true → ∀ d hn, now a id = some (d, hn) → (handle X enc v syms a (.now id : Req O A D)).1
        = ok (.obj [("now", .int d), ("has_next", .bool hn)])) :=
  ⟨fun adm hn r h => (handle_tick X enc v syms a id adm).2.2 hn r h,
   fun name i h => (handle_init X enc v syms a name).2.1 i h,
   (handle_readonly X enc v syms a id).2.2.2.2.2.2.1,
   (handle_readonly X enc v syms a id).2.2.2.2.2.2.2.1,
   (handle_readonly X enc v syms a id).2.2.2.2.2.2.2.2⟩

/-- **after JSON decoding, the same results** — the routes common to both services. `typed dec r` is a typed
    client call (`Err` on any status but 200 or on an undecodable body); the decoders model the `Deserialize`
    derives of the response structs. `init` yields the id the in-process call hands out, `info` the version
    and dataset name, `now` the clock and `has_next`, `insert_order` / `delete_order` succeed exactly when the
    in-process call finds the backtest — and every one of them is an error exactly where the in-process
    call returns `None` -/
theorem decoded_response_is_in_process_result (syms : String → List String) (a : App E Q) (id : Nat) (name : String)
    (o : O) (d : D) (hp : (init X .repaired a name).1 ≠ .panic) :
    typed decInit (handle X enc .repaired syms a (.init name : Req O A D)).1 = resId (init X .repaired a name).1 ∧
    typed decInfo (handle X enc .repaired syms a (.info id : Req O A D)).1 = (info a id).map (fun d => ("v1", d)) ∧
    (enc.hasNow = true → typed decNow (handle X enc .repaired syms a (.now id : Req O A D)).1 = now a id) ∧
    ((typed (fun _ => some ()) (handle X enc .repaired syms a (.insert id o : Req O A D)).1).isSome = (insert X a id o).1) ∧
    ((typed (fun _ => some ()) (handle X enc .repaired syms a (.delete id d : Req O A D)).1).isSome = (delete X a id d).1) :=
  ⟨client_init X enc syms a name hp, client_info X enc syms a id, client_now X enc syms a id,
   (client_unit X enc syms a id o d).1, (client_unit X enc syms a id o d).2⟩

/-- **Uist tick and fetch_quotes after decoding**: `has_next`, the executed trades and the inserted orders (with
    their exchange ids), every list in order — or an error for an unknown backtest; the quotes map decodes to
    exactly the stored quote of every dataset symbol quoted on the current date -/
theorem uist_decoded_tick_and_quotes {β : Type} [LE β] [DecidableLE β] [Mul β]
    (syms : String → List String) (a : App (PU.Uist String β) (UQ String β)) (id : Nat)
    (adm : List (PU.Order String β)) (q : UQ String β) (ss : List String) :
    typed decTickU (handle uistOps uistEnc .repaired syms a (.tick id adm : Req _ _ Nat)).1
      = (tick uistOps .repaired a id adm).1.map (fun x => (x.1, x.2.1, x.2.2)) ∧
    decQuotesU ((uistEnc (α := β)).quotes q ss) = some (ss.filterMap (fun s => (q s).map (fun x => (s, s, x)))) :=
  ⟨client_tick_uist syms a id adm, client_fetch_uist ss q⟩

/-- **Jura tick after decoding**: `has_next`, the fills (coin, order id, price, side, size, time), the inserted
    orders and the ids of the triggered children — or an error for an unknown backtest -/
theorem jura_decoded_tick {β : Type} [LE β] [DecidableLE β] [Add β] [Sub β] [Mul β] [OfNat β 1] [OfScientific β]
    (syms : String → List String) (a : App (PJ.Jura β) (JQ β)) (id : Nat) (adm : List (PJ.Order β)) :
    typed decTickJ (handle juraOps (juraEnc true) .repaired syms a (.tick id adm : Req _ _ (Nat × Nat))).1
      = (tick juraOps .repaired a id adm).1.map (fun x =>
          (x.1, x.2.1.map (fun f => (toString f.coin, f.oid, f.px, f.buy, f.sz, f.time)), x.2.2.1, x.2.2.2.1)) :=
  client_tick_jura syms a id adm

/-- **every request sequence, on the client's side of the wire** (Uist service): along any sequence of init,
    tick, insert_order, delete_order, fetch_quotes, info and now requests — none of whose `init`s names an empty
    dataset — the typed results a client decodes from the JSON responses are, one by one, the results of the
    same calls made in-process (ids, `has_next`, trades and inserted orders in order, the quotes of the current
    date symbol by symbol, the clock, success / unknown-backtest), and they are the decodings of exactly the
    response list of `same_states_as_in_process` -/
theorem client_sees_in_process_results_along_every_sequence {β : Type} [LE β] [DecidableLE β] [Mul β]
    (syms : String → List String) (rs : List (UReq β)) (a : UAppS β) (hp : NoInitPanic a rs) :
    List.zipWith httpView rs (hrun uistOps uistEnc syms a rs).1 = procViews syms a rs :=
  (httpViews_eq_hrun syms rs a).symm.trans (client_history syms rs a hp)

/-- the same for the **Jura service** (init, tick with fills / inserted orders / triggered child ids, insert_order,
    delete_order, fetch_quotes, info; the service has no `now` route, which both sides of the statement show as
    "no such route") -/
theorem jura_client_sees_in_process_results_along_every_sequence {β : Type} [LE β] [DecidableLE β] [Add β] [Sub β] [Mul β]
    [OfNat β 1] [OfScientific β] (syms : String → List String) (rs : List (JReq β)) (a : JAppS β)
    (hp : NoInitPanicJ a rs) :
    List.zipWith httpViewJ rs (hrun juraOps (juraEnc true) syms a rs).1 = procViewsJ syms a rs :=
  client_history_jura syms rs a hp

/-- with the repaired wire format every component of a Jura tick result is on the wire (the pinned
    `TickResponse` had no field for the ids of triggered children, F9) -/
theorem jura_tick_fields (r : JR α) :
    (juraEnc (α := α) true).tickFields r =
      [("executed_trades", .arr (r.1.map encFill)), ("inserted_orders", .arr (r.2.1.map encJOrd)),
       ("triggered_order_ids", .arr (r.2.2.1.map (fun (i : Nat) => Json.int (i : Int))))] := by
  simp [juraEnc]

/-- **round trips**: orders, trades, fills and quotes of both exchanges keep their meaning across
    serialise / deserialise, for every variant of every type -/
theorem round_trips :
    (∀ o : PU.Order String α, decOrd (encOrd o) = some o) ∧
    (∀ t : PU.Trade String α, decTrade (encTrade t) = some t) ∧
    (∀ (s : String) (q : PU.Quote α), decQuote (encQuote s q) = some (s, q)) ∧
    (∀ o : PJ.Order α, decJOrd (encJOrd o) = some o) ∧
    (∀ f : PJ.Fill α, decFill (encFill f) = some (toString f.coin, f.oid, f.px, f.buy, f.sz, f.time)) :=
  ⟨decOrd_encOrd, decTrade_encTrade, decQuote_encQuote, decJOrd_encJOrd, decFill_encFill⟩

/-! non-vacuity of the history theorems: a server holding a two-date dataset, and a request sequence with a creation, an
    order, ticks, reads and a request to an unknown backtest; no `init` names an empty dataset -/
section
def exDsU : Dataset (UQ String Rat) :=
  { dates := [10, 20], quotes := fun d => if d = 10 ∨ d = 20 then some (fun s => if s = "ABC" then some ⟨100, 101, d⟩ else none) else none }
def exAppU : UAppS Rat :=
  { backtests := fun _ => none, last := 0, datasets := fun n => if n = "D" then some exDsU else none }
def exReqs : List (UReq Rat) :=
  [.init "D", .insert 1 ⟨none, .market, .buy, "ABC", 5, none⟩, .tick 1 [⟨none, .market, .buy, "ABC", 5, none⟩], .fetch 1, .now 1,
   .tick 1 [], .info 7, .init "nope"]

example : NoInitPanic exAppU exReqs := by
  simp [NoInitPanic, exReqs, exAppU, exDsU, step, toOp, SV.init, SV.insert, SV.tick, setBt, uistOps, Variant.repaired]
end

end C20
