import AlatorVerif.Lemmas.HttpThm
/-!
# C20 — the JSON server is a faithful transport for the in-process exchange (Uist and Jura)

Model: `PHt.handle` (`AlatorVerif/Model/Http.lean`) over the server model `SV`, with the wire formats
`uistEnc` and `juraEnc` in serde's derive layout. Text-level (de)serialisation (ryu, serde_json's number
parser) and actix extraction are exercised by the correspondence run, not modelled.
-/
namespace C20
open PJs SV PHt
variable {E Q O A D R α : Type} (X : ExchOps E Q O A D R) (enc : Enc Q R α)

/-- **every request sequence**: the server behind the JSON service goes through exactly the states of the
    same calls made in-process -/
theorem same_states_as_in_process (syms : String → List String) (rs : List (Req O A D)) (a : App E Q) :
    (hrun X enc syms a rs).2 = (run X a (rs.map toOp)).2 := hrun_state X enc syms rs a

/-- HTTP 400 exactly where the in-process call reports an unknown backtest or dataset, 200 otherwise -/
theorem status_400_iff_unknown (syms : String → List String) (a : App E Q) (r : Req O A D)
    (hnow : (∃ i, r = .now i) → enc.hasNow = true)
    (hpanic : ∀ n, r = .init n → (init X .repaired a n).1 ≠ .panic) :
    ((handle X enc .repaired syms a r).1.status = 400 ↔ isNone (step X a (toOp r)).1 = true) ∧
    ((handle X enc .repaired syms a r).1.status = 200 ↔ isNone (step X a (toOp r)).1 = false) :=
  handle_status X enc syms a r hnow hpanic

/-- a 200 body is the encoding of exactly the in-process result -/
theorem body_is_encoding_of_result (v : Variant) (syms : String → List String) (a : App E Q) (id : Nat) :
    (∀ adm hn r, (tick X v a id adm).1 = some (hn, r) →
      (handle X enc v syms a (.tick id adm : Req O A D)).1 = ok (.obj (("has_next", .bool hn) :: enc.tickFields r))) ∧
    (∀ name i, (init X v a name).1 = .ok i →
      (handle X enc v syms a (.init name : Req O A D)).1 = ok (.obj [("backtest_id", .int i)])) ∧
    (∀ d q, fetch a id = some (d, q) → ∃ ds, (handle X enc v syms a (.fetch id : Req O A D)).1
        = ok (.obj [("quotes", enc.quotes q (syms ds))])) ∧
    (∀ ds, info a id = some ds → (handle X enc v syms a (.info id : Req O A D)).1
        = ok (.obj [("version", .str "v1"), ("dataset", .str ds)])) ∧
    (enc.hasNow = true → ∀ d hn, now a id = some (d, hn) → (handle X enc v syms a (.now id : Req O A D)).1
        = ok (.obj [("now", .int d), ("has_next", .bool hn)])) :=
  ⟨fun adm hn r h => (handle_tick X enc v syms a id adm).2.2 hn r h,
   fun name i h => (handle_init X enc v syms a name).2.1 i h,
   (handle_readonly X enc v syms a id).2.2.2.2.2.2.1,
   (handle_readonly X enc v syms a id).2.2.2.2.2.2.2.1,
   (handle_readonly X enc v syms a id).2.2.2.2.2.2.2.2⟩

/-- with the repaired wire format every component of a Jura tick result is on the wire (the pinned
    `TickResponse` had no field for the ids of triggered children, F9) -/
theorem jura_tick_fields (r : JR α) :
    (juraEnc (α := α) true).tickFields r =
      [("executed_trades", .arr (r.1.map encFill)), ("inserted_orders", .arr (r.2.1.map encJOrd)),
       ("triggered_order_ids", .arr (r.2.2.1.map (fun (i : Nat) => Json.int (i : Int))))] := by
  simp [juraEnc]

/-- **round trips**: orders, trades, fills and quotes of both exchanges keep their meaning across
    serialise / deserialise, for every variant of every type -/
theorem round_trips :
    (∀ o : PU.Order String α, decOrd (encOrd o) = some o) ∧
    (∀ t : PU.Trade String α, decTrade (encTrade t) = some t) ∧
    (∀ (s : String) (q : PU.Quote α), decQuote (encQuote s q) = some (s, q)) ∧
    (∀ o : PJ.Order α, decJOrd (encJOrd o) = some o) ∧
    (∀ f : PJ.Fill α, decFill (encFill f) = some (toString f.coin, f.oid, f.px, f.buy, f.sz, f.time)) :=
  ⟨decOrd_encOrd, decTrade_encTrade, decQuote_encQuote, decJOrd_encJOrd, decFill_encFill⟩

end C20
