import AlatorVerif.Lemmas.UistProps
import AlatorVerif.Lemmas.JuraDead
import AlatorVerif.Lemmas.JuraConserve
/-!
# C03 — orders fill at most once; none is lost, duplicated or resurrected (both exchanges)

Uist: a ghost log records, per operation, the ids that filled and the ids that a `delete` removed;
`Conserved` says `filled ++ cancelled ++ ids(resting)` is a permutation of `0 … next-1`.
Jura: ids that left the book (filled, cancelled, fired, expired IOC) are *spent* and never fill again.
-/
namespace C03

section Uist
open PU
variable {σ α : Type} [DecidableEq σ] [LinearOrder α] [Mul α]

/-- **conservation over every history**: after any sequence of insert / delete / tick (any id arguments,
    any quotes, any admission orders) every id handed out so far is in exactly one of: filled,
    cancelled, still resting — `filled ++ cancelled ++ resting` is a permutation of `0, …, next-1`.
    In particular no id fills twice, none fills after its cancellation, none is lost. -/
theorem uist_conservation (ops : List (Op σ α)) :
    let r := run (uinit : Uist σ α) {} ops
    (r.2.filled ++ r.2.cancelled ++ ids r.1.book.inner).Perm (List.range r.1.book.last) :=
  (run_conserved ops uinit {} ⟨⟨by simp [uinit], by simp [uinit]⟩, by simp [uinit, ids]⟩).2

/-- consequently the three classes are pairwise disjoint and duplicate-free -/
theorem uist_no_double_fill (ops : List (Op σ α)) :
    let r := run (uinit : Uist σ α) {} ops
    (r.2.filled ++ r.2.cancelled ++ ids r.1.book.inner).Nodup :=
  (uist_conservation ops).nodup_iff.mpr List.nodup_range

/-- every order submitted between two ticks is admitted by the next tick, exactly once, unchanged but
    for its id; ids are handed out consecutively from the next-id counter, which only grows, so no id is
    ever given to two orders -/
theorem uist_admitted_once (ops : List (Op σ α)) (quotes : σ → Option (Quote α)) (adm : List (Order σ α)) :
    let s := (run (uinit : Uist σ α) {} ops).1
    let r := s.tick quotes adm
    r.2.2 = stamp s.book.last adm ∧ ids r.2.2 = List.range' s.book.last adm.length
    ∧ r.1.book.last = s.book.last + adm.length ∧ r.1.buffer = [] := by
  intro s r
  have hinv := PU.reachable_inv (σ := σ) (α := α) ops
  obtain ⟨_, f2, _, f4⟩ := tick_full s quotes adm hinv
  obtain ⟨_, _, t3, t4, _⟩ := tick_spec s quotes adm hinv
  exact ⟨f2, t3, t4, f4⟩

/-- a fill is for the order's full quantity -/
theorem uist_fill_full_quantity (quotes : σ → Option (Quote α)) (o : Order σ α) (t : Trade σ α)
    (h : tradeOn quotes o = some t) : t.quantity = o.shares ∧ t.symbol = o.symbol ∧ t.side = o.side := by
  obtain ⟨_, _, _, h1, h2, _, h3, _⟩ := (tradeOn_spec quotes o).1 t h
  exact ⟨h2, h1, h3⟩

/-- cancelling by id removes exactly the resting order with that id and nothing else; it is the
    identity when no resting order has that id (unknown, stale, still buffered, never issued) -/
theorem uist_cancel_exact (ops : List (Op σ α)) (id : Nat) :
    let s := (run (uinit : Uist σ α) {} ops).1
    (s.book.delete id).inner = s.book.inner.filter (fun o => o.id ≠ some id)
    ∧ (s.book.delete id).last = s.book.last
    ∧ (id ∉ ids s.book.inner → (s.book.delete id).inner = s.book.inner) := by
  intro s
  have hinv := PU.reachable_inv (σ := σ) (α := α) ops
  refine ⟨deleteFirst_eq_filter id _ hinv.1, rfl, fun hm => ?_⟩
  exact deleteFirst_absent id _ (fun o ho => by obtain ⟨i, hi, _⟩ := hinv.2 o ho; exact ⟨i, hi⟩) hm
end Uist

section Jura
open PJ
variable {α : Type} [LinearOrder α] [Add α] [Sub α] [Mul α] [OfNat α 1] [OfScientific α]

/-- Jura: ids are unique and below the next id in every reachable state -/
theorem jura_unique_ids (ops : List (JOp α)) : JInv (jrun ({} : Jura α) ops).book := PJ.reachable_inv ops

/-- Jura: a tick hands out fresh consecutive ids — first to the children of fired triggers (these are
    the ids it announces), then to the admitted batch — and every order of the batch is admitted once -/
theorem jura_fresh_ids (ops : List (JOp α)) (quotes : Nat → Option (Quote α)) (adm : List (Order α)) :
    let s := jrun ({} : Jura α) ops
    let kids := s.book.inner.filterMap (childOf' quotes)
    let r := s.tick quotes adm
    r.1.book.inner = survivors quotes s.book.inner ++ jstamp s.book.last kids
                      ++ jstamp (s.book.last + kids.length) adm
    ∧ r.2.2.1 = List.range' s.book.last kids.length
    ∧ r.1.book.last = s.book.last + kids.length + adm.length := by
  intro s kids r
  obtain ⟨t1, _, t3, t4⟩ := tick_full s quotes adm (PJ.reachable_inv ops)
  exact ⟨t1, t3, t4⟩

/-- Jura: a fill is for the full size of the resting order whose id it carries -/
theorem jura_fill_full_size (quotes : Nat → Option (Quote α)) (l : List (Inner α)) (f : Fill α)
    (hf : f ∈ l.filterMap (fillOf quotes)) : ∃ o ∈ l, f.oid = o.id ∧ f.sz = o.order.sz ∧ f.coin = o.order.asset := by
  obtain ⟨o, ho, q, _, hv, hoid⟩ := fill_from_resting quotes l f hf
  exact ⟨o, ho, hoid, (visit_fill_oid o q f hv).2.2.1, (visit_fill_oid o q f hv).2.1⟩

/-- Jura: cancelling (asset, id) removes exactly the resting order with that id when its asset matches,
    and is the identity otherwise -/
theorem jura_cancel_exact (ops : List (JOp α)) (asset id : Nat) :
    let b := (jrun ({} : Jura α) ops).book
    ((∀ o ∈ b.inner, o.id = id → o.order.asset = asset) →
        (b.delete asset id).inner = b.inner.filter (fun o => o.id ≠ id))
    ∧ ((∀ o ∈ b.inner, ¬ (o.id = id ∧ o.order.asset = asset)) → (b.delete asset id).inner = b.inner)
    ∧ (b.delete asset id).last = b.last := by
  intro b
  have hinv := PJ.reachable_inv (α := α) ops
  refine ⟨fun hm => deleteFirst_eq_filter asset id _ hinv.1 hm, fun hno => ?_, rfl⟩
  show deleteFirst asset id b.inner = b.inner
  generalize b.inner = l at hno
  induction l with
  | nil => rfl
  | cons o os ih =>
    simp only [deleteFirst]
    rw [if_neg (hno o (by simp)), ih (fun x hx => hno x (by simp [hx]))]

/-- Jura: once an order has filled, been cancelled, fired (trigger) or had its attempt (IOC), its id
    never fills again in any continuation of the history -/
theorem jura_never_again (ops : List (JOp α)) (id : Nat) (h : Spent (jrun ({} : Jura α) ops).book id)
    (later : List (JOp α)) : ∀ f ∈ jfills (jrun ({} : Jura α) ops) later, f.oid ≠ id :=
  spent_never_fills later _ id (PJ.reachable_inv ops) h

theorem jura_cancelled_is_spent (ops : List (JOp α)) (o : Inner α)
    (ho : o ∈ (jrun ({} : Jura α) ops).book.inner) :
    Spent ((jrun ({} : Jura α) ops).book.delete o.order.asset o.id) o.id :=
  spent_after_delete (PJ.reachable_inv ops) o ho

theorem jura_removed_is_spent (ops : List (JOp α)) (quotes : Nat → Option (Quote α)) (adm : List (Order α))
    (o : Inner α) (ho : o ∈ (jrun ({} : Jura α) ops).book.inner) (hdel : (after quotes o).2 = true) :
    Spent ((jrun ({} : Jura α) ops).tick quotes adm).1.book o.id :=
  spent_after_tick (PJ.reachable_inv ops) quotes adm o ho (Or.inl hdel)

/-- **Jura conservation over every history**, as one statement: after any sequence of insert / delete /
    tick (any asset and id arguments, any quotes, any admission orders) every id handed out so far —
    to admitted orders and to the children of fired triggers — is in exactly one of: filled, gone
    without a fill on leaving (cancelled, an IOC order dropped after its one attempt, a fired trigger),
    still resting. `filled` is not a bookkeeping device: it is the list of order ids of the fills the
    ticks actually reported, in order. -/
theorem jura_conservation (ops : List (JOp α)) :
    let r := gjrun ({} : Jura α) {} ops
    r.1 = jrun {} ops
    ∧ r.2.filled = (jfills ({} : Jura α) ops).map (·.oid)
    ∧ (r.2.filled ++ r.2.gone ++ jids r.1.book.inner).Perm (List.range r.1.book.last) := by
  intro r
  have h0 : JConserved ({} : Jura α) {} := ⟨⟨List.Pairwise.nil, fun _ h => by cases h⟩, fun x => by simp [jids]⟩
  refine ⟨gjrun_state ops _ _, ?_, List.perm_iff_count.mpr (gjrun_conserved ops _ _ h0).2⟩
  have := gjrun_filled ops ({} : Jura α) {} h0.1
  simpa using this

/-- consequently no id fills twice over the whole history, none fills after it was cancelled, dropped or
    fired, and a filled id is no longer resting -/
theorem jura_no_double_fill (ops : List (JOp α)) :
    ((jfills ({} : Jura α) ops).map (·.oid)).Nodup
    ∧ ∀ i ∈ (jfills ({} : Jura α) ops).map (·.oid),
        i ∉ (gjrun ({} : Jura α) {} ops).2.gone ∧ i ∉ jids (jrun ({} : Jura α) ops).book.inner := by
  obtain ⟨h1, h2, h3⟩ := jura_conservation ops
  have hnd := h3.nodup_iff.mpr List.nodup_range
  rw [h2, h1] at hnd
  rw [List.append_assoc, List.nodup_append] at hnd
  refine ⟨hnd.1, fun i hi => ?_⟩
  have := hnd.2.2 i hi
  constructor
  · intro hg; exact this i (List.mem_append_left _ hg) rfl
  · intro hr; exact this i (List.mem_append_right _ hr) rfl
end Jura

/-! non-vacuity: a concrete Uist history with a fill, a cancellation and a stale cancellation -/
section
open PU
def qA : Quote Nat := { bid := 10, ask := 11, date := 1 }
def hist : List (Op String Nat) :=
  [ .insert ⟨none, .market, .buy, "A", 1, none⟩, .insert ⟨none, .limit, .sell, "A", 2, some 50⟩,
    .tick (fun _ => none) [⟨none, .limit, .sell, "A", 2, some 50⟩, ⟨none, .market, .buy, "A", 1, none⟩],
    .tick (fun s => if s = "A" then some qA else none) [],   -- the market buy (id 1) fills
    .delete 0, .delete 0, .delete 7 ]                        -- id 0 cancelled; stale; never issued
example : (run (uinit : Uist String Nat) {} hist).2.filled = [1]
    ∧ (run (uinit : Uist String Nat) {} hist).2.cancelled = [0]
    ∧ (run (uinit : Uist String Nat) {} hist).1.book.inner = [] := by decide
end

end C03
