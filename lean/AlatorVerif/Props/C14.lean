import AlatorVerif.Lemmas.PerfMore
/-!
# C14 — returns, compounding and annualised statistics follow their definitions

Model: `PP.calculate` (`AlatorVerif/Model/PerfFull.lean`) with `PP.returns / periodReturn / cashFlows / var`,
the literal reading of `PerformanceCalculator::calculate` and the `PortfolioCalculations` helpers.
Carrier ℝ with Mathlib's `Real.exp / log / sqrt / rpow`; binary64 `exp ln powf sqrt` are not these functions
exactly (partial: compared at 1e-12 relative by the correspondence run).
-/
namespace C14
open PP Real

/-- each period return satisfies `value_next = (value_prev + flow) × (1 + r) × (1 + inflation)` -/
theorem period_return_identity (s e cf i : ℝ) (hc : s + cf ≠ 0) (hi : 1 + i ≠ 0) :
    e = (s + cf) * (1 + periodReturn s e cf i) * (1 + i) := periodReturn_identity s e cf i hc hi

/-- total return is the compounded product of (1 + r) minus 1 (the code sums log returns and
    exponentiates; needs 1 + r > 0) -/
theorem total_return_compounds (rs : List ℝ) (h : ∀ r ∈ rs, 0 < 1 + r) :
    portfolioReturn (rs.map (fun r => HasTransc.ln (1 + r))) = (rs.map (fun r => 1 + r)).prod - 1 :=
  portfolioReturn_compound rs h

/-- without flows and inflation a period return is `next / prev − 1`, so the product telescopes to
    last / first − 1 -/
theorem period_return_plain (s e : ℝ) (hs : s ≠ 0) : 1 + periodReturn s e 0 0 = e / s := by
  have h := periodReturn_identity s e 0 0 (by simpa using hs) (by norm_num)
  field_simp
  linarith

/-- best and worst are the extreme period returns -/
theorem best_and_worst_are_extremes (l : List ℝ) :
    (∀ m, maxLast l = some m → m ∈ l ∧ ∀ y ∈ l, y ≤ m) ∧ (∀ m, minFirst l = some m → m ∈ l ∧ ∀ y ∈ l, m ≤ y) :=
  ⟨maxLast_spec l, minFirst_spec l⟩

/-- the output vectors align one-to-one with the snapshots: `values`, `dates`, `cash_flows` have length n,
    `returns` has length n − 1 -/
theorem vectors_align (fixedDD : Bool) (states : List (Snap ℝ)) (o : Out ℝ) (h : calculate fixedDD states = some o) :
    o.values.length = states.length ∧ o.dates.length = states.length ∧
    (states ≠ [] → o.cashFlows.length = states.length ∧ o.returns.length = states.length - 1) ∧
    o.values = states.map (·.value) ∧ o.dates = states.map (·.date) := by
  unfold calculate at h
  simp only [] at h
  split at h
  · injection h with h; subst h
    refine ⟨by simp, by simp, fun hne => ⟨cashFlows_length states hne, ?_⟩, rfl, rfl⟩
    have := returns_length (states.map (·.value)) (cashFlows states) (states.map (·.infl))
      (by simp [cashFlows_length states hne]) (by simp)
    simpa using this
  · cases h

/-- volatility is sqrt(252) × the population standard deviation of the returns; CAGR is
    (1 + total)^(365/n) − 1 for n snapshots; Sharpe is CAGR / volatility, CAGR when volatility is 0 -/
theorem annualised_figures (fixedDD : Bool) (states : List (Snap ℝ)) (o : Out ℝ) (h : calculate fixedDD states = some o) :
    o.vol = Real.sqrt (((o.returns.map (fun r => (r - o.returns.sum / o.returns.length) ^ 2)).sum) / o.returns.length)
              * Real.sqrt 252 ∧
    o.cagr = (1 + o.ret) ^ ((365 : ℝ) / (states.length : ℝ)) - 1 ∧
    (o.vol ≠ 0 → o.sharpe = o.cagr / o.vol) ∧ (o.vol = 0 → o.sharpe = o.cagr) ∧
    o.ret = Real.exp ((o.returns.map (fun r => Real.log (1 + r))).sum) - 1 := by
  unfold calculate at h
  simp only [] at h
  split at h
  · injection h with h; subst h
    simp only []
    refine ⟨?_, ?_, ?_, ?_, ?_⟩
    · rw [← var_eq]
      show HasTransc.sqrt _ * HasTransc.sqrt (252.0 : ℝ) = _
      have : (252.0 : ℝ) = 252 := by norm_num
      rw [this]; rfl
    · show HasTransc.pow _ _ - 1 = _
      have h365 : (365.0 : ℝ) = 365 := by norm_num
      simp only [sumL_eq, List.length_map, h365]
      rfl
    · intro hv
      generalize HasTransc.sqrt (var (returns (states.map (·.value)) (cashFlows states) (states.map (·.infl))))
          * HasTransc.sqrt (252.0 : ℝ) = V at hv ⊢
      have hz : isZero V = false := by
        cases hz : isZero V
        · rfl
        · exact absurd ((isZero_iff V).mp hz) hv
      simp only [hz, Bool.false_eq_true, if_false]
    · intro hv
      generalize HasTransc.sqrt (var (returns (states.map (·.value)) (cashFlows states) (states.map (·.infl))))
          * HasTransc.sqrt (252.0 : ℝ) = V at hv ⊢
      have hz : isZero V = true := (isZero_iff V).mpr hv
      simp only [hz, if_true]
      split
      · rename_i hz2; exact ((isZero_iff _).mp hz2).symm
      · rfl
    · simp only [sumL_eq]; rfl
  · cases h

/-- **scale invariance**: every return-based figure (total return, CAGR, volatility, drawdown and its dates,
    Sharpe, the return vector, best, worst) is unchanged when all values and cash flows are multiplied by
    the same positive constant -/
theorem scale_invariant (fixedDD : Bool) (c : ℝ) (hc : 0 < c) (states : List (Snap ℝ)) :
    (calculate fixedDD (states.map (scaleSnap c))).map Out.retBased
      = (calculate fixedDD states).map Out.retBased := calculate_scale fixedDD c hc states

end C14
