import AlatorVerif.Lemmas.HttpLoop
import AlatorVerif.Lemmas.SrvClock
import AlatorVerif.Model.PenDs
/-!
# C07 — a backtest visits every dataset date exactly once, in order, then stops (both servers)

Model: `SV.tick/init/fetch/now` (`AlatorVerif/Model/Srv.lean`), the literal reading of `AppState` in
`rotala/src/http/{uist,jura}.rs`, parametric in the exchange; instantiated at `SV.uistOps` and
`SV.juraOps`. Dates are 0-based here: `dates[k]` is the property's `d(k+1)`.
-/
namespace C07
open SV
variable {E Q O A D R : Type} (X : ExchOps E Q O A D R)

/-- a new backtest first shows `d1` at position 0 -/
theorem new_backtest_shows_first_date (a : App E Q) (n : String) (id : Nat)
    (h : resId (init X .repaired a n).1 = some id) :
    ∃ ds d0 rest, a.datasets n = some ds ∧ ds.dates = d0 :: rest ∧
      (init X .repaired a n).2.backtests id = some { date := d0, pos := 0, exch := X.new, dataset := n } ∧
      ClockOK ds ({ date := d0, pos := 0, exch := X.new, dataset := n } : Backtest E) := by
  obtain ⟨_, _, _, ds, d0, rest, h1, h2, h3⟩ := (init_spec X a n).1 id h
  exact ⟨ds, d0, rest, h1, h2, h3, fresh_clock X ds d0 rest h2 n⟩

/-- the k-th tick (the one issued at `pos = k-1`) passes exactly the quotes stored under the clock date
    to the exchange, moves the clock one position, and reports `has_next` iff `k < N` -/
theorem tick_matches_current_date_only (a : App E Q) (i : Nat) (adm : A) (bt : Backtest E) (ds : Dataset Q)
    (hb : a.backtests i = some bt) (hd : a.datasets bt.dataset = some ds) (hc : ClockOK ds bt)
    (hN : 0 < ds.dates.length) :
    let r := tick X .repaired a i adm
    (∃ bt', r.2.backtests i = some bt' ∧ bt'.dataset = bt.dataset ∧ bt'.pos = bt.pos + 1 ∧ ClockOK ds bt'
        ∧ bt'.exch = (match ds.quotes bt.date with | some q => (X.tick bt.exch q adm).1 | none => bt.exch))
    ∧ r.2.datasets = a.datasets ∧ r.2.last = a.last
    ∧ r.1 = some (decide (bt.pos + 1 < ds.dates.length),
                  (match ds.quotes bt.date with | some q => (X.tick bt.exch q adm).2 | none => X.emptyR)) :=
  tick_clock X a i adm bt ds hb hd hc hN

/-- **every interleaving**: after any sequence of requests of any kind on any backtests, a live backtest
    that has received `k` ticks stands at `pos = k` (from a fresh one) and shows `dates[min k (N-1)]`, i.e.
    `d(k+1)`, and `dN` after the last tick; only ticks addressed to it move its clock -/
theorem clock_after_any_interleaving (ops : List (Op O A D)) (a : App E Q) (i : Nat) (bt : Backtest E)
    (ds : Dataset Q) (hi : i ≤ a.last) (hb : a.backtests i = some bt) (hd : a.datasets bt.dataset = some ds)
    (hc : ClockOK ds bt) (hN : 0 < ds.dates.length) :
    ∃ bt', (run X a ops).2.backtests i = some bt' ∧ bt'.dataset = bt.dataset
      ∧ bt'.pos = bt.pos + countTicks i ops
      ∧ ds.dates[min bt'.pos (ds.dates.length - 1)]? = some bt'.date
      ∧ (run X a ops).2.datasets bt'.dataset = some ds :=
  run_clock X ops a i bt ds hi hb hd hc hN

/-- `now` reports `has_next` exactly while fewer than `N` ticks were made; `fetch_quotes` returns the
    quotes stored under the current clock date (never a later date) -/
theorem now_and_fetch_read_the_clock (a : App E Q) (i : Nat) (bt : Backtest E) (ds : Dataset Q)
    (hb : a.backtests i = some bt) (hd : a.datasets bt.dataset = some ds) :
    now a i = some (bt.date, decide (bt.pos < ds.dates.length)) ∧
    fetch a i = (ds.quotes bt.date).map (fun q => (bt.date, q)) :=
  now_fetch a i bt ds hb hd

/-- **termination**: a client looping while `has_next` performs exactly `N - pos` ticks — exactly `N`
    from a new backtest — whatever the exchange does and whatever orders it admits -/
theorem loop_performs_exactly_N_ticks (adm : App E Q → A) (i : Nat) (fuel : Nat) (a : App E Q)
    (bt : Backtest E) (ds : Dataset Q) (hb : a.backtests i = some bt) (hd : a.datasets bt.dataset = some ds)
    (hc : ClockOK ds bt) (hN : 0 < ds.dates.length) (hf : ds.dates.length - bt.pos ≤ fuel) :
    loopTicks X adm i fuel a = ds.dates.length - bt.pos :=
  loop_terminates X adm i fuel a bt ds hb hd hc hN hf

section
open PHt
/-- **the client that follows the tick's own `has_next`** (the property's wording, and what the repository's
    clients do): tick, continue while the tick's response says `has_next`. From a live backtest with `pos < N` it
    performs exactly `N - pos` ticks — exactly `N` from a new one — and stops, whatever the exchange does -/
theorem tick_driven_client_performs_exactly_N_ticks (adm : App E Q → A) (i : Nat) (fuel : Nat) (a : App E Q)
    (bt : Backtest E) (ds : Dataset Q) (hb : a.backtests i = some bt) (hd : a.datasets bt.dataset = some ds)
    (hc : ClockOK ds bt) (hlt : bt.pos < ds.dates.length) (hf : ds.dates.length - bt.pos ≤ fuel) :
    tickLoop X adm i fuel a = ds.dates.length - bt.pos :=
  tickLoop_terminates X adm i fuel a bt ds hb hd hc hlt hf

/-- **the same two clients over the JSON service**: deciding on the `has_next` they *decode* from the `now` /
    `tick` responses, with the server moving through the handler's states, they perform exactly the same number
    of ticks, `N - pos` (the `now`-driven one on services that have the route) -/
theorem json_clients_perform_exactly_N_ticks {α : Type} (enc : Enc Q R α) (adm : App E Q → A)
    (syms : String → List String) (i : Nat) (fuel : Nat) (a : App E Q)
    (bt : Backtest E) (ds : Dataset Q) (hb : a.backtests i = some bt) (hd : a.datasets bt.dataset = some ds)
    (hc : ClockOK ds bt) (hf : ds.dates.length - bt.pos ≤ fuel) :
    (bt.pos < ds.dates.length →
      httpTickLoop (O := O) (D := D) X enc adm syms i fuel a = ds.dates.length - bt.pos) ∧
    (enc.hasNow = true → 0 < ds.dates.length →
      httpLoopTicks (O := O) (D := D) X enc adm syms i fuel a = ds.dates.length - bt.pos) :=
  ⟨fun hlt => (httpTickLoop_eq_tickLoop X enc adm syms i fuel a).trans
      (tickLoop_terminates X adm i fuel a bt ds hb hd hc hlt hf),
   fun hn hN => (httpLoop_eq_loop X enc adm syms i hn fuel a).trans
      (loop_terminates X adm i fuel a bt ds hb hd hc hN hf)⟩
end

/-! ### the dataset itself: `Penelope` (`rotala/src/input/penelope.rs`), built by `add_quote` calls

The statements above take the dataset as a list of dates and a lookup. These say what list and lookup
`add_quote` builds (`AlatorVerif/Model/Penelope.lean`; the server driver builds its datasets with it). -/
section
open PPen
variable {σ α Q' : Type} [DecidableEq σ]

/-- whatever sequence of `add_quote` calls built it: each date with at least one quote is listed exactly
    once, nothing else is listed, and exactly the listed dates have quotes to pass to the exchange -/
theorem dataset_lists_each_stored_date_once (es : List (Entry σ α)) (syms : List σ)
    (mk : List (Entry σ α) → Q') :
    let ds := Dataset.ofPen (({} : Pen σ α).addAll es) syms mk
    ds.dates.Nodup ∧ (∀ d, d ∈ ds.dates ↔ ∃ e ∈ es, e.date = d) ∧ (∀ d, (ds.quotes d).isSome ↔ d ∈ ds.dates) := by
  refine ⟨addAll_nodup es _ List.nodup_nil, ?_, ?_⟩
  · intro d
    have h := addAll_dates es ({} : Pen σ α) (by intro x; simp) d
    rw [addAll_entries] at h
    simpa [Dataset.ofPen] using h
  · intro d
    simp only [Dataset.ofPen, Pen.hasDate]
    by_cases hc : (({} : Pen σ α).addAll es).dates.contains d = true
    · simp only [hc, if_true, Option.isSome_some, true_iff]; simpa using hc
    · simp only [hc, Bool.false_eq_true, if_false, Option.isSome_none, false_iff]; simpa using hc

/-- a series loaded date by date (non-decreasing dates, any number of symbols per date) gives
    `d1 < d2 < … < dN` -/
theorem dataset_loaded_in_date_order_is_increasing (es : List (Entry σ α)) (syms : List σ)
    (mk : List (Entry σ α) → Q') (h : es.Pairwise (fun e f => e.date ≤ f.date)) :
    (Dataset.ofPen (({} : Pen σ α).addAll es) syms mk).dates.Pairwise (· < ·) :=
  addAll_sorted es _ List.Pairwise.nil (by intro x hx; simp at hx) h

/-- the quotes handed to the exchange for a date are, per symbol, the last ones added for that date -/
theorem dataset_quote_is_last_added (es pre post : List (Entry σ α)) (e : Entry σ α)
    (hes : es = pre ++ e :: post) (hpost : ∀ f ∈ post, ¬ (f.date = e.date ∧ f.sym = e.sym)) :
    (({} : Pen σ α).addAll es).quote e.date e.sym = some e :=
  quote_last _ e.date e.sym pre post e (by rw [addAll_entries, hes]; rfl) ⟨rfl, rfl⟩ hpost

/-- **one symbol at a time** (how the repository's own perf fixture loads its data): when the first symbol's
    series has pairwise distinct dates and every later entry's date occurs in it, the date list is exactly that
    series' dates in its order — no date is listed twice, whatever comes after; with `C16` this is why a strategy
    run still makes exactly `N` updates on such a dataset -/
theorem dataset_loaded_symbol_by_symbol (first rest : List (Entry σ α)) (syms : List σ) (mk : List (Entry σ α) → Q')
    (hn : (first.map (·.date)).Nodup) (hr : ∀ e ∈ rest, e.date ∈ first.map (·.date)) :
    (Dataset.ofPen (({} : Pen σ α).addAll (first ++ rest)) syms mk).dates = first.map (·.date) :=
  dates_symbol_by_symbol first rest hn hr

/-- when every (date, symbol) pair is quoted at most once, the quote stored for a pair does not depend on the order
    of the `add_quote` calls: date by date and symbol by symbol build the same rows -/
theorem dataset_quotes_independent_of_loading_order (es es' : List (Entry σ α)) (hp : es.Perm es')
    (hu : es.Pairwise (fun e f => ¬ (e.date = f.date ∧ e.sym = f.sym))) (d : Int) (s : σ) :
    (({} : Pen σ α).addAll es).quote d s = (({} : Pen σ α).addAll es').quote d s :=
  quote_perm es es' hp hu d s

/-- with increasing dates, a later position shows a strictly later date: together with
    `clock_after_any_interleaving` no date is visited twice or out of order -/
theorem later_position_later_date (ds : Dataset Q') (h : ds.dates.Pairwise (· < ·)) (k k' : Nat)
    (hk : k < k') (hk' : k' < ds.dates.length) : ds.dates[k]'(Nat.lt_trans hk hk') < ds.dates[k'] :=
  (List.pairwise_iff_getElem.mp h) k k' (Nat.lt_trans hk hk') hk' hk

example : (Dataset.ofPen (({} : Pen String Nat).addAll [⟨100, "A", 1, 2⟩, ⟨100, "B", 3, 4⟩, ⟨101, "A", 5, 6⟩, ⟨100, "A", 7, 8⟩])
    ["A", "B"] (fun l => l.map (·.bid))).dates = [100, 101] := by decide
end

/-! the statements hold in particular for the two servers of the repository -/
section
variable {σ α : Type} [DecidableEq σ] [LE α] [DecidableLE α] [Mul α]
example (ops : List (Op (PU.Order σ α) (List (PU.Order σ α)) Nat)) (a : App (PU.Uist σ α) (UQ σ α)) (i : Nat)
    (bt : Backtest (PU.Uist σ α)) (ds : Dataset (UQ σ α)) (hi : i ≤ a.last) (hb : a.backtests i = some bt)
    (hd : a.datasets bt.dataset = some ds) (hc : ClockOK ds bt) (hN : 0 < ds.dates.length) :=
  clock_after_any_interleaving (uistOps (σ := σ) (α := α)) ops a i bt ds hi hb hd hc hN
end
section
variable {α : Type} [LE α] [DecidableLE α] [Add α] [Sub α] [Mul α] [OfNat α 1] [OfScientific α]
example (ops : List (Op (PJ.Order α) (List (PJ.Order α)) (Nat × Nat))) (a : App (PJ.Jura α) (JQ α)) (i : Nat)
    (bt : Backtest (PJ.Jura α)) (ds : Dataset (JQ α)) (hi : i ≤ a.last) (hb : a.backtests i = some bt)
    (hd : a.datasets bt.dataset = some ds) (hc : ClockOK ds bt) (hN : 0 < ds.dates.length) :=
  clock_after_any_interleaving (juraOps (α := α)) ops a i bt ds hi hb hd hc hN
end

/-! non-vacuity: a three-date dataset on a trivial exchange; two ticks then `now` -/
section
def tx : ExchOps Nat Nat Unit Unit Unit Nat := ⟨0, fun e q _ => (e + q, q), fun e _ => e, fun e _ => e, 0⟩
def dsx : Dataset Nat := { dates := [10, 20, 30], quotes := fun d => if d = 10 ∨ d = 20 ∨ d = 30 then some d.toNat else none }
def ax : App Nat Nat := (single tx "D" dsx).getD { backtests := fun _ => none, last := 0, datasets := fun _ => none }
example : now (tick tx .repaired (tick tx .repaired ax 0 ()).2 0 ()).2 0 = some (30, true) := by decide
example : (tick tx .repaired (tick tx .repaired (tick tx .repaired ax 0 ()).2 0 ()).2 0 ()).1 = some (false, 30) := by decide
example : loopTicks tx (fun _ => ()) 0 10 ax = 3 := by decide
end

end C07
