import AlatorVerif.Lemmas.SrvClock
/-!
# C07 — a backtest visits every dataset date exactly once, in order, then stops (both servers)

Model: `SV.tick/init/fetch/now` (`AlatorVerif/Model/Srv.lean`), the literal reading of `AppState` in
`rotala/src/http/{uist,jura}.rs`, parametric in the exchange; instantiated at `SV.uistOps` and
`SV.juraOps`. Dates are 0-based here: `dates[k]` is the property's `d(k+1)`.
-/
namespace C07
open SV
variable {E Q O A D R : Type} (X : ExchOps E Q O A D R)

/-- a new backtest first shows `d1` at position 0 -/
theorem new_backtest_shows_first_date (a : App E Q) (n : String) (id : Nat)
    (h : resId (init X .repaired a n).1 = some id) :
    ∃ ds d0 rest, a.datasets n = some ds ∧ ds.dates = d0 :: rest ∧
      (init X .repaired a n).2.backtests id = some { date := d0, pos := 0, exch := X.new, dataset := n } ∧
      ClockOK ds ({ date := d0, pos := 0, exch := X.new, dataset := n } : Backtest E) := by
  obtain ⟨_, _, _, ds, d0, rest, h1, h2, h3⟩ := (init_spec X a n).1 id h
  exact ⟨ds, d0, rest, h1, h2, h3, fresh_clock X ds d0 rest h2 n⟩

/-- the k-th tick (the one issued at `pos = k-1`) passes exactly the quotes stored under the clock date
    to the exchange, moves the clock one position, and reports `has_next` iff `k < N` -/
theorem tick_matches_current_date_only (a : App E Q) (i : Nat) (adm : A) (bt : Backtest E) (ds : Dataset Q)
    (hb : a.backtests i = some bt) (hd : a.datasets bt.dataset = some ds) (hc : ClockOK ds bt)
    (hN : 0 < ds.dates.length) :
    let r := tick X .repaired a i adm
    (∃ bt', r.2.backtests i = some bt' ∧ bt'.dataset = bt.dataset ∧ bt'.pos = bt.pos + 1 ∧ ClockOK ds bt'
        ∧ bt'.exch = (match ds.quotes bt.date with | some q => (X.tick bt.exch q adm).1 | none => bt.exch))
    ∧ r.2.datasets = a.datasets ∧ r.2.last = a.last
    ∧ r.1 = some (decide (bt.pos + 1 < ds.dates.length),
                  (match ds.quotes bt.date with | some q => (X.tick bt.exch q adm).2 | none => X.emptyR)) :=
  tick_clock X a i adm bt ds hb hd hc hN

/-- **every interleaving**: after any sequence of requests of any kind on any backtests, a live backtest
    that has received `k` ticks stands at `pos = k` (from a fresh one) and shows `dates[min k (N-1)]`, i.e.
    `d(k+1)`, and `dN` after the last tick; only ticks addressed to it move its clock -/
theorem clock_after_any_interleaving (ops : List (Op O A D)) (a : App E Q) (i : Nat) (bt : Backtest E)
    (ds : Dataset Q) (hi : i ≤ a.last) (hb : a.backtests i = some bt) (hd : a.datasets bt.dataset = some ds)
    (hc : ClockOK ds bt) (hN : 0 < ds.dates.length) :
    ∃ bt', (run X a ops).2.backtests i = some bt' ∧ bt'.dataset = bt.dataset
      ∧ bt'.pos = bt.pos + countTicks i ops
      ∧ ds.dates[min bt'.pos (ds.dates.length - 1)]? = some bt'.date
      ∧ (run X a ops).2.datasets bt'.dataset = some ds :=
  run_clock X ops a i bt ds hi hb hd hc hN

/-- `now` reports `has_next` exactly while fewer than `N` ticks were made; `fetch_quotes` returns the
    quotes stored under the current clock date (never a later date) -/
theorem now_and_fetch_read_the_clock (a : App E Q) (i : Nat) (bt : Backtest E) (ds : Dataset Q)
    (hb : a.backtests i = some bt) (hd : a.datasets bt.dataset = some ds) :
    now a i = some (bt.date, decide (bt.pos < ds.dates.length)) ∧
    fetch a i = (ds.quotes bt.date).map (fun q => (bt.date, q)) :=
  now_fetch a i bt ds hb hd

/-- **termination**: a client looping while `has_next` performs exactly `N - pos` ticks — exactly `N`
    from a new backtest — whatever the exchange does and whatever orders it admits -/
theorem loop_performs_exactly_N_ticks (adm : App E Q → A) (i : Nat) (fuel : Nat) (a : App E Q)
    (bt : Backtest E) (ds : Dataset Q) (hb : a.backtests i = some bt) (hd : a.datasets bt.dataset = some ds)
    (hc : ClockOK ds bt) (hN : 0 < ds.dates.length) (hf : ds.dates.length - bt.pos ≤ fuel) :
    loopTicks X adm i fuel a = ds.dates.length - bt.pos :=
  loop_terminates X adm i fuel a bt ds hb hd hc hN hf

/-! the statements hold in particular for the two servers of the repository -/
section
variable {σ α : Type} [DecidableEq σ] [LE α] [DecidableLE α] [Mul α]
example (ops : List (Op (PU.Order σ α) (List (PU.Order σ α)) Nat)) (a : App (PU.Uist σ α) (UQ σ α)) (i : Nat)
    (bt : Backtest (PU.Uist σ α)) (ds : Dataset (UQ σ α)) (hi : i ≤ a.last) (hb : a.backtests i = some bt)
    (hd : a.datasets bt.dataset = some ds) (hc : ClockOK ds bt) (hN : 0 < ds.dates.length) :=
  clock_after_any_interleaving (uistOps (σ := σ) (α := α)) ops a i bt ds hi hb hd hc hN
end
section
variable {α : Type} [LE α] [DecidableLE α] [Add α] [Sub α] [Mul α] [OfNat α 1] [OfScientific α]
example (ops : List (Op (PJ.Order α) (List (PJ.Order α)) (Nat × Nat))) (a : App (PJ.Jura α) (JQ α)) (i : Nat)
    (bt : Backtest (PJ.Jura α)) (ds : Dataset (JQ α)) (hi : i ≤ a.last) (hb : a.backtests i = some bt)
    (hd : a.datasets bt.dataset = some ds) (hc : ClockOK ds bt) (hN : 0 < ds.dates.length) :=
  clock_after_any_interleaving (juraOps (α := α)) ops a i bt ds hi hb hd hc hN
end

/-! non-vacuity: a three-date dataset on a trivial exchange; two ticks then `now` -/
section
def tx : ExchOps Nat Nat Unit Unit Unit Nat := ⟨0, fun e q _ => (e + q, q), fun e _ => e, fun e _ => e, 0⟩
def dsx : Dataset Nat := { dates := [10, 20, 30], quotes := fun d => if d = 10 ∨ d = 20 ∨ d = 30 then some d.toNat else none }
def ax : App Nat Nat := (single tx "D" dsx).getD { backtests := fun _ => none, last := 0, datasets := fun _ => none }
example : now (tick tx .repaired (tick tx .repaired ax 0 ()).2 0 ()).2 0 = some (30, true) := by decide
example : (tick tx .repaired (tick tx .repaired (tick tx .repaired ax 0 ()).2 0 ()).2 0 ()).1 = some (false, 30) := by decide
example : loopTicks tx (fun _ => ()) 0 10 ax = 3 := by decide
end

end C07
