import AlatorVerif.Lemmas.FailedIff
/-!
# C09 — Failed state: entered only on an uncoverable shortfall, and absorbing
-/
namespace C09
open PU Proto PBk
variable {σ α : Type} [DecidableEq σ] [Field α] [LinearOrder α] [IsStrictOrderedRing α] [FloorRing α]

/-- **entered iff**: after a tick is reconciled, a Ready broker with a long-only portfolio whose held
    symbols all have a last-seen quote, and well-formed costs, is Failed **iff** cash is negative and the
    shortfall plus the 1000 buffer exceeds its liquidation value (both evaluated after reconciliation);
    for every order in which the holdings map may be walked -/
theorem failed_iff_uncoverable_shortfall (v : Variant) (b : Brk σ α) (srv : Srv σ α) (adm : List (Order σ α))
    (ks : List σ) (hready : b.failed = false)
    (hc : ∀ c ∈ (afterBooking b srv adm).costs, c.WF)
    (hpos : ∀ k x, posValue (afterBooking b srv adm) k = some x → 0 ≤ x)
    (hq : ∀ k, (afterBooking b srv adm).hold k ≠ none → (afterBooking b srv adm).latest k ≠ none) :
    (check v b srv adm ks).1.failed = true ↔
      ((afterBooking b srv adm).cash < 0 ∧
        liqValue (afterBooking b srv adm) ks < (afterBooking b srv adm).cash * (-1) + 1000.0) :=
  check_failed_iff v b srv adm ks hready hc hpos hq

/-- **absorbing over every history**: once Failed, the broker is Failed after any sequence of operations -/
theorem failed_is_absorbing (v : Variant) (ops : List (WOp σ α)) (w : World σ α) (h : w.b.failed = true) :
    (runW v w ops).b.failed = true := runW_failed v ops w h

/-- in Failed, deposits, withdrawals and new orders are refused without any effect -/
theorem failed_refuses (v : Variant) (b : Brk σ α) (srv : Srv σ α) (c : α) (o : Order σ α) (h : b.failed = true) :
    ((deposit b c).2 = b ∧ ∃ x, (deposit b c).1 = CashEv.opFail x) ∧
    ((withdraw b c).2 = b ∧ ∃ x, (withdraw b c).1 = CashEv.opFail x) ∧
    sendOrder v b srv o = (.invalid, b, srv) :=
  ⟨failed_deposit b c h, failed_withdraw b c h, failed_send v b srv o h⟩

/-- in Failed, `check` still reconciles fills in flight into cash and holdings: the ledger and holdings
    invariants of C04 / C05 are preserved by `check` whatever the state flag is -/
theorem failed_still_reconciles (v : Variant) (b : Brk σ α) (srv : Srv σ α) (adm : List (Order σ α)) (ks : List σ)
    (net : α) (h : WInv b srv net) (hperm : adm.Perm srv.exch.buffer) :
    WInv (check v b srv adm ks).1 (check v b srv adm ks).2.1 net := check_inv v b srv adm ks net h hperm

end C09
