import AlatorVerif.Lemmas.SizingMore
/-!
# C13 — cost-aware sizing never overspends the budget

Model: `Proto.Cost.impact / impactTotal / Cost.fee / totalFee / sizeBuy` (`AlatorVerif/Model/Basic.lean`),
the literal reading of `BrokerCost::trade_impact / trade_impact_total / calc`,
`Portfolio::calculate_trade_costs / calc_trade_impact`. Carrier: any linearly ordered field with a floor.
`Cost.WF`: per-share and flat amounts ≥ 0, each percentage in [0, 1).
-/
namespace C13
open Proto
variable {α : Type} [Field α] [LinearOrder α] [IsStrictOrderedRing α]

/-- fees are additive across the list: per-share × quantity + percentage × value + flat per trade -/
theorem fees_additive (cs : List (Cost α)) (n v : α) :
    totalFee cs n v = sumPer cs * n + v * sumPct cs + sumFlat cs := totalFee_eq cs n v

/-- the cost-adjusted price is the gross price plus the per-share costs for buys, minus them for sells;
    hence never below the gross price for buys nor above it for sells -/
theorem net_price (cs : List (Cost α)) (h : ∀ c ∈ cs, c.WF) (b q : α) :
    (impactTotal cs b q true).2 = q + sumPer cs ∧ (impactTotal cs b q false).2 = q - sumPer cs
    ∧ q ≤ (impactTotal cs b q true).2 ∧ (impactTotal cs b q false).2 ≤ q := by
  refine ⟨by rw [impact_price]; simp, by rw [impact_price]; simp, price_buy_ge cs h b q, price_sell_le cs h b q⟩

/-- the net budget never exceeds the gross budget (for a non-negative gross budget) -/
theorem net_budget_le_gross [FloorRing α] (cs : List (Cost α)) (h : ∀ c ∈ cs, c.WF) (b q : α) (s : Bool) (hb : 0 ≤ b) :
    (impactTotal cs b q s).1 ≤ b := by
  have := PBk.impact_budget_le_max cs h s b q
  rwa [max_eq_left hb] at this

/-- the fold invariant behind the main theorem, for any order of the list -/
theorem budget_invariant (cs : List (Cost α)) (h : ∀ c ∈ cs, c.WF) (b q : α)
    (hfin : 0 ≤ (impactTotal cs b q true).1) :
    (impactTotal cs b q true).1 * (1 + sumPct cs) + sumFlat cs ≤ b := (impact_inv cs h b q hfin).1

/-- **never overspends**: buying `n = ⌊net budget / net price⌋` shares at the gross price costs, once every
    fee computed on the resulting trade is added, no more than the gross budget — for every cost list of
    any length in any order, every budget and every positive price (net budget ≥ 0) -/
theorem never_overspends [FloorRing α] (cs : List (Cost α)) (h : ∀ c ∈ cs, c.WF) (b q : α) (hq : 0 < q)
    (hn : 0 ≤ (impactTotal cs b q true).1) :
    let n := sizeBuy cs b q
    n * q + totalFee cs n (n * q) ≤ b := no_overspend cs h b q hq hn

/-! non-vacuity, and the hypothesis `net budget ≥ 0` is needed (a flat fee above the budget) -/
example : (∀ c ∈ ([.perShare (1/10), .flat 10, .pct (1/100)] : List (Cost Rat)), c.WF)
    ∧ 0 ≤ (impactTotal ([.perShare (1/10), .flat 10, .pct (1/100)] : List (Cost Rat)) 1000 1 true).1 := by
  refine ⟨?_, by decide +kernel⟩
  intro c hc
  simp only [List.mem_cons, List.mem_nil_iff, or_false] at hc
  rcases hc with rfl | rfl | rfl <;> simp [Cost.WF] <;> norm_num

example : sizeBuy ([.flat 10] : List (Cost Rat)) 5 1 = -5 := by decide +kernel

end C13
