import AlatorVerif.Lemmas.BrokerInv
import AlatorVerif.Lemmas.BrokerSizing
/-!
# C04 — broker cash = external cash flows + proceeds of executed trades

Model: `PBk` (`AlatorVerif/Model/Broker.lean`): `deposit`, `withdraw`, `sendOrder`, `check` (tick, quote
merge, booking of each executed trade with `debit_force` / `credit`, `rebalance_cash`),
`withdrawLiq`, over the single-backtest server `PBk.Srv` and the Uist model. `net` is a ghost: cumulative
successful deposits minus successful withdrawals.
-/
namespace C04
open PU Proto PBk
variable {σ α : Type} [DecidableEq σ] [Field α] [LinearOrder α] [IsStrictOrderedRing α] [FloorRing α]

/-- **the ledger over every history**, for every cost list, dataset and variant of the code: after any
    admissible sequence of deposit / withdraw / send_order / check / liquidation request,
    `cash = deposits − withdrawals − Σ value of buys + Σ value of sells` over the broker's log, and the
    broker's log *is* the exchange's log (each executed trade booked exactly once, in order) -/
theorem cash_ledger (v : Variant) (ops : List (WOp σ α)) (w : World σ α) (h : WInv w.b w.srv w.net)
    (ha : AdmissibleRun v w ops) :
    (runW v w ops).b.cash = (runW v w ops).net + netCash (runW v w ops).b.log
    ∧ (runW v w ops).b.log = (runW v w ops).srv.exch.log :=
  ⟨(runW_inv v ops w h ha).ledger, (runW_inv v ops w h ha).logs⟩

/-- a freshly built broker on a fresh backtest satisfies the invariant (so the theorem is not vacuous) -/
theorem fresh_broker_ok (latest : σ → Option (Quote α)) (costs : List (Cost α)) (dates : List Int)
    (quotes : Int → σ → Option (Quote α)) (d0 : Int) :
    WInv (σ := σ) (α := α)
      { cash := 0, hold := fun _ => none, pend := fun _ => none, latest := latest, log := [], costs := costs, failed := false }
      { dates := dates, quotes := quotes, pos := 0, date := d0, exch := { book := { inner := [], last := 0 }, log := [], buffer := [] } }
      0 :=
  ⟨by simp [netCash], rfl, fun s => by simp [qty, outst], fun s => by simp [qty, netQty],
    fun s v h => by simp at h, ⟨List.Pairwise.nil, fun o ho => by simp at ho⟩⟩

/-- submitting an order (accepted or refused) never moves cash -/
theorem send_order_keeps_cash (v : Variant) (b : Brk σ α) (srv : Srv σ α) (o : Order σ α) (net : α)
    (h : WInv b srv net) : (sendOrder v b srv o).2.1.cash = b.cash :=
  (sendOrder_inv v b srv o net h).2.cash

/-- a refused withdrawal, and any cash operation in the Failed state, leave the broker unchanged -/
theorem refused_cash_ops_inert (b : Brk σ α) (c : α) :
    (b.failed = true → (deposit b c).2 = b ∧ (withdraw b c).2 = b) ∧
    (b.failed = false → b.cash < c → (withdraw b c).2 = b) := by
  refine ⟨fun hf => by simp [deposit, withdraw, hf], fun hf hc => by simp [withdraw, hf, hc]⟩

/-- a liquidation request for more than the available cash never moves cash, whatever it reports -/
theorem liquidation_above_cash_keeps_cash (v : Variant) (b : Brk σ α) (srv : Srv σ α) (ks : List σ)
    (req net : α) (h : WInv b srv net) (hreq : b.cash < req) :
    (withdrawLiq v b srv ks req).2.1.cash = b.cash :=
  (withdrawLiq_inv v b srv ks req net h hreq).2.cash

end C04
