import AlatorVerif.Lemmas.FailedIff
import AlatorVerif.Lemmas.CostBasisThm
import AlatorVerif.Lemmas.LatestQuote
/-!
# C11 — valuation uses the last seen bid and satisfies the portfolio identities

Model: `PBk.posValue / totalValue / posLiq / liqValue`, the quote merge inside `PBk.check`,
`PCB.costBasis / positionProfit`. Sums over the holdings map are taken in the iteration order `ks`.
-/
namespace C11
open PU Proto PBk PCB
variable {σ α : Type} [DecidableEq σ] [Field α] [LinearOrder α] [IsStrictOrderedRing α] [FloorRing α]

/-- a position is valued at quantity × the last seen bid; no quote or no position ⇒ no value -/
theorem position_value (b : Brk σ α) (s : σ) :
    posValue b s = (match b.latest s, b.hold s with
                    | some q, some n => some (q.bid * n)
                    | _, _ => none) := by
  unfold posValue; cases b.latest s <;> cases b.hold s <;> rfl

/-- total value = cash + Σ position values; liquidation value = cash + Σ cost-adjusted position values -/
theorem value_identities (b : Brk σ α) (ks : List σ) :
    totalValue b ks = b.cash + (ks.map (fun k => (posValue b k).getD 0)).sum ∧
    liqValue b ks = b.cash + (ks.map (fun k => (posLiq b k).getD 0)).sum :=
  ⟨totalValue_eq b ks, liqValue_eq b ks⟩

/-- liquidation value never exceeds total value for a long portfolio (well-formed costs) … -/
theorem liquidation_le_total (b : Brk σ α) (ks : List σ) (hc : ∀ c ∈ b.costs, c.WF)
    (hpos : ∀ k v, posValue b k = some v → 0 ≤ v) : liqValue b ks ≤ totalValue b ks :=
  liq_le_total b ks hc hpos

/-- … and equals it without trade costs -/
theorem liquidation_eq_total_without_costs (b : Brk σ α) (ks : List σ) (hc : b.costs = [])
    (hh : ∀ k v, posValue b k = some v → b.hold k ≠ none) : liqValue b ks = totalValue b ks :=
  liq_eq_total_nocost b ks hc hh

/-- **last seen quote**: `check` merges the quotes of the new clock date into the last-seen table: a symbol
    quoted at the new date shows that quote, a gap keeps the previous quote — never a later one, since
    only the quotes of the current clock date are ever read -/
theorem check_merges_current_quotes (v : Variant) (b : Brk σ α) (srv : Srv σ α) (adm : List (Order σ α)) (s : σ) :
    (afterBooking b srv adm).latest s =
      (match (srv.tick adm).2.quotes (srv.tick adm).2.date s with
       | some q => some q
       | none => b.latest s) := by
  have hfold : ∀ (ts : List (Trade σ α)) (b0 : Brk σ α), (ts.foldl book b0).latest = b0.latest := by
    intro ts
    induction ts with
    | nil => intro b0; rfl
    | cons t ts ih => intro b0; simp only [List.foldl_cons]; rw [ih]; rfl
  unfold afterBooking
  rw [hfold]; rfl

/-- **most recent quote up to the clock, over every history**: from a freshly built broker (or any state
    meeting `QInv`), after any sequence of deposit / withdraw / send_order / check / liquidation request, for
    both code variants, with `k = min pos (N-1)` the clock position: the clock shows `dates[k]`; the last-seen
    quote of a symbol is the quote stored under some visited date `dates[j]`, `j ≤ k`, such that no visited
    date after `j` quotes the symbol (a gap of any length keeps it, a later date is never read); and there
    is no last-seen quote only if no visited date quotes the symbol -/
theorem latest_is_most_recent_quote_up_to_the_clock (v : Variant) (ops : List (WOp σ α)) (w : World σ α)
    (h : QInv w.b w.srv) (s : σ) :
    let w' := runW v w ops
    let k := min w'.srv.pos (w'.srv.dates.length - 1)
    w'.srv.date = w'.srv.dates.getD k 0
    ∧ (∀ q, w'.b.latest s = some q →
        ∃ j, j ≤ k ∧ w'.srv.quotes (w'.srv.dates.getD j 0) s = some q
          ∧ ∀ i, j < i → i ≤ k → w'.srv.quotes (w'.srv.dates.getD i 0) s = none)
    ∧ (w'.b.latest s = none → ∀ i, i ≤ k → w'.srv.quotes (w'.srv.dates.getD i 0) s = none) := by
  intro w' k
  have hq : QInv w'.b w'.srv := runW_qinv v ops w h
  have hs := seenUpTo_spec w'.srv.dates w'.srv.quotes s k
  refine ⟨hq.clock, fun q hl => hs.1 q (by rw [← hq.seen s]; exact hl), fun hl => hs.2 (by rw [← hq.seen s]; exact hl)⟩

/-- a broker as `UistBrokerBuilder::build` makes it (last-seen table = the quotes of the first date, clock at
    position 0 of a non-empty dataset) meets the invariant -/
theorem fresh_broker_meets_QInv (b : Brk σ α) (srv : Srv σ α) (d0 : Int) (rest : List Int)
    (hd : srv.dates = d0 :: rest) (hp : srv.pos = 0) (hdate : srv.date = d0) (hl : b.latest = srv.quotes d0) :
    QInv b srv := by
  refine ⟨by simp [hd], by simp [hd, hp, hdate], fun s => ?_⟩
  simp [hd, hp, hl, seenUpTo]

/-- **cost basis**: undefined exactly for a flat position; otherwise net amount paid / net quantity over
    the trades since the position was last flat (the last prefix of the log with net quantity 0) -/
theorem cost_basis (sym : σ) (l : List (Trade σ α)) :
    (costBasis l sym = none ↔ netQ sym l = 0) ∧
    (netQ sym l ≠ 0 → ∃ j, j ≤ l.length ∧ netQ sym (l.take j) = 0 ∧
        (∀ k, j < k → k ≤ l.length → netQ sym (l.take k) ≠ 0) ∧
        costBasis l sym = some (netV sym (l.drop j) / netQ sym (l.drop j))) :=
  costBasis_spec sym l

/-- position profit = position value − quantity × cost basis (for a non-flat, quoted position) -/
theorem position_profit (b : Brk σ α) (s : σ) (cost n pv : α) (hc : costBasis b.log s = some cost)
    (hn : b.hold s = some n) (hv : posValue b s = some pv) (hn0 : n ≠ 0) :
    positionProfit b s = some (pv - n * cost) := by
  simp only [positionProfit, hc, hn, hv]
  congr 1
  field_simp

end C11
