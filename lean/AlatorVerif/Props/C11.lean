import AlatorVerif.Lemmas.FailedIff
import AlatorVerif.Lemmas.CostBasisThm
/-!
# C11 — valuation uses the last seen bid and satisfies the portfolio identities

Model: `PBk.posValue / totalValue / posLiq / liqValue`, the quote merge inside `PBk.check`,
`PCB.costBasis / positionProfit`. Sums over the holdings map are taken in the iteration order `ks`.
-/
namespace C11
open PU Proto PBk PCB
variable {σ α : Type} [DecidableEq σ] [Field α] [LinearOrder α] [IsStrictOrderedRing α] [FloorRing α]

/-- a position is valued at quantity × the last seen bid; no quote or no position ⇒ no value -/
theorem position_value (b : Brk σ α) (s : σ) :
    posValue b s = (match b.latest s, b.hold s with
                    | some q, some n => some (q.bid * n)
                    | _, _ => none) := by
  unfold posValue; cases b.latest s <;> cases b.hold s <;> rfl

/-- total value = cash + Σ position values; liquidation value = cash + Σ cost-adjusted position values -/
theorem value_identities (b : Brk σ α) (ks : List σ) :
    totalValue b ks = b.cash + (ks.map (fun k => (posValue b k).getD 0)).sum ∧
    liqValue b ks = b.cash + (ks.map (fun k => (posLiq b k).getD 0)).sum :=
  ⟨totalValue_eq b ks, liqValue_eq b ks⟩

/-- liquidation value never exceeds total value for a long portfolio (well-formed costs) … -/
theorem liquidation_le_total (b : Brk σ α) (ks : List σ) (hc : ∀ c ∈ b.costs, c.WF)
    (hpos : ∀ k v, posValue b k = some v → 0 ≤ v) : liqValue b ks ≤ totalValue b ks :=
  liq_le_total b ks hc hpos

/-- … and equals it without trade costs -/
theorem liquidation_eq_total_without_costs (b : Brk σ α) (ks : List σ) (hc : b.costs = [])
    (hh : ∀ k v, posValue b k = some v → b.hold k ≠ none) : liqValue b ks = totalValue b ks :=
  liq_eq_total_nocost b ks hc hh

/-- **last seen quote**: `check` merges the quotes of the new clock date into the last-seen table: a symbol
    quoted at the new date shows that quote, a gap keeps the previous quote — never a later one, since
    only the quotes of the current clock date are ever read -/
theorem check_merges_current_quotes (v : Variant) (b : Brk σ α) (srv : Srv σ α) (adm : List (Order σ α)) (s : σ) :
    (afterBooking b srv adm).latest s =
      (match (srv.tick adm).2.quotes (srv.tick adm).2.date s with
       | some q => some q
       | none => b.latest s) := by
  have hfold : ∀ (ts : List (Trade σ α)) (b0 : Brk σ α), (ts.foldl book b0).latest = b0.latest := by
    intro ts
    induction ts with
    | nil => intro b0; rfl
    | cons t ts ih => intro b0; simp only [List.foldl_cons]; rw [ih]; rfl
  unfold afterBooking
  rw [hfold]; rfl

/-- **cost basis**: undefined exactly for a flat position; otherwise net amount paid / net quantity over
    the trades since the position was last flat (the last prefix of the log with net quantity 0) -/
theorem cost_basis (sym : σ) (l : List (Trade σ α)) :
    (costBasis l sym = none ↔ netQ sym l = 0) ∧
    (netQ sym l ≠ 0 → ∃ j, j ≤ l.length ∧ netQ sym (l.take j) = 0 ∧
        (∀ k, j < k → k ≤ l.length → netQ sym (l.take k) ≠ 0) ∧
        costBasis l sym = some (netV sym (l.drop j) / netQ sym (l.drop j))) :=
  costBasis_spec sym l

/-- position profit = position value − quantity × cost basis (for a non-flat, quoted position) -/
theorem position_profit (b : Brk σ α) (s : σ) (cost n pv : α) (hc : costBasis b.log s = some cost)
    (hn : b.hold s = some n) (hv : posValue b s = some pv) (hn0 : n ≠ 0) :
    positionProfit b s = some (pv - n * cost) := by
  simp only [positionProfit, hc, hn, hv]
  congr 1
  field_simp

end C11
