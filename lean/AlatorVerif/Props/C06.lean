import AlatorVerif.Lemmas.BrokerProps
import AlatorVerif.Model.Client
import AlatorVerif.Lemmas.BrokerSrvRefines
import AlatorVerif.Lemmas.BrokerSrvHist
import AlatorVerif.Lemmas.BrokerSrvMixed
/-!
# C06 — order gatekeeping: valid orders forwarded exactly once; refusals are inert

Model: `PBk.sendOrder` with `sufficientCash`, `sufficientHoldings`, `nonsense`; futures of a client:
`PCl` (`AlatorVerif/Model/Client.lean`). "Well-formed" = the order's symbol has a last-seen quote (the code
unwraps it). Real executors, wakers and network failures are not modelled.
-/
namespace C06
open PU Proto PBk
variable {σ α : Type} [DecidableEq σ] [Field α] [LinearOrder α] [IsStrictOrderedRing α] [FloorRing α]

/-- **gatekeeping, all six order types**: a well-formed order is answered with an event, never a panic;
    it is forwarded iff the broker is Ready, the quantity is non-zero, a buy costs less than current
    cash at the last seen ask, and a market sell of a held symbol does not exceed the held quantity;
    forwarded = appended once, unchanged, to the exchange's buffer; refused = broker and exchange untouched -/
theorem gatekeeping (b : Brk σ α) (srv : Srv σ α) (o : Order σ α) (q : Quote α)
    (hq : b.latest o.symbol = some q) :
    (sendOrder .repaired b srv o).1 ≠ .panic ∧
    ((sendOrder .repaired b srv o).1 = .sent ↔ Accepts b o q) ∧
    ((sendOrder .repaired b srv o).1 = .sent →
        (sendOrder .repaired b srv o).2.2.exch.buffer = srv.exch.buffer ++ [{ o with id := none }] ∧
        (sendOrder .repaired b srv o).2.2.exch.book = srv.exch.book) ∧
    ((sendOrder .repaired b srv o).1 ≠ .sent →
        (sendOrder .repaired b srv o).2.1 = b ∧ (sendOrder .repaired b srv o).2.2 = srv) :=
  sendOrder_iff b srv o q hq

/-- an accepted order changes only the pending exposure (cash, holdings, log, state, quotes untouched) -/
theorem accepted_touches_only_pending (v : Variant) (b : Brk σ α) (srv : Srv σ α) (o : Order σ α) (net : α)
    (h : WInv b srv net) : Frame b (sendOrder v b srv o).2.1 srv (sendOrder v b srv o).2.2 :=
  (sendOrder_inv v b srv o net h).2

/-- **the exchange the broker's orders reach is a backtest of the shared server**: the single-backtest
    server of the broker model is the view `Refine.absSrv a id` of backtest `id` of the generic `AppState`
    model (the one C01 / C07 / C08 / C20 are proved on). A forwarded order's push onto the buffer is that
    server's `insert_order` on `id`; the tick inside `check` is its `tick` on `id` (same `has_next`, trades and
    admitted orders); the quotes `check` merges are its `fetch_quotes`; and requests on other backtests do
    not move the view. So every statement of C04–C06 and C09–C12 about `PBk.Srv` is a statement about a
    broker talking to one backtest of a server shared with any number of other clients -/
theorem broker_server_is_a_backtest_of_the_shared_server
    (a : Refine.UApp σ α) (id : Nat) (s : Srv σ α) (hs : Refine.absSrv a id = some s) (hr : Refine.Rows a id) :
    (∀ o, (SV.insert SV.uistOps a id o).1 = true ∧
        Refine.absSrv (SV.insert SV.uistOps a id o).2 id
          = some { s with exch := { s.exch with buffer := s.exch.buffer ++ [o] } }) ∧
    (∀ adm, (SV.tick SV.uistOps .repaired a id adm).1
          = some ((s.tick adm).1.1, ((s.tick adm).1.2, (s.exch.tick (s.quotes s.date) adm).2.2))
        ∧ Refine.absSrv (SV.tick SV.uistOps .repaired a id adm).2 id = some (s.tick adm).2
        ∧ Refine.Rows (SV.tick SV.uistOps .repaired a id adm).2 id) ∧
    (∃ q, SV.fetch a id = some (s.date, q) ∧ s.quotes s.date = q) ∧
    (∀ j, j ≠ id → ∀ adm o k,
        Refine.absSrv (SV.tick SV.uistOps .repaired a j adm).2 id = some s ∧
        Refine.absSrv (SV.insert SV.uistOps a j o).2 id = some s ∧
        Refine.absSrv (SV.delete SV.uistOps a j k).2 id = some s) :=
  ⟨fun o => Refine.insert_refines a id s o hs,
   fun adm => ⟨(Refine.tick_refines a id s adm hs hr).1, (Refine.tick_refines a id s adm hs hr).2,
              Refine.tick_rows a id id adm hr⟩,
   Refine.fetch_refines a id s hs hr,
   fun j hj adm o k => by
     obtain ⟨h1, h2, h3⟩ := Refine.other_backtests_do_not_move_the_view a id j hj adm o k
     exact ⟨h1.trans hs, h2.trans hs, h3.trans hs⟩⟩

/-- **… and nobody else's requests reach it, for however long**: any history of requests by other clients —
    creations of new backtests (`init`, `new_backtest`) and any request naming another id — leaves the broker's
    view of its backtest (an existing one, `id ≤ last`) exactly as it was -/
theorem broker_view_survives_any_foreign_history (a : Refine.UApp σ α) (id : Nat) (ops : List (Refine.UOp σ α))
    (hid : id ≤ a.last) (hf : ∀ op ∈ ops, Refine.Foreign id op) :
    Refine.absSrv (SV.run SV.uistOps a ops).2 id = Refine.absSrv a id :=
  (Refine.view_unmoved_by_foreign_history id ops a hid hf).1

/-- **every interleaving of the broker's requests with everybody else's**: after any history in which the
    broker's client sends `tick`s and `insert_order`s to its backtest `id` while other clients create backtests and
    send anything to other ids, the view of backtest `id` is the initial broker-server with *only the broker's own
    requests* applied, in their order. The other clients have left no trace in it -/
theorem broker_view_after_any_interleaving (a : Refine.UApp σ α) (id : Nat) (s : Srv σ α)
    (ms : List (Refine.Mixed σ α)) (hs : Refine.absSrv a id = some s) (hr : Refine.Rows a id) (hid : id ≤ a.last)
    (hf : ∀ op, Refine.Mixed.other op ∈ ms → Refine.Foreign id op) :
    Refine.absSrv (SV.run SV.uistOps a (ms.map (Refine.Mixed.toOp id))).2 id
      = some ((Refine.ownPart ms).foldl Refine.Own.apply s) :=
  Refine.view_after_mixed_history id ms a s hs hr hid hf

/-- the hypothesis `Rows` is met by every backtest over a dataset built from a `Penelope` store whose clock
    sits on a listed date (non-vacuity of the theorem above) -/
theorem penelope_datasets_have_rows {Q : Type} (p : PPen.Pen σ α) (syms : List σ) (mk : List (PPen.Entry σ α) → Q) :
    ∀ d ∈ (SV.Dataset.ofPen p syms mk).dates, (SV.Dataset.ofPen p syms mk).quotes d ≠ none :=
  Refine.ofPen_rows p syms mk

/-- **whichever conforming client carries it**: driven to completion (as the repaired code does), the
    forwarded order reaches the server exactly once, for eagerly executing and for lazily polled futures -/
theorem reaches_exchange_once_for_every_client_kind {S O : Type} (push : S → O → S) (k : PCl.Kind) (s : S) (o : O) :
    PCl.forward push true k s o = push s o := PCl.forward_awaited push k s o

/-- the pinned code dropped the future: with a lazily polled client the order never arrived (F6b) -/
theorem dropped_future_loses_the_order {S O : Type} (push : S → O → S) (s : S) (o : O) :
    PCl.forward push false .lazy s o = s := PCl.forward_dropped_lazy push s o

/-- the pinned `client_has_sufficient_cash` hit `unreachable!` for every limit / stop order (F6a) -/
example : sufficientCash (σ := Nat) (α := Rat) .pinned
    { cash := 100, hold := fun _ => none, pend := fun _ => none, latest := fun _ => none, log := [], costs := [], failed := false }
    ⟨none, .limit, .buy, 0, 1, some 5⟩ 5 = .panic := by decide +kernel

/-! non-vacuity of the refinement: a concrete shared server with two backtests over a two-date dataset; backtest 1 is
    the broker's. Its view exists, `Rows` holds, and backtest 2's owner may tick as it likes. -/
section
open SV
def exDs : Dataset (UQ Nat Rat) :=
  { dates := [10, 20], quotes := fun d => if d = 10 ∨ d = 20 then some (fun s => if s = 0 then some ⟨100, 101, d⟩ else none) else none }
def exBt (d : Int) (p : Nat) : Backtest (Uist Nat Rat) :=
  { date := d, pos := p, exch := { book := { inner := [], last := 0 }, log := [], buffer := [] }, dataset := "D" }
def exApp : Refine.UApp Nat Rat :=
  { backtests := fun i => if i = 1 then some (exBt 10 0) else if i = 2 then some (exBt 20 1) else none,
    last := 2, datasets := fun n => if n = "D" then some exDs else none }

example : (Refine.absSrv exApp 1).isSome = true ∧ ((Refine.absSrv exApp 1).map (·.date)) = some 10 := by
  simp [Refine.absSrv, exApp, exBt, exDs]

example : Refine.Rows exApp 1 := by
  intro bt ds hbt hds
  have hb : bt = exBt 10 0 := by simpa [exApp] using hbt.symm
  subst hb
  have hd : ds = exDs := by simpa [exApp, exBt] using hds.symm
  subst hd
  refine ⟨?_, by simp [exDs, exBt]⟩
  intro d hd
  have : d = 10 ∨ d = 20 := by simpa [exDs] using hd
  simp [exDs, this]

example : (1 : Nat) ≤ exApp.last ∧ Refine.Foreign (σ := Nat) (α := Rat) 1 (.tick 2 []) ∧ Refine.Foreign (σ := Nat) (α := Rat) 1 (.init "D") := by
  refine ⟨by decide, ?_, trivial⟩
  simp [Refine.Foreign, target]
end

end C06
