import AlatorVerif.Lemmas.BrokerProps
import AlatorVerif.Model.Client
/-!
# C06 — order gatekeeping: valid orders forwarded exactly once; refusals are inert

Model: `PBk.sendOrder` with `sufficientCash`, `sufficientHoldings`, `nonsense`; futures of a client:
`PCl` (`AlatorVerif/Model/Client.lean`). "Well-formed" = the order's symbol has a last-seen quote (the code
unwraps it). Real executors, wakers and network failures are not modelled.
-/
namespace C06
open PU Proto PBk
variable {σ α : Type} [DecidableEq σ] [Field α] [LinearOrder α] [IsStrictOrderedRing α] [FloorRing α]

/-- **gatekeeping, all six order types**: a well-formed order is answered with an event, never a panic;
    it is forwarded iff the broker is Ready, the quantity is non-zero, a buy costs less than current
    cash at the last seen ask, and a market sell of a held symbol does not exceed the held quantity;
    forwarded = appended once, unchanged, to the exchange's buffer; refused = broker and exchange untouched -/
theorem gatekeeping (b : Brk σ α) (srv : Srv σ α) (o : Order σ α) (q : Quote α)
    (hq : b.latest o.symbol = some q) :
    (sendOrder .repaired b srv o).1 ≠ .panic ∧
    ((sendOrder .repaired b srv o).1 = .sent ↔ Accepts b o q) ∧
    ((sendOrder .repaired b srv o).1 = .sent →
        (sendOrder .repaired b srv o).2.2.exch.buffer = srv.exch.buffer ++ [{ o with id := none }] ∧
        (sendOrder .repaired b srv o).2.2.exch.book = srv.exch.book) ∧
    ((sendOrder .repaired b srv o).1 ≠ .sent →
        (sendOrder .repaired b srv o).2.1 = b ∧ (sendOrder .repaired b srv o).2.2 = srv) :=
  sendOrder_iff b srv o q hq

/-- an accepted order changes only the pending exposure (cash, holdings, log, state, quotes untouched) -/
theorem accepted_touches_only_pending (v : Variant) (b : Brk σ α) (srv : Srv σ α) (o : Order σ α) (net : α)
    (h : WInv b srv net) : Frame b (sendOrder v b srv o).2.1 srv (sendOrder v b srv o).2.2 :=
  (sendOrder_inv v b srv o net h).2

/-- **whichever conforming client carries it**: driven to completion (as the repaired code does), the
    forwarded order reaches the server exactly once, for eagerly executing and for lazily polled futures -/
theorem reaches_exchange_once_for_every_client_kind {S O : Type} (push : S → O → S) (k : PCl.Kind) (s : S) (o : O) :
    PCl.forward push true k s o = push s o := PCl.forward_awaited push k s o

/-- the pinned code dropped the future: with a lazily polled client the order never arrived (F6b) -/
theorem dropped_future_loses_the_order {S O : Type} (push : S → O → S) (s : S) (o : O) :
    PCl.forward push false .lazy s o = s := PCl.forward_dropped_lazy push s o

/-- the pinned `client_has_sufficient_cash` hit `unreachable!` for every limit / stop order (F6a) -/
example : sufficientCash (σ := Nat) (α := Rat) .pinned
    { cash := 100, hold := fun _ => none, pend := fun _ => none, latest := fun _ => none, log := [], costs := [], failed := false }
    ⟨none, .limit, .buy, 0, 1, some 5⟩ 5 = .panic := by decide +kernel

end C06
