import AlatorVerif.Lemmas.HttpIds
import AlatorVerif.Lemmas.SrvThm
/-!
# C08 — backtests get unique ids and cannot disturb one another (both servers)

Model: `SV` (`AlatorVerif/Model/Srv.lean`), parametric in the exchange. Real thread schedules are not
modelled: each handler holds the one `Mutex<AppState>` for its whole body, so a server run is a serial
order of requests; the theorems cover every serial order.
-/
namespace C08
open SV
variable {E Q O A D R : Type} (X : ExchOps E Q O A D R)

/-- a successful `init` / `new_backtest` returns `last + 1`, stores it, creates a fresh backtest at the
    first date with a new (empty) exchange, and leaves every other backtest and the datasets untouched;
    an unknown dataset is rejected without any change -/
theorem creation (a : App E Q) (n : String) :
    (∀ id, resId (init X .repaired a n).1 = some id → id = a.last + 1 ∧ (init X .repaired a n).2.last = id ∧
        (∀ j, j ≠ id → (init X .repaired a n).2.backtests j = a.backtests j) ∧
        (∃ ds d0 rest, a.datasets n = some ds ∧ ds.dates = d0 :: rest ∧
          (init X .repaired a n).2.backtests id = some { date := d0, pos := 0, exch := X.new, dataset := n })) ∧
    (resId (init X .repaired a n).1 = none → (init X .repaired a n).2 = a) ∧
    (a.datasets n = none → (init X .repaired a n).1 = .none) ∧
    (init X .repaired a n).2.datasets = a.datasets ∧ a.last ≤ (init X .repaired a n).2.last :=
  init_spec X a n

/-- **unique ids over every history**: the ids returned by the successful creations of any request
    sequence are strictly increasing and above the id counter at the start — no id is returned twice and
    none collides with a backtest that existed before (`single` pre-makes id 0 with counter 1) -/
theorem ids_unique (ops : List (Op O A D)) (a : App E Q) :
    (createdIds X a ops).Pairwise (· < ·) ∧ ∀ i ∈ createdIds X a ops, a.last < i :=
  createdIds_increasing X ops a

section
open PHt
/-- **unique ids on the client's side of the wire**: the backtest ids a client *decodes* from the JSON `init`
    responses along any request sequence (no `init` naming an empty dataset) are exactly the ids of the in-process
    creations — strictly increasing and above the counter at the start, for either service -/
theorem ids_unique_over_http {α : Type} (enc : Enc Q R α) (syms : String → List String) (rs : List (Req O A D))
    (a : App E Q) (hp : NoPanic X a rs) :
    (httpCreatedIds X enc syms a rs).Pairwise (· < ·) ∧ ∀ i ∈ httpCreatedIds X enc syms a rs, a.last < i := by
  rw [httpCreatedIds_eq X enc syms rs a hp]
  exact createdIds_increasing X (rs.map toOp) a
end

/-- **non-interference**: the responses obtained for backtest `i` over any interleaving equal those of
    the run that contains only the requests addressed to `i` -/
theorem responses_independent_of_other_backtests (i : Nat) (ops : List (Op O A D)) (a : App E Q)
    (hi : i ≤ a.last) :
    respTo X i a ops = respTo X i a (ops.filter (fun op => target op = some i)) :=
  noninterference X i ops a a rfl rfl hi hi

/-- a request naming an unknown backtest is rejected (`None`, HTTP 400) and changes no state -/
theorem unknown_backtest_rejected (a : App E Q) (op : Op O A D) (i : Nat) (ht : target op = some i)
    (hu : a.backtests i = none) :
    (step X a op).2 = a ∧
    ((step X a op).1 = .tick none ∨ (step X a op).1 = .unit false ∨ (step X a op).1 = .quotes none
      ∨ (step X a op).1 = .now none ∨ (step X a op).1 = .info none) :=
  unknown_backtest_inert X a op i ht hu

theorem unknown_dataset_rejected (a : App E Q) (n : String) (h : a.datasets n = none) :
    step X a (.init n : Op O A D) = (.id none, a) ∧ step X a (.newbt n : Op O A D) = (.id none, a) :=
  unknown_dataset_inert X a n h

/-! the pinned `init` (F2) violated the property: two `init`s returned the same id -/
section
def tx : ExchOps Nat Nat Unit Unit Unit Nat := ⟨0, fun e q _ => (e + q, q), fun e _ => e, fun e _ => e, 0⟩
def dsx : Dataset Nat := { dates := [10, 20], quotes := fun d => some d.toNat }
def a0 : App Nat Nat := { backtests := fun _ => none, last := 0, datasets := fun n => if n = "D" then some dsx else none }
example : resId (init tx ⟨false, true⟩ a0 "D").1 = some 1
    ∧ resId (init tx ⟨false, true⟩ (init tx ⟨false, true⟩ a0 "D").2 "D").1 = some 1 := by decide
example : createdIds tx a0 ([.init "D", .init "X", .newbt "D", .init "D"] : List (Op Unit Unit Unit)) = [1, 2, 3] := by decide
end

end C08
