import AlatorVerif.Lemmas.NoLookahead
import AlatorVerif.Lemmas.JuraDead
import AlatorVerif.Lemmas.SrvNoLookInst
import Mathlib.Data.Nat.Basic
/-!
# C01 — no look-ahead: an order never fills on the tick that admits it

Exchange level (both exchanges): a tick matches the resting book *before* it admits the buffer, every
fill is dated and priced from the quotes passed to that tick. Server level: for **both** servers
(`SV.App`, any number of backtests, every interleaving of requests) a fill is dated strictly after the
clock at which its order's id was handed out, which is not before the clock at which it was submitted
(`server_no_lookahead_any_history`, `uist_server_…`, `jura_server_…`); the older single-backtest
statement on the broker-side server model `PBk.Srv` is kept (`server_fill_after_submission`).
-/
namespace C01

section Uist
open PU
variable {σ α : Type} [DecidableEq σ] [LinearOrder α] [Mul α]

/-- Uist, after any history: every fill of a tick belongs to an order whose id is below the next-id
    value at entry; every order admitted by the tick gets an id at or above it. Hence an order handed in
    before a tick is never filled by that tick (nor, by induction over the history, by an earlier one:
    it is not in the book before it is admitted). -/
theorem uist_no_fill_on_admitting_tick (ops : List (Op σ α)) (quotes : σ → Option (Quote α))
    (adm : List (Order σ α)) :
    let s := (run (uinit : Uist σ α) {} ops).1
    (∀ i ∈ ids (s.book.inner.filter (fillsOn quotes)), i < s.book.last) ∧
    (∀ i ∈ ids (s.tick quotes adm).2.2, s.book.last ≤ i) ∧
    (s.tick quotes adm).2.1 = s.book.inner.filterMap (tradeOn quotes) := by
  intro s
  have hinv := PU.reachable_inv (σ := σ) (α := α) ops
  exact ⟨(no_lookahead s quotes adm hinv).1, (no_lookahead s quotes adm hinv).2, (tick_spec s quotes adm hinv).1⟩

/-- the fills of a tick do not depend on the buffer (orders submitted since the last tick) at all -/
theorem uist_fills_independent_of_buffer (s : Uist σ α) (quotes : σ → Option (Quote α))
    (adm adm' : List (Order σ α)) (buf : List (Order σ α)) :
    (s.tick quotes adm).2.1 = ({ s with buffer := buf }.tick quotes adm').2.1 := by
  simp [Uist.tick]

/-- provenance: a fill is dated with, and priced only from, the quote that *this* tick carries for the
    order's symbol -/
theorem uist_fill_from_this_ticks_quote (quotes : σ → Option (Quote α)) (o : Order σ α) (t : Trade σ α)
    (h : tradeOn quotes o = some t) :
    ∃ q, quotes o.symbol = some q ∧ t.date = q.date ∧
      t.value = (match o.side with | .buy => q.ask | .sell => q.bid) * o.shares := by
  obtain ⟨q, hq, _, _, _, hd, _, hv⟩ := (tradeOn_spec quotes o).1 t h
  exact ⟨q, hq, hd, hv⟩

/-- earliest possible fill: an admitted order rests until a tick carries a quote for its symbol
    (no quote ⇒ no trade), and a market order does fill on the first such tick -/
theorem uist_earliest_fill (quotes : σ → Option (Quote α)) (o : Order σ α) :
    (quotes o.symbol = none → tradeOn quotes o = none) ∧
    (o.kind = .market → ∀ q, quotes o.symbol = some q → tradeOn quotes o = some (execOne o q)) := by
  constructor
  · intro h; simp [tradeOn, h]
  · intro hk q hq
    obtain ⟨id, kind, side, sym, sh, pr⟩ := o
    simp only at hk; subst hk
    simp [tradeOn, hq, triggers]
end Uist

section Jura
open PJ
variable {α : Type} [LinearOrder α] [Add α] [Sub α] [Mul α] [OfNat α 1] [OfScientific α]

/-- Jura, after any history: every fill of a tick carries the id of an order that was resting at
    entry (id below the next id at entry); children created by the tick and the orders it admits get ids
    at or above it, so neither can be filled by the tick that creates or admits them -/
theorem jura_no_fill_on_admitting_tick (ops : List (JOp α)) (quotes : Nat → Option (Quote α))
    (adm : List (Order α)) :
    let s := jrun ({} : Jura α) ops
    (∀ f ∈ (s.tick quotes adm).2.1, f.oid < s.book.last ∧ ∃ o ∈ s.book.inner, o.id = f.oid) ∧
    (∀ k ∈ (s.tick quotes adm).2.2.1, s.book.last ≤ k) ∧
    (∀ x ∈ (s.tick quotes adm).1.book.inner, x ∉ survivors quotes s.book.inner → s.book.last ≤ x.id) := by
  intro s
  have hinv := PJ.reachable_inv (α := α) ops
  obtain ⟨t1, t2, t3, _⟩ := tick_full s quotes adm hinv
  refine ⟨?_, ?_, ?_⟩
  · intro f hf
    rw [t2] at hf
    obtain ⟨o, ho, _, _, _, hoid⟩ := fill_from_resting quotes _ f hf
    exact ⟨by rw [hoid]; exact hinv.2 o ho, o, ho, hoid.symm⟩
  · intro k hk; rw [t3] at hk; exact (List.mem_range'_1.mp hk).1
  · intro x hx hns
    rw [t1] at hx
    simp only [List.mem_append] at hx
    rcases hx with (hx | hx) | hx
    · exact absurd hx hns
    · exact (jstamp_ids _ _ x hx).1
    · have := (jstamp_ids _ _ x hx).1; omega

/-- provenance: a Jura fill is priced and dated from the quote this tick carries for the asset -/
theorem jura_fill_from_this_ticks_quote (quotes : Nat → Option (Quote α)) (l : List (Inner α)) (f : Fill α)
    (hf : f ∈ l.filterMap (fillOf quotes)) :
    ∃ o ∈ l, ∃ q, quotes o.order.asset = some q ∧ f.time = q.date ∧
      f.px = (if o.order.isBuy then q.ask else q.bid) := by
  obtain ⟨o, ho, q, hq, hv, _⟩ := fill_from_resting quotes l f hf
  exact ⟨o, ho, q, hq, (visit_fill_oid o q f hv).2.2.2.1, (visit_fill_oid o q f hv).2.2.2.2.1⟩
end Jura

section Server
open PU PBk
variable {σ α : Type} [DecidableEq σ] [LinearOrder α] [Mul α]

/-- server level: the ghost invariant (every resting order was admitted at a strictly earlier clock
    position; the clock shows `dates[pos]` while `pos < N`) is preserved by tick -/
theorem server_invariant_tick {g : GSrv σ α} (h : GInv g) (adm : List (Order σ α)) : GInv (g.tick adm) :=
  h.tick adm

/-- **server level**: for a dataset with strictly increasing dates whose quotes are stored under their
    own date, while ticks are issued only as long as `has_next` allowed them (`pos < N`), every fill is
    dated strictly later than the clock date at which the filled order was submitted -/
theorem server_fill_after_submission (g : GSrv σ α) (h : GInv g) (hwf : WFData g.srv)
    (hpos : g.srv.pos < g.srv.dates.length)
    (o : Order σ α) (ho : o ∈ g.srv.exch.book.inner) (t : Trade σ α)
    (ht : tradeOn (g.srv.quotes g.srv.date) o = some t) :
    ∃ j p dsub, o.id = some j ∧ g.adAt j = some p ∧ g.srv.dates[p]? = some dsub ∧ dsub < t.date :=
  fill_after_submission g h hwf hpos o ho t ht
end Server

section AnyServer
open SV
variable {E Q O A D R : Type} {X : ExchOps E Q O A D R}

/-- **server level, any exchange meeting `IdSpec`, every history**: start from a server that holds any
    datasets and no backtest; after any sequence of requests (creations, ticks, inserts, deletes, reads, on
    any backtests, in any interleaving), consider a tick on a live backtest whose clock is still within
    its dataset (`pos < N`: the client ticked only while `has_next` allowed), the dataset having strictly
    increasing dates and quotes stored under their own date. Every fill of that tick belongs to an order
    id that was handed out by an earlier tick, at a clock position `p` whose date is strictly before the
    fill's date; and every order still in the buffer was submitted at a position `≤` the current one, so
    ids are never handed out at a clock before the order's submission. -/
theorem server_no_lookahead_any_history (S : IdSpec X) (ops : List (Op O A D)) (a0 : App E Q)
    (h0 : ∀ i, a0.backtests i = none) (i : Nat) (adm : A) :
    let g := (grun S {} a0 ops).1
    let a := (run X a0 ops).2
    ∀ bt ds q, a.backtests i = some bt → a.datasets bt.dataset = some ds → bt.pos < ds.dates.length →
      ds.dates.Pairwise (· < ·) → ds.quotes bt.date = some q → S.Dated q bt.date →
      (∀ f ∈ S.fills bt.exch q adm, ∃ p dsub, g.asg i f.1 = some p ∧ ds.dates[p]? = some dsub ∧ dsub < f.2)
      ∧ (g.sub i).length = (S.buf bt.exch).length ∧ (∀ p ∈ g.sub i, p ≤ bt.pos) := by
  intro g a bt ds q hb hd hpos hs hq hdat
  have hinv : GInv S (grun S {} a0 ops).2 g := grun_inv S ops {} a0 (GInv.empty S a0 {} h0)
  rw [grun_app] at hinv
  exact ⟨tick_fills_after_assignment S a g hinv i adm bt ds q hb hd hpos hs hq hdat,
    buffered_submitted_not_later S a g hinv i bt hb⟩

/-- the Uist server: the fills are, in sequence, the trades the tick request returns -/
theorem uist_server_no_lookahead {σ α : Type} [DecidableEq σ] [LinearOrder α] [Mul α]
    (ops : List (Op (PU.Order σ α) (List (PU.Order σ α)) Nat)) (a0 : App (PU.Uist σ α) (UQ σ α))
    (h0 : ∀ i, a0.backtests i = none) (i : Nat) (adm : List (PU.Order σ α)) :
    let g := (grun uistSpec {} a0 ops).1
    let a := (run uistOps a0 ops).2
    ∀ bt ds q, a.backtests i = some bt → a.datasets bt.dataset = some ds → bt.pos < ds.dates.length →
      ds.dates.Pairwise (· < ·) → ds.quotes bt.date = some q → (∀ sym qq, q sym = some qq → qq.date = bt.date) →
      (∀ f ∈ uistFills bt.exch q, ∃ p dsub, g.asg i f.1 = some p ∧ ds.dates[p]? = some dsub ∧ dsub < f.2)
      ∧ (uistFills bt.exch q).map (·.2) = ((uistOps.tick bt.exch q adm).2.1).map (·.date) := by
  intro g a bt ds q hb hd hpos hs hq hdat
  refine ⟨(server_no_lookahead_any_history uistSpec ops a0 h0 i adm bt ds q hb hd hpos hs hq hdat).1, ?_⟩
  have hinv : GInv uistSpec (grun uistSpec {} a0 ops).2 g := grun_inv uistSpec ops {} a0 (GInv.empty _ a0 {} h0)
  rw [grun_app] at hinv
  exact uist_fills_are_the_trades bt.exch q adm (hinv.live i bt hb).2.1

/-- the Jura server: the fills are those of the tick response, by order id and fill time -/
theorem jura_server_no_lookahead {α : Type} [LinearOrder α] [Add α] [Sub α] [Mul α] [OfNat α 1] [OfScientific α]
    (ops : List (Op (PJ.Order α) (List (PJ.Order α)) (Nat × Nat))) (a0 : App (PJ.Jura α) (JQ α))
    (h0 : ∀ i, a0.backtests i = none) (i : Nat) (adm : List (PJ.Order α)) :
    let g := (grun juraSpec {} a0 ops).1
    let a := (run juraOps a0 ops).2
    ∀ bt ds q, a.backtests i = some bt → a.datasets bt.dataset = some ds → bt.pos < ds.dates.length →
      ds.dates.Pairwise (· < ·) → ds.quotes bt.date = some q → (∀ asset qq, q asset = some qq → qq.date = bt.date) →
      ∀ f ∈ (juraOps.tick bt.exch q adm).2.1, ∃ p dsub, g.asg i f.oid = some p ∧ ds.dates[p]? = some dsub ∧ dsub < f.time := by
  intro g a bt ds q hb hd hpos hs hq hdat f hf
  exact (server_no_lookahead_any_history juraSpec ops a0 h0 i adm bt ds q hb hd hpos hs hq hdat).1
    (f.oid, f.time) (List.mem_map.mpr ⟨f, hf, rfl⟩)

/-! non-vacuity: two backtests on a two-date dataset; an order submitted on backtest 1 at date 10 is handed
    its id at position 0 and fills on the next tick, dated 20; backtest 2 is ticked in between -/
section
def qx (d : Int) : UQ String Nat := fun s => if s = "A" then some ⟨1, 2, d⟩ else none
def dsx : Dataset (UQ String Nat) := { dates := [10, 20], quotes := fun d => if d = 10 ∨ d = 20 then some (qx d) else none }
def ax : App (PU.Uist String Nat) (UQ String Nat) :=
  { backtests := fun _ => none, last := 0, datasets := fun n => if n = "D" then some dsx else none }
def ox : PU.Order String Nat := ⟨none, .market, .buy, "A", 5, none⟩
def opsx : List (Op (PU.Order String Nat) (List (PU.Order String Nat)) Nat) :=
  [.init "D", .init "D", .insert 1 ox, .tick 2 [], .tick 1 [ox], .tick 2 []]
example : ((run uistOps ax opsx).2.backtests 1).map (fun bt => (bt.pos, bt.date, uistFills bt.exch (qx 20)))
    = some (1, 20, [(0, 20)]) := by decide
example : (grun uistSpec {} ax opsx).1.asg 1 0 = some 0 := by decide
example : dsx.dates[0]? = some 10 ∧ (10 : Int) < 20 := by decide
end
end AnyServer

end C01
