import AlatorVerif.Lemmas.SizingMore
/-!
# C10 — liquidation queues enough sales to raise the requested cash, or nothing
-/
namespace C10
open PU Proto PBk
variable {σ α : Type} [DecidableEq σ] [Field α] [LinearOrder α] [IsStrictOrderedRing α] [FloorRing α]

/-- **success ⇒ enough**: for every walk order of the holdings map, every cost list and every request:
    a reported success means the collected orders were sent as market sells (only sells are created) and,
    valued at the last seen bids, they are worth at least the requested amount -/
theorem success_raises_enough (b : Brk σ α) (srv : Srv σ α) (ks : List σ) (req x : α)
    (hbid : ∀ s q, b.latest s = some q → 0 < q.bid)
    (h : (withdrawLiq .repaired b srv ks req).1 = .wOk x) :
    ∃ os, (walk .repaired b ks req [] = .done os ∨ walk .repaired b ks req [] = .left 0 os)
      ∧ req ≤ worth b os
      ∧ (withdrawLiq .repaired b srv ks req).2.1 = (sendOrders .repaired b srv (os.map (fun o => mkSell o.1 o.2))).1
      ∧ (withdrawLiq .repaired b srv ks req).2.2 = (sendOrders .repaired b srv (os.map (fun o => mkSell o.1 o.2))).2.1 :=
  withdrawLiq_success b srv ks req x hbid h

/-- none of the queued sales exceeds the position held (positive bids; after repair F10 this needs no
    whole-share hypothesis: the partial sale is capped at the position) -/
theorem no_sale_exceeds_position (b : Brk σ α) (ks : List σ) (req : α) (os : List (σ × α)) (hreq : 0 ≤ req)
    (hbid : ∀ s q, b.latest s = some q → 0 < q.bid)
    (hw : walk .repaired b ks req [] = .done os ∨ ∃ r, walk .repaired b ks req [] = .left r os) :
    ∀ o ∈ os, ∃ h, b.hold o.1 = some h ∧ o.2 ≤ h := by
  intro o ho
  rcases walk_le_position b hbid ks req [] os hreq hw o ho with hm | hm
  · simp at hm
  · exact hm

/-- **failure ⇒ nothing**: when it reports failure nothing is queued and (request above free cash) the
    broker is untouched -/
theorem failure_queues_nothing (v : Variant) (b : Brk σ α) (srv : Srv σ α) (ks : List σ) (req x : α)
    (hreq : b.cash < req) (h : (withdrawLiq v b srv ks req).1 = .wFail x) :
    (withdrawLiq v b srv ks req).2.1 = b ∧ (withdrawLiq v b srv ks req).2.2 = srv :=
  withdrawLiq_failure_inert v b srv ks req x hreq h

/-- the pinned code (F4) computed `remaining / ceil(bid)` instead of `ceil(remaining / bid)`: with a bid of
    150.5 and 20 000 to raise it queued 20000/151 = 132.45… shares, worth 19 933.77 < 20 000
    (kernel-checked on the model in `AlatorVerif/Findings.lean`) -/
example : ((301:Rat)/2) * (20000 / 151) < 20000 := by norm_num

end C10
