import AlatorVerif.Lemmas.SizingMore
import AlatorVerif.Lemmas.FailedIff
/-!
# C10 — liquidation queues enough sales to raise the requested cash, or nothing
-/
namespace C10
open PU Proto PBk
variable {σ α : Type} [DecidableEq σ] [Field α] [LinearOrder α] [IsStrictOrderedRing α] [FloorRing α]

/-- **success ⇒ enough**: for every walk order of the holdings map, every cost list and every request:
    a reported success means the collected orders were sent as market sells (only sells are created) and,
    valued at the last seen bids, they are worth at least the requested amount -/
theorem success_raises_enough (b : Brk σ α) (srv : Srv σ α) (ks : List σ) (req x : α)
    (hbid : ∀ s q, b.latest s = some q → 0 < q.bid)
    (h : (withdrawLiq .repaired b srv ks req).1 = .wOk x) :
    ∃ os, (walk .repaired b ks req [] = .done os ∨ walk .repaired b ks req [] = .left 0 os)
      ∧ req ≤ worth b os
      ∧ (withdrawLiq .repaired b srv ks req).2.1 = (sendOrders .repaired b srv (os.map (fun o => mkSell o.1 o.2))).1
      ∧ (withdrawLiq .repaired b srv ks req).2.2 = (sendOrders .repaired b srv (os.map (fun o => mkSell o.1 o.2))).2.1 :=
  withdrawLiq_success b srv ks req x hbid h

/-- none of the queued sales exceeds the position held (positive bids; after repair F10 this needs no
    whole-share hypothesis: the partial sale is capped at the position) -/
theorem no_sale_exceeds_position (b : Brk σ α) (ks : List σ) (req : α) (os : List (σ × α)) (hreq : 0 ≤ req)
    (hbid : ∀ s q, b.latest s = some q → 0 < q.bid)
    (hw : walk .repaired b ks req [] = .done os ∨ ∃ r, walk .repaired b ks req [] = .left r os) :
    ∀ o ∈ os, ∃ h, b.hold o.1 = some h ∧ o.2 ≤ h := by
  intro o ho
  rcases walk_le_position b hbid ks req [] os hreq hw o ho with hm | hm
  · simp at hm
  · exact hm

/-- **failure ⇒ nothing**: when it reports failure nothing is queued and (request above free cash) the
    broker is untouched -/
theorem failure_queues_nothing (v : Variant) (b : Brk σ α) (srv : Srv σ α) (ks : List σ) (req x : α)
    (hreq : b.cash < req) (h : (withdrawLiq v b srv ks req).1 = .wFail x) :
    (withdrawLiq v b srv ks req).2.1 = b ∧ (withdrawLiq v b srv ks req).2.2 = srv :=
  withdrawLiq_failure_inert v b srv ks req x hreq h

/-- **automatic cash rebalancing** (`check` → `rebalance_cash`): when the balance after booking a tick's
    trades is negative, `check` runs the same liquidation for `shortfall + 1000`; whenever that liquidation
    reports success the broker stays Ready, and what `check` leaves behind is exactly the state after sending
    market sells that, at the last seen bids, are worth at least `shortfall + 1000` -/
theorem rebalance_raises_enough (b : Brk σ α) (srv : Srv σ α) (adm : List (Order σ α)) (ks : List σ) (x : α)
    (hready : b.failed = false)
    (hneg : (afterBooking b srv adm).cash < 0)
    (hbid : ∀ s q, (afterBooking b srv adm).latest s = some q → 0 < q.bid)
    (h : (withdrawLiq .repaired (afterBooking b srv adm) (srv.tick adm).2 ks
            ((afterBooking b srv adm).cash * (-1) + 1000.0)).1 = .wOk x) :
    ∃ os, (afterBooking b srv adm).cash * (-1) + 1000.0 ≤ worth (afterBooking b srv adm) os
      ∧ (check .repaired b srv adm ks).1
          = (sendOrders .repaired (afterBooking b srv adm) (srv.tick adm).2 (os.map (fun o => mkSell o.1 o.2))).1
      ∧ (check .repaired b srv adm ks).2.1
          = (sendOrders .repaired (afterBooking b srv adm) (srv.tick adm).2 (os.map (fun o => mkSell o.1 o.2))).2.1
      ∧ (check .repaired b srv adm ks).1.failed = false := by
  have hcheck : check .repaired b srv adm ks =
      (if (afterBooking b srv adm).cash < 0 then
        let w := withdrawLiq .repaired (afterBooking b srv adm) (srv.tick adm).2 ks ((afterBooking b srv adm).cash * (-1) + 1000.0)
        match w.1 with
        | .wFail _ => ({ w.2.1 with failed := true }, w.2.2, false)
        | .panic => (w.2.1, w.2.2, true)
        | _ => (w.2.1, w.2.2, false)
      else (afterBooking b srv adm, (srv.tick adm).2, false)) := rfl
  obtain ⟨os, _, hworth, h1, h2⟩ := success_raises_enough (afterBooking b srv adm) (srv.tick adm).2 ks _ x hbid h
  have hb1f : (afterBooking b srv adm).failed = false := by
    unfold afterBooking; rw [book_fold_failed]; exact hready
  refine ⟨os, hworth, ?_, ?_, ?_⟩
  · rw [hcheck, if_pos hneg]; simp only [h]; exact h1
  · rw [hcheck, if_pos hneg]; simp only [h]; exact h2
  · rw [hcheck, if_pos hneg]; simp only [h]
    exact (withdrawLiq_failed .repaired _ _ _ _).trans hb1f

/-- the pinned code (F4) computed `remaining / ceil(bid)` instead of `ceil(remaining / bid)`: with a bid of
    150.5 and 20 000 to raise it queued 20000/151 = 132.45… shares, worth 19 933.77 < 20 000
    (kernel-checked on the model in `AlatorVerif/Findings.lean`) -/
example : ((301:Rat)/2) * (20000 / 151) < 20000 := by norm_num

/-! non-vacuity of `rebalance_raises_enough`: 100 shares of symbol 0 at a bid of 50, cash −500 after a tick without
    trades: the liquidation of 500 + 1000 succeeds with a sale of ceil(1500 / 50) = 30 shares, worth exactly 1500 -/
section
def exQ : Quote Rat := ⟨50, 51, 10⟩
def exSrv : Srv Nat Rat :=
  { dates := [10, 20], quotes := fun _ s => if s = 0 then some exQ else none, pos := 0, date := 10,
    exch := { book := { inner := [], last := 0 }, log := [], buffer := [] } }
def exBrk : Brk Nat Rat :=
  { cash := -500, hold := fun s => if s = 0 then some 100 else none, pend := fun _ => none,
    latest := fun s => if s = 0 then some exQ else none, log := [], costs := [], failed := false }

def isOkWith (e : CashEv Rat) (x : Rat) : Bool := match e with | .wOk c => c == x | _ => false

example : (afterBooking exBrk exSrv []).cash < 0 := by decide +kernel
example : isOkWith (withdrawLiq .repaired (afterBooking exBrk exSrv []) (exSrv.tick []).2 [0]
    ((afterBooking exBrk exSrv []).cash * (-1) + 1000.0)).1 1500 = true := by decide +kernel
example : ∀ s q, (afterBooking exBrk exSrv []).latest s = some q → 0 < q.bid := by
  intro s q h
  have hl : (afterBooking exBrk exSrv []).latest s = if s = 0 then some exQ else none := by
    simp [afterBooking, mergedQuotes, Srv.tick, exSrv, exBrk, Uist.tick, Book.execute, matchPass]
    split <;> simp_all
  rw [hl] at h
  split at h
  · cases h; decide +kernel
  · cases h
end

end C10
