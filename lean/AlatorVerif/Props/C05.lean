import AlatorVerif.Lemmas.PendingEmpty
/-!
# C05 — holdings and pending exposure reconcile with the exchange's executions

Same model and invariant as C04 (`PBk.WInv`), plus `PendJ` for "empty again".
-/
namespace C05
open PU Proto PBk
variable {σ α : Type} [DecidableEq σ] [Field α] [LinearOrder α] [IsStrictOrderedRing α] [FloorRing α]

/-- **over every history**: holdings per symbol = bought − sold over the executed trades; no zero entry is
    stored; the broker's log equals the exchange's log; pending exposure per symbol = signed quantity of
    the orders the broker forwarded that are still in the exchange's buffer or book -/
theorem holdings_and_pending (v : Variant) (ops : List (WOp σ α)) (w : World σ α) (h : WInv w.b w.srv w.net)
    (ha : AdmissibleRun v w ops) :
    let w' := runW v w ops
    (∀ s, qty w'.b.hold s = netQty s w'.b.log)
    ∧ (∀ s x, w'.b.hold s = some x → x ≠ 0)
    ∧ w'.b.log = w'.srv.exch.log
    ∧ (∀ s, qty w'.b.pend s = outst (w'.srv.exch.buffer ++ w'.srv.exch.book.inner) s) :=
  let i := runW_inv v ops w h ha
  ⟨i.hold, i.nozero, i.logs, i.pend⟩

/-- holdings-with-pending is the pointwise sum of the two maps -/
theorem holdings_with_pending_is_sum (b : Brk σ α) (s : σ) :
    (holdPend b s).getD 0 = qty b.hold s + qty b.pend s := by
  unfold holdPend qty
  cases b.hold s <;> cases b.pend s <;> simp

/-- **empty again**: with the invariants, once nothing accepted is outstanding at the exchange, the
    pending map has no entry at all -/
theorem pending_empty_when_nothing_outstanding (b : Brk σ α) (srv : Srv σ α) (net : α) (h : WInv b srv net)
    (hj : PendJ b srv) (hnone : srv.exch.buffer = [] ∧ srv.exch.book.inner = []) : ∀ k, b.pend k = none :=
  pending_empty b srv net h hj hnone

/-- the auxiliary invariant (every key of the pending map has a non-zero value or an order for it is
    still at the exchange) is kept by order submission and by `check` -/
theorem pendJ_preserved (v : Variant) (b : Brk σ α) (srv : Srv σ α) (h : PendJ b srv) :
    (∀ o, PendJ (sendOrder v b srv o).2.1 (sendOrder v b srv o).2.2) ∧
    (∀ adm ks, BookInv srv.exch.book → adm.Perm srv.exch.buffer →
      PendJ (check v b srv adm ks).1 (check v b srv adm ks).2.1) :=
  ⟨fun o => sendOrder_J v b srv o h, fun adm ks hi hp => check_J v b srv adm ks h hi hp⟩

end C05
