import AlatorVerif.Lemmas.UistProps
/-!
# C02 — Uist fills honour limit/stop conditions and use the correct side of the quote

Model: `PU.Uist.tick` (`AlatorVerif/Model/Uist.lean`), the literal reading of
`UistV1::tick` / `OrderBook::execute_orders` / `delete_order` / `insert_order`.
Carrier: any linear order `α` with a multiplication (binary64 without NaN is one).
-/
namespace C02
open PU
variable {σ α : Type} [DecidableEq σ] [LinearOrder α] [Mul α]

/-- the empty exchange, `UistV1::new()` -/
abbrev init : Uist σ α := uinit

/-- every state reachable from the empty exchange by any sequence of insert / delete / tick
    (with any admission order) satisfies the id invariant the one-tick theorems need -/
theorem reachable_inv (ops : List (Op σ α)) : BookInv (run (init : Uist σ α) {} ops).1.book :=
  PU.reachable_inv ops

/-- the table of the property, order type by order type: a quoted resting order triggers iff … -/
theorem fill_iff_condition (o : Order σ α) (q : Quote α) : triggers o q = true ↔ Cond o q :=
  triggers_iff o q

/-- … spelled out for well-formed orders (priced types carry a price) -/
theorem table (id : Option Nat) (sym : σ) (sh p : α) (q : Quote α) :
    (∀ sd, triggers (⟨id, .market, sd, sym, sh, none⟩ : Order σ α) q = true) ∧
    (triggers (⟨id, .limit, .buy, sym, sh, some p⟩ : Order σ α) q = true ↔ q.ask ≤ p) ∧
    (triggers (⟨id, .limit, .sell, sym, sh, some p⟩ : Order σ α) q = true ↔ q.bid ≥ p) ∧
    (triggers (⟨id, .stop, .buy, sym, sh, some p⟩ : Order σ α) q = true ↔ q.ask ≥ p) ∧
    (triggers (⟨id, .stop, .sell, sym, sh, some p⟩ : Order σ α) q = true ↔ q.bid ≤ p) := by
  refine ⟨fun sd => by simp [triggers], ?_, ?_, ?_, ?_⟩ <;> simp [triggers, optGe, optLe]

/-- buys fill at the ask, sells at the bid, for exactly the ordered quantity, value = price × quantity,
    dated by the quote; no quote or condition not met ⇒ no trade -/
theorem fill_shape (quotes : σ → Option (Quote α)) (o : Order σ α) :
    (∀ t, tradeOn quotes o = some t → ∃ q, quotes o.symbol = some q ∧ Cond o q ∧
        t.symbol = o.symbol ∧ t.quantity = o.shares ∧ t.date = q.date ∧ t.side = o.side ∧
        t.value = (match o.side with | .buy => q.ask | .sell => q.bid) * o.shares) ∧
    (tradeOn quotes o = none ↔ (quotes o.symbol = none ∨ ∃ q, quotes o.symbol = some q ∧ ¬ Cond o q)) :=
  tradeOn_spec quotes o

/-- **C02, every history.** After any operation sequence, a tick reports exactly the trades of the
    resting orders that are quoted and meet their condition, in book order; every other resting
    order stays in the book unchanged and in its old relative order (followed by the admitted batch). -/
theorem tick_after_any_history (ops : List (Op σ α)) (quotes : σ → Option (Quote α))
    (adm : List (Order σ α)) :
    let s := (run (init : Uist σ α) {} ops).1
    let r := s.tick quotes adm
    r.2.1 = s.book.inner.filterMap (tradeOn quotes)
    ∧ r.1.book.inner = s.book.inner.filter (fun o => (tradeOn quotes o).isNone) ++ stamp s.book.last adm := by
  intro s r
  have hinv := reachable_inv (σ := σ) (α := α) ops
  refine ⟨(tick_spec s quotes adm hinv).1, ?_⟩
  have := (tick_full s quotes adm hinv).1
  rw [this]; congr 1
  apply List.filter_congr; intro o _; simp [fillsOn]

/-- a resting order that does not trade on a tick is still resting afterwards, unchanged -/
theorem unfilled_keeps_resting (ops : List (Op σ α)) (quotes : σ → Option (Quote α))
    (adm : List (Order σ α)) (o : Order σ α)
    (ho : o ∈ (run (init : Uist σ α) {} ops).1.book.inner) (hn : tradeOn quotes o = none) :
    o ∈ ((run (init : Uist σ α) {} ops).1.tick quotes adm).1.book.inner := by
  rw [(tick_after_any_history ops quotes adm).2]
  exact List.mem_append_left _ (List.mem_filter.mpr ⟨ho, by simp [hn]⟩)

/-! non-vacuity: a concrete book with one order of each priced type and a quote at the boundary -/
section
def q1 : Quote Nat := { bid := 10, ask := 11, date := 100 }
def book1 : List (Order String Nat) :=
  [ ⟨some 0, .limit, .buy, "A", 1, some 11⟩,   -- ask = limit: fills
    ⟨some 1, .limit, .buy, "A", 2, some 10⟩,   -- ask > limit: rests
    ⟨some 2, .stop, .sell, "A", 3, some 10⟩,   -- bid = stop: fills
    ⟨some 3, .market, .sell, "B", 4, none⟩ ]   -- not quoted: rests
def ex1 : Uist String Nat := { book := { inner := book1, last := 4 }, log := [], buffer := [] }
def quotes1 : String → Option (Quote Nat) := fun s => if s = "A" then some q1 else none

example : ((ex1.tick quotes1 []).2.1.map (fun t => (t.quantity, t.value, t.side)))
    = [(1, 11, .buy), (3, 30, .sell)] := by decide
example : (ex1.tick quotes1 []).1.book.inner.map (·.id) = [some 1, some 3] := by decide
end

end C02
