import AlatorVerif.Model.Basic
/-! diff_brkr_against_target_weights (repaired) — prototype model, core only -/
namespace PD
open Proto

structure Q (α : Type) where
  bid : α
  ask : α

inductive Ord (σ α : Type) where
  | buy (s : σ) (n : α)
  | sell (s : σ) (n : α)
deriving Repr

variable {σ α : Type} [Add α] [Sub α] [Mul α] [Div α] [Neg α] [OfNat α 0] [OfNat α 1]
  [LT α] [DecidableLT α] [LE α] [DecidableLE α] [HasFloor α]

def isZero (x : α) : Bool := decide (x ≤ 0) && decide ((0:α) ≤ x)   -- IEEE `== 0.0` off NaN
def absv (x : α) : α := if x < 0 then -x else x
def max0 (x : α) : α := if x < 0 then 0 else x                      -- `.max(0.0)` (repair F5b)

/-- the closure `calc_required_shares_with_costs`: positive = buy, negative = sell -/
def requiredShares (costs : List (Cost α)) (diff : α) (q : Q α) : α :=
  if diff < 0 then
    let c := impactTotal costs (absv diff) q.bid false
    Neg.neg (max0 (HasFloor.floor (c.1 / c.2)))
  else
    let c := impactTotal costs (absv diff) q.ask true
    max0 (HasFloor.floor (c.1 / c.2))

structure Ctx (σ α : Type) where
  costs : List (Cost α)
  quote : σ → Option (Q α)
  posValue : σ → Option α        -- `get_position_value`
  total : α                      -- `get_liquidation_value()`

/-- loop body for one `(symbol, weight)` entry: what is pushed, and to which vector -/
def entry (c : Ctx σ α) (sw : σ × α) : Option (Ord σ α) :=
  let curr := (c.posValue sw.1).getD 0
  let target := c.total * sw.2
  let diff := target - curr
  if isZero diff then none                      -- `continue` (repair F5a)
  else match c.quote sw.1 with
    | none => none
    | some q =>
      let r := requiredShares c.costs diff q
      if isZero r then none
      else if 0 < r then some (.buy sw.1 r) else some (.sell sw.1 (absv r))

def isSell : Ord σ α → Bool | .sell _ _ => true | _ => false

def diff (c : Ctx σ α) (ws : List (σ × α)) : List (Ord σ α) :=
  let all := ws.filterMap (entry c)
  all.filter isSell ++ all.filter (fun o => !isSell o)

end PD
