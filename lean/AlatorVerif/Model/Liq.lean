import AlatorVerif.Model.Basic
/-! withdraw_cash_with_liquidation (repaired) — prototype model, core only -/
namespace PL
open Proto

variable {σ α : Type} [Add α] [Sub α] [Mul α] [Div α] [OfNat α 0] [OfNat α 1]
  [LT α] [DecidableLT α] [LE α] [DecidableLE α] [HasFloor α]

structure B (σ α : Type) where
  cash : α
  hold : σ → Option α
  bid : σ → Option α           -- last seen bid
  costs : List (Cost α)

def posValue (b : B σ α) (s : σ) : Option α :=
  match b.bid s, b.hold s with
  | some p, some q => some (p * q)
  | _, _ => none

def posLiq (b : B σ α) (s : σ) : Option α :=
  match posValue b s, b.hold s with
  | some v, some q => some (impactTotal b.costs v (v / q) false).1
  | _, _ => none

/-- `get_liquidation_value` walking the key list `ks` -/
def liqValue (b : B σ α) (ks : List σ) : α :=
  ks.foldl (fun acc k => match posLiq b k with | some v => acc + v | none => acc) b.cash

inductive Out (σ α : Type) where
  | done (orders : List (σ × α))        -- broke out of the loop with total_sold = 0
  | left (rem : α) (orders : List (σ × α))   -- ran off the end with this much still to raise
  | panic                                -- `get_quote(..).unwrap()` on a missing quote

/-- the `for ticker in positions` loop -/
def walk (b : B σ α) : List σ → α → List (σ × α) → Out σ α
  | [], rem, acc => .left rem acc
  | k :: ks, rem, acc =>
    let pv := (posValue b k).getD 0
    if pv ≤ rem then
      match b.hold k with
      | some q => walk b ks (rem - pv) (acc ++ [(k, q)])
      | none => walk b ks rem acc
    else
      match b.bid k with
      | some p => .done (acc ++ [(k, HasFloor.ceil (rem / p))])
      | none => .panic

inductive Ev (α : Type) | success (c : α) | failure (c : α) | panic

def isZero (x : α) : Bool := decide (x ≤ 0) && decide ((0:α) ≤ x)

/-- returns the event, the sell orders handed to `send_orders`, and whether `debit(cash)` is attempted -/
def withdrawLiq (b : B σ α) (ks : List σ) (req : α) : Ev α × List (σ × α) × Bool :=
  if liqValue b ks < req then (.failure req, [], true)
  else match walk b ks req [] with
    | .done os => (.success req, os, false)
    | .left rem os => if isZero rem then (.success req, os, false) else (.failure req, [], true)
    | .panic => (.panic, [], false)

end PL
