import AlatorVerif.Model.Uist
/-! AppState over UistV1 — literal prototype model (multi-backtest), core only -/
namespace PSU
open PU

structure Dataset (σ α : Type) where
  dates : List Int                       -- first-insertion order
  quotes : Int → σ → Option (Quote α)

structure Backtest (σ α : Type) where
  date : Int
  pos : Nat
  exch : Uist σ α
  dataset : String

structure App (σ α : Type) where
  backtests : Nat → Option (Backtest σ α)
  last : Nat
  datasets : String → Option (Dataset σ α)

variable {σ α : Type} [DecidableEq σ] [LE α] [DecidableLE α] [Mul α]

def setBt (a : App σ α) (id : Nat) (b : Backtest σ α) : App σ α :=
  { a with backtests := fun i => if i = id then some b else a.backtests i }

def freshExch : Uist σ α := { book := { inner := [], last := 0 }, log := [], buffer := [] }

/-- `AppState::single` -/
def single (name : String) (ds : Dataset σ α) : Option (App σ α) :=
  match ds.dates with
  | [] => none                                   -- `get_date(0).unwrap()`
  | d0 :: _ =>
    some { backtests := fun i => if i = 0 then some { date := d0, pos := 0, exch := freshExch, dataset := name } else none,
           last := 1, datasets := fun n => if n = name then some ds else none }

inductive Res (β : Type) | ok (x : β) | none | panic

/-- `AppState::tick` -/
def tick (a : App σ α) (id : Nat) (adm : List (Order σ α)) :
    Option (Bool × List (Trade σ α) × List (Order σ α)) × App σ α :=
  match a.backtests id with
  | none => (none, a)
  | some bt =>
    match a.datasets bt.dataset with
    | none => (none, a)
    | some ds =>
      -- `dataset.get_quotes(&date)` is `Some` exactly for dates that were inserted
      let (ex', ts, ins) := if ds.dates.contains bt.date then bt.exch.tick (ds.quotes bt.date) adm
                            else (bt.exch, [], [])
      let newPos := bt.pos + 1
      let hasNext := decide (newPos < ds.dates.length)
      let date' := if hasNext then ds.dates.getD newPos bt.date else bt.date
      (some (hasNext, ts, ins), setBt a id { bt with exch := ex', pos := newPos, date := date' })

/-- `AppState::init`; `storesLast = false` is the pinned tree (F2) -/
def init (storesLast : Bool) (a : App σ α) (name : String) : Res Nat × App σ α :=
  match a.datasets name with
  | none => (.none, a)
  | some ds =>
    match ds.dates with
    | [] => (.panic, a)
    | d0 :: _ =>
      let id := a.last + 1
      let a' := setBt a id { date := d0, pos := 0, exch := freshExch, dataset := name }
      (.ok id, if storesLast then { a' with last := id } else a')

/-- `AppState::new_backtest` -/
def newBacktest (a : App σ α) (name : String) : Res Nat × App σ α := init true a name

def insert (a : App σ α) (id : Nat) (o : Order σ α) : Bool × App σ α :=
  match a.backtests id with
  | none => (false, a)
  | some bt => (true, setBt a id { bt with exch := { bt.exch with buffer := bt.exch.buffer ++ [o] } })

def delete (a : App σ α) (id oid : Nat) : Bool × App σ α :=
  match a.backtests id with
  | none => (false, a)
  | some bt => (true, setBt a id { bt with exch := { bt.exch with book := bt.exch.book.delete oid } })

/-- `fetch_quotes`: the date's quotes, if the backtest, its dataset and the date exist -/
def fetch (a : App σ α) (id : Nat) : Option (Int × (σ → Option (Quote α))) :=
  match a.backtests id with
  | none => none
  | some bt => match a.datasets bt.dataset with
    | none => none
    | some ds => if ds.dates.contains bt.date then some (bt.date, ds.quotes bt.date) else none

def now (a : App σ α) (id : Nat) : Option (Int × Bool) :=
  match a.backtests id with
  | none => none
  | some bt => match a.datasets bt.dataset with
    | none => none
    | some ds => some (bt.date, decide (bt.pos < ds.dates.length))

end PSU
