import AlatorVerif.Model.Penelope
import AlatorVerif.Model.Srv
/-! the dataset a server holds is a `Penelope` store: `Dataset.ofPen` is the view `AppState` uses of it
    (`get_date(pos)`, `has_next(pos)`, `get_quotes(date)`) (core only) -/
namespace SV
open PPen
variable {σ α Q : Type} [DecidableEq σ]

/-- `syms`: the symbols to look up (the inner `HashMap`'s keys); `mk` packs the quotes of one date into
    the exchange's quote type -/
def Dataset.ofPen (p : Pen σ α) (syms : List σ) (mk : List (Entry σ α) → Q) : Dataset Q :=
  { dates := p.dates,
    quotes := fun d => if p.hasDate d then some (mk (syms.filterMap (p.quote d))) else none }

end SV
