/-! Uist exchange: literal model prototype (core only) -/
namespace PU

inductive Side | buy | sell deriving DecidableEq, Repr
inductive Kind | market | limit | stop deriving DecidableEq, Repr

structure Order (σ α : Type) where
  id : Option Nat
  kind : Kind
  side : Side
  symbol : σ
  shares : α
  price : Option α
deriving Repr

structure Quote (α : Type) where
  bid : α
  ask : α
  date : Int
deriving Repr

structure Trade (σ α : Type) where
  symbol : σ
  value : α
  quantity : α
  date : Int
  side : Side
deriving Repr

structure Book (σ α : Type) where
  inner : List (Order σ α)
  last : Nat

structure Uist (σ α : Type) where
  book : Book σ α
  log : List (Trade σ α)
  buffer : List (Order σ α)

variable {σ α : Type} [DecidableEq σ] [LE α] [DecidableLE α] [Mul α]

/-- `OrderBook::delete_order`: remove the first resting order whose id matches -/
def deleteFirst (id : Nat) : List (Order σ α) → List (Order σ α)
  | [] => []
  | o :: os => if o.id = some id then os else o :: deleteFirst id os

def Book.delete (b : Book σ α) (id : Nat) : Book σ α := { b with inner := deleteFirst id b.inner }

/-- `OrderBook::insert_order` -/
def Book.insert (b : Book σ α) (o : Order σ α) : Book σ α × Order σ α :=
  let o' := { o with id := some b.last }
  ({ inner := b.inner ++ [o'], last := b.last + 1 }, o')

/-- Option<f64> comparison `order.price >= Some(x)` (None < Some) -/
def optGe (p : Option α) (x : α) : Bool := match p with | none => false | some v => decide (x ≤ v)
def optLe (p : Option α) (x : α) : Bool := match p with | none => true | some v => decide (v ≤ x)

def triggers (o : Order σ α) (q : Quote α) : Bool :=
  match o.kind, o.side with
  | .market, _ => true
  | .limit, .buy => optGe o.price q.ask
  | .limit, .sell => optLe o.price q.bid
  | .stop, .buy => optLe o.price q.ask
  | .stop, .sell => optGe o.price q.bid

def execOne (o : Order σ α) (q : Quote α) : Trade σ α :=
  let px := match o.side with | .buy => q.ask | .sell => q.bid
  { symbol := o.symbol, value := px * o.shares, quantity := o.shares, date := q.date, side := o.side }

/-- body of the `for order in self.inner.iter()` loop: the trade this order produces, if any -/
def tradeOn (quotes : σ → Option (Quote α)) (o : Order σ α) : Option (Trade σ α) :=
  match quotes o.symbol with
  | none => none
  | some q => if triggers o q then some (execOne o q) else none

/-- the matching pass: ids to delete and trades, in book order -/
def matchPass (quotes : σ → Option (Quote α)) : List (Order σ α) → List Nat × List (Trade σ α)
  | [] => ([], [])
  | o :: os =>
    let r := matchPass quotes os
    match tradeOn quotes o with
    | some t => (o.id.getD 0 :: r.1, t :: r.2)   -- `order.order_id.unwrap()`
    | none => r

def Book.execute (b : Book σ α) (quotes : σ → Option (Quote α)) : Book σ α × List (Trade σ α) :=
  let (ids, ts) := matchPass quotes b.inner
  (ids.foldl Book.delete b, ts)

def isSell (o : Order σ α) : Bool := o.side = .sell

/-- admission with the implementation-chosen order `adm` (a permutation of the buffer) -/
def Uist.tick (s : Uist σ α) (quotes : σ → Option (Quote α)) (adm : List (Order σ α)) :
    Uist σ α × List (Trade σ α) × List (Order σ α) :=
  let (b1, ts) := s.book.execute quotes
  let (b2, admitted) := adm.foldl (fun (acc : Book σ α × List (Order σ α)) o =>
      let (b', o') := acc.1.insert o; (b', acc.2 ++ [o'])) (b1, [])
  ({ book := b2, log := s.log ++ ts, buffer := [] }, ts, admitted)

/-- ids in the book are strictly increasing and below `last` -/
def BookInv (b : Book σ α) : Prop :=
  List.Pairwise (fun x y => ∃ i j, x.id = some i ∧ y.id = some j ∧ i < j) b.inner ∧
  ∀ o ∈ b.inner, ∃ i, o.id = some i ∧ i < b.last

theorem deleteFirst_sublist (id : Nat) (l : List (Order σ α)) : (deleteFirst id l).Sublist l := by
  induction l with
  | nil => simp [deleteFirst]
  | cons o os ih =>
    simp only [deleteFirst]; split
    · exact List.sublist_cons_self _ _
    · exact ih.cons₂ _

theorem delete_inv (b : Book σ α) (id : Nat) (h : BookInv b) : BookInv (b.delete id) := by
  obtain ⟨h1, h2⟩ := h
  refine ⟨h1.sublist (deleteFirst_sublist id _), fun o ho => h2 o ((deleteFirst_sublist id _).subset ho)⟩

theorem insert_inv (b : Book σ α) (o : Order σ α) (h : BookInv b) : BookInv (b.insert o).1 := by
  obtain ⟨h1, h2⟩ := h
  refine ⟨?_, ?_⟩
  · simp only [Book.insert, List.pairwise_append, List.pairwise_cons, List.Pairwise.nil, and_true]
    refine ⟨h1, by simp, ?_⟩
    intro x hx y hy
    simp at hy; subst hy
    obtain ⟨i, hi, hlt⟩ := h2 x hx
    exact ⟨i, b.last, hi, rfl, hlt⟩
  · intro x hx
    simp only [Book.insert, List.mem_append, List.mem_singleton] at hx
    rcases hx with hx | hx
    · obtain ⟨i, hi, hlt⟩ := h2 x hx; exact ⟨i, hi, by simp [Book.insert]; omega⟩
    · subst hx; exact ⟨b.last, rfl, by simp [Book.insert]⟩

/-- under the invariant, delete-first-by-id removes exactly the orders with that id -/
theorem deleteFirst_eq_filter (id : Nat) (l : List (Order σ α))
    (h : List.Pairwise (fun x y => ∃ i j, x.id = some i ∧ y.id = some j ∧ i < j) l) :
    deleteFirst id l = l.filter (fun o => o.id ≠ some id) := by
  induction l with
  | nil => simp [deleteFirst]
  | cons o os ih =>
    rw [List.pairwise_cons] at h
    simp only [deleteFirst]
    split
    · rename_i heq
      have : ∀ y ∈ os, y.id ≠ some id := by
        intro y hy hc
        obtain ⟨i, j, hi, hj, hlt⟩ := h.1 y hy
        rw [heq] at hi; rw [hc] at hj; cases hi; cases hj; omega
      have hf : os.filter (fun o => decide (o.id ≠ some id)) = os :=
        List.filter_eq_self.mpr (fun y hy => by simp [this y hy])
      simp only [List.filter_cons, heq, ne_eq, not_true_eq_false, decide_false, Bool.false_eq_true, if_false]
      exact hf.symm
    · rename_i hne
      simp [hne, ih h.2]

end PU
