/-! AppState model, parametric in the exchange (prototype, core only) -/
namespace PS

/-- what the server needs from an exchange -/
structure ExchOps (E Q O R : Type) where
  new : E
  tick : E → Q → E × R
  insert : E → O → E
  emptyR : R

structure Dataset (Q : Type) where
  dates : List Int
  quotes : Int → Option Q      -- `inner.get(date)`

structure Backtest (E : Type) where
  date : Int
  pos : Nat
  exch : E
  dataset : String

structure App (E Q : Type) where
  backtests : Nat → Option (Backtest E)
  last : Nat
  datasets : String → Option (Dataset Q)

variable {E Q O R : Type} (X : ExchOps E Q O R)

def setBt (a : App E Q) (id : Nat) (b : Backtest E) : App E Q :=
  { a with backtests := fun i => if i = id then some b else a.backtests i }

/-- `AppState::tick` (repaired Jura version = Uist version) -/
def tick (a : App E Q) (id : Nat) : Option (Bool × R) × App E Q :=
  match a.backtests id with
  | none => (none, a)
  | some bt =>
    match a.datasets bt.dataset with
    | none => (none, a)
    | some ds =>
      let (ex', r) := match ds.quotes bt.date with
        | some q => X.tick bt.exch q
        | none => (bt.exch, X.emptyR)
      let newPos := bt.pos + 1
      let hasNext := decide (newPos < ds.dates.length)
      let date' := if hasNext then ds.dates.getD newPos bt.date else bt.date
      (some (hasNext, r), setBt a id { bt with exch := ex', pos := newPos, date := date' })

/-- `AppState::init` (repaired: stores the new id) -/
def init (a : App E Q) (name : String) : Option Nat × App E Q :=
  match a.datasets name with
  | none => (none, a)
  | some ds =>
    match ds.dates with
    | [] => (none, a)       -- the code unwraps `get_date(0)`; an empty dataset panics (excluded by WF)
    | d0 :: _ =>
      let id := a.last + 1
      (some id, { setBt a id { date := d0, pos := 0, exch := X.new, dataset := name } with last := id })

def insert (a : App E Q) (id : Nat) (o : O) : Option Unit × App E Q :=
  match a.backtests id with
  | none => (none, a)
  | some bt => (some (), setBt a id { bt with exch := X.insert bt.exch o })

def fetch (a : App E Q) (id : Nat) : Option Q :=
  match a.backtests id with
  | none => none
  | some bt => match a.datasets bt.dataset with
    | none => none
    | some ds => ds.quotes bt.date

def now (a : App E Q) (id : Nat) : Option (Int × Bool) :=
  match a.backtests id with
  | none => none
  | some bt => match a.datasets bt.dataset with
    | none => none
    | some ds => some (bt.date, decide (bt.pos < ds.dates.length))

/-! ### C07: the clock -/

/-- state of backtest `id` after `k` ticks with nothing else changing its clock -/
def ticks (a : App E Q) (id : Nat) : Nat → App E Q
  | 0 => a
  | k + 1 => (tick X (ticks a id k) id).2

theorem tick_clock (a : App E Q) (id : Nat) (bt : Backtest E) (ds : Dataset Q)
    (hb : a.backtests id = some bt) (hd : a.datasets bt.dataset = some ds) :
    ∃ bt', (tick X a id).2.backtests id = some bt' ∧ bt'.dataset = bt.dataset
      ∧ bt'.pos = bt.pos + 1
      ∧ bt'.date = (if bt.pos + 1 < ds.dates.length then ds.dates.getD (bt.pos + 1) bt.date else bt.date)
      ∧ (tick X a id).2.datasets = a.datasets
      ∧ ∃ r, (tick X a id).1 = some (decide (bt.pos + 1 < ds.dates.length), r) := by
  simp only [tick, hb, hd, setBt, if_true]
  exact ⟨_, rfl, rfl, rfl, by simp, trivial, _, rfl⟩

/-- C07 core: after k ≤ N ticks of a fresh backtest, pos = k and the clock shows d(min(k+1,N)) -/
theorem clock_after (a : App E Q) (id : Nat) (ds : Dataset Q) (name : String) (d0 : Int)
    (hd : a.datasets name = some ds) (k : Nat) :
    ∀ bt, a.backtests id = some bt → bt.dataset = name → bt.pos = 0 → bt.date = ds.dates.getD 0 d0 →
    0 < ds.dates.length → k ≤ ds.dates.length →
    ∃ bt', (ticks X a id k).backtests id = some bt' ∧ bt'.dataset = name ∧ bt'.pos = k
      ∧ bt'.date = ds.dates.getD (min k (ds.dates.length - 1)) d0
      ∧ (ticks X a id k).datasets = a.datasets := by
  induction k with
  | zero => intro bt hb hn hp hdt _ _; exact ⟨bt, hb, hn, hp, by simpa using hdt, rfl⟩
  | succ k ih =>
    intro bt hb hn hp hdt hpos hk
    obtain ⟨bt1, h1, h2, h3, h4, h5⟩ := ih bt hb hn hp hdt hpos (by omega)
    have hd1 : (ticks X a id k).datasets bt1.dataset = some ds := by rw [h5, h2]; exact hd
    obtain ⟨bt2, g1, g2, g3, g4, g5, _⟩ := tick_clock X (ticks X a id k) id bt1 ds h1 hd1
    refine ⟨bt2, g1, by rw [g2, h2], by rw [g3, h3], ?_, by show (tick X (ticks X a id k) id).2.datasets = _; rw [g5, h5]⟩
    rw [g4, h3, h4]
    by_cases hlt : k + 1 < ds.dates.length
    · simp only [hlt, if_true]
      have : min (k + 1) (ds.dates.length - 1) = k + 1 := by omega
      rw [this]
      simp [List.getD_eq_getElem?_getD, List.getElem?_eq_getElem hlt]
    · simp only [hlt, if_false]
      have e1 : min (k + 1) (ds.dates.length - 1) = ds.dates.length - 1 := by omega
      have e2 : min k (ds.dates.length - 1) = ds.dates.length - 1 := by omega
      rw [e1, e2]

/-! ### C08: non-interference -/

theorem tick_other (a : App E Q) (id j : Nat) (h : j ≠ id) :
    (tick X a id).2.backtests j = a.backtests j ∧ (tick X a id).2.last = a.last
    ∧ (tick X a id).2.datasets = a.datasets := by
  unfold tick
  split
  · exact ⟨rfl, rfl, rfl⟩
  · split
    · exact ⟨rfl, rfl, rfl⟩
    · simp [setBt, h]

theorem init_fresh (a : App E Q) (name : String) (id : Nat) (a' : App E Q)
    (h : init X a name = (some id, a')) :
    id = a.last + 1 ∧ a'.last = id ∧ (∀ j, j ≠ id → a'.backtests j = a.backtests j)
    ∧ ∃ bt, a'.backtests id = some bt ∧ bt.pos = 0 ∧ bt.dataset = name := by
  unfold init at h
  split at h
  · cases h
  · split at h
    · cases h
    · simp only [Prod.mk.injEq, Option.some.injEq] at h
      obtain ⟨h1, h2⟩ := h
      subst h2; subst h1
      refine ⟨rfl, rfl, ?_, ?_⟩
      · intro j hj; simp [setBt, hj]
      · simp only [setBt, if_true]; exact ⟨_, rfl, rfl, rfl⟩

theorem init_unknown (a : App E Q) (name : String) (h : a.datasets name = none) :
    init X a name = (none, a) := by simp [init, h]

end PS
