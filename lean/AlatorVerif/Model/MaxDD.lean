/-! maxdd (repaired version) — model, core only -/
namespace PDD

structure St (α : Type) where
  maxdd : α
  peak : α
  peakPos : Nat
  trough : α
  troughPos : Nat
  ddStart : Nat
  ddEnd : Nat

variable {α : Type} [LT α] [DecidableLT α] [Sub α] [Div α] [OfNat α 0] [OfNat α 1]

def init : St α := ⟨0, 0, 0, 0, 0, 0, 0⟩

def step (st : St α) (pos : Nat) (t : α) : St α :=
  if st.peak < t then
    { st with peak := t, peakPos := pos, trough := t, troughPos := pos }
  else if t < st.trough then
    let t2 := t / st.peak - 1
    if t2 < st.maxdd then
      { st with trough := t, troughPos := pos, maxdd := t2, ddStart := st.peakPos, ddEnd := pos }
    else
      { st with trough := t, troughPos := pos }
  else st

/-- fold with running position, as `values.iter().enumerate()` -/
def go (st : St α) (pos : Nat) : List α → St α
  | [] => st
  | t :: ts => go (step st pos t) (pos + 1) ts

def maxdd (vs : List α) : α × Nat × Nat :=
  let st := go (init : St α) 0 vs
  (st.maxdd, st.ddStart, st.ddEnd)

end PDD
