import AlatorVerif.Model.ServerU
import AlatorVerif.Model.Json
/-! Uist JSON service: handlers over the server model, responses as JSON ASTs — prototype (core only) -/
namespace PH
open PU PSU PJs

variable {α : Type} [LE α] [DecidableLE α] [Mul α]

def encSide : Side → Json α | .buy => .str "Buy" | .sell => .str "Sell"

def typName (o : PU.Order String α) : String :=
  match o.kind, o.side with
  | .market, .sell => "MarketSell" | .market, .buy => "MarketBuy" | .limit, .sell => "LimitSell"
  | .limit, .buy => "LimitBuy" | .stop, .sell => "StopSell" | .stop, .buy => "StopBuy"

/-- serde derive of `Order` -/
def encOrd (o : PU.Order String α) : Json α :=
  .obj [("order_id", match o.id with | none => .null | some n => .int n),
        ("order_type", .str (typName o)),
        ("symbol", .str o.symbol),
        ("shares", .num o.shares),
        ("price", match o.price with | none => .null | some p => .num p)]

/-- serde derive of `Trade` -/
def encTrade (t : Trade String α) : Json α :=
  .obj [("symbol", .str t.symbol), ("value", .num t.value), ("quantity", .num t.quantity),
        ("date", .int t.date), ("typ", encSide t.side)]

/-- serde derive of `PenelopeQuote` -/
def encQuote (sym : String) (q : Quote α) : Json α :=
  .obj [("bid", .num q.bid), ("ask", .num q.ask), ("symbol", .str sym), ("date", .int q.date)]

inductive Req (α : Type) where
  | init (name : String)
  | tick (id : Nat) (adm : List (PU.Order String α))     -- `adm`: the admission-order oracle, not on the wire
  | insert (id : Nat) (o : PU.Order String α)
  | delete (id oid : Nat)
  | fetch (id : Nat)
  | info (id : Nat)
  | now (id : Nat)

/-- status code and body; 400 carries no JSON we rely on -/
structure Rsp (α : Type) where
  status : Nat
  body : Option (Json α)

def bad : Rsp α := ⟨400, none⟩
def ok (j : Json α) : Rsp α := ⟨200, some j⟩

/-- the handlers of `uistv1_server`, over the model of `AppState` -/
def handle (storesLast : Bool) (syms : List String) (a : App String α) : Req α → Rsp α × App String α
  | .init name =>
    match init storesLast a name with
    | (.ok id, a') => (ok (.obj [("backtest_id", .int id)]), a')
    | (.none, a') => (bad, a')
    | (.panic, a') => (⟨500, none⟩, a')
  | .tick id adm =>
    match tick a id adm with
    | (some (hn, ts, ins), a') =>
      (ok (.obj [("has_next", .bool hn), ("executed_trades", .arr (ts.map encTrade)),
                 ("inserted_orders", .arr (ins.map encOrd))]), a')
    | (none, a') => (bad, a')
  | .insert id o => match insert a id o with | (true, a') => (ok .null, a') | (false, a') => (bad, a')
  | .delete id oid => match delete a id oid with | (true, a') => (ok .null, a') | (false, a') => (bad, a')
  | .fetch id =>
    match fetch a id with
    | some (_, q) => (ok (.obj [("quotes", .obj (syms.filterMap (fun s => (q s).map (fun x => (s, encQuote s x)))))]), a)
    | none => (bad, a)
  | .info id =>
    match a.backtests id with
    | some bt => (ok (.obj [("version", .str "v1"), ("dataset", .str bt.dataset)]), a)
    | none => (bad, a)
  | .now id =>
    match now a id with
    | some (d, hn) => (ok (.obj [("now", .int d), ("has_next", .bool hn)]), a)
    | none => (bad, a)

end PH
