/-! JuraV1 order book (repaired F1) — literal prototype model, core only -/
namespace PJ

inductive Tif | alo | ioc | gtc deriving DecidableEq, Repr
inductive Tpsl | tp | sl deriving DecidableEq, Repr

inductive OType (α : Type) where
  | limit (tif : Tif)
  | trigger (px : α) (isMarket : Bool) (tpsl : Tpsl)
deriving Repr

structure Order (α : Type) where
  asset : Nat
  isBuy : Bool
  limitPx : α          -- parsed `limit_px`
  sz : α               -- parsed `sz`
  reduceOnly : Bool
  cloid : Option String
  typ : OType α
deriving Repr

structure Inner (α : Type) where
  id : Nat
  order : Order α
  attempted : Bool
deriving Repr

structure Quote (α : Type) where
  bid : α
  ask : α
  date : Int

structure Fill (α : Type) where
  coin : Nat
  oid : Nat
  px : α
  buy : Bool           -- side "A" for buys (sic), "B" for sells
  sz : α
  time : Int
deriving Repr

variable {α : Type} [LE α] [DecidableLE α] [Add α] [Sub α] [Mul α] [OfNat α 1] [OfScientific α]

/-- what visiting one resting order during `execute_orders` does -/
structure Visit (α : Type) where
  order : Inner α                 -- the (possibly flag-updated) order left in place
  fill : Option (Fill α) := none
  del : Bool := false             -- pushed onto `should_delete`
  child : Option (Order α) := none  -- pushed onto `should_insert`
  panic : Bool := false           -- `unimplemented!()` for Alo

def mkFill (o : Inner α) (q : Quote α) (buy : Bool) : Fill α :=
  { coin := o.order.asset, oid := o.id, px := if buy then q.ask else q.bid, buy := buy,
    sz := o.order.sz, time := q.date }

def childOf (o : Inner α) (tif : Tif) : Order α := { o.order with typ := .limit tif }

def slippage : α := 0.1

def visit (o : Inner α) (q : Quote α) : Visit α :=
  match o.order.typ with
  | .limit .ioc =>
    if o.attempted then { order := o, del := true }
    else
      let o' := { o with attempted := true }
      if o.order.isBuy then
        if q.ask ≤ o.order.limitPx * (1 + slippage) then
          { order := o', del := true, fill := some (mkFill o' q true) }
        else { order := o' }
      else if o.order.limitPx * (1 - slippage) ≤ q.bid then
        { order := o', del := true, fill := some (mkFill o' q false) }
      else { order := o' }
  | .limit .gtc =>
    if o.order.isBuy then
      if q.ask ≤ o.order.limitPx then { order := o, del := true, fill := some (mkFill o q true) }
      else { order := o }
    else if o.order.limitPx ≤ q.bid then { order := o, del := true, fill := some (mkFill o q false) }
    else { order := o }
  | .limit .alo => { order := o, panic := true }
  | .trigger px isMarket tpsl =>
    let fires : Bool := match tpsl, o.order.isBuy with
      | .sl, true => decide (px ≤ q.ask)
      | .sl, false => decide (q.bid ≤ px)      -- repaired
      | .tp, true => decide (q.ask ≤ px)
      | .tp, false => decide (px ≤ q.bid)      -- repaired
    if fires then { order := o, del := true, child := some (childOf o (if isMarket then .ioc else .gtc)) }
    else { order := o }

structure Pass (α : Type) where
  inner : List (Inner α) := []
  fills : List (Fill α) := []
  dels : List (Nat × Nat) := []
  children : List (Order α) := []
  panic : Bool := false

/-- the `for order in self.inner.iter_mut()` loop -/
def pass (quotes : Nat → Option (Quote α)) : List (Inner α) → Pass α
  | [] => {}
  | o :: os =>
    let r := pass quotes os
    match quotes o.order.asset with
    | none => { r with inner := o :: r.inner }
    | some q =>
      let v := visit o q
      { inner := v.order :: r.inner,
        fills := (match v.fill with | some f => f :: r.fills | none => r.fills),
        dels := (if v.del then (o.order.asset, o.id) :: r.dels else r.dels),
        children := (match v.child with | some c => c :: r.children | none => r.children),
        panic := v.panic || r.panic }

end PJ

namespace PJ
variable {α : Type} [LE α] [DecidableLE α] [Add α] [Sub α] [Mul α] [OfNat α 1] [OfScientific α]

structure Book (α : Type) where
  inner : List (Inner α) := []
  last : Nat := 0

/-- `OrderBook::delete_order(asset, order_id)`: first match on both -/
def deleteFirst (asset id : Nat) : List (Inner α) → List (Inner α)
  | [] => []
  | o :: os => if o.id = id ∧ o.order.asset = asset then os else o :: deleteFirst asset id os

def Book.delete (b : Book α) (asset id : Nat) : Book α := { b with inner := deleteFirst asset id b.inner }

def Book.insert (b : Book α) (o : Order α) : Book α × Nat :=
  ({ inner := b.inner ++ [{ id := b.last, order := o, attempted := false }], last := b.last + 1 }, b.last)

/-- `OrderBook::execute_orders`: returns fills, ids of triggered children, and the panic flag -/
def Book.execute (b : Book α) (quotes : Nat → Option (Quote α)) : Book α × List (Fill α) × List Nat × Bool :=
  let p := pass quotes b.inner
  let b1 := p.dels.foldl (fun acc d => acc.delete d.1 d.2) { b with inner := p.inner }
  let r := p.children.foldl (fun (acc : Book α × List Nat) c =>
      let x := acc.1.insert c; (x.1, acc.2 ++ [x.2])) (b1, [])
  (r.1, p.fills, r.2, p.panic)

structure Jura (α : Type) where
  book : Book α := {}
  log : List (Fill α) := []
  buffer : List (Order α) := []

/-- `JuraV1::tick` with the implementation-chosen admission order -/
def Jura.tick (s : Jura α) (quotes : Nat → Option (Quote α)) (adm : List (Order α)) :
    Jura α × List (Fill α) × List Nat × Bool :=
  let (b1, fills, kids, pn) := s.book.execute quotes
  let b2 := adm.foldl (fun acc o => (acc.insert o).1) b1
  ({ book := b2, log := s.log ++ fills, buffer := [] }, fills, kids, pn)

end PJ
