/-! `Penelope`, the quote store: dates in first-insertion order, quotes per date per symbol (core only) -/
namespace PPen

structure Entry (σ α : Type) where
  date : Int
  sym : σ
  bid : α
  ask : α

/-- `dates`: the `Vec<i64>`; `entries`: every `add_quote` call so far, latest last (the inner maps are
    recovered from it: for a (date, symbol) the latest entry wins, as `HashMap::insert` overwrites) -/
structure Pen (σ α : Type) where
  dates : List Int := []
  entries : List (Entry σ α) := []

variable {σ α : Type} [DecidableEq σ]

/-- `Penelope::add_quote`: a date is appended to `dates` only if no quote was stored for it before -/
def Pen.addQuote (p : Pen σ α) (bid ask : α) (date : Int) (sym : σ) : Pen σ α :=
  { dates := if p.dates.contains date then p.dates else p.dates ++ [date],
    entries := p.entries ++ [⟨date, sym, bid, ask⟩] }

/-- `get_quotes(date)[sym]`: the latest entry for that date and symbol -/
def Pen.quote (p : Pen σ α) (date : Int) (sym : σ) : Option (Entry σ α) :=
  p.entries.reverse.find? (fun e => e.date == date && e.sym == sym)

/-- `get_quotes(date).is_some()` -/
def Pen.hasDate (p : Pen σ α) (date : Int) : Bool := p.dates.contains date

def Pen.getDate (p : Pen σ α) (pos : Nat) : Option Int := p.dates[pos]?
def Pen.hasNext (p : Pen σ α) (pos : Nat) : Bool := decide (pos < p.dates.length)

def Pen.addAll (p : Pen σ α) : List (Entry σ α) → Pen σ α
  | [] => p
  | e :: es => (p.addQuote e.bid e.ask e.date e.sym).addAll es

/-! ### what `add_quote` guarantees -/

omit [DecidableEq σ] in
theorem addQuote_nodup (p : Pen σ α) (h : p.dates.Nodup) (b a : α) (d : Int) (s : σ) :
    (p.addQuote b a d s).dates.Nodup := by
  unfold Pen.addQuote
  by_cases hc : p.dates.contains d = true
  · simp only [hc, if_true]; exact h
  · simp only [hc, Bool.false_eq_true, if_false]
    rw [List.nodup_append]
    refine ⟨h, by simp, ?_⟩
    intro x hx y hy
    simp at hy; subst hy
    intro hxy; subst hxy
    exact hc (by simpa using hx)

/-- a date is listed iff some quote was stored under it -/
def DatesAreEntryDates (p : Pen σ α) : Prop := ∀ d, d ∈ p.dates ↔ ∃ e ∈ p.entries, e.date = d

omit [DecidableEq σ] in
theorem addQuote_dates (p : Pen σ α) (h : DatesAreEntryDates p) (b a : α) (d : Int) (s : σ) :
    DatesAreEntryDates (p.addQuote b a d s) := by
  intro x
  unfold Pen.addQuote
  by_cases hc : p.dates.contains d = true
  · have hd : d ∈ p.dates := by simpa using hc
    simp only [hc, if_true, List.mem_append, List.mem_singleton]
    constructor
    · intro hx; obtain ⟨e, he, hed⟩ := (h x).mp hx; exact ⟨e, Or.inl he, hed⟩
    · rintro ⟨e, he | he, hed⟩
      · exact (h x).mpr ⟨e, he, hed⟩
      · subst he; simp only at hed; subst hed; exact hd
  · simp only [hc, Bool.false_eq_true, if_false, List.mem_append, List.mem_singleton]
    constructor
    · rintro (hx | hx)
      · obtain ⟨e, he, hed⟩ := (h x).mp hx; exact ⟨e, Or.inl he, hed⟩
      · exact ⟨⟨d, s, b, a⟩, Or.inr rfl, hx.symm⟩
    · rintro ⟨e, he | he, hed⟩
      · exact Or.inl ((h x).mpr ⟨e, he, hed⟩)
      · subst he; exact Or.inr hed.symm

omit [DecidableEq σ] in
/-- quotes inserted in non-decreasing date order give strictly increasing `dates`: the dataset
    `d1 < … < dN` of C07 is what loading a series date by date builds -/
theorem addQuote_sorted (p : Pen σ α) (h : p.dates.Pairwise (· < ·)) (b a : α) (d : Int) (s : σ)
    (hlast : ∀ x ∈ p.dates, x ≤ d) : (p.addQuote b a d s).dates.Pairwise (· < ·) ∧
      ∀ x ∈ (p.addQuote b a d s).dates, x ≤ d := by
  unfold Pen.addQuote
  by_cases hc : p.dates.contains d = true
  · simp only [hc, if_true]; exact ⟨h, hlast⟩
  · simp only [hc, Bool.false_eq_true, if_false]
    have hnot : d ∉ p.dates := fun hm => hc (by simpa using hm)
    refine ⟨?_, ?_⟩
    · rw [List.pairwise_append]
      refine ⟨h, List.pairwise_singleton _ _, ?_⟩
      intro x hx y hy
      simp at hy; subst hy
      exact Int.lt_iff_le_and_ne.mpr ⟨hlast x hx, fun e => hnot (e ▸ hx)⟩
    · intro x hx
      simp only [List.mem_append, List.mem_singleton] at hx
      rcases hx with hx | hx
      · exact hlast x hx
      · exact hx ▸ Int.le_refl _

omit [DecidableEq σ] in
theorem addAll_sorted : ∀ (es : List (Entry σ α)) (p : Pen σ α), p.dates.Pairwise (· < ·) →
    (∀ x ∈ p.dates, ∀ e ∈ es, x ≤ e.date) → es.Pairwise (fun e f => e.date ≤ f.date) →
    (p.addAll es).dates.Pairwise (· < ·)
  | [], p, h, _, _ => h
  | e :: es, p, h, hle, hs => by
    rw [List.pairwise_cons] at hs
    obtain ⟨h1, h2⟩ := addQuote_sorted p h e.bid e.ask e.date e.sym (fun x hx => hle x hx e (by simp))
    exact addAll_sorted es _ h1 (fun x hx f hf => Int.le_trans (h2 x hx) (hs.1 f hf)) hs.2

omit [DecidableEq σ] in
theorem addAll_nodup : ∀ (es : List (Entry σ α)) (p : Pen σ α), p.dates.Nodup → (p.addAll es).dates.Nodup
  | [], _, h => h
  | e :: es, p, h => addAll_nodup es _ (addQuote_nodup p h e.bid e.ask e.date e.sym)

omit [DecidableEq σ] in
theorem addAll_dates : ∀ (es : List (Entry σ α)) (p : Pen σ α), DatesAreEntryDates p →
    DatesAreEntryDates (p.addAll es)
  | [], _, h => h
  | e :: es, p, h => addAll_dates es _ (addQuote_dates p h e.bid e.ask e.date e.sym)

omit [DecidableEq σ] in
theorem addAll_entries : ∀ (es : List (Entry σ α)) (p : Pen σ α), (p.addAll es).entries = p.entries ++ es
  | [], p => by simp [Pen.addAll]
  | e :: es, p => by
    rw [Pen.addAll, addAll_entries es]; simp [Pen.addQuote]

/-- the stored quote for (date, symbol) is the **last** one added for that pair -/
theorem quote_last (p : Pen σ α) (d : Int) (s : σ) (pre post : List (Entry σ α)) (e : Entry σ α)
    (hp : p.entries = pre ++ e :: post) (he : e.date = d ∧ e.sym = s)
    (hpost : ∀ f ∈ post, ¬ (f.date = d ∧ f.sym = s)) : p.quote d s = some e := by
  unfold Pen.quote
  rw [hp, List.reverse_append, List.reverse_cons, List.find?_append, List.find?_append]
  have h1 : post.reverse.find? (fun e => e.date == d && e.sym == s) = none := by
    rw [List.find?_eq_none]
    intro f hf
    have := hpost f (by simpa using hf)
    simpa using this
  simp [h1, he.1, he.2]

end PPen

namespace PPen
variable {σ α : Type} [DecidableEq σ]

/-! ### loading order: symbol by symbol or date by date -/

omit [DecidableEq σ] in
/-- dates already listed stay where they are; entries whose date is listed add nothing -/
theorem addAll_dates_of_known : ∀ (es : List (Entry σ α)) (p : Pen σ α), (∀ e ∈ es, e.date ∈ p.dates) →
    (p.addAll es).dates = p.dates
  | [], _, _ => rfl
  | e :: es, p, h => by
    have he : e.date ∈ p.dates := h e (by simp)
    have hc : p.dates.contains e.date = true := by simpa using he
    have h1 : (p.addQuote e.bid e.ask e.date e.sym).dates = p.dates := by
      unfold Pen.addQuote; simp only [hc, if_true]
    rw [Pen.addAll, addAll_dates_of_known es _ (by rw [h1]; exact fun f hf => h f (by simp [hf])), h1]

omit [DecidableEq σ] in
/-- entries with pairwise distinct new dates are listed in the order they arrive -/
theorem addAll_dates_of_fresh : ∀ (es : List (Entry σ α)) (p : Pen σ α), (∀ e ∈ es, e.date ∉ p.dates) →
    (es.map (·.date)).Nodup → (p.addAll es).dates = p.dates ++ es.map (·.date)
  | [], p, _, _ => by simp [Pen.addAll]
  | e :: es, p, h, hn => by
    have he : e.date ∉ p.dates := h e (by simp)
    have hc : p.dates.contains e.date = false := by simpa using he
    have h1 : (p.addQuote e.bid e.ask e.date e.sym).dates = p.dates ++ [e.date] := by
      unfold Pen.addQuote; simp only [hc, Bool.false_eq_true, if_false]
    rw [List.map_cons, List.nodup_cons] at hn
    rw [Pen.addAll, addAll_dates_of_fresh es _ ?_ hn.2, h1]
    · simp
    · intro f hf
      rw [h1]
      simp only [List.mem_append, List.mem_singleton, not_or]
      refine ⟨h f (by simp [hf]), ?_⟩
      intro hfe
      exact hn.1 (by rw [← hfe]; exact List.mem_map.mpr ⟨f, hf, rfl⟩)

omit [DecidableEq σ] in
/-- **one symbol at a time**: if the first block of entries (the first symbol's series) has pairwise distinct dates
    and every later entry's date occurs in it, the date list is exactly the first block's dates, in its order — the
    same list as loading date by date gives -/
theorem dates_symbol_by_symbol (first rest : List (Entry σ α)) (hn : (first.map (·.date)).Nodup)
    (hr : ∀ e ∈ rest, e.date ∈ first.map (·.date)) :
    (({} : Pen σ α).addAll (first ++ rest)).dates = first.map (·.date) := by
  have happ : ∀ (a b : List (Entry σ α)) (p : Pen σ α), p.addAll (a ++ b) = (p.addAll a).addAll b := by
    intro a
    induction a with
    | nil => intro b p; rfl
    | cons x xs ih => intro b p; simp [Pen.addAll, ih]
  rw [happ]
  have h1 : (({} : Pen σ α).addAll first).dates = first.map (·.date) := by
    have := addAll_dates_of_fresh first ({} : Pen σ α) (by intro e _; simp) hn
    simpa using this
  rw [addAll_dates_of_known rest _ (by rw [h1]; exact hr), h1]

/-- when every (date, symbol) pair is quoted at most once, the stored quotes do not depend on the order of
    the `add_quote` calls at all -/
theorem quote_perm (es es' : List (Entry σ α)) (hp : es.Perm es')
    (hu : es.Pairwise (fun e f => ¬ (e.date = f.date ∧ e.sym = f.sym))) (d : Int) (s : σ) :
    (({} : Pen σ α).addAll es).quote d s = (({} : Pen σ α).addAll es').quote d s := by
  -- with at most one match, `find?` returns it wherever it stands
  have key : ∀ (l : List (Entry σ α)), l.Pairwise (fun e f => ¬ (e.date = f.date ∧ e.sym = f.sym)) →
      ∀ e, (l.find? (fun e => e.date == d && e.sym == s) = some e ↔ e ∈ l ∧ e.date = d ∧ e.sym = s) := by
    intro l
    induction l with
    | nil => intro _ e; simp
    | cons x xs ih =>
      intro hpw e
      rw [List.pairwise_cons] at hpw
      by_cases hx : x.date = d ∧ x.sym = s
      · have hm : (x.date == d && x.sym == s) = true := by simp [hx.1, hx.2]
        simp only [List.find?_cons, hm, Option.some.injEq, List.mem_cons]
        constructor
        · intro h; subst h; exact ⟨Or.inl rfl, hx⟩
        · rintro ⟨h | h, hd, hs⟩
          · exact h.symm
          · exact absurd ⟨hx.1.trans hd.symm, hx.2.trans hs.symm⟩ (hpw.1 e h)
      · have hm : (x.date == d && x.sym == s) = false := by
          simp only [Bool.and_eq_false_iff, beq_eq_false_iff_ne, ne_eq]
          by_cases h1 : x.date = d
          · exact Or.inr (fun h2 => hx ⟨h1, h2⟩)
          · exact Or.inl h1
        simp only [List.find?_cons, hm, List.mem_cons]
        rw [ih hpw.2 e]
        constructor
        · rintro ⟨h, hd, hs⟩; exact ⟨Or.inr h, hd, hs⟩
        · rintro ⟨h | h, hd, hs⟩
          · subst h; exact absurd ⟨hd, hs⟩ hx
          · exact ⟨h, hd, hs⟩
  have hsym : ∀ {a b : Entry σ α}, ¬ (a.date = b.date ∧ a.sym = b.sym) → ¬ (b.date = a.date ∧ b.sym = a.sym) :=
    fun h h' => h ⟨h'.1.symm, h'.2.symm⟩
  have hu' : es'.Pairwise (fun e f => ¬ (e.date = f.date ∧ e.sym = f.sym)) := hp.pairwise hu (fun h => hsym h)
  have hr : es.reverse.Pairwise (fun e f => ¬ (e.date = f.date ∧ e.sym = f.sym)) :=
    List.pairwise_reverse.mpr (hu.imp (fun h => hsym h))
  have hr' : es'.reverse.Pairwise (fun e f => ¬ (e.date = f.date ∧ e.sym = f.sym)) :=
    List.pairwise_reverse.mpr (hu'.imp (fun h => hsym h))
  unfold Pen.quote
  rw [addAll_entries, addAll_entries]
  simp only [List.nil_append]
  rcases h : es.reverse.find? (fun e => e.date == d && e.sym == s) with _ | e
  · rcases h' : es'.reverse.find? (fun e => e.date == d && e.sym == s) with _ | e'
    · rw [h, h']
    · have := (key _ hr' e').mp h'
      have hin : e' ∈ es.reverse := by simpa using hp.mem_iff.mpr (by simpa using this.1)
      have := (key _ hr e').mpr ⟨hin, this.2⟩
      rw [h] at this; cases this
  · have := (key _ hr e).mp h
    have hin : e ∈ es'.reverse := by simpa using hp.mem_iff.mp (by simpa using this.1)
    rw [h, (key _ hr' e).mpr ⟨hin, this.2⟩]

end PPen
