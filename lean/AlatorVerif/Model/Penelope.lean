/-! `Penelope`, the quote store: dates in first-insertion order, quotes per date per symbol (core only) -/
namespace PPen

structure Entry (σ α : Type) where
  date : Int
  sym : σ
  bid : α
  ask : α

/-- `dates`: the `Vec<i64>`; `entries`: every `add_quote` call so far, latest last (the inner maps are
    recovered from it: for a (date, symbol) the latest entry wins, as `HashMap::insert` overwrites) -/
structure Pen (σ α : Type) where
  dates : List Int := []
  entries : List (Entry σ α) := []

variable {σ α : Type} [DecidableEq σ]

/-- `Penelope::add_quote`: a date is appended to `dates` only if no quote was stored for it before -/
def Pen.addQuote (p : Pen σ α) (bid ask : α) (date : Int) (sym : σ) : Pen σ α :=
  { dates := if p.dates.contains date then p.dates else p.dates ++ [date],
    entries := p.entries ++ [⟨date, sym, bid, ask⟩] }

/-- `get_quotes(date)[sym]`: the latest entry for that date and symbol -/
def Pen.quote (p : Pen σ α) (date : Int) (sym : σ) : Option (Entry σ α) :=
  p.entries.reverse.find? (fun e => e.date == date && e.sym == sym)

/-- `get_quotes(date).is_some()` -/
def Pen.hasDate (p : Pen σ α) (date : Int) : Bool := p.dates.contains date

def Pen.getDate (p : Pen σ α) (pos : Nat) : Option Int := p.dates[pos]?
def Pen.hasNext (p : Pen σ α) (pos : Nat) : Bool := decide (pos < p.dates.length)

def Pen.addAll (p : Pen σ α) : List (Entry σ α) → Pen σ α
  | [] => p
  | e :: es => (p.addQuote e.bid e.ask e.date e.sym).addAll es

/-! ### what `add_quote` guarantees -/

omit [DecidableEq σ] in
theorem addQuote_nodup (p : Pen σ α) (h : p.dates.Nodup) (b a : α) (d : Int) (s : σ) :
    (p.addQuote b a d s).dates.Nodup := by
  unfold Pen.addQuote
  by_cases hc : p.dates.contains d = true
  · simp only [hc, if_true]; exact h
  · simp only [hc, Bool.false_eq_true, if_false]
    rw [List.nodup_append]
    refine ⟨h, by simp, ?_⟩
    intro x hx y hy
    simp at hy; subst hy
    intro hxy; subst hxy
    exact hc (by simpa using hx)

/-- a date is listed iff some quote was stored under it -/
def DatesAreEntryDates (p : Pen σ α) : Prop := ∀ d, d ∈ p.dates ↔ ∃ e ∈ p.entries, e.date = d

omit [DecidableEq σ] in
theorem addQuote_dates (p : Pen σ α) (h : DatesAreEntryDates p) (b a : α) (d : Int) (s : σ) :
    DatesAreEntryDates (p.addQuote b a d s) := by
  intro x
  unfold Pen.addQuote
  by_cases hc : p.dates.contains d = true
  · have hd : d ∈ p.dates := by simpa using hc
    simp only [hc, if_true, List.mem_append, List.mem_singleton]
    constructor
    · intro hx; obtain ⟨e, he, hed⟩ := (h x).mp hx; exact ⟨e, Or.inl he, hed⟩
    · rintro ⟨e, he | he, hed⟩
      · exact (h x).mpr ⟨e, he, hed⟩
      · subst he; simp only at hed; subst hed; exact hd
  · simp only [hc, Bool.false_eq_true, if_false, List.mem_append, List.mem_singleton]
    constructor
    · rintro (hx | hx)
      · obtain ⟨e, he, hed⟩ := (h x).mp hx; exact ⟨e, Or.inl he, hed⟩
      · exact ⟨⟨d, s, b, a⟩, Or.inr rfl, hx.symm⟩
    · rintro ⟨e, he | he, hed⟩
      · exact Or.inl ((h x).mpr ⟨e, he, hed⟩)
      · subst he; exact Or.inr hed.symm

omit [DecidableEq σ] in
/-- quotes inserted in non-decreasing date order give strictly increasing `dates`: the dataset
    `d1 < … < dN` of C07 is what loading a series date by date builds -/
theorem addQuote_sorted (p : Pen σ α) (h : p.dates.Pairwise (· < ·)) (b a : α) (d : Int) (s : σ)
    (hlast : ∀ x ∈ p.dates, x ≤ d) : (p.addQuote b a d s).dates.Pairwise (· < ·) ∧
      ∀ x ∈ (p.addQuote b a d s).dates, x ≤ d := by
  unfold Pen.addQuote
  by_cases hc : p.dates.contains d = true
  · simp only [hc, if_true]; exact ⟨h, hlast⟩
  · simp only [hc, Bool.false_eq_true, if_false]
    have hnot : d ∉ p.dates := fun hm => hc (by simpa using hm)
    refine ⟨?_, ?_⟩
    · rw [List.pairwise_append]
      refine ⟨h, List.pairwise_singleton _ _, ?_⟩
      intro x hx y hy
      simp at hy; subst hy
      exact Int.lt_iff_le_and_ne.mpr ⟨hlast x hx, fun e => hnot (e ▸ hx)⟩
    · intro x hx
      simp only [List.mem_append, List.mem_singleton] at hx
      rcases hx with hx | hx
      · exact hlast x hx
      · exact hx ▸ Int.le_refl _

omit [DecidableEq σ] in
theorem addAll_sorted : ∀ (es : List (Entry σ α)) (p : Pen σ α), p.dates.Pairwise (· < ·) →
    (∀ x ∈ p.dates, ∀ e ∈ es, x ≤ e.date) → es.Pairwise (fun e f => e.date ≤ f.date) →
    (p.addAll es).dates.Pairwise (· < ·)
  | [], p, h, _, _ => h
  | e :: es, p, h, hle, hs => by
    rw [List.pairwise_cons] at hs
    obtain ⟨h1, h2⟩ := addQuote_sorted p h e.bid e.ask e.date e.sym (fun x hx => hle x hx e (by simp))
    exact addAll_sorted es _ h1 (fun x hx f hf => Int.le_trans (h2 x hx) (hs.1 f hf)) hs.2

omit [DecidableEq σ] in
theorem addAll_nodup : ∀ (es : List (Entry σ α)) (p : Pen σ α), p.dates.Nodup → (p.addAll es).dates.Nodup
  | [], _, h => h
  | e :: es, p, h => addAll_nodup es _ (addQuote_nodup p h e.bid e.ask e.date e.sym)

omit [DecidableEq σ] in
theorem addAll_dates : ∀ (es : List (Entry σ α)) (p : Pen σ α), DatesAreEntryDates p →
    DatesAreEntryDates (p.addAll es)
  | [], _, h => h
  | e :: es, p, h => addAll_dates es _ (addQuote_dates p h e.bid e.ask e.date e.sym)

omit [DecidableEq σ] in
theorem addAll_entries : ∀ (es : List (Entry σ α)) (p : Pen σ α), (p.addAll es).entries = p.entries ++ es
  | [], p => by simp [Pen.addAll]
  | e :: es, p => by
    rw [Pen.addAll, addAll_entries es]; simp [Pen.addQuote]

/-- the stored quote for (date, symbol) is the **last** one added for that pair -/
theorem quote_last (p : Pen σ α) (d : Int) (s : σ) (pre post : List (Entry σ α)) (e : Entry σ α)
    (hp : p.entries = pre ++ e :: post) (he : e.date = d ∧ e.sym = s)
    (hpost : ∀ f ∈ post, ¬ (f.date = d ∧ f.sym = s)) : p.quote d s = some e := by
  unfold Pen.quote
  rw [hp, List.reverse_append, List.reverse_cons, List.find?_append, List.find?_append]
  have h1 : post.reverse.find? (fun e => e.date == d && e.sym == s) = none := by
    rw [List.find?_eq_none]
    intro f hf
    have := hpost f (by simpa using hf)
    simpa using this
  simp [h1, he.1, he.2]

end PPen
