import AlatorVerif.Model.Perf
import AlatorVerif.Model.MaxDD
/-! PerformanceCalculator::calculate — literal prototype model, core only -/
namespace PP

structure Snap (α : Type) where
  date : Int
  value : α
  ncf : α
  infl : α

structure Out (α : Type) where
  ret : α
  cagr : α
  vol : α
  mdd : α
  sharpe : α
  values : List α
  returns : List α
  dates : List Int
  cashFlows : List α
  ddStart : Int
  ddEnd : Int
  best : α
  worst : α

variable {α : Type} [Add α] [Sub α] [Mul α] [Div α] [OfNat α 0] [OfNat α 1] [LE α] [DecidableLE α]
  [LT α] [DecidableLT α] [HasTransc α] [OfScientific α] [NatCast α]

def sumL (l : List α) : α := l.foldl (· + ·) 0

def cashFlows : List (Snap α) → List α
  | [] => [0]
  | s :: rest => 0 :: go s.ncf rest
where go (last : α) : List (Snap α) → List α
  | [] => []
  | s :: rest => (s.ncf - last) :: go s.ncf rest

def var (vs : List α) : α :=
  let n : α := (vs.length : α)
  let mean := sumL vs / n
  let sq := vs.map (fun r => HasTransc.pow (r - mean) 2.0)
  sumL sq / n

/-- the compounded index fed to `maxdd` -/
def index (rets : List α) : List α :=
  let rec go (last : α) : List α → List α
    | [] => []
    | r :: rs => let v := last * (1 + r); v :: go v rs
  100000.0 :: go 100000.0 rets

/-- `max_by(partial_cmp)` keeps the last maximum, `min_by` the first minimum -/
def maxLast : List α → Option α
  | [] => none
  | x :: xs => some (xs.foldl (fun m y => if y < m then m else y) x)
def minFirst : List α → Option α
  | [] => none
  | x :: xs => some (xs.foldl (fun m y => if y < m then y else m) x)

/-- `fixedDD = false` is the pinned tree (positions of the last peak / trough, F7) -/
def calculate (fixedDD : Bool) (states : List (Snap α)) : Option (Out α) :=
  let cfs := cashFlows states
  let dates := states.map (·.date)
  let values := states.map (·.value)
  let infl := states.map (·.infl)
  let rets := returns values cfs infl
  let logs := rets.map (fun r => HasTransc.ln (1 + r))
  let st := PDD.go (PDD.init : PDD.St α) 0 (index rets)
  let (s, e) := if fixedDD then (st.ddStart, st.ddEnd) else (st.peakPos, st.troughPos)
  match maxLast rets, minFirst rets, dates[s]?, dates[e]? with
  | some best, some worst, some ds, some de =>
    let ret := HasTransc.exp (sumL logs) - 1
    let n : α := (dates.length : α)
    let cagr := HasTransc.pow (1 + ret) (365.0 / n) - 1
    let vol := HasTransc.sqrt (var rets) * HasTransc.sqrt 252.0
    let sharpe := if isZero vol then (if isZero cagr then 0 else cagr) else cagr / vol
    some { ret, cagr, vol, mdd := st.maxdd, sharpe, values, returns := rets, dates, cashFlows := cfs,
           ddStart := ds, ddEnd := de, best, worst }
  | _, _, _, _ => none     -- the `unwrap()`s on an empty return series

end PP
