/-! calendar + last-business-day schedule, core only -/
namespace PC

structure Date where
  y : Nat
  m : Nat
  d : Nat
  wd : Nat   -- 0 = Monday … 6 = Sunday
deriving DecidableEq, Repr

def isLeap (y : Nat) : Bool := (y % 4 == 0 && y % 100 != 0) || y % 400 == 0

def mlen (y m : Nat) : Nat :=
  if m == 2 then (if isLeap y then 29 else 28)
  else if m == 4 || m == 6 || m == 9 || m == 11 then 30 else 31

def next (x : Date) : Date :=
  if x.d < mlen x.y x.m then { x with d := x.d + 1, wd := (x.wd + 1) % 7 }
  else if x.m < 12 then { x with m := x.m + 1, d := 1, wd := (x.wd + 1) % 7 }
  else { y := x.y + 1, m := 1, d := 1, wd := (x.wd + 1) % 7 }

def epoch : Date := ⟨1970, 1, 1, 3⟩

def dateOf : Nat → Date
  | 0 => epoch
  | n + 1 => next (dateOf n)

def weekend (x : Date) : Bool := x.wd ≥ 5

/-- `LastBusinessDayTradingSchedule::should_trade` on a unix timestamp ≥ 0 -/
def shouldTrade (ts : Nat) : Bool :=
  let x := dateOf (ts / 86400)
  if x.d < 28 - 7 then false
  else if weekend x then false
  else
    let chk (i : Nat) : Bool :=   -- true = `return false`
      let o := dateOf ((ts + i * 86400) / 86400)
      if weekend o then false else o.m == x.m
    if chk 1 then false else if chk 2 then false else if chk 3 then false else true

/-- the property's right-hand side -/
def sameMonth (a b : Date) : Prop := a.y = b.y ∧ a.m = b.m
def Spec (n : Nat) : Prop :=
  weekend (dateOf n) = false ∧ ∀ k, 0 < k → sameMonth (dateOf n) (dateOf (n + k)) → weekend (dateOf (n + k)) = true

/-! ### proofs -/

def adv : Nat → Date → Date
  | 0, x => x
  | k + 1, x => adv k (next x)

def Valid (x : Date) : Prop := 1 ≤ x.m ∧ x.m ≤ 12 ∧ 1 ≤ x.d ∧ x.d ≤ mlen x.y x.m ∧ x.wd < 7

theorem mlen_ge (y m : Nat) : 28 ≤ mlen y m := by
  unfold mlen; split <;> (try split) <;> omega
theorem mlen_le (y m : Nat) : mlen y m ≤ 31 := by
  unfold mlen; split <;> (try split) <;> omega

theorem next_valid (x : Date) (h : Valid x) : Valid (next x) := by
  obtain ⟨h1, h2, h3, h4, h5⟩ := h
  unfold next
  split
  · exact ⟨h1, h2, by simp, by simp; omega, by simp; omega⟩
  · split
    · exact ⟨by simp, by simp; omega, by simp, by simp; have := mlen_ge x.y (x.m+1); omega, by simp; omega⟩
    · exact ⟨by simp, by simp, by simp, by simp; have := mlen_ge (x.y+1) 1; omega, by simp; omega⟩

theorem dateOf_valid (n : Nat) : Valid (dateOf n) := by
  induction n with
  | zero => simp [Valid, dateOf, epoch, mlen]
  | succ n ih => exact next_valid _ ih

theorem adv_valid (k : Nat) : ∀ x, Valid x → Valid (adv k x) := by
  induction k with
  | zero => intro x h; exact h
  | succ k ih => intro x h; exact ih _ (next_valid x h)

theorem dateOf_add (k : Nat) : ∀ n, dateOf (n + k) = adv k (dateOf n) := by
  induction k with
  | zero => intro n; rfl
  | succ k ih =>
    intro n
    have : n + (k + 1) = (n + 1) + k := by omega
    rw [this, ih (n + 1)]; rfl

theorem adv_add (a : Nat) : ∀ b x, adv (a + b) x = adv b (adv a x) := by
  induction a with
  | zero => intro b x; simp [adv]
  | succ a ih => intro b x; rw [Nat.add_right_comm]; exact ih b (next x)

/-- month index, strictly monotone across month ends -/
def ym (x : Date) : Nat := x.y * 12 + x.m

theorem next_in (x : Date) (hlt : x.d < mlen x.y x.m) :
    next x = { x with d := x.d + 1, wd := (x.wd + 1) % 7 } := by simp [next, hlt]

theorem next_end (x : Date) (h : Valid x) (heq : x.d = mlen x.y x.m) :
    ym (next x) = ym x + 1 ∧ (next x).d = 1 ∧ (next x).wd = (x.wd + 1) % 7 := by
  obtain ⟨h1, h2, h3, h4, h5⟩ := h
  have : ¬ x.d < mlen x.y x.m := by omega
  simp only [next, this, if_false]
  split
  · simp [ym]; omega
  · simp [ym]; omega

/-- within the month: k steps forward stay in the month -/
theorem adv_in_month (k : Nat) : ∀ x, Valid x → x.d + k ≤ mlen x.y x.m →
    adv k x = { x with d := x.d + k, wd := (x.wd + k) % 7 } := by
  induction k with
  | zero => intro x h _; obtain ⟨_, _, _, _, h5⟩ := h; simp [adv, Nat.mod_eq_of_lt h5]
  | succ k ih =>
    intro x h hk
    have hlt : x.d < mlen x.y x.m := by omega
    have hv : Valid { x with d := x.d + 1, wd := (x.wd + 1) % 7 } := by
      have := next_valid x h; rwa [next_in x hlt] at this
    simp only [adv]
    rw [next_in x hlt, ih _ hv (by simp; omega)]
    simp; constructor <;> omega

theorem ym_mono (k : Nat) : ∀ x, Valid x → ym x ≤ ym (adv k x) := by
  induction k with
  | zero => intro x _; simp [adv]
  | succ k ih =>
    intro x h
    simp only [adv]
    have hv := next_valid x h
    refine Nat.le_trans ?_ (ih _ hv)
    by_cases hlt : x.d < mlen x.y x.m
    · rw [next_in x hlt]; simp [ym]
    · have : x.d = mlen x.y x.m := by obtain ⟨_, _, _, h4, _⟩ := h; omega
      have := (next_end x h this).1; omega

/-- after the month end the month index is strictly larger, for ever -/
theorem ym_after (x : Date) (h : Valid x) (k : Nat) (hk : mlen x.y x.m < x.d + k) :
    ym x < ym (adv k x) := by
  obtain ⟨h1, h2, h3, h4, h5⟩ := h
  have hk' : k = (mlen x.y x.m - x.d) + (1 + (k - (mlen x.y x.m - x.d + 1))) := by omega
  rw [hk', adv_add, adv_add]
  have hin := adv_in_month (mlen x.y x.m - x.d) x ⟨h1, h2, h3, h4, h5⟩ (by omega)
  rw [hin]
  generalize hz : ({ x with d := x.d + (mlen x.y x.m - x.d), wd := (x.wd + (mlen x.y x.m - x.d)) % 7 } : Date) = z
  have hzy : z.y = x.y ∧ z.m = x.m ∧ z.d = mlen x.y x.m ∧ z.wd < 7 := by
    subst hz; simp; omega
  have hzv : Valid z := ⟨by omega, by omega, by omega, by rw [hzy.1, hzy.2.1]; omega, hzy.2.2.2⟩
  have hzd : z.d = mlen z.y z.m := by rw [hzy.1, hzy.2.1]; exact hzy.2.2.1
  have h1' := (next_end z hzv hzd).1
  have hm := ym_mono (k - (mlen x.y x.m - x.d + 1)) (next z) (next_valid z hzv)
  have : ym z = ym x := by simp [ym, hzy.1, hzy.2.1]
  show ym x < ym (adv _ (adv 1 z))
  simp only [adv]
  omega


theorem ym_step_le (k : Nat) : ∀ x, Valid x → ym (adv k x) ≤ ym x + k := by
  induction k with
  | zero => intro x _; simp [adv]
  | succ k ih =>
    intro x h
    simp only [adv]
    have := ih _ (next_valid x h)
    by_cases hlt : x.d < mlen x.y x.m
    · rw [next_in x hlt] at this ⊢; simp [ym] at this ⊢; omega
    · have he : x.d = mlen x.y x.m := by obtain ⟨_, _, _, h4, _⟩ := h; omega
      have := (next_end x h he).1; omega

/-- what the k-th following day looks like, relative to the days left in the month -/
theorem adv_cases (x : Date) (h : Valid x) (k : Nat) :
    (x.d + k ≤ mlen x.y x.m → (adv k x).y = x.y ∧ (adv k x).m = x.m ∧ (adv k x).wd = (x.wd + k) % 7) ∧
    (mlen x.y x.m < x.d + k → ¬ sameMonth x (adv k x) ∧ (k ≤ 3 → (adv k x).m ≠ x.m)) := by
  constructor
  · intro hk; rw [adv_in_month k x h hk]; simp
  · intro hk
    have hgt := ym_after x h k hk
    have hle := ym_step_le k x h
    have hv := adv_valid k x h
    obtain ⟨a1, a2, _, _, _⟩ := hv
    obtain ⟨b1, b2, _, _, _⟩ := h
    constructor
    · intro ⟨hy, hm⟩; simp only [ym] at hgt; rw [← hy, ← hm] at hgt; omega
    · intro hk3 hm; simp only [ym] at hgt hle; rw [hm] at hgt hle; omega

theorem weekend_iff (x : Date) : weekend x = true ↔ 5 ≤ x.wd := by simp [weekend]

/-- C19 core: for every timestamp ≥ 0 the schedule is true exactly on the last weekday of the month -/
theorem shouldTrade_iff (ts : Nat) : shouldTrade ts = true ↔ Spec (ts / 86400) := by
  have hdiv : ∀ i, (ts + i * 86400) / 86400 = ts / 86400 + i := by
    intro i; rw [Nat.add_mul_div_right _ _ (by decide : 0 < 86400)]
  generalize hn : ts / 86400 = n at hdiv
  have hx := dateOf_valid n
  have hA := adv_cases (dateOf n) hx
  have hml := mlen_ge (dateOf n).y (dateOf n).m
  obtain ⟨v1, v2, v3, v4, v5⟩ := hx
  unfold shouldTrade Spec
  simp only [hn, hdiv, dateOf_add]
  generalize hxe : dateOf n = x at *
  have c1 := hA 1; have c2 := hA 2; have c3 := hA 3
  constructor
  · intro hcode
    -- unpack the code
    by_cases hd : x.d < 28 - 7
    · simp [hd] at hcode
    by_cases hw : weekend x = true
    · simp [hd, hw] at hcode
    simp only [hd, hw, if_false, Bool.false_eq_true] at hcode
    have hwd : x.wd < 5 := by rw [weekend_iff] at hw; omega
    refine ⟨by simpa using hw, ?_⟩
    intro k hk hsame
    rw [weekend_iff]
    -- k must be within the month
    have hkin : x.d + k ≤ mlen x.y x.m :=
      Nat.le_of_not_lt (fun hc => ((hA k).2 hc).1 hsame)
    rw [((hA k).1 hkin).2.2]
    -- the three look-ahead checks
    have e : ∀ i, i = 1 ∨ i = 2 ∨ i = 3 → x.d + i ≤ mlen x.y x.m → 5 ≤ (x.wd + i) % 7 := by
      intro i hi hin
      have hci := (hA i).1 hin
      by_cases hnw : 5 ≤ (x.wd + i) % 7
      · exact hnw
      · exfalso
        have hwe : weekend (adv i x) = false := by
          simp only [weekend]; rw [hci.2.2]; simpa using hnw
        rcases hi with rfl | rfl | rfl <;> simp [hwe, hci.2.1] at hcode
    by_cases h3 : x.d + 3 ≤ mlen x.y x.m
    · have := e 1 (by simp) (by omega); have := e 2 (by simp) (by omega); have := e 3 (by simp) h3
      omega
    · have hk2 : k ≤ 2 := by omega
      have hk' : k = 1 ∨ k = 2 := by omega
      rcases hk' with rfl | rfl
      · exact e 1 (by simp) hkin
      · exact e 2 (by simp) hkin
  · intro ⟨hw, hall⟩
    have hwd : x.wd < 5 := by
      have : ¬ weekend x = true := by simp [hw]
      rw [weekend_iff] at this; omega
    -- all in-month later days are weekend days
    have e : ∀ k, 0 < k → x.d + k ≤ mlen x.y x.m → 5 ≤ (x.wd + k) % 7 := by
      intro k hk hin
      have hc := (hA k).1 hin
      have := hall k hk ⟨hc.1.symm, hc.2.1.symm⟩
      rw [weekend_iff, hc.2.2] at this; exact this
    have hr : mlen x.y x.m < x.d + 3 := by
      by_cases hc : mlen x.y x.m < x.d + 3
      · exact hc
      · exfalso
        have := e 1 (by omega) (by omega); have := e 2 (by omega) (by omega); have := e 3 (by omega) (by omega)
        omega
    have hd : ¬ x.d < 28 - 7 := by omega
    simp only [hd, hw, if_false, Bool.false_eq_true]
    -- each check returns `false` (= continue)
    have chk : ∀ i, i = 1 ∨ i = 2 ∨ i = 3 →
        (if weekend (adv i x) = true then false else (adv i x).m == x.m) = false := by
      intro i hi
      by_cases hin : x.d + i ≤ mlen x.y x.m
      · have hc := (hA i).1 hin
        have : weekend (adv i x) = true := by
          rw [weekend_iff, hc.2.2]; exact e i (by omega) hin
        simp [this]
      · have hc := ((hA i).2 (by omega)).2 (by omega)
        by_cases hwe : weekend (adv i x) = true
        · simp [hwe]
        · simp [hwe, hc]
    simp [chk 1 (by simp), chk 2 (by simp), chk 3 (by simp)]

/-- the answer depends only on the calendar date -/
theorem shouldTrade_time_of_day (n s s' : Nat) (hs : s < 86400) (hs' : s' < 86400) :
    shouldTrade (86400 * n + s) = shouldTrade (86400 * n + s') := by
  have h1 : (86400 * n + s) / 86400 = n := by omega
  have h2 : (86400 * n + s') / 86400 = n := by omega
  have := shouldTrade_iff (86400 * n + s)
  have := shouldTrade_iff (86400 * n + s')
  rw [h1] at *; rw [h2] at *
  cases ha : shouldTrade (86400 * n + s) <;> cases hb : shouldTrade (86400 * n + s') <;> simp_all

/-- the schedule evaluated from the date of the day (what the streaming driver runs) -/
def shouldTradeFrom (x : Date) : Bool :=
  if x.d < 28 - 7 then false
  else if weekend x then false
  else
    let chk (i : Nat) : Bool := let o := adv i x; if weekend o then false else o.m == x.m
    if chk 1 then false else if chk 2 then false else if chk 3 then false else true

/-- the streaming form is the model of `should_trade`, at every time of the day -/
theorem shouldTradeFrom_eq (n s : Nat) (hs : s < 86400) :
    shouldTradeFrom (dateOf n) = shouldTrade (86400 * n + s) := by
  have h0 : (86400 * n + s) / 86400 = n := by omega
  have hdiv : ∀ i, (86400 * n + s + i * 86400) / 86400 = n + i := by
    intro i; rw [Nat.add_mul_div_right _ _ (by decide : 0 < 86400), h0]
  simp only [shouldTradeFrom, shouldTrade, h0, hdiv, dateOf_add]

/-- the default schedule -/
def defaultSchedule (_ : Nat) : Bool := true

end PC
