import AlatorVerif.Model.Broker
/-! `UistBrokerLog::cost_basis` — literal model (core only) -/
namespace PCB
open PU PBk
variable {σ α : Type} [DecidableEq σ] [Add α] [Sub α] [Div α] [OfNat α 0] [LE α] [DecidableLE α]

/-- body of the loop over the log -/
def cbStep (sym : σ) (acc : α × α) (t : Trade σ α) : α × α :=
  if t.symbol = sym then
    let qv : α × α := match t.side with
      | .buy => (acc.1 + t.quantity, acc.2 + t.value)
      | .sell => (acc.1 - t.quantity, acc.2 - t.value)
    if isZero qv.1 then (qv.1, 0) else qv          -- "reset the value if we are back to zero"
  else acc

def costBasis (log : List (Trade σ α)) (sym : σ) : Option α :=
  let r := log.foldl (cbStep sym) (0, 0)
  if isZero r.1 then none else some (r.2 / r.1)

end PCB
