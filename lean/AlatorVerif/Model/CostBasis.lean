import AlatorVerif.Model.Broker
/-! `UistBrokerLog::cost_basis` — literal model (core only) -/
namespace PCB
open PU PBk
variable {σ α : Type} [DecidableEq σ] [Add α] [Sub α] [Div α] [OfNat α 0] [LE α] [DecidableLE α]

/-- body of the loop over the log -/
def cbStep (sym : σ) (acc : α × α) (t : Trade σ α) : α × α :=
  if t.symbol = sym then
    let qv : α × α := match t.side with
      | .buy => (acc.1 + t.quantity, acc.2 + t.value)
      | .sell => (acc.1 - t.quantity, acc.2 - t.value)
    if isZero qv.1 then (qv.1, 0) else qv          -- "reset the value if we are back to zero"
  else acc

def costBasis (log : List (Trade σ α)) (sym : σ) : Option α :=
  let r := log.foldl (cbStep sym) (0, 0)
  if isZero r.1 then none else some (r.2 / r.1)

/-- `get_position_profit`: `qty * (value / qty - cost)` when cost basis, quantity and value all exist -/
def positionProfit [Mul α] (b : Brk σ α) (s : σ) : Option α :=
  match costBasis b.log s with
  | none => none
  | some cost => match b.hold s with
    | none => none
    | some n => match posValue b s with
      | none => none
      | some pv => some (n * (pv / n - cost))

end PCB
