import AlatorVerif.Model.Uist
import AlatorVerif.Model.Jura
/-!
`AppState` of `rotala/src/http/{uist,jura}.rs`, once, parametric in the exchange (core only).

`Variant` mirrors the two defects found on the pinned tree: `storesLast = false` is `init` as pinned
(F2: the id is handed out but `self.last` is not updated), `storesPos = false` is Jura's `tick` as pinned
(F3: `backtest.pos` is never written). `Variant.repaired` is the tree after the two `fix:` commits.
-/
namespace SV

/-- what the server needs from an exchange: `Q` quotes of one date, `O` orders, `A` the admission
    oracle handed to `tick` (see DESIGN §5.1), `D` the argument of `delete_order`, `R` a tick's result -/
structure ExchOps (E Q O A D R : Type) where
  new : E
  tick : E → Q → A → E × R
  insert : E → O → E
  delete : E → D → E
  emptyR : R

structure Variant where
  storesLast : Bool
  storesPos : Bool

def Variant.repaired : Variant := ⟨true, true⟩

/-- `Penelope`: dates in first-insertion order; `quotes d` is `inner.get(d)` -/
structure Dataset (Q : Type) where
  dates : List Int
  quotes : Int → Option Q

structure Backtest (E : Type) where
  date : Int
  pos : Nat
  exch : E
  dataset : String

structure App (E Q : Type) where
  backtests : Nat → Option (Backtest E)
  last : Nat
  datasets : String → Option (Dataset Q)

inductive Res (β : Type) | ok (x : β) | none | panic

variable {E Q O A D R : Type} (X : ExchOps E Q O A D R)

def setBt (a : App E Q) (id : Nat) (b : Backtest E) : App E Q :=
  { a with backtests := fun i => if i = id then some b else a.backtests i }

/-- `AppState::single`: backtest 0 on the one dataset, `last = 1` -/
def single (name : String) (ds : Dataset Q) : Option (App E Q) :=
  match ds.dates with
  | [] => none                                   -- `get_date(0).unwrap()` panics
  | d0 :: _ =>
    some { backtests := fun i => if i = 0 then some { date := d0, pos := 0, exch := X.new, dataset := name } else none,
           last := 1, datasets := fun n => if n = name then some ds else none }

/-- `AppState::tick` -/
def tick (v : Variant) (a : App E Q) (id : Nat) (adm : A) : Option (Bool × R) × App E Q :=
  match a.backtests id with
  | none => (none, a)
  | some bt =>
    match a.datasets bt.dataset with
    | none => (none, a)
    | some ds =>
      let er := match ds.quotes bt.date with
        | some q => X.tick bt.exch q adm
        | none => (bt.exch, X.emptyR)
      let newPos := bt.pos + 1
      let hasNext := decide (newPos < ds.dates.length)
      let date' := if hasNext then ds.dates.getD newPos bt.date else bt.date
      (some (hasNext, er.2),
       setBt a id { bt with exch := er.1, pos := if v.storesPos then newPos else bt.pos, date := date' })

/-- `AppState::init` -/
def init (v : Variant) (a : App E Q) (name : String) : Res Nat × App E Q :=
  match a.datasets name with
  | none => (.none, a)
  | some ds =>
    match ds.dates with
    | [] => (.panic, a)
    | d0 :: _ =>
      let id := a.last + 1
      let a' := setBt a id { date := d0, pos := 0, exch := X.new, dataset := name }
      (.ok id, if v.storesLast then { a' with last := id } else a')

/-- `AppState::new_backtest` (always stored the id) -/
def newBacktest (a : App E Q) (name : String) : Res Nat × App E Q := init X ⟨true, true⟩ a name

def insert (a : App E Q) (id : Nat) (o : O) : Bool × App E Q :=
  match a.backtests id with
  | none => (false, a)
  | some bt => (true, setBt a id { bt with exch := X.insert bt.exch o })

def delete (a : App E Q) (id : Nat) (d : D) : Bool × App E Q :=
  match a.backtests id with
  | none => (false, a)
  | some bt => (true, setBt a id { bt with exch := X.delete bt.exch d })

/-- `fetch_quotes`: the quotes stored for the backtest's current date -/
def fetch (a : App E Q) (id : Nat) : Option (Int × Q) :=
  match a.backtests id with
  | none => none
  | some bt => match a.datasets bt.dataset with
    | none => none
    | some ds => (ds.quotes bt.date).map (fun q => (bt.date, q))

/-- the `now` handler / `TestClient::now` -/
def now (a : App E Q) (id : Nat) : Option (Int × Bool) :=
  match a.backtests id with
  | none => none
  | some bt => match a.datasets bt.dataset with
    | none => none
    | some ds => some (bt.date, decide (bt.pos < ds.dates.length))

/-- the `info` handler -/
def info (a : App E Q) (id : Nat) : Option String := (a.backtests id).map (·.dataset)

end SV

namespace SV
/-! the two instances -/
section
variable {σ α : Type} [DecidableEq σ] [LE α] [DecidableLE α] [Mul α]

abbrev UQ (σ α : Type) := σ → Option (PU.Quote α)
abbrev UR (σ α : Type) := List (PU.Trade σ α) × List (PU.Order σ α)

def uistOps : ExchOps (PU.Uist σ α) (UQ σ α) (PU.Order σ α) (List (PU.Order σ α)) Nat (UR σ α) where
  new := { book := { inner := [], last := 0 }, log := [], buffer := [] }
  tick := fun e q adm => let r := e.tick q adm; (r.1, (r.2.1, r.2.2))
  insert := fun e o => { e with buffer := e.buffer ++ [o] }
  delete := fun e id => { e with book := e.book.delete id }
  emptyR := ([], [])
end

section
variable {α : Type} [LE α] [DecidableLE α] [Add α] [Sub α] [Mul α] [OfNat α 1] [OfScientific α]

abbrev JQ (α : Type) := Nat → Option (PJ.Quote α)
/-- fills, inserted orders, triggered child ids, and the `unimplemented!()` flag -/
abbrev JR (α : Type) := List (PJ.Fill α) × List (PJ.Order α) × List Nat × Bool

def juraOps : ExchOps (PJ.Jura α) (JQ α) (PJ.Order α) (List (PJ.Order α)) (Nat × Nat) (JR α) where
  new := {}
  tick := fun e q adm => let r := e.tick q adm; (r.1, (r.2.1, adm, r.2.2.1, r.2.2.2))
  insert := fun e o => { e with buffer := e.buffer ++ [o] }
  delete := fun e d => { e with book := e.book.delete d.1 d.2 }
  emptyR := ([], [], [], false)
end
end SV
