/-! broker reconciliation (`check`) — prototype model, core only -/
namespace PB

structure Trade (σ α : Type) where
  symbol : σ
  value : α
  quantity : α
  date : Int
  buy : Bool

structure Broker (σ α : Type) where
  cash : α
  hold : σ → Option α
  pend : σ → Option α
  log : List (Trade σ α)
  seen : Nat

variable {σ α : Type} [DecidableEq σ] [Add α] [Sub α] [OfNat α 0] [LE α] [DecidableLE α]

def isZero (x : α) : Bool := decide (x ≤ 0) && decide ((0:α) ≤ x)

/-- map write used by `update_holdings` and the pending bookkeeping: a zero removes the key -/
def put (m : σ → Option α) (s : σ) (v : α) : σ → Option α :=
  fun k => if k = s then (if isZero v then none else some v) else m k

def qty (m : σ → Option α) (s : σ) : α := (m s).getD 0

/-- body of `for trade in tick_response.executed_trades` -/
def book (b : Broker σ α) (t : Trade σ α) : Broker σ α :=
  let cash' := if t.buy then b.cash - t.value else t.value + b.cash     -- debit_force / credit
  let cur := qty b.hold t.symbol
  let upd := if t.buy then cur + t.quantity else cur - t.quantity
  let pen := qty b.pend t.symbol
  let updPen := if t.buy then pen - t.quantity else pen + t.quantity
  { cash := cash', hold := put b.hold t.symbol upd, pend := put b.pend t.symbol updPen,
    log := b.log ++ [t], seen := b.seen + 1 }

def reconcile (b : Broker σ α) (ts : List (Trade σ α)) : Broker σ α := ts.foldl book b

end PB
