import AlatorVerif.Model.Srv
import AlatorVerif.Model.Json
/-!
The JSON services `uistv1_server` / `jurav1_server`: handlers over the server model `SV`, responses as JSON
ASTs in serde's derive format (core only). Text-level (de)serialisation and actix extraction are not
modelled. On the wire Jura's `limit_px`, `sz`, `px` are decimal strings; the AST carries the number they
denote (`Json.num`), which is what the harness canonicalises them to.
-/
namespace PHt
open PJs SV

/-- status code and body -/
structure Rsp (α : Type) where
  status : Nat
  body : Option (Json α)

def bad {α : Type} : Rsp α := ⟨400, none⟩
def ok {α : Type} (j : Json α) : Rsp α := ⟨200, some j⟩

/-- how an exchange's results are put on the wire -/
structure Enc (Q R α : Type) where
  tickFields : R → List (String × Json α)      -- the fields of `TickResponse` besides `has_next`
  quotes : Q → List String → Json α            -- the `quotes` map of `FetchQuotesResponse`
  hasNow : Bool                                -- Jura has no `now` route

inductive Req (O A D : Type) where
  | init (name : String)
  | tick (id : Nat) (adm : A)        -- `adm`: the admission-order oracle, not on the wire
  | insert (id : Nat) (o : O)
  | delete (id : Nat) (d : D)
  | fetch (id : Nat)
  | info (id : Nat)
  | now (id : Nat)

variable {E Q O A D R α : Type} (X : ExchOps E Q O A D R) (enc : Enc Q R α)

/-- the handlers: delegate to `AppState`, map `None` to 400 -/
def handle (v : Variant) (syms : String → List String) (a : App E Q) : Req O A D → Rsp α × App E Q
  | .init name =>
    match init X v a name with
    | (.ok id, a') => (ok (.obj [("backtest_id", .int id)]), a')
    | (.none, a') => (bad, a')
    | (.panic, a') => (⟨500, none⟩, a')
  | .tick id adm =>
    match tick X v a id adm with
    | (some (hn, r), a') => (ok (.obj (("has_next", .bool hn) :: enc.tickFields r)), a')
    | (none, a') => (bad, a')
  | .insert id o => match insert X a id o with | (true, a') => (ok .null, a') | (false, a') => (bad, a')
  | .delete id d => match delete X a id d with | (true, a') => (ok .null, a') | (false, a') => (bad, a')
  | .fetch id =>
    match fetch a id with
    | some (_, q) =>
      let ds := ((a.backtests id).map (·.dataset)).getD ""
      (ok (.obj [("quotes", enc.quotes q (syms ds))]), a)
    | none => (bad, a)
  | .info id =>
    match info a id with
    | some ds => (ok (.obj [("version", .str "v1"), ("dataset", .str ds)]), a)
    | none => (bad, a)
  | .now id =>
    if enc.hasNow then
      match now a id with
      | some (d, hn) => (ok (.obj [("now", .int d), ("has_next", .bool hn)]), a)
      | none => (bad, a)
    else (⟨404, none⟩, a)

/-! ### Uist wire format -/
section Uist
variable {α : Type}

def encSide : PU.Side → Json α | .buy => .str "Buy" | .sell => .str "Sell"

def typName (o : PU.Order String α) : String :=
  match o.kind, o.side with
  | .market, .sell => "MarketSell" | .market, .buy => "MarketBuy" | .limit, .sell => "LimitSell"
  | .limit, .buy => "LimitBuy" | .stop, .sell => "StopSell" | .stop, .buy => "StopBuy"

/-- serde derive of `Order` -/
def encOrd (o : PU.Order String α) : Json α :=
  .obj [("order_id", match o.id with | none => .null | some n => .int n),
        ("order_type", .str (typName o)),
        ("symbol", .str o.symbol),
        ("shares", .num o.shares),
        ("price", match o.price with | none => .null | some p => .num p)]

/-- serde derive of `Trade` -/
def encTrade (t : PU.Trade String α) : Json α :=
  .obj [("symbol", .str t.symbol), ("value", .num t.value), ("quantity", .num t.quantity),
        ("date", .int t.date), ("typ", encSide t.side)]

/-- serde derive of `PenelopeQuote` -/
def encQuote (sym : String) (q : PU.Quote α) : Json α :=
  .obj [("bid", .num q.bid), ("ask", .num q.ask), ("symbol", .str sym), ("date", .int q.date)]

def uistEnc : Enc (UQ String α) (UR String α) α where
  tickFields := fun r => [("executed_trades", .arr (r.1.map encTrade)), ("inserted_orders", .arr (r.2.map encOrd))]
  quotes := fun q syms => .obj (syms.filterMap (fun s => (q s).map (fun x => (s, encQuote s x))))
  hasNow := true
end Uist

/-! ### Jura wire format -/
section Jura
variable {α : Type}

def encTif : PJ.Tif → Json α | .alo => .str "Alo" | .ioc => .str "Ioc" | .gtc => .str "Gtc"
def encTpsl : PJ.Tpsl → Json α | .tp => .str "Tp" | .sl => .str "Sl"

/-- serde derive of the externally tagged `OrderType` -/
def encOType : PJ.OType α → Json α
  | .limit tif => .obj [("Limit", .obj [("tif", encTif tif)])]
  | .trigger px m t => .obj [("Trigger", .obj [("trigger_px", .num px), ("is_market", .bool m), ("tpsl", encTpsl t)])]

/-- serde derive of Jura's `Order` -/
def encJOrd (o : PJ.Order α) : Json α :=
  .obj [("asset", .int o.asset), ("is_buy", .bool o.isBuy), ("limit_px", .num o.limitPx), ("sz", .num o.sz),
        ("reduce_only", .bool o.reduceOnly),
        ("cloid", match o.cloid with | none => .null | some s => .str s),
        ("order_type", encOType o.typ)]

/-- serde derive of `Fill` (the constant fields are what `execute_buy` / `execute_sell` write) -/
def encFill (f : PJ.Fill α) : Json α :=
  .obj [("closed_pnl", .str "0.0"), ("coin", .str (toString f.coin)), ("crossed", .bool false), ("dir", .bool false),
        ("hash", .bool false), ("oid", .int f.oid), ("px", .num f.px), ("side", .str (if f.buy then "A" else "B")),
        ("start_position", .bool false), ("sz", .num f.sz), ("time", .int f.time)]

def encJQuote (sym : String) (q : PJ.Quote α) : Json α :=
  .obj [("bid", .num q.bid), ("ask", .num q.ask), ("symbol", .str sym), ("date", .int q.date)]

/-- `withIds = false` is the pinned `TickResponse`, which has no field for the ids of triggered children (F9) -/
def juraEnc (withIds : Bool) : Enc (JQ α) (JR α) α where
  tickFields := fun r =>
    [("executed_trades", .arr (r.1.map encFill)), ("inserted_orders", .arr (r.2.1.map encJOrd))]
      ++ (if withIds then [("triggered_order_ids", .arr (r.2.2.1.map (fun (i : Nat) => Json.int (i : Int))))] else [])
  quotes := fun q syms => .obj (syms.filterMap (fun s => (q s.toNat!).map (fun x => (s, encJQuote s x))))
  hasNow := false
end Jura

end PHt
