/-! JSON AST + serde-shaped codecs for Uist types — prototype, core only -/
namespace PJs

inductive Json (α : Type) where
  | null
  | bool (b : Bool)
  | int (n : Int)          -- u64 / i64 fields
  | num (x : α)            -- f64 fields
  | str (s : String)
  | arr (xs : List (Json α))
  | obj (kvs : List (String × Json α))

variable {α : Type}

def Json.get? : Json α → String → Option (Json α)
  | .obj kvs, k => (kvs.find? (fun kv => kv.1 == k)).map (·.2)
  | _, _ => none

inductive OrderType | MarketSell | MarketBuy | LimitSell | LimitBuy | StopSell | StopBuy
deriving DecidableEq, Repr

structure Order (α : Type) where
  orderId : Option Nat
  orderType : OrderType
  symbol : String
  shares : α
  price : Option α

def OrderType.name : OrderType → String
  | .MarketSell => "MarketSell" | .MarketBuy => "MarketBuy" | .LimitSell => "LimitSell"
  | .LimitBuy => "LimitBuy" | .StopSell => "StopSell" | .StopBuy => "StopBuy"

def OrderType.ofName? : String → Option OrderType
  | "MarketSell" => some .MarketSell | "MarketBuy" => some .MarketBuy | "LimitSell" => some .LimitSell
  | "LimitBuy" => some .LimitBuy | "StopSell" => some .StopSell | "StopBuy" => some .StopBuy
  | _ => none

/-- serde derive: struct → object with fields in declaration order; unit enum variant → string;
    Option → null / value -/
def encOrder (o : Order α) : Json α :=
  .obj [("order_id", match o.orderId with | none => .null | some n => .int n),
        ("order_type", .str o.orderType.name),
        ("symbol", .str o.symbol),
        ("shares", .num o.shares),
        ("price", match o.price with | none => .null | some p => .num p)]

def decOptNat : Json α → Option (Option Nat)
  | .null => some none
  | .int n => if 0 ≤ n then some (some n.toNat) else none
  | _ => none

def decOptNum : Json α → Option (Option α)
  | .null => some none
  | .num x => some (some x)
  | _ => none

def decOrder (j : Json α) : Option (Order α) := do
  let id ← (← j.get? "order_id") |> decOptNat
  let ty ← match (← j.get? "order_type") with | .str s => OrderType.ofName? s | _ => none
  let sym ← match (← j.get? "symbol") with | .str s => some s | _ => none
  let sh ← match (← j.get? "shares") with | .num x => some x | _ => none
  let pr ← (← j.get? "price") |> decOptNum
  pure { orderId := id, orderType := ty, symbol := sym, shares := sh, price := pr }

theorem ofName_name (t : OrderType) : OrderType.ofName? t.name = some t := by
  cases t <;> rfl

/-- C20: an order keeps its meaning across a serialise / deserialise round trip -/
theorem decOrder_encOrder (o : Order α) : decOrder (encOrder o) = some o := by
  obtain ⟨id, ty, sym, sh, pr⟩ := o
  cases id <;> cases pr <;>
    simp [decOrder, encOrder, Json.get?, List.find?, decOptNat, decOptNum, ofName_name, bind, Option.bind]

end PJs
