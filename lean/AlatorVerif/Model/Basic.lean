/-! generic-carrier model prototype (core only) -/
namespace Proto

class HasFloor (α : Type) where
  floor : α → α
  ceil : α → α

instance : HasFloor Float := ⟨Float.floor, Float.ceil⟩
instance : HasFloor Rat := ⟨fun x => (x.floor : Rat), fun x => (x.ceil : Rat)⟩

inductive Cost (α : Type) where
  | perShare (v : α)
  | pct (p : α)
  | flat (v : α)
deriving Repr

section
variable {α : Type} [Add α] [Sub α] [Mul α] [Div α] [OfNat α 1] [OfNat α 0]

def Cost.impact (c : Cost α) (b q : α) (isBuy : Bool) : α × α :=
  match c with
  | .perShare v => (b, if isBuy then q + v else q - v)
  | .pct p => (b * (1 - p), q)
  | .flat v => (b - v, q)

def impactTotal (cs : List (Cost α)) (b q : α) (isBuy : Bool) : α × α :=
  cs.foldl (fun r c => c.impact r.1 r.2 isBuy) (b, q)

def Cost.fee (c : Cost α) (qty value : α) : α :=
  match c with
  | .perShare v => v * qty
  | .pct p => value * p
  | .flat v => v

def totalFee (cs : List (Cost α)) (qty value : α) : α :=
  cs.foldl (fun acc c => acc + c.fee qty value) 0

def sizeBuy [HasFloor α] (cs : List (Cost α)) (b q : α) : α :=
  let r := impactTotal cs b q true
  HasFloor.floor (r.1 / r.2)
end

end Proto
