import AlatorVerif.Model.Uist
import AlatorVerif.Model.Basic
/-! UistBroker over a single-backtest server — literal prototype model with pinned/repaired variants -/
namespace PBk
open PU Proto

/-- which of the repairs F4, F5a, F5b, F6a, F10 are in the tree being modelled -/
structure Variant where
  ceilFixed : Bool
  contFixed : Bool
  clampFixed : Bool
  limitFixed : Bool
  capFixed : Bool      -- F10: the partial sale of a liquidation is capped at the position held

def Variant.pinned : Variant := ⟨false, false, false, false, false⟩
def Variant.repaired : Variant := ⟨true, true, true, true, true⟩

variable {σ α : Type} [DecidableEq σ] [Add α] [Sub α] [Mul α] [Div α] [Neg α] [OfNat α 0] [OfNat α 1]
  [OfScientific α] [LT α] [DecidableLT α] [LE α] [DecidableLE α] [HasFloor α]

/-! ### server (one backtest) -/
structure Srv (σ α : Type) where
  dates : List Int
  quotes : Int → σ → Option (Quote α)
  pos : Nat
  date : Int
  exch : Uist σ α

def Srv.tick (s : Srv σ α) (adm : List (Order σ α)) : (Bool × List (Trade σ α)) × Srv σ α :=
  let r := s.exch.tick (s.quotes s.date) adm
  let newPos := s.pos + 1
  let hasNext := decide (newPos < s.dates.length)
  let date' := if hasNext then s.dates.getD newPos s.date else s.date
  ((hasNext, r.2.1), { s with exch := r.1, pos := newPos, date := date' })

/-! ### broker -/
structure Brk (σ α : Type) where
  cash : α
  hold : σ → Option α
  pend : σ → Option α
  latest : σ → Option (Quote α)
  log : List (Trade σ α)
  costs : List (Cost α)
  failed : Bool

def isZero (x : α) : Bool := decide (x ≤ 0) && decide ((0:α) ≤ x)
def absv (x : α) : α := if x < 0 then -x else x
def put (m : σ → Option α) (s : σ) (v : α) : σ → Option α :=
  fun k => if k = s then (if isZero v then none else some v) else m k
def setRaw (m : σ → Option α) (s : σ) (v : α) : σ → Option α := fun k => if k = s then some v else m k
def qty (m : σ → Option α) (s : σ) : α := (m s).getD 0

def posValue (b : Brk σ α) (s : σ) : Option α :=
  match b.latest s with
  | some q => match b.hold s with | some n => some (q.bid * n) | none => none
  | none => none

def posLiq (b : Brk σ α) (s : σ) : Option α :=
  match posValue b s with
  | some v => match b.hold s with
    | some n => some (impactTotal b.costs v (v / n) false).1
    | none => none
  | none => none

/-- `get_holdings_with_pending`: pointwise sum of the two maps over the union of their keys (no zero removal) -/
def holdPend (b : Brk σ α) (s : σ) : Option α :=
  match b.hold s, b.pend s with
  | some h, some p => some (h + p)
  | some h, none => some h
  | none, some p => some p
  | none, none => none

def totalValue (b : Brk σ α) (ks : List σ) : α :=
  ks.foldl (fun acc k => match posValue b k with | some v => acc + v | none => acc) b.cash
def liqValue (b : Brk σ α) (ks : List σ) : α :=
  ks.foldl (fun acc k => match posLiq b k with | some v => acc + v | none => acc) b.cash

inductive CashEv (α : Type) | wOk (c : α) | wFail (c : α) | dOk (c : α) | opFail (c : α) | panic
inductive OrdEv | sent | invalid | panic deriving DecidableEq

def deposit (b : Brk σ α) (c : α) : CashEv α × Brk σ α :=
  if b.failed then (.opFail c, b) else (.dOk c, { b with cash := c + b.cash })

/-- `debit`: refused (no change) when the amount exceeds the balance -/
def debit (b : Brk σ α) (c : α) : Brk σ α := if b.cash < c then b else { b with cash := b.cash - c }

def withdraw (b : Brk σ α) (c : α) : CashEv α × Brk σ α :=
  if b.failed then (.opFail c, b)
  else if b.cash < c then (.wFail c, b) else (.wOk c, debit b c)

inductive Chk | ok | err | panic deriving DecidableEq

/-- `client_has_sufficient_cash` -/
def sufficientCash (v : Variant) (b : Brk σ α) (o : Order σ α) (price : α) : Chk :=
  let value := o.shares * price
  match o.kind, o.side with
  | .market, .buy => if value < b.cash then .ok else .err
  | .market, .sell => .ok
  | _, .buy => if v.limitFixed then (if value < b.cash then .ok else .err) else .panic
  | _, .sell => if v.limitFixed then .ok else .panic

/-- `client_has_sufficient_holdings_for_sale` -/
def sufficientHoldings (b : Brk σ α) (o : Order σ α) : Bool :=
  match o.kind, o.side with
  | .market, .sell => match b.hold o.symbol with | some h => decide (o.shares ≤ h) | none => true
  | _, _ => true

/-- `client_is_issuing_nonsense_order` (true = nonsense) -/
def nonsense (o : Order σ α) : Bool := isZero o.shares

def pendAfter (b : Brk σ α) (o : Order σ α) : σ → Option α :=
  let eff := match o.side with | .buy => o.shares | .sell => -o.shares
  match b.pend o.symbol with
  | some p => setRaw b.pend o.symbol (p + eff)
  | none => setRaw b.pend o.symbol eff

/-- `send_order`; the exchange buffer is where a forwarded order ends up (eager client) -/
def sendOrder (v : Variant) (b : Brk σ α) (srv : Srv σ α) (o : Order σ α) : OrdEv × Brk σ α × Srv σ α :=
  if b.failed then (.invalid, b, srv)
  else match b.latest o.symbol with
    | none => (.panic, b, srv)
    | some q =>
      let price := match o.side with | .buy => q.ask | .sell => q.bid
      match sufficientCash v b o price with
      | .panic => (.panic, b, srv)
      | .err => (.invalid, b, srv)
      | .ok =>
        if !sufficientHoldings b o then (.invalid, b, srv)
        else if nonsense o then (.invalid, b, srv)
        else
          (.sent, { b with pend := pendAfter b o },
            { srv with exch := { srv.exch with buffer := srv.exch.buffer ++ [{ o with id := none }] } })

def sendOrders (v : Variant) (b : Brk σ α) (srv : Srv σ α) : List (Order σ α) → Brk σ α × Srv σ α × Bool
  | [] => (b, srv, false)
  | o :: os =>
    let r := sendOrder v b srv o
    let rest := sendOrders v r.2.1 r.2.2 os
    (rest.1, rest.2.1, rest.2.2 || r.1 == .panic)

def mkSell (s : σ) (n : α) : Order σ α := ⟨none, .market, .sell, s, n, none⟩
def mkBuy (s : σ) (n : α) : Order σ α := ⟨none, .market, .buy, s, n, none⟩

inductive Walk (σ α : Type) where
  | done (orders : List (σ × α))
  | left (rem : α) (orders : List (σ × α))
  | panic

def walk (v : Variant) (b : Brk σ α) : List σ → α → List (σ × α) → Walk σ α
  | [], rem, acc => .left rem acc
  | k :: ks, rem, acc =>
    let pv := (posValue b k).getD 0
    if pv ≤ rem then
      match b.hold k with
      | some n => walk v b ks (rem - pv) (acc ++ [(k, n)])
      | none => walk v b ks rem acc
    else
      match b.latest k with
      | some q =>
        let n0 := if v.ceilFixed then HasFloor.ceil (rem / q.bid) else rem / HasFloor.ceil q.bid
        let n := if v.capFixed then
            (match b.hold k with | some h => if h < n0 then h else n0 | none => n0)
          else n0
        .done (acc ++ [(k, n)])
      | none => .panic

/-- `withdraw_cash_with_liquidation` -/
def withdrawLiq (v : Variant) (b : Brk σ α) (srv : Srv σ α) (ks : List σ) (req : α) :
    CashEv α × Brk σ α × Srv σ α :=
  if liqValue b ks < req then (.wFail req, debit b req, srv)
  else
    let fin (os : List (σ × α)) (rem : α) : CashEv α × Brk σ α × Srv σ α :=
      if isZero rem then
        let r := sendOrders v b srv (os.map (fun o => mkSell o.1 o.2))
        if r.2.2 then (.panic, r.1, r.2.1) else (.wOk req, r.1, r.2.1)
      else (.wFail req, debit b req, srv)
    match walk v b ks req [] with
    | .done os => fin os 0
    | .left rem os => fin os rem
    | .panic => (.panic, b, srv)

def book (b : Brk σ α) (t : Trade σ α) : Brk σ α :=
  let cash' := match t.side with | .buy => b.cash - t.value | .sell => t.value + b.cash
  let cur := qty b.hold t.symbol
  let upd := match t.side with | .buy => cur + t.quantity | .sell => cur - t.quantity
  let pen := qty b.pend t.symbol
  let updPen := match t.side with | .buy => pen - t.quantity | .sell => pen + t.quantity
  { b with cash := cash', hold := put b.hold t.symbol upd, pend := put b.pend t.symbol updPen,
           log := b.log ++ [t] }

/-- `check`: tick, fetch quotes, reconcile, rebalance. `ks` = `get_positions()` order after booking -/
def check (v : Variant) (b : Brk σ α) (srv : Srv σ α) (adm : List (Order σ α)) (ks : List σ) :
    Brk σ α × Srv σ α × Bool :=
  let r := srv.tick adm
  let srv1 := r.2
  let latest' : σ → Option (Quote α) := fun s =>
    match srv1.quotes srv1.date s with | some q => some q | none => b.latest s
  let b1 := r.1.2.foldl book { b with latest := latest' }
  if b1.cash < 0 then
    let shortfall := b1.cash * (-1)
    let plus := shortfall + 1000.0
    let w := withdrawLiq v b1 srv1 ks plus
    match w.1 with
    | .wFail _ => ({ w.2.1 with failed := true }, w.2.2, false)
    | .panic => (w.2.1, w.2.2, true)
    | _ => (w.2.1, w.2.2, false)
  else (b1, srv1, false)

/-! ### diff -/
def requiredShares (v : Variant) (costs : List (Cost α)) (d : α) (q : Quote α) : α :=
  let clamp (x : α) : α := if v.clampFixed then (if x < 0 then 0 else x) else x
  if d < 0 then
    let c := impactTotal costs (absv d) q.bid false
    Neg.neg (clamp (HasFloor.floor (c.1 / c.2)))
  else
    let c := impactTotal costs (absv d) q.ask true
    clamp (HasFloor.floor (c.1 / c.2))

def diffLoop (v : Variant) (b : Brk σ α) (total : α) :
    List (σ × α) → List (Order σ α) → List (Order σ α) → List (Order σ α) × List (Order σ α)
  | [], sells, buys => (sells, buys)
  | (s, w) :: rest, sells, buys =>
    let curr := (posValue b s).getD 0
    let target := total * w
    let d := target - curr
    if isZero d then (if v.contFixed then diffLoop v b total rest sells buys else (sells, buys))
    else match b.latest s with
      | none => diffLoop v b total rest sells buys
      | some q =>
        let r := requiredShares v b.costs d q
        if isZero r then diffLoop v b total rest sells buys
        else if 0 < r then diffLoop v b total rest sells (buys ++ [mkBuy s r])
        else diffLoop v b total rest (sells ++ [mkSell s (absv r)]) buys

/-- `none` = the zero-value panic -/
def diff (v : Variant) (b : Brk σ α) (ks : List σ) (ws : List (σ × α)) : Option (List (Order σ α)) :=
  let total := liqValue b ks
  if isZero total then none
  else let r := diffLoop v b total ws [] []; some (r.1 ++ r.2)

end PBk
