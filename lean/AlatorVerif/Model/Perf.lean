/-! perf: returns and portfolio return — prototype model, core only -/
namespace PP

class HasTransc (α : Type) where
  sqrt : α → α
  exp : α → α
  ln : α → α
  pow : α → α → α

instance : HasTransc Float := ⟨Float.sqrt, Float.exp, Float.log, Float.pow⟩

variable {α : Type} [Add α] [Sub α] [Mul α] [Div α] [OfNat α 0] [OfNat α 1] [LE α] [DecidableLE α]
  [HasTransc α]

def isZero (x : α) : Bool := decide (x ≤ 0) && decide ((0:α) ≤ x)

/-- one period of `get_returns`: `start`, `end`, the period's cash flow and inflation -/
def periodReturn (start end_ cf infl : α) : α :=
  let gain := end_ - (start + cf)
  let capital := start + cf
  if isZero capital then 0 else ((1 + gain / capital) / (1 + infl)) - 1

/-- `get_returns(values, cash_flows, inflation, is_log)`; lists are index-aligned, element 0 of
    `cfs`/`infl` is unused exactly as in the code (`for i in 1..count`) -/
def returns : List α → List α → List α → List α
  | v0 :: v1 :: vs, _ :: cf1 :: cfs, _ :: i1 :: is =>
      periodReturn v0 v1 cf1 i1 :: returns (v1 :: vs) (cf1 :: cfs) (i1 :: is)
  | _, _, _ => []

def logReturns (vs cfs is : List α) : List α := (returns vs cfs is).map (fun r => HasTransc.ln (1 + r))

def portfolioReturn (logRets : List α) : α := HasTransc.exp (logRets.foldl (· + ·) 0) - 1

end PP
