import AlatorVerif.Model.Broker
/-! StaticWeightStrategy — literal prototype model over the broker model -/
namespace PSt
open PU Proto PBk

variable {σ α : Type} [DecidableEq σ] [Add α] [Sub α] [Mul α] [Div α] [Neg α] [OfNat α 0] [OfNat α 1]
  [OfScientific α] [LT α] [DecidableLT α] [LE α] [DecidableLE α] [HasFloor α]

structure Snap (α : Type) where
  date : Int
  value : α
  ncf : α

structure Strat (σ α : Type) where
  b : Brk σ α
  srv : Srv σ α
  weights : List (σ × α)        -- in the map's iteration order
  ncf : α
  hist : List (Snap α)
  panicked : Bool := false

/-- the rebalancing step shared by `init` and `update` (DefaultTradingSchedule is always true) -/
def rebalance (v : Variant) (s : Strat σ α) (ks : List σ) : Strat σ α :=
  match diff v s.b ks s.weights with
  | none => { s with panicked := true }
  | some os =>
    let r := sendOrders v s.b s.srv os
    { s with b := r.1, srv := r.2.1, panicked := s.panicked || r.2.2 }

/-- `init`; `ncfFixed = false` is the pinned tree (F8: `net_cash_flow += net_cash_flow`) -/
def init (v : Variant) (ncfFixed : Bool) (s : Strat σ α) (cash : α) (ks : List σ) : Strat σ α :=
  let r := deposit s.b cash
  let ncf' := if ncfFixed then (match r.1 with | .dOk c => s.ncf + c | _ => s.ncf) else s.ncf + s.ncf
  rebalance v { s with b := r.2, ncf := ncf' } ks

/-- `update`: check, rebalance, snapshot. `ks1` = positions order during `check`, `ks2` afterwards -/
def update (v : Variant) (s : Strat σ α) (adm : List (Order σ α)) (ks1 ks2 : List σ) : Strat σ α :=
  let c := check v s.b s.srv adm ks1
  let s1 := { s with b := c.1, srv := c.2.1, panicked := s.panicked || c.2.2 }
  let s2 := rebalance v s1 ks2
  let snap : Snap α := { date := s2.srv.date, value := totalValue s2.b ks2, ncf := s2.ncf }
  { s2 with hist := s2.hist ++ [snap] }

def hasNext (s : Strat σ α) : Bool := decide (s.srv.pos < s.srv.dates.length)

def withdraw (s : Strat σ α) (c : α) : Strat σ α :=
  let r := PBk.withdraw s.b c
  match r.1 with
  | .wOk w => { s with b := r.2, ncf := s.ncf - w }
  | _ => { s with b := r.2 }

end PSt
