/-! futures of a `UistClient`: ready when returned (effect at call time) or lazy (effect when polled) -/
namespace PCl

inductive Kind | eager | lazy deriving DecidableEq, Repr

/-- a future over a server state `S`: already completed, or an effect still to be applied -/
inductive Fut (S : Type) where
  | ready
  | pending (eff : S → S)

variable {S O : Type}

/-- calling `insert_order` on a client of the given kind -/
def callInsert (push : S → O → S) (k : Kind) (s : S) (o : O) : S × Fut S :=
  match k with
  | .eager => (push s o, .ready)
  | .lazy => (s, .pending (fun s' => push s' o))

/-- awaiting / `block_on`: a pending effect is applied exactly once -/
def blockOn (s : S) : Fut S → S
  | .ready => s
  | .pending eff => eff s

/-- dropping a future without polling it -/
def dropFut (s : S) (_ : Fut S) : S := s

/-- forwarding an order: call `insert_order`, then either drive the future (`awaited`) or drop it -/
def forward (push : S → O → S) (awaited : Bool) (k : Kind) (s : S) (o : O) : S :=
  let r := callInsert push k s o
  if awaited then blockOn r.1 r.2 else dropFut r.1 r.2

/-- driven to completion, the order reaches the server exactly once whichever kind of client carries it -/
theorem forward_awaited (push : S → O → S) (k : Kind) (s : S) (o : O) :
    forward push true k s o = push s o := by cases k <;> rfl

/-- the defect F6b: a dropped future of a lazy client never delivers the order -/
theorem forward_dropped_lazy (push : S → O → S) (s : S) (o : O) : forward push false .lazy s o = s := rfl

theorem forward_dropped_eager (push : S → O → S) (s : S) (o : O) : forward push false .eager s o = push s o := rfl

end PCl
