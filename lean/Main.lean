import AlatorVerif.Driver.Perf
import AlatorVerif.Driver.Sched
import AlatorVerif.Driver.Http
import AlatorVerif.Driver.Srv
import AlatorVerif.DriverX.Broker
import AlatorVerif.DriverX.Cost
import AlatorVerif.DriverX.Jura
import AlatorVerif.DriverX.Strat

/-- one executable, one sub-command per modelled component; each reads the line protocol on stdin.
    `uist`, `jura`, `broker`, `strat`, `cost` run the carrier-generic drivers of `DriverX/` at `Float`; the `-exact`
    sub-commands run the very same driver code at `Rat` -/
def main (args : List String) : IO UInt32 := do
  match args with
  | "uist" :: _ => DrvX.Uist.main Float; return 0
  | "jura" :: _ => DrvX.Jura.main Float; return 0
  | "broker" :: r => DrvX.Broker.main Float r; return 0
  | "perf" :: r => Drv.Perf.main r; return 0
  | "server-uist" :: r => Drv.Srv.mainUist r; return 0
  | "server-jura" :: r => Drv.Srv.mainJura r; return 0
  | "sched" :: r => Drv.Sched.main r; return 0
  | "strat" :: r => DrvX.Strat.main Float r; return 0
  | "cost" :: _ => DrvX.Cost.main Float; return 0
  -- the same drivers at carrier `Rat` (exact arithmetic: an instance of the theorems' ordered-field hypotheses)
  | "uist-exact" :: _ => DrvX.Uist.main Rat; return 0
  | "cost-exact" :: _ => DrvX.Cost.main Rat; return 0
  | "broker-exact" :: r => DrvX.Broker.main Rat r; return 0
  | "jura-exact" :: _ => DrvX.Jura.main Rat; return 0
  | "strat-exact" :: r => DrvX.Strat.main Rat r; return 0
  | "http-uist" :: r => Drv.Http.mainUist r; return 0
  | "http-jura" :: r => Drv.Http.mainJura r; return 0
  | _ => IO.eprintln "usage: driver <uist|jura|broker|perf|server|sched|strat|cb|http>"; return 2
