//! JuraV1 exchange: generator and interpreter over the real code
use crate::common::*;
use rotala::exchange::jura_v1::{Fill, JuraV1, Order};
use rotala::input::penelope::{PenelopeQuote, PenelopeQuoteByDate};
use serde_json::{json, Value};
use std::collections::HashMap;

/// the `sp` token carries the decimal spelling (sp % 3) and the two fields that do not influence matching
/// (sp / 3: 0 = plain, 1 = reduce_only, 2 = a client order id, 3 = both); constructors only build plain orders
pub fn extras(sp: u64) -> (bool, Option<&'static str>) {
    match sp / 3 {
        1 => (true, None),
        2 => (false, Some("0x1234567890abcdef1234567890abcdef")),
        3 => (true, Some("0xfeedfacefeedfacefeedfacefeedface")),
        _ => (false, None),
    }
}
/// annotation token for the model: empty for a plain order
pub fn extras_tok(sp: u64) -> String {
    if sp / 3 == 0 { String::new() } else { format!(" X{}", sp / 3) }
}
fn spell(x: f64, sp: u64) -> String {
    match sp % 3 {
        1 => format!("{:.4}", x),
        2 => format!("{:e}", x),
        _ => x.to_string(),
    }
}

/// kind token: L:ioc | L:gtc | T:f<trigger px>:<is_market 0/1>:<tp|sl>
pub fn order_json(asset: u64, is_buy: bool, px: f64, sz: f64, kind: &str, sp: u64) -> Value {
    let parts: Vec<&str> = kind.split(':').collect();
    let typ = match parts[0] {
        "L" => json!({"Limit": {"tif": match parts[1] { "ioc" => "Ioc", "gtc" => "Gtc", _ => "Alo" }}}),
        _ => json!({"Trigger": {"trigger_px": pf(parts[1]), "is_market": parts[2] == "1", "tpsl": if parts[3] == "tp" { "Tp" } else { "Sl" }}}),
    };
    let (ro, cl) = extras(sp);
    json!({"asset": asset, "is_buy": is_buy, "limit_px": spell(px, sp), "sz": spell(sz, sp), "reduce_only": ro, "cloid": cl, "order_type": typ})
}

/// the public constructor that produces this order, if there is one
pub fn via_ctor(asset: u64, is_buy: bool, px: f64, sz: f64, kind: &str, sp: u64) -> Option<Order> {
    if sp / 3 != 0 {
        return None;
    }
    let (p, s) = (spell(px, sp), spell(sz, sp));
    let parts: Vec<&str> = kind.split(':').collect();
    match (parts[0], parts.get(1).copied()) {
        ("L", Some("ioc")) => Some(if is_buy { Order::market_buy(asset, &s, &p) } else { Order::market_sell(asset, s, p) }),
        ("L", Some("gtc")) => Some(if is_buy { Order::limit_buy(asset, s, p) } else { Order::limit_sell(asset, s, p) }),
        ("T", _) => {
            // constructors exist only for market triggers whose trigger price is the limit price
            if parts[2] != "1" || pf(parts[1]).to_bits() != px.to_bits() {
                return None;
            }
            Some(match (parts[3], is_buy) {
                ("sl", true) => Order::stop_buy(asset, s, p),
                ("sl", false) => Order::stop_sell(asset, s, p),
                ("tp", true) => Order::takeprofit_buy(asset, s, p),
                _ => Order::takeprofit_sell(asset, s, p),
            })
        }
        _ => None,
    }
}

fn show_json_order(j: &Value) -> String {
    // tolerant of missing or retyped fields (printed as `?`), so that a change of the wire format shows
    // up as a difference in the comparison instead of stopping the harness
    let typ = &j["order_type"];
    let s = |v: &Value| v.as_str().map(|x| x.to_lowercase()).unwrap_or_else(|| "?".into());
    let kind = if let Some(l) = typ.get("Limit") {
        format!("L:{}", s(&l["tif"]))
    } else if let Some(t) = typ.get("Trigger") {
        format!(
            "T:{}:{}:{}",
            t["trigger_px"].as_f64().map(fb).unwrap_or_else(|| "?".into()),
            t["is_market"].as_bool().map(|b| if b { "1" } else { "0" }).unwrap_or("?"),
            s(&t["tpsl"])
        )
    } else {
        "?".to_string()
    };
    let num = |v: &Value| v.as_str().and_then(|x| x.parse::<f64>().ok()).map(fb).unwrap_or_else(|| "?".into());
    format!(
        "{} {} {} {} {}",
        j["asset"].as_u64().map(|x| x.to_string()).unwrap_or_else(|| "?".into()),
        j["is_buy"].as_bool().map(|b| if b { "1" } else { "0" }).unwrap_or("?"),
        num(&j["limit_px"]),
        num(&j["sz"]),
        kind
    )
}
pub fn show_fill(f: &Fill) -> String {
    format!("{} {} {} {} {} {}", f.coin, f.oid, fb(f.px.parse::<f64>().unwrap()), f.side, fb(f.sz.parse::<f64>().unwrap()), f.time)
}
pub fn snapshot(ex: &JuraV1) -> String {
    let (book, buf, next, log) = ex.verif_snapshot();
    let rows: Vec<String> = book
        .iter()
        .map(|(id, o, att)| format!("{} {} {}", id, show_json_order(&serde_json::to_value(o).unwrap()), if *att { 1 } else { 0 }))
        .collect();
    format!("B {} {} ; U {} ; X {} ; L {}", book.len(), rows.join(" "), buf.len(), next, log.len())
}
pub fn parse_quotes(toks: &[&str]) -> (PenelopeQuoteByDate, usize) {
    let nq = pu(toks[0]) as usize;
    let mut q: PenelopeQuoteByDate = HashMap::new();
    for k in 0..nq {
        let b = 1 + 4 * k;
        let sym = toks[b].to_string();
        q.insert(sym.clone(), PenelopeQuote { bid: pf(toks[b + 1]), ask: pf(toks[b + 2]), symbol: sym, date: pi(toks[b + 3]) });
    }
    (q, 1 + 4 * nq)
}

pub fn gen(seed: u64, cases: usize, flavour: &str, path: &str) {
    let mut g = Gen::new(seed, path);
    let thorough = flavour.contains("thorough");
    let batchy = flavour.contains("batch");
    let dup = flavour.contains("dup"); // sizes from a tiny set: orders equal but for price and id
    // grid chosen so that limit*1.1 / limit*0.9 boundaries and trigger equalities are hit
    let grid = |r: &mut Rng| (r.below(40) + 1) as f64 * 0.25;
    for _ in 0..cases {
        g.line("RESET");
        g.stats.bump("cases");
        let mut next_id = 0u64;
        let mut pending = 0u64;
        let mut date = 100i64;
        let mut qty = 0u64;
        let mut recent_px: Vec<f64> = Vec::new();
        // one case in twelve leaves the ordinary regime: a long history (ids in the hundreds, a deep book), a dozen
        // assets, or large magnitudes (powers of two: the quarter-point grid and its decimal spellings stay exact)
        let stress = if g.rng.chance(1, 12) { 1 + g.rng.below(3) } else { 0 };
        g.stats.bump(match stress { 1 => "stress_long_history", 2 => "stress_many_assets", 3 => "stress_magnitudes", _ => "ordinary_regime" });
        let nasset: u64 = if stress == 2 { 12 } else { 3 }; // asset `nasset` is never quoted
        let mag: f64 = if stress == 3 { *g.rng.pick(&[1073741824.0, 1099511627776.0]) } else { 1.0 };
        // magnitudes include the clock: epoch milliseconds, a quarter of a second apart
        let (date_step, date_jitter) = if stress == 3 && g.rng.chance(1, 2) { date = 1_700_000_000_000; (250i64, 1u64) } else { (1i64, 3u64) };
        let len = if stress == 1 && batchy { 30 + g.rng.below(40) } else if stress == 1 { 250 + g.rng.below(450) } else if batchy { 3 + g.rng.below(6) } else { 5 + g.rng.below(60) };
        let deep = g.rng.chance(1, if thorough { 150 } else { 400 });
        let len = if deep { 4 + g.rng.below(8) } else { len };
        if deep {
            // a deep book: several thousand resting limit orders far from the market (buys far below, sells far above)
            let rounds = 5 + g.rng.below(2);
            for _ in 0..rounds {
                for k in 0..1000u64 {
                    g.line(&format!("I {} {} {} {} L:gtc 0 0", k % 3, k % 2, fb(if k % 2 == 1 { 0.25 } else { 4000.0 }), fb(100000.0 + k as f64)));
                    pending += 1;
                }
                g.line(&format!("T 0"));
                next_id += pending;
                pending = 0;
            }
            g.stats.bump("stress_book_of_5000_or_more_resting_orders");
        }
        for _ in 0..len {
            let roll = g.rng.below(10);
            if roll <= 4 {
                let reps = if batchy {
                    let sizes: [u64; 16] = [1, 2, 3, 7, 19, 20, 21, 22, 32, 33, 40, 64, 65, 100, 129, 300];
                    let mut n = *g.rng.pick(&sizes);
                    if thorough && g.rng.chance(1, 60) {
                        n = 500 + g.rng.below(4500);
                    }
                    n
                } else if g.rng.chance(1, 25) {
                    20 + g.rng.below(40)
                } else if g.rng.chance(1, if thorough { 150 } else { 600 }) {
                    // past the round capacities a buffer or a book may be given: 256, 1000, 1024
                    *g.rng.pick(&[256, 257, 300, 1000, 1025, 1100])
                } else {
                    1
                };
                let arrangement = g.rng.below(4);
                for k in 0..reps {
                    let is_buy = match arrangement {
                        0 => g.rng.chance(1, 2),
                        1 => k < reps / 2,
                        2 => k % 2 == 1,
                        _ => (k / 5) % 2 == 1,
                    };
                    let asset = if g.rng.chance(1, 15) { nasset } else { g.rng.below(nasset) };
                    qty += 1;
                    let sz = if dup { (1 + g.rng.below(3)) as f64 } else { qty as f64 + if g.rng.chance(1, 5) { 0.5 } else { 0.0 } };
                    let px = grid(&mut g.rng) * mag;
                    let kind = match g.rng.below(4) {
                        0 => "L:ioc".to_string(),
                        1 => "L:gtc".to_string(),
                        _ => {
                            let tp = g.rng.chance(1, 2);
                            let is_market = !g.rng.chance(1, 3);
                            let tpx = if g.rng.chance(1, 2) { px } else { grid(&mut g.rng) * mag };
                            format!("T:{}:{}:{}", fb(tpx), if is_market { 1 } else { 0 }, if tp { "tp" } else { "sl" })
                        }
                    };
                    let mut sp = g.rng.below(3) + if g.rng.chance(1, 5) { 3 * (1 + g.rng.below(3)) } else { 0 };
                    // sizes far from the ordinary: dust, nine decimals, thirteen digits (spelled in full, never with
                    // four decimals); prices that binary64 only approximates
                    let (sz, px) = if stress == 3 && g.rng.chance(1, 5) {
                        sp = (sp / 3) * 3 + if g.rng.chance(1, 2) { 0 } else { 2 };
                        (*g.rng.pick(&[4e-9, 1.123456789, 987654321987.0, 0.7999999999999999]) * (1.0 + qty as f64 / 1024.0), *g.rng.pick(&[px, 0.3, 0.1 + 0.2, 0.7]))
                    } else {
                        (sz, px)
                    };
                    recent_px.push(px);
                    if recent_px.len() > 8 {
                        recent_px.remove(0);
                    }
                    let via = g.rng.below(2);
                    g.stats.bump(&format!("insert_{}_{}", &kind[..1], if is_buy { "buy" } else { "sell" }));
                    g.line(&format!("I {} {} {} {} {} {} {}", asset, if is_buy { 1 } else { 0 }, fb(px), fb(sz), kind, sp, via));
                    pending += 1;
                }
            } else if roll == 5 {
                // children of triggers also take ids, so allow a margin above the admitted count
                let hi = next_id + 4;
                let id = if !g.rng.chance(1, 4) { g.rng.below(hi.max(1)) } else { hi + g.rng.below(5) };
                let asset = g.rng.below(nasset + 1);
                g.stats.bump("delete");
                g.line(&format!("D {asset} {id}"));
            } else {
                let mut line = String::new();
                let mut nq = 0;
                for a in 0..nasset {
                    if !g.rng.chance(1, 4) {
                        let mut bid = grid(&mut g.rng) * mag;
                        let mut ask = bid + g.rng.below(3) as f64 * 0.25 * mag;
                        // a quote that touches a recent limit price or its 10% band, or misses by one unit in the last place
                        if !recent_px.is_empty() && g.rng.chance(1, 6) {
                            let p0 = *g.rng.pick(&recent_px);
                            let p = match g.rng.below(3) { 0 => p0, 1 => p0 * (1.0 + 0.1), _ => p0 * (1.0 - 0.1) };
                            let q = match g.rng.below(3) { 0 => p, 1 => f64::from_bits(p.to_bits() + 1), _ => f64::from_bits(p.to_bits() - 1) };
                            if g.rng.chance(1, 2) { bid = q; if ask < bid { ask = bid; } } else { ask = q; if bid > ask { bid = ask; } }
                            g.stats.bump("quote_within_one_ulp_of_a_resting_price_or_its_band");
                        }
                        line += &format!(" {} {} {} {}", a, fb(bid), fb(ask), date);
                        nq += 1;
                    } else {
                        g.stats.bump("quote_gap");
                    }
                }
                if stress == 2 && g.rng.chance(1, 2) {
                    // symbols that parse to an asset number without being its decimal form are other instruments
                    for alias in ["07", "+3", "003", "1.0"] {
                        if g.rng.chance(1, 2) {
                            let bid = grid(&mut g.rng) * mag;
                            line += &format!(" {} {} {} {}", alias, fb(bid), fb(bid), date);
                            nq += 1;
                            g.stats.bump("quote_under_a_non_canonical_numeric_symbol");
                        }
                    }
                }
                g.line(&format!("T {nq}{line}"));
                g.stats.bump("tick");
                next_id += pending;
                pending = 0;
                date += date_step * (1 + g.rng.below(date_jitter) as i64);
            }
        }
    }
    g.finish();
}

pub fn run(ops: &str, annot: &str, imp: &str) {
    let mut out = Out::new(annot, imp);
    let mut ex = JuraV1::new();
    let mut batch: Vec<Value> = Vec::new();
    for line in read_ops(ops) {
        let toks: Vec<&str> = line.split(' ').filter(|t| !t.is_empty()).collect();
        match toks[0] {
            "RESET" => {
                ex = JuraV1::new();
                batch.clear();
                out.emit("RESET", "reset");
            }
            "I" => {
                let (asset, is_buy, px, sz, kind, sp, via) = (pu(toks[1]), toks[2] == "1", pf(toks[3]), pf(toks[4]), toks[5], pu(toks[6]), toks[7] == "1");
                let j = order_json(asset, is_buy, px, sz, kind, sp);
                let mut resp = "ok".to_string();
                let o: Order = match (via, via_ctor(asset, is_buy, px, sz, kind, sp)) {
                    (true, Some(c)) => {
                        out.stats.bump("insert_via_constructor");
                        if serde_json::to_value(&c).unwrap() != j {
                            resp = format!("ok CTOR-DIFFERS {}", show_json_order(&serde_json::to_value(&c).unwrap()));
                        }
                        c
                    }
                    _ => {
                        out.stats.bump("insert_via_deserialise");
                        serde_json::from_value(j.clone()).unwrap()
                    }
                };
                batch.push(serde_json::to_value(&o).unwrap());
                ex.insert_order(o);
                out.emit(&format!("{}{}", toks[..6].join(" "), extras_tok(sp)), &resp);
            }
            "D" => {
                ex.delete_order(pu(toks[1]), pu(toks[2]));
                out.stats.bump("delete");
                let s = snapshot(&ex);
                out.emit(&line, &format!("ok ; {s}"));
            }
            "T" => {
                let (q, used) = parse_quotes(&toks[1..]);
                let res = catch(|| ex.tick(&q));
                match res {
                    None => {
                        out.stats.bump("panic");
                        out.emit(&format!("{} A 0", toks[..1 + used].join(" ")), "PANIC");
                    }
                    Some((fills, inserted, kids)) => {
                        out.stats.add("fills", fills.len() as u64);
                        out.stats.add("children", kids.len() as u64);
                        out.stats.max("max_batch", inserted.len() as u64);
                        out.stats.bump("tick");
                        let ins: Vec<Value> = inserted.iter().map(|o| serde_json::to_value(o).unwrap()).collect();
                        let mut used_ix = vec![false; batch.len()];
                        let mut idx: Option<Vec<usize>> = Some(Vec::new());
                        for o in &ins {
                            match (0..batch.len()).find(|&i| !used_ix[i] && &batch[i] == o) {
                                Some(i) => {
                                    used_ix[i] = true;
                                    if let Some(v) = idx.as_mut() {
                                        v.push(i)
                                    }
                                }
                                None => idx = None,
                            }
                        }
                        let a = match &idx {
                            Some(ix) if ix.len() == batch.len() => format!("A {} {}", ix.len(), ix.iter().map(|i| i.to_string()).collect::<Vec<_>>().join(" ")),
                            _ => format!("A {} BAD", inserted.len()),
                        };
                        let fs: Vec<String> = fills.iter().map(show_fill).collect();
                        let s = snapshot(&ex);
                        out.emit(
                            &format!("{} {}", toks[..1 + used].join(" "), a),
                            &format!(
                                "F {} {} ; K {} {} ; N {} ; {}",
                                fills.len(),
                                fs.join(" "),
                                kids.len(),
                                kids.iter().map(|k| k.to_string()).collect::<Vec<_>>().join(" "),
                                inserted.len(),
                                s
                            ),
                        );
                        batch.clear();
                    }
                }
            }
            _ => panic!("bad op line: {line}"),
        }
    }
    out.finish();
}
