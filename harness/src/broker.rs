//! UistBroker over the real TestClient, over eager / lazy / suspending client wrappers, and over the repository's
//! reqwest `Client` talking to a real `HttpServer` on 127.0.0.1: generator and interpreter
use crate::common::*;
use crate::uist;
use alator::broker::uist::{UistBroker, UistBrokerBuilder};
use alator::broker::*;
use anyhow::{Error, Result};
use rotala::exchange::uist_v1::{Order, OrderId, OrderType};
use rotala::http::uist::uistv1_client::{BacktestId, TestClient, UistClient};
use rotala::http::uist::uistv1_server::*;
use rotala::http::uist::AppState;
use rotala::input::penelope::Penelope;
use std::cell::RefCell;
use std::collections::HashMap;
use std::future::Future;
use std::pin::Pin;
use std::rc::Rc;

pub const SYMS: [&str; 3] = ["AAA", "BBB", "CCC"];
pub const UNIVERSE: [&str; 4] = ["AAA", "BBB", "CCC", "ZZZ"];

/// read access to the server state behind a client
pub trait StateView {
    fn view<R>(&self, f: impl FnOnce(&AppState) -> R) -> R;
}
impl StateView for TestClient {
    fn view<R>(&self, f: impl FnOnce(&AppState) -> R) -> R {
        f(self.verif_state())
    }
}

/// a conforming client around a shared AppState whose futures are either ready when returned
/// (effects performed at call time, like TestClient) or lazy (effects performed when polled, like
/// any `async fn` implementation, e.g. the reqwest `Client`)
#[derive(Clone)]
pub struct Wrap {
    st: Rc<RefCell<AppState>>,
    lazy: bool,
    /// number of times a lazy future suspends (returns Pending after waking its waker) before it acts,
    /// as a future awaiting I/O does
    suspensions: u32,
}

/// a future that returns Pending `n` times, waking its waker each time
struct Yield(u32);
impl Future for Yield {
    type Output = ();
    fn poll(mut self: Pin<&mut Self>, cx: &mut std::task::Context<'_>) -> std::task::Poll<()> {
        if self.0 == 0 {
            std::task::Poll::Ready(())
        } else {
            self.0 -= 1;
            cx.waker().wake_by_ref();
            std::task::Poll::Pending
        }
    }
}
type BoxFut<T> = Pin<Box<dyn Future<Output = T>>>;
impl Wrap {
    pub fn new(src: Penelope, kind: &str) -> Self {
        Wrap { st: Rc::new(RefCell::new(AppState::single("D", src))), lazy: kind != "eager", suspensions: if kind == "slow" { 2 } else { 0 } }
    }
    fn go<T: 'static>(&self, f: impl FnOnce(&mut AppState) -> T + 'static) -> BoxFut<T> {
        let st = self.st.clone();
        if self.lazy {
            let n = self.suspensions;
            Box::pin(async move {
                Yield(n).await;
                f(&mut st.borrow_mut())
            })
        } else {
            let v = f(&mut st.borrow_mut());
            Box::pin(std::future::ready(v))
        }
    }
}
impl StateView for Wrap {
    fn view<R>(&self, f: impl FnOnce(&AppState) -> R) -> R {
        f(&self.st.borrow())
    }
}
impl UistClient for Wrap {
    fn tick(&mut self, id: BacktestId) -> impl Future<Output = Result<TickResponse>> {
        self.go(move |s| s.tick(id).map(|r| TickResponse { has_next: r.0, executed_trades: r.1, inserted_orders: r.2 }).ok_or(Error::new(UistV1Error::UnknownBacktest)))
    }
    fn delete_order(&mut self, oid: OrderId, id: BacktestId) -> impl Future<Output = Result<()>> {
        self.go(move |s| s.delete_order(oid, id).ok_or(Error::new(UistV1Error::UnknownBacktest)))
    }
    fn insert_order(&mut self, o: Order, id: BacktestId) -> impl Future<Output = Result<()>> {
        self.go(move |s| s.insert_order(o, id).ok_or(Error::new(UistV1Error::UnknownBacktest)))
    }
    fn fetch_quotes(&mut self, id: BacktestId) -> impl Future<Output = Result<FetchQuotesResponse>> {
        self.go(move |s| s.fetch_quotes(id).map(|q| FetchQuotesResponse { quotes: q.clone() }).ok_or(Error::new(UistV1Error::UnknownBacktest)))
    }
    fn init(&mut self, n: String) -> impl Future<Output = Result<InitResponse>> {
        self.go(move |s| s.init(n).map(|i| InitResponse { backtest_id: i }).ok_or(Error::new(UistV1Error::UnknownDataset)))
    }
    fn info(&mut self, id: BacktestId) -> impl Future<Output = Result<InfoResponse>> {
        self.go(move |s| s.backtests.get(&id).map(|b| InfoResponse { version: "v1".into(), dataset: b.dataset_name.clone() }).ok_or(Error::new(UistV1Error::UnknownBacktest)))
    }
    fn now(&mut self, id: BacktestId) -> impl Future<Output = Result<NowResponse>> {
        self.go(move |s| {
            let b = s.backtests.get(&id).ok_or(Error::new(UistV1Error::UnknownBacktest))?;
            let d = s.datasets.get(&b.dataset_name).ok_or(Error::new(UistV1Error::UnknownDataset))?;
            Ok(NowResponse { now: b.date, has_next: d.has_next(b.pos) })
        })
    }
}

/// the repository's HTTP client against a real server on the loopback interface; the server's state is shared
/// with the harness so that the exchange behind the transport can be observed like behind the other clients
pub struct HttpC {
    inner: rotala::http::uist::uistv1_client::Client,
    data: actix_web::web::Data<std::sync::Mutex<AppState>>,
}
impl StateView for HttpC {
    fn view<R>(&self, f: impl FnOnce(&AppState) -> R) -> R {
        f(&self.data.lock().unwrap_or_else(|e| e.into_inner()))
    }
}
impl UistClient for HttpC {
    fn tick(&mut self, id: BacktestId) -> impl Future<Output = Result<TickResponse>> {
        self.inner.tick(id)
    }
    fn delete_order(&mut self, oid: OrderId, id: BacktestId) -> impl Future<Output = Result<()>> {
        self.inner.delete_order(oid, id)
    }
    fn insert_order(&mut self, o: Order, id: BacktestId) -> impl Future<Output = Result<()>> {
        self.inner.insert_order(o, id)
    }
    fn fetch_quotes(&mut self, id: BacktestId) -> impl Future<Output = Result<FetchQuotesResponse>> {
        self.inner.fetch_quotes(id)
    }
    fn init(&mut self, n: String) -> impl Future<Output = Result<InitResponse>> {
        self.inner.init(n)
    }
    fn info(&mut self, id: BacktestId) -> impl Future<Output = Result<InfoResponse>> {
        self.inner.info(id)
    }
    fn now(&mut self, id: BacktestId) -> impl Future<Output = Result<NowResponse>> {
        self.inner.now(id)
    }
}

struct Tcp {
    addr: std::net::SocketAddr,
    data: actix_web::web::Data<std::sync::Mutex<AppState>>,
    _rt: tokio::runtime::Runtime,
}
/// one server for the whole run (its state is replaced at the start of every `http` case), in its own thread, and a
/// multi-threaded tokio runtime whose workers drive the client's sockets while the broker blocks on its futures
fn tcp() -> Option<&'static Tcp> {
    static T: std::sync::OnceLock<Option<Tcp>> = std::sync::OnceLock::new();
    T.get_or_init(|| {
        if std::env::var("VERIF_NO_TCP").is_ok() {
            return None;
        }
        let data = actix_web::web::Data::new(std::sync::Mutex::new(AppState::create(&mut HashMap::new())));
        let d = data.clone();
        let (tx, rx) = std::sync::mpsc::channel();
        std::thread::spawn(move || {
            use rotala::http::uist::uistv1_server::*;
            let sys = actix_web::rt::System::new();
            let srv = actix_web::HttpServer::new(move || {
                actix_web::App::new().app_data(d.clone()).service(info).service(init).service(fetch_quotes).service(tick).service(insert_order).service(delete_order).service(now)
            })
            .workers(1)
            .disable_signals()
            .bind(("127.0.0.1", 0));
            match srv {
                Ok(s) => {
                    let _ = tx.send(Some(s.addrs()[0]));
                    let _ = sys.block_on(s.run());
                }
                Err(_) => {
                    let _ = tx.send(None);
                }
            }
        });
        let addr = rx.recv_timeout(std::time::Duration::from_secs(10)).ok().flatten()?;
        let rt = tokio::runtime::Builder::new_multi_thread().worker_threads(2).enable_all().build().ok()?;
        Some(Tcp { addr, data, _rt: rt })
    })
    .as_ref()
}

pub fn cash_ev(e: &BrokerCashEvent) -> String {
    match e {
        BrokerCashEvent::WithdrawSuccess(c) => format!("WOK {}", fb(*c)),
        BrokerCashEvent::WithdrawFailure(c) => format!("WFAIL {}", fb(*c)),
        BrokerCashEvent::DepositSuccess(c) => format!("DOK {}", fb(*c)),
        BrokerCashEvent::OperationFailure(c) => format!("OPFAIL {}", fb(*c)),
    }
}
pub fn smap(m: &HashMap<String, f64>) -> String {
    let mut v: Vec<_> = m.iter().collect();
    v.sort_by(|a, c| a.0.cmp(c.0));
    format!("{} {}", v.len(), v.iter().map(|(k, x)| format!("{} {}", k, fb(**x))).collect::<Vec<_>>().join(" "))
}
fn of(x: Option<f64>) -> String {
    x.map(fb).unwrap_or_else(|| "-".into())
}

pub fn parse_costs(t: &[&str]) -> Vec<BrokerCost> {
    let n = pu(t[0]) as usize;
    (0..n)
        .map(|k| {
            let v = pf(t[2 + 2 * k]);
            match t[1 + 2 * k] {
                "P" => BrokerCost::per_share(v),
                "C" => BrokerCost::pct_of_value(v),
                _ => BrokerCost::flat(v),
            }
        })
        .collect()
}

/// everything a client of the broker can observe, plus the exchange state behind the client
pub fn observe<C: UistClient + StateView>(b: &UistBroker<C>, id: BacktestId, universe: &[String]) -> String {
    let pos = b.get_positions();
    let st = match b.get_broker_state() {
        BrokerState::Ready => "Ready",
        BrokerState::Failed => "Failed",
    };
    let per: Vec<String> = universe
        .iter()
        .map(|s| {
            format!(
                "{} {} {} {} {} {}",
                s,
                of(b.get_position_value(s)),
                of(b.get_position_liquidation_value(s)),
                of(b.cost_basis(s)),
                of(b.get_position_profit(s)),
                b.get_quote(s).map(|q| format!("{} {}", fb(q.bid), fb(q.ask))).unwrap_or_else(|| "- -".into())
            )
        })
        .collect();
    let (k, xb, xk, xl) = b.verif_client().view(|st| {
        let bt = st.backtests.get(&id).unwrap();
        let (book, buf, _next, log) = bt.exchange.verif_snapshot();
        (
            format!("{} {}", bt.pos, bt.date),
            format!("{} {}", buf.len(), buf.iter().map(uist::show_order).collect::<Vec<_>>().join(" ")),
            format!("{} {}", book.len(), book.iter().map(uist::show_order).collect::<Vec<_>>().join(" ")),
            // the exchange's own trade log, in execution order
            format!("{} {}", log.len(), log.iter().map(uist::show_trade).collect::<Vec<_>>().join(" ")),
        )
    });
    let log = b.trades_between(&i64::MIN, &i64::MAX);
    format!(
        "G {} ; H {} ; P {} ; HP {} ; S {} ; TV {} ; LV {} ; K {} ; T {} {} ; V {} ; XB {} ; XK {} ; XL {} ; W {} {}",
        fb(b.get_cash_balance()),
        smap(&b.get_holdings()),
        smap(&b.get_pending_orders()),
        smap(&b.get_holdings_with_pending()),
        st,
        fb(b.get_total_value()),
        fb(b.get_liquidation_value()),
        k,
        log.len(),
        log.iter().map(uist::show_trade).collect::<Vec<_>>().join(" "),
        per.join(" "),
        xb,
        xk,
        xl,
        pos.len(),
        pos.join(" ")
    )
}

fn resolve<C: UistClient + StateView>(b: &UistBroker<C>, tok: &str) -> f64 {
    if tok.starts_with('f') && tok[1..].chars().all(|c| c.is_ascii_digit()) {
        return pf(tok);
    }
    // the balance moved by one unit in the last place
    if tok == "cash*up" || tok == "cash*down" {
        let c = b.get_cash_balance();
        if c.is_finite() && c != 0.0 {
            let up = (tok == "cash*up") == (c > 0.0);
            return f64::from_bits(if up { c.to_bits() + 1 } else { c.to_bits() - 1 });
        }
        return c;
    }
    // expr[:sym][+f<bits>]
    let (head, add) = match tok.split_once('+') {
        Some((h, a)) => (h, pf(a)),
        None => (tok, 0.0),
    };
    let (name, sym) = match head.split_once(':') {
        Some((n, s)) => (n, s),
        None => (head, ""),
    };
    let base = match name {
        "cash" => b.get_cash_balance(),
        "liq" => b.get_liquidation_value(),
        "mid" => (b.get_cash_balance() + b.get_liquidation_value()) / 2.0,
        "short" => b.get_cash_balance() * -1.0 + 1000.0,
        "held" => b.get_position_qty(sym).unwrap_or(0.0),
        "afford" => b.get_quote(sym).map(|q| (b.get_cash_balance() / q.ask).floor()).unwrap_or(1.0),
        "exact" => b.get_quote(sym).map(|q| b.get_cash_balance() / q.ask).unwrap_or(1.0),
        "pv" => b.get_position_value(sym).unwrap_or(0.0),
        _ => panic!("bad expression {tok}"),
    };
    base + add
}

pub fn gen(seed: u64, cases: usize, flavour: &str, path: &str) {
    let mut g = Gen::new(seed, path);
    let whole = flavour.contains("whole"); // whole-share, dyadic grid: exact arithmetic
    let liqf = flavour.contains("liq"); // liquidation / failed-state heavy
    let difff = flavour.contains("diff"); // rebalancing heavy
    for _ in 0..cases {
        g.line("RESET");
        g.stats.bump("cases");
        // one case in twelve leaves the ordinary regime: a long history over a long dataset, a dozen symbols, or
        // magnitudes far from 1 (powers of two, which keep the whole-share grid exact)
        let stress = if g.rng.chance(1, 12) { 1 + g.rng.below(3) } else if g.rng.chance(1, 150) { 4 } else { 0 };
        g.stats.bump(match stress { 1 => "stress_long_history", 2 => "stress_many_symbols", 3 => "stress_magnitudes", 4 => "stress_order_burst", _ => "ordinary_regime" });
        // the reqwest client over a real socket only on the whole-share dyadic grid: serde_json (without its
        // `float_roundtrip` feature) may move a long binary64 literal by one ulp, which C20 allows (1e-12) but which
        // makes bit-level decisions (cash == cost) differ from the in-process run; short decimals travel exactly
        let client = if whole && stress != 3 && g.rng.chance(1, 6) { "http" } else { *g.rng.pick(&["test", "test", "eager", "lazy", "slow"]) };
        g.line(&format!("CLIENT {client}"));
        g.stats.bump(&format!("client_{client}"));
        // now and then a long cost list (past 16 entries), each entry small
        let long_costs = g.rng.chance(1, 40);
        let nc = if long_costs { *g.rng.pick(&[16u64, 17, 18, 33]) } else { g.rng.below(4) };
        let mut cl = String::new();
        for _ in 0..nc {
            match g.rng.below(3) {
                0 => cl += &format!(" P {}", fb(if long_costs { *g.rng.pick(&[0.0, 0.01]) } else { *g.rng.pick(&[0.25, 0.5, 0.01]) })),
                1 => cl += &format!(" C {}", fb(if long_costs { *g.rng.pick(&[0.0, 0.001, 0.01]) } else { *g.rng.pick(&[0.0, 0.125, 0.01, 0.25]) })),
                _ => cl += &format!(" F {}", fb(if long_costs { *g.rng.pick(&[0.0, 1.0]) } else { *g.rng.pick(&[0.0, 1.0, 10.0, 2500.0]) })),
            }
        }
        g.line(&format!("COSTS {nc}{cl}"));
        g.stats.bump(&format!("cost_list_len_{}", if nc > 6 { "16_or_more".to_string() } else { nc.to_string() }));
        let wide: Vec<String> = (0..12).map(|i| format!("S{i:02}")).collect();
        let syms: Vec<&str> = if stress == 2 { wide.iter().map(|x| x.as_str()).collect() } else { SYMS.to_vec() };
        // (price scale, cash scale): the last pair makes share counts of 1e10 and more
        let (mag, cmag): (f64, f64) = if stress == 3 { *g.rng.pick(&[(1048576.0, 1048576.0), (1.0 / 128.0, 1.0 / 128.0), (1073741824.0, 1073741824.0), (1.0 / 16777216.0, 16.0)]) } else { (1.0, 1.0) };
        // the clock in epoch milliseconds, a quarter of a second apart
        // or (long histories) in epoch seconds, one bar a day, with one symbol unquoted for weeks on end
        let (date0, date_step) = if stress == 3 && g.rng.chance(1, 2) { (1_700_000_000_000i64, 250i64) } else if stress == 1 { (1_600_000_000i64, 86_400i64) } else { (100i64, 1i64) };
        let gappy: Option<usize> = if stress == 1 { Some(g.rng.below(3) as usize) } else { None };
        let nd = if stress == 1 { 30 + g.rng.below(40) as i64 } else { 3 + g.rng.below(10) as i64 };
        g.line(&format!("DATA D {} {}", syms.len(), syms.join(" ")));
        let jump = g.rng.chance(1, 3) || liqf;
        let flat_prices = g.rng.chance(1, 6);
        let mut base_px = [0.0f64; 12];
        for d in 0..nd {
            let mut l = String::new();
            let mut nq = 0;
            for (si, s) in syms.iter().enumerate() {
                let long_gap = gappy == Some(si) && d >= 2 && d < nd - 3;
                if !long_gap && (d == 0 || !g.rng.chance(1, 5)) {
                    let top = if jump && d >= 2 && g.rng.chance(1, 2) { 400 } else { 100 };
                    let mut bid = (if whole { (g.rng.below(top) + 1) as f64 * 0.5 } else { (g.rng.below(top * 100) + 1) as f64 * 0.013 }) * mag;
                    if flat_prices {
                        if d == 0 {
                            base_px[si] = bid;
                        }
                        bid = base_px[si];
                    }
                    let ask = if flat_prices { bid } else { bid + g.rng.below(3) as f64 * 0.5 * mag };
                    l += &format!(" {} {} {}", s, fb(bid), fb(ask));
                    nq += 1;
                } else {
                    g.stats.bump("quote_gap");
                }
            }
            g.line(&format!("Q D {} {}{}", date0 + date_step * d, nq, l));
        }
        g.line("BUILD");
        if (liqf || difff) && g.rng.chance(3, 4) {
            // prelude: fund the broker and open one to three positions, so that liquidation and
            // rebalancing have something to work on
            let d0 = *g.rng.pick(&[1000.0, 100000.0, 12345.5]) * cmag;
            g.line(&format!("DEP {}", fb(d0)));
            let np = 1 + g.rng.below(if stress == 2 { 9 } else { 3 });
            for si in 0..np {
                let sh = if whole { *g.rng.pick(&[1.0, 10.0, 37.0, 100.0]) } else { *g.rng.pick(&[1.0, 10.0, 37.25, 100.0]) };
                g.line(&format!("SEND 1 {} {} -", syms[si as usize], fb(sh)));
            }
            g.line("CHECK");
            if liqf && g.rng.chance(1, 2) {
                // spend what is left at the current ask: a price jump at execution drives cash negative
                g.line(&format!("SEND 1 {} afford:{} -", syms[0], syms[0]));
            }
            g.line("CHECK");
            g.stats.bump("prelude_positions");
        }
        if stress == 4 {
            // more than 256 / 1024 orders between two reconciliations (a short case: every later line prints the whole log)
            g.line(&format!("DEP {}", fb(10000000.0)));
            let n = *g.rng.pick(&[257u64, 1025, 1100]);
            for _ in 0..n {
                g.line(&format!("~SEND 1 {} {} -", syms[0], fb(1.0)));
            }
            g.line("GET");
            g.line("CHECK");
            g.line("CHECK");
            g.stats.bump("stress_more_than_1024_orders_between_checks");
        }
        if let Some(si) = gappy {
            // hold the symbol that is about to go unquoted
            g.line(&format!("DEP {}", fb(100000.0)));
            g.line(&format!("SEND 1 {} {} -", syms[si], fb(10.0)));
            g.line("CHECK");
        }
        if stress == 4 {
            // after the burst: go flat and re-open, then trade something else (a log of hundreds of trades by now)
            g.line(&format!("SEND 0 {} held:{} -", syms[0], syms[0]));
            g.line("CHECK");
            g.line(&format!("SEND 1 {} {} -", syms[0], fb(10.0)));
            g.line("CHECK");
            // ... and a second, smaller burst in another symbol, so that whatever is kept per block of trades (64, 128,
            // 256) closes a block after the position was re-opened
            for _ in 0..(130 + g.rng.below(140)) {
                g.line(&format!("~SEND 1 {} {} -", syms[1], fb(1.0)));
            }
            g.line("CHECK");
            g.line("CHECK");
        }
        let len = if stress == 1 { 100 + g.rng.below(150) } else if stress == 4 { 3 + g.rng.below(8) } else { 5 + g.rng.below(40) };
        for _ in 0..len {
            let k = g.rng.below(if liqf || difff { 16 } else { 13 });
            match k {
                0 | 1 => {
                    // round amounts, and (off the whole-share grid) decimal fractions that binary64 only approximates
                    let x = if !whole && g.rng.chance(1, 8) { *g.rng.pick(&[0.3, 0.7, 0.1, 1.1]) } else { *g.rng.pick(&[0.0, 100.0, 1000.0, 100000.0, 12345.5]) * cmag };
                    g.line(&format!("DEP {}", fb(x)));
                    g.stats.bump("DEP");
                }
                2 => {
                    // whole balance, just above it (0.5, 0.004, 0.001, 1e-9), just below it, a fixed amount, half-way to liquidation value
                    let e = *g.rng.pick(&["cash", "cash+f4602678819172646912", "f4632233691727265792", "mid",
                        "cash+f4571261708172110332", "cash+f4562254508917369340", "cash+f4472406533629990549", "cash+f13785626545772145148"]);
                    // 0.1, 0.2 (after deposits of 0.3 the balance is a few units in the last place away from them)
                    let e = if !whole && g.rng.chance(1, 6) { *g.rng.pick(&["f4591870180066957722", "f4596373779694328218", "cash*up", "cash*down"]) } else { e };
                    g.line(&format!("WD {e}"));
                    g.stats.bump("WD");
                }
                3..=5 => {
                    let t = if g.rng.chance(1, 6) { 2 + g.rng.below(4) } else { g.rng.below(2) };
                    let sym = if g.rng.chance(1, 30) { "ZZZ" } else { *g.rng.pick(&syms) };
                    let sh = match g.rng.below(9) {
                        0 => fb(0.0),
                        1 => fb(1.0),
                        2 => fb(10.0),
                        3 => fb(100.0),
                        4 => fb(1000.0),
                        5 => if whole { fb(37.0) } else if g.rng.chance(1, 3) { fb(*g.rng.pick(&[1e-16, 4e-9, 1.123456789])) } else { fb(37.25) },
                        6 => format!("held:{sym}"),
                        7 => format!("held:{sym}+{}", fb(1.0)),
                        // cash / ask (cost = cash exactly, fractional shares) or its floor (whole shares; on the
                        // dyadic grid the cost still equals cash whenever the ask divides it)
                        _ => if !whole && g.rng.chance(1, 2) { format!("exact:{sym}") } else { format!("afford:{sym}") },
                    };
                    let px = if t < 2 { "-".to_string() } else { fb(g.rng.below(100) as f64 * 0.5 * mag) };
                    g.line(&format!("SEND {t} {sym} {sh} {px}"));
                    g.stats.bump(&format!("SEND_type_{t}"));
                }
                6..=8 | 13 => {
                    g.line("CHECK");
                    g.stats.bump("CHECK");
                }
                9 | 14 => {
                    let e = *g.rng.pick(&["cash+f4607182418800017408", "cash+f4636737291354636288", "liq", "liq+f4602678819172646912", "mid", "cash+f4652007308841189376", "short", "cash", "f4632233691727265792",
                        "cash+f4562254508917369340", "liq+f4562254508917369340", "liq+f13785626545772145148"]);
                    // exactly the value of one position at its last bid (the walk then ends on a whole-position sale), or just off it
                    let e = if g.rng.chance(1, 5) {
                        let sym = *g.rng.pick(&syms);
                        match g.rng.below(3) { 0 => format!("pv:{sym}"), 1 => format!("pv:{sym}+{}", fb(1.0)), _ => format!("pv:{sym}+{}", fb(-0.5)) }
                    } else {
                        e.to_string()
                    };
                    g.line(&format!("LIQ {e}"));
                    g.stats.bump("LIQ");
                }
                10 | 15 => {
                    let n = 1 + g.rng.below(if stress == 2 { 10 } else { 4 });
                    let mut l = String::new();
                    let mut used: Vec<&str> = Vec::new();
                    for _ in 0..n {
                        let s = if g.rng.chance(1, 6) { "ZZZ" } else { *g.rng.pick(&syms) };
                        if used.contains(&s) {
                            continue;
                        }
                        used.push(s);
                        // weights including 0, the current weight of a held position and tiny gaps
                        let w = match g.rng.below(9) {
                            // a gap of about one share at the gross quote (just under, exactly, just over; over- and under-weight):
                            // with per-share or percentage costs the cost model's share count then sits at the 0 / 1 / 2 boundary
                            7 | 8 => {
                                let k = *g.rng.pick(&[-0.999, -0.97, -0.9, -1.0, -1.001, -1.03, -1.5, -2.0, 0.999, 0.97, 1.0, 1.001, 1.03, 1.1, 1.5, 2.0]);
                                g.stats.bump("DIFF_gap_about_one_share");
                                format!("sh:{s}+{}", fb(k))
                            }
                            0 => fb(0.0),
                            1 => fb(0.25),
                            2 => fb(0.5),
                            3 => fb(0.1),
                            4 => fb(1.0),
                            5 => fb(0.001),
                            // exactly on target, or off it by a sliver of the portfolio (a gap of a few shares of a cheap asset)
                            _ => match g.rng.below(4) { 0 => format!("cur:{s}+{}", fb(1e-10)), 1 => format!("cur:{s}+{}", fb(-1e-10)), _ => format!("cur:{s}") },
                        };
                        l += &format!(" {s} {w}");
                    }
                    g.line(&format!("DIFF {}{}", used.len(), l));
                    g.stats.bump("DIFF");
                }
                11 => {
                    g.line("SENDDIFF");
                    g.stats.bump("SENDDIFF");
                }
                _ => {
                    g.line("GET");
                }
            }
        }
    }
    g.finish();
}

fn run_case<C: UistClient + StateView>(brkr: &mut UistBroker<C>, id: BacktestId, lines: &[String], out: &mut Out, universe: &[String]) {
    let mut last_diff: Vec<Order> = Vec::new();
    for line in lines {
        // `~OP ...`: the operation is performed as usual but only its event is printed, not the whole observation
        // (a burst of a thousand orders would otherwise print the growing buffer a thousand times)
        let quiet = line.starts_with('~');
        let line = &line[if quiet { 1 } else { 0 }..].to_string();
        let t: Vec<&str> = line.split(' ').filter(|x| !x.is_empty()).collect();
        let (ann, ev): (String, String) = match t[0] {
            "DEP" => {
                let x = resolve(brkr, t[1]);
                (format!("DEP {}", fb(x)), cash_ev(&brkr.deposit_cash(&x)))
            }
            "WD" => {
                let x = resolve(brkr, t[1]);
                (format!("WD {}", fb(x)), cash_ev(&brkr.withdraw_cash(&x)))
            }
            "SEND" => {
                let sh = resolve(brkr, t[3]);
                let px = if t[4] == "-" { None } else { Some(pf(t[4])) };
                let o = uist::mk_order(pu(t[1]), t[2], sh, px);
                let value = brkr.get_quote(t[2]).map(|q| sh * q.ask);
                if value == Some(brkr.get_cash_balance()) && pu(t[1]) % 2 == 1 {
                    out.stats.bump("send_buy_cost_equals_cash");
                }
                let r = catch(|| brkr.send_order(o));
                let e = match r {
                    Some(BrokerEvent::OrderSentToExchange(_)) => "sent",
                    Some(_) => "invalid",
                    None => "PANIC",
                };
                out.stats.bump(&format!("send_{e}"));
                (format!("SEND {} {} {} {}", t[1], t[2], fb(sh), t[4]), e.to_string())
            }
            "CHECK" => {
                let batch = brkr.verif_client().view(|s| s.backtests.get(&id).unwrap().exchange.verif_snapshot().1);
                let next_before = brkr.verif_client().view(|s| s.backtests.get(&id).unwrap().exchange.verif_snapshot().2);
                let r = catch(|| block_on(brkr.check()));
                // the admitted orders are the resting orders with ids from next_before on, plus those
                // of them that... (a freshly admitted order cannot fill in the same tick)
                let admitted: Vec<Order> = brkr.verif_client().view(|s| {
                    s.backtests.get(&id).unwrap().exchange.verif_snapshot().0.into_iter().filter(|o| o.order_id.unwrap() >= next_before).collect()
                });
                // orders queued by the automatic rebalancing are in the buffer, not in the book
                let a = match uist::admission_indices(&batch, &admitted) {
                    Some(ix) if ix.len() == batch.len() => format!("A {} {}", ix.len(), ix.iter().map(|i| i.to_string()).collect::<Vec<_>>().join(" ")),
                    _ => format!("A {} BAD", admitted.len()),
                };
                out.stats.bump("check");
                (format!("CHECK @ {a}"), if r.is_some() { "ok".into() } else { "PANIC".into() })
            }
            "LIQ" => {
                let x = resolve(brkr, t[1]);
                if x > brkr.get_cash_balance() {
                    out.stats.bump("liq_request_above_cash");
                } else {
                    out.stats.bump("liq_request_at_most_cash");
                }
                let r = catch(|| brkr.withdraw_cash_with_liquidation(&x));
                let e = match &r {
                    Some(e) => cash_ev(e),
                    None => "PANIC".into(),
                };
                out.stats.bump(&format!("liq_{}", e.split(' ').next().unwrap()));
                (format!("LIQ {}", fb(x)), e)
            }
            "DIFF" => {
                let n = pu(t[1]) as usize;
                let mut w: HashMap<String, f64> = HashMap::new();
                for k in 0..n {
                    let sym = t[2 + 2 * k];
                    let tok = t[3 + 2 * k];
                    let v = if let Some(s) = tok.strip_prefix("cur:") {
                        // the weight at which the position is exactly on target (plus an optional offset)
                        let (s, off) = match s.split_once('+') { Some((a, b)) => (a, pf(b)), None => (s, 0.0) };
                        let lv = brkr.get_liquidation_value();
                        brkr.get_position_value(s).unwrap_or(0.0) / lv + off
                    } else if let Some(s) = tok.strip_prefix("sh:") {
                        // the weight at which the gap is k shares at the gross quote (bid when over-weight, ask when under-weight)
                        let (s, k) = match s.split_once('+') { Some((a, b)) => (a, pf(b)), None => (s, 0.0) };
                        let lv = brkr.get_liquidation_value();
                        let px = brkr.get_quote(s).map(|q| if k < 0.0 { q.bid } else { q.ask }).unwrap_or(0.0);
                        // a target weight is a fraction of the portfolio: never negative (an unheld symbol cannot be over-weight)
                        ((brkr.get_position_value(s).unwrap_or(0.0) + k * px) / lv).max(0.0)
                    } else {
                        pf(tok)
                    };
                    w.insert(sym.to_string(), v);
                }
                let order: Vec<String> = w.iter().map(|(k, v)| format!("{} {}", k, fb(*v))).collect();
                let r = catch(|| brkr.diff_brkr_against_target_weights(&w));
                let e = match &r {
                    Some(os) => {
                        last_diff = os.clone();
                        out.stats.add("diff_orders", os.len() as u64);
                        format!("D {} {}", os.len(), os.iter().map(|o| format!("{} {} {}", if uist::typ_num(&o.order_type) == 0 { "S" } else if uist::typ_num(&o.order_type) == 1 { "B" } else { "?" }, o.symbol, fb(o.shares))).collect::<Vec<_>>().join(" "))
                    }
                    None => {
                        last_diff.clear();
                        out.stats.bump("diff_panic_zero_value");
                        "PANIC".into()
                    }
                };
                out.stats.bump("diff");
                (format!("DIFF {} {}", order.len(), order.join(" ")), e)
            }
            "SENDDIFF" => {
                // send the orders of the last DIFF (what the strategy does)
                let os = std::mem::take(&mut last_diff);
                let r = catch(|| brkr.send_orders(&os));
                let e = match r {
                    Some(evs) => format!("SD {} {}", evs.len(), evs.iter().map(|e| if matches!(e, BrokerEvent::OrderSentToExchange(_)) { "sent" } else { "invalid" }).collect::<Vec<_>>().join(" ")),
                    None => "PANIC".into(),
                };
                (format!("SENDDIFF {} {}", os.len(), os.iter().map(|o| format!("{} {} {}", uist::typ_num(&o.order_type), o.symbol, fb(o.shares))).collect::<Vec<_>>().join(" ")), e)
            }
            "GET" => ("GET".into(), "get".into()),
            _ => panic!("bad op line: {line}"),
        };
        if quiet {
            out.emit(&format!("~{ann}"), &format!("EV {ev}"));
            continue;
        }
        let obs = observe(brkr, id, universe);
        // positions order (hash iteration order of the holdings map after the operation)
        let w = obs.rsplit(" ; W ").next().unwrap().to_string();
        let ann = if ann.contains(" @ ") { format!("{ann} ; W {w}") } else { format!("{ann} @ W {w}") };
        out.emit(&ann, &format!("EV {ev} ; {obs}"));
    }
}

pub fn run(ops: &str, annot: &str, imp: &str) {
    let mut out = Out::new(annot, imp);
    let lines = read_ops(ops);
    let mut i = 0;
    while i < lines.len() {
        // one case: RESET CLIENT COSTS DATA Q* BUILD ops*
        assert!(lines[i].starts_with("RESET"), "case must start with RESET: {}", lines[i]);
        out.emit("RESET", "reset");
        i += 1;
        let mut client = "test".to_string();
        let mut costs: Vec<BrokerCost> = Vec::new();
        let mut src = Penelope::new();
        let mut universe: Vec<String> = UNIVERSE.iter().map(|x| x.to_string()).collect();
        let mut built = false;
        while i < lines.len() && !lines[i].starts_with("RESET") && !built {
            let t: Vec<&str> = lines[i].split(' ').filter(|x| !x.is_empty()).collect();
            match t[0] {
                "CLIENT" => client = t[1].to_string(),
                "COSTS" => costs = parse_costs(&t[1..]),
                "DATA" => {
                    src = Penelope::new();
                    // the symbols a case can mention: those of its DATA line plus the never-quoted ZZZ
                    universe = t[3..].iter().map(|x| x.to_string()).collect();
                    if !universe.iter().any(|x| x == "ZZZ") {
                        universe.push("ZZZ".to_string());
                    }
                }
                "Q" => {
                    let date = pi(t[2]);
                    let nq = pu(t[3]) as usize;
                    for k in 0..nq {
                        let b = 4 + 3 * k;
                        src.add_quote(pf(t[b + 1]), pf(t[b + 2]), date, t[b].to_string());
                    }
                }
                "BUILD" => built = true,
                _ => panic!("unexpected line before BUILD: {}", lines[i]),
            }
            out.emit(&lines[i], "ok");
            i += 1;
        }
        let mut j = i;
        while j < lines.len() && !lines[j].starts_with("RESET") {
            j += 1;
        }
        if !built {
            i = j;
            continue;
        }
        let body = &lines[i..j];
        let client = if client == "http" && tcp().is_none() {
            out.stats.bump("tcp_unavailable_http_case_run_over_testclient");
            "test".to_string()
        } else {
            client
        };
        match client.as_str() {
            "http" => {
                let t = tcp().unwrap();
                let _guard = t._rt.enter();
                t.data.clear_poison();
                *t.data.lock().unwrap_or_else(|e| e.into_inner()) = AppState::single("D", src);
                let mut c = HttpC { inner: rotala::http::uist::uistv1_client::Client::new(format!("http://{}", t.addr)), data: t.data.clone() };
                let id = block_on(c.init("D".to_string())).unwrap().backtest_id;
                let mut b = block_on(UistBrokerBuilder::new().with_client(c, id).with_trade_costs(costs).build());
                out.stats.bump("cases_over_http");
                run_case(&mut b, id, body, &mut out, &universe);
            }
            "test" => {
                let mut c = TestClient::single("D", src);
                let id = block_on(c.init("D".to_string())).unwrap().backtest_id;
                let mut b = block_on(UistBrokerBuilder::new().with_client(c, id).with_trade_costs(costs).build());
                run_case(&mut b, id, body, &mut out, &universe);
            }
            k => {
                let mut c = Wrap::new(src, k);
                let id = block_on(c.init("D".to_string())).unwrap().backtest_id;
                let mut b = block_on(UistBrokerBuilder::new().with_client(c, id).with_trade_costs(costs).build());
                run_case(&mut b, id, body, &mut out, &universe);
            }
        }
        i = j;
    }
    out.finish();
}

#[allow(dead_code)]
fn _unused(_: OrderType) {}
