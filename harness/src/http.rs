//! the JSON services over an in-memory actix test service, next to a twin AppState driven in-process, and (when
//! a loopback socket can be bound) a third AppState behind a real `HttpServer` on 127.0.0.1 that is called
//! through the repository's own reqwest clients (`uistv1_client::Client`, `jurav1_client::Client`)
use crate::common::*;
use crate::server::Srv;
use crate::{jura, uist};
use actix_web::{test, web, App};
use rotala::input::penelope::{Penelope, PenelopeQuote};
use serde_json::{json, Value};
use std::collections::HashMap;
use std::sync::Mutex;

/// canonical token stream of a JSON value: keys sorted, floats as bit patterns, decimal strings of the
/// known numeric string fields (Jura's px / sz / limit_px) as the number they denote
pub fn canon(v: &Value, key: &str) -> String {
    match v {
        Value::Null => "N".into(),
        Value::Bool(b) => if *b { "T".into() } else { "F".into() },
        Value::Number(n) => {
            if let Some(i) = n.as_i64() {
                format!("I{i}")
            } else if let Some(u) = n.as_u64() {
                format!("I{u}")
            } else {
                fb(n.as_f64().unwrap())
            }
        }
        Value::String(s) => {
            if matches!(key, "px" | "sz" | "limit_px") {
                match s.parse::<f64>() {
                    Ok(x) => fb(x),
                    Err(_) => format!("S{s}"),
                }
            } else {
                format!("S{s}")
            }
        }
        Value::Array(a) => format!("[ {} ]", a.iter().map(|x| canon(x, key)).collect::<Vec<_>>().join(" ")),
        Value::Object(o) => {
            let mut ks: Vec<_> = o.iter().collect();
            ks.sort_by(|a, b| a.0.cmp(b.0));
            format!("{{ {} }}", ks.iter().map(|(k, v)| format!("k:{} {}", k, canon(v, k))).collect::<Vec<_>>().join(" "))
        }
    }
}

fn feq(a: f64, b: f64) -> bool {
    a == b || (a - b).abs() <= 1e-12 * a.abs().max(b.abs())
}
/// token-wise comparison of two canonical strings: float tokens to 1e-12 relative, the rest exactly
fn canon_eq(a: &str, b: &str) -> bool {
    let (x, y): (Vec<&str>, Vec<&str>) = (a.split(' ').collect(), b.split(' ').collect());
    x.len() == y.len()
        && x.iter().zip(y.iter()).all(|(p, q)| {
            p == q || (p.starts_with('f') && q.starts_with('f') && p[1..].chars().all(|c| c.is_ascii_digit()) && q[1..].chars().all(|c| c.is_ascii_digit()) && feq(pf(p), pf(q)))
        })
}

/// two `{:?}` renderings: everything but the number literals must agree exactly, the numbers to 1e-12 relative (the
/// JSON text may move a binary64 by one ulp)
fn debug_eq(a: &str, b: &str) -> bool {
    fn split(s: &str) -> (String, Vec<f64>) {
        let (mut shape, mut nums, mut cur) = (String::new(), Vec::new(), String::new());
        let cs: Vec<char> = s.chars().collect();
        let mut i = 0;
        while i < cs.len() {
            let c = cs[i];
            let starts = c.is_ascii_digit() || (c == '-' && i + 1 < cs.len() && cs[i + 1].is_ascii_digit() && (i == 0 || !cs[i - 1].is_alphanumeric()));
            if starts && (i == 0 || !(cs[i - 1].is_alphanumeric() || cs[i - 1] == '_')) {
                cur.clear();
                cur.push(c);
                i += 1;
                while i < cs.len() && (cs[i].is_ascii_digit() || cs[i] == '.' || cs[i] == 'e' || cs[i] == 'E' || ((cs[i] == '-' || cs[i] == '+') && (cs[i - 1] == 'e' || cs[i - 1] == 'E'))) {
                    cur.push(cs[i]);
                    i += 1;
                }
                match cur.parse::<f64>() {
                    Ok(x) => {
                        nums.push(x);
                        shape.push('#');
                    }
                    Err(_) => shape.push_str(&cur),
                }
            } else {
                shape.push(c);
                i += 1;
            }
        }
        (shape, nums)
    }
    let ((sa, na), (sb, nb)) = (split(a), split(b));
    sa == sb && na.len() == nb.len() && na.iter().zip(nb.iter()).all(|(x, y)| feq(*x, *y))
}

pub trait HX {
    type A: Srv + Send + 'static;
    fn configure(cfg: &mut web::ServiceConfig);
    fn insert_body(t: &[&str]) -> Value;
    fn delete_body(t: &[&str]) -> Value;
    /// the in-process tick result as the JSON value the transport is expected to deliver
    fn direct_tick(a: &mut Self::A, bt: u64) -> Option<Value>;
    fn has_now() -> bool;
    /// the repository's HTTP client for this service
    type C;
    fn client(path: String) -> Self::C;
    /// one call through that client: `Some(Some(v))` = Ok with the typed response re-serialised, `Some(None)` = Err,
    /// `None` = the client has no such call (or the order cannot be built as a typed `Order`)
    fn client_call(c: &mut Self::C, op: &str, bt: u64, t: &[&str]) -> impl std::future::Future<Output = Option<Option<Value>>>;
    /// the in-process test client of the service (`uistv1_client::TestClient`; Jura has none), built by its only
    /// constructor `single`
    type T;
    fn tclient(name: &str, data: Penelope) -> Option<Self::T>;
    fn tclient_call(c: &mut Self::T, op: &str, bt: u64, t: &[&str]) -> impl std::future::Future<Output = Option<Option<Value>>>;
    fn tclient_state(c: &Self::T) -> &Self::A;
    /// a random order, as the tokens that follow the backtest id in an `INS` line (concurrency run)
    /// `{:?}` of the HTTP tick body decoded into the service's typed `TickResponse`
    fn decode_tick_debug(body: &[u8]) -> Option<String>;
    fn rand_ins(r: &mut Rng) -> String;
    fn rand_del(r: &mut Rng) -> String;
    fn conc_syms() -> [&'static str; 2];
}

fn tv<T: serde::Serialize, E>(r: Result<T, E>) -> Option<Option<Value>> {
    Some(r.ok().map(|x| serde_json::to_value(&x).unwrap()))
}

pub struct U;
impl HX for U {
    type A = rotala::http::uist::AppState;
    fn configure(cfg: &mut web::ServiceConfig) {
        use rotala::http::uist::uistv1_server::*;
        cfg.service(info).service(init).service(fetch_quotes).service(tick).service(insert_order).service(delete_order).service(now);
    }
    fn insert_body(t: &[&str]) -> Value {
        json!({ "order": uist::mk_order_toks(t) })
    }
    fn delete_body(t: &[&str]) -> Value {
        json!({ "order_id": pu(t[0]) })
    }
    fn direct_tick(a: &mut Self::A, bt: u64) -> Option<Value> {
        a.tick(bt).map(|(hn, trades, orders)| json!({"has_next": hn, "executed_trades": trades, "inserted_orders": orders}))
    }
    fn has_now() -> bool {
        true
    }
    type C = rotala::http::uist::uistv1_client::Client;
    fn client(path: String) -> Self::C {
        Self::C::new(path)
    }
    async fn client_call(c: &mut Self::C, op: &str, bt: u64, t: &[&str]) -> Option<Option<Value>> {
        ucall(c, op, bt, t).await
    }
    type T = rotala::http::uist::uistv1_client::TestClient;
    fn tclient(name: &str, data: Penelope) -> Option<Self::T> {
        Some(Self::T::single(name, data))
    }
    async fn tclient_call(c: &mut Self::T, op: &str, bt: u64, t: &[&str]) -> Option<Option<Value>> {
        ucall(c, op, bt, t).await
    }
    fn tclient_state(c: &Self::T) -> &Self::A {
        c.verif_state()
    }
    fn decode_tick_debug(body: &[u8]) -> Option<String> {
        serde_json::from_slice::<rotala::http::uist::uistv1_server::TickResponse>(body).ok().map(|t| format!("{t:?}"))
    }
    fn rand_ins(r: &mut Rng) -> String {
        let t = r.below(6);
        let px = (1 + r.below(12)) as f64 * 0.5;
        format!("{} {} {} {}", t, r.pick(&["AAA", "BBB"]), fb((1 + r.below(5)) as f64), if t < 2 { "-".to_string() } else { fb(px) })
    }
    fn rand_del(r: &mut Rng) -> String {
        format!("{}", r.below(8))
    }
    fn conc_syms() -> [&'static str; 2] {
        ["AAA", "BBB"]
    }
}

async fn ucall<C: rotala::http::uist::uistv1_client::UistClient>(c: &mut C, op: &str, bt: u64, t: &[&str]) -> Option<Option<Value>> {
    match op {
        "INIT" => tv(c.init(t[1].to_string()).await),
        "INS" => {
            tv(c.insert_order(uist::mk_order_toks(&t[2..]), bt).await)
        }
        "DEL" => tv(c.delete_order(pu(t[2]), bt).await),
        "TICK" => tv(c.tick(bt).await),
        "FETCH" => tv(c.fetch_quotes(bt).await),
        "NOW" => tv(c.now(bt).await),
        "INFO" => tv(c.info(bt).await),
        _ => None,
    }
}

pub struct J;
impl HX for J {
    type A = rotala::http::jura::AppState;
    fn configure(cfg: &mut web::ServiceConfig) {
        use rotala::http::jura::jurav1_server::*;
        cfg.service(info).service(init).service(fetch_quotes).service(tick).service(insert_order).service(delete_order);
    }
    fn insert_body(t: &[&str]) -> Value {
        let (asset, is_buy, px, sz, kind, sp, via) = (pu(t[0]), t[1] == "1", pf(t[2]), pf(t[3]), t[4], pu(t[5]), t[6] == "1");
        let o = match (via, jura::via_ctor(asset, is_buy, px, sz, kind, sp)) {
            (true, Some(c)) => serde_json::to_value(&c).unwrap(),
            _ => jura::order_json(asset, is_buy, px, sz, kind, sp),
        };
        json!({ "order": o })
    }
    fn delete_body(t: &[&str]) -> Value {
        json!({ "asset": pu(t[0]), "order_id": pu(t[1]) })
    }
    fn direct_tick(a: &mut Self::A, bt: u64) -> Option<Value> {
        // everything the in-process call returns, including the ids of the triggered children
        a.tick(bt).map(|(hn, fills, orders, ids)| json!({"has_next": hn, "executed_trades": fills, "inserted_orders": orders, "triggered_order_ids": ids}))
    }
    fn has_now() -> bool {
        false
    }
    type C = rotala::http::jura::jurav1_client::Client;
    fn client(path: String) -> Self::C {
        Self::C::new(path)
    }
    async fn client_call(c: &mut Self::C, op: &str, bt: u64, t: &[&str]) -> Option<Option<Value>> {
        use rotala::http::jura::jurav1_client::JuraClient;
        match op {
            "INIT" => tv(c.init(t[1].to_string()).await),
            "INS" => {
                let body = Self::insert_body(&t[2..]);
                match serde_json::from_value::<rotala::exchange::jura_v1::Order>(body["order"].clone()) {
                    Ok(o) => tv(c.insert_order(o, bt).await),
                    Err(_) => None,
                }
            }
            "DEL" => tv(c.delete_order(pu(t[2]), pu(t[3]), bt).await),
            "TICK" => tv(c.tick(bt).await),
            "FETCH" => tv(c.fetch_quotes(bt).await),
            "INFO" => tv(c.info(bt).await),
            _ => None,
        }
    }
    type T = rotala::http::jura::AppState;
    fn tclient(_name: &str, _data: Penelope) -> Option<Self::T> {
        None
    }
    async fn tclient_call(_c: &mut Self::T, _op: &str, _bt: u64, _t: &[&str]) -> Option<Option<Value>> {
        None
    }
    fn tclient_state(c: &Self::T) -> &Self::A {
        c
    }
    fn decode_tick_debug(body: &[u8]) -> Option<String> {
        serde_json::from_slice::<rotala::http::jura::jurav1_server::TickResponse>(body).ok().map(|t| format!("{t:?}"))
    }
    fn rand_ins(r: &mut Rng) -> String {
        let px = (1 + r.below(12)) as f64 * 0.5;
        let kind = match r.below(4) {
            0 => "L:ioc".to_string(),
            1 => "L:gtc".to_string(),
            _ => format!("T:{}:{}:{}", fb(if r.chance(1, 2) { px } else { (1 + r.below(12)) as f64 * 0.5 }), r.below(2), if r.chance(1, 2) { "tp" } else { "sl" }),
        };
        format!("{} {} {} {} {} {} {}", r.below(2), r.below(2), fb(px), fb((1 + r.below(5)) as f64), kind, r.below(3), r.below(2))
    }
    fn rand_del(r: &mut Rng) -> String {
        format!("{} {}", r.below(2), r.below(8))
    }
    fn conc_syms() -> [&'static str; 2] {
        ["0", "1"]
    }
}

/// a typed client result against the in-process result (a list the in-process call returns empty may be absent)
fn same_result(got: &Option<Value>, want: &Option<Value>) -> bool {
    match (got, want) {
        (None, None) => true,
        (Some(g), Some(w)) => {
            let mut w = w.clone();
            if let (Some(wo), Some(go)) = (w.as_object_mut(), g.as_object()) {
                let empty: Vec<String> = wo.iter().filter(|(k, v)| !go.contains_key(*k) && v.as_array().map(|a| a.is_empty()).unwrap_or(false)).map(|(k, _)| k.clone()).collect();
                for k in empty {
                    wo.remove(&k);
                }
            }
            canon_eq(&canon(g, ""), &canon(&w, ""))
        }
        _ => false,
    }
}

fn quotes_value(q: Vec<PenelopeQuote>) -> Value {
    let m: HashMap<String, PenelopeQuote> = q.into_iter().map(|x| (x.symbol.clone(), x)).collect();
    json!({ "quotes": m })
}

pub fn run<H: HX>(ops: &str, annot: &str, imp: &str)
where
    Mutex<H::A>: 'static,
{
    actix_web::rt::System::new().block_on(run_async::<H>(ops, annot, imp));
}

async fn run_async<H: HX>(ops: &str, annot: &str, imp: &str) {
    let mut out = Out::new(annot, imp);
    let mut datasets: HashMap<String, Penelope> = HashMap::new();
    let lines = read_ops(ops);
    // the third party: one real server for the whole run, its state replaced at the start of every case
    let data3: web::Data<Mutex<H::A>> = web::Data::new(Mutex::new(H::A::create(&mut HashMap::new())));
    let tcp = if std::env::var("VERIF_NO_TCP").is_ok() {
        None
    } else {
        let d = data3.clone();
        match actix_web::HttpServer::new(move || App::new().app_data(d.clone()).configure(H::configure)).workers(1).disable_signals().bind(("127.0.0.1", 0)) {
            Ok(s) => {
                let addr = s.addrs()[0];
                let server = s.run();
                let handle = server.handle();
                actix_web::rt::spawn(server);
                Some((H::client(format!("http://{addr}")), handle))
            }
            Err(_) => None,
        }
    };
    let (mut client, handle) = match tcp {
        Some((c, h)) => (Some(c), Some(h)),
        None => (None, None),
    };
    out.stats.bump(if client.is_some() { "tcp_server_started" } else { "tcp_unavailable" });
    let mut i = 0;
    while i < lines.len() {
        // setup part of a case
        let mut j = i;
        let mut start: Option<(web::Data<Mutex<H::A>>, H::A)> = None;
        let mut third: Option<H::A> = None;
        let mut tcl: Option<H::T> = None;
        while j < lines.len() {
            let line = &lines[j];
            let t: Vec<&str> = line.split(' ').filter(|x| !x.is_empty()).collect();
            match t[0] {
                "RESET" => {
                    datasets.clear();
                    out.emit("RESET", "reset");
                }
                "DATA" => {
                    datasets.insert(t[1].to_string(), Penelope::new());
                    out.emit(line, "ok");
                }
                "Q" => {
                    let ds = datasets.get_mut(t[1]).expect("Q before DATA");
                    let date = pi(t[2]);
                    for k in 0..pu(t[3]) as usize {
                        let b = 4 + 3 * k;
                        ds.add_quote(pf(t[b + 1]), pf(t[b + 2]), date, t[b].to_string());
                    }
                    out.emit(line, "ok");
                }
                "SINGLE" => {
                    let d1 = datasets.get(t[1]).cloned().unwrap();
                    let d2 = d1.clone();
                    let d3 = d1.clone();
                    let name = t[1].to_string();
                    match catch(move || (H::A::single(&name, d1), H::A::single(&name, d2), H::A::single(&name, d3))) {
                        Some((a, b, c)) => {
                            third = Some(c);
                            let (nm, d4) = (t[1].to_string(), datasets.get(t[1]).cloned().unwrap());
                            tcl = catch(move || H::tclient(&nm, d4)).flatten();
                            start = Some((web::Data::new(Mutex::new(a)), b));
                            out.emit(line, "ok");
                        }
                        None => out.emit(line, "PANIC"),
                    }
                    j += 1;
                    break;
                }
                "CREATE" => {
                    let (mut d1, mut d2, mut d3) = (datasets.clone(), datasets.clone(), datasets.clone());
                    third = Some(H::A::create(&mut d3));
                    start = Some((web::Data::new(Mutex::new(H::A::create(&mut d1))), H::A::create(&mut d2)));
                    out.emit(line, "ok");
                    j += 1;
                    break;
                }
                _ => panic!("unexpected line in setup: {line}"),
            }
            j += 1;
        }
        let mut k = j;
        while k < lines.len() && !lines[k].starts_with("RESET") {
            k += 1;
        }
        let Some((data, mut direct)) = start else {
            for l in &lines[j..k] {
                out.emit(l, "bad-op");
            }
            i = k;
            continue;
        };
        let app = test::init_service(App::new().app_data(data.clone()).configure(H::configure)).await;
        if let Some(a3) = third {
            data3.clear_poison();
            *data3.lock().unwrap_or_else(|e| e.into_inner()) = a3;
        }
        for line in &lines[j..k] {
            let t: Vec<&str> = line.split(' ').filter(|x| !x.is_empty()).collect();
            // NEWBT has no route: applied to both states directly
            if t[0] == "NEWBT" {
                let r1 = catch(|| data.lock().unwrap().new_backtest(t[1]));
                let r2 = catch(|| direct.new_backtest(t[1]));
                let _ = catch(|| data3.lock().unwrap_or_else(|e| e.into_inner()).new_backtest(t[1]));
                tcl = None; // the test client has no such call: it drops out of the case here
                out.emit(line, &format!("NB {} ; EQ {}", r1.flatten().map(|x| x.to_string()).unwrap_or("-".into()), r1 == r2));
                continue;
            }
            // RAW <GET|POST> <path>: a request whose id segment is not a backtest id (`-1`, `abc`, `1.5`, 2^64). No in-process
            // call corresponds to it: it must be refused (4xx) and must leave every backtest as it was
            if t[0] == "RAW" {
                let req = if t[1] == "POST" {
                    let body = if t[2].ends_with("insert_order") { H::insert_body(&H::rand_ins(&mut Rng::new(7)).split(' ').collect::<Vec<_>>()) } else { H::delete_body(&["0", "0"]) };
                    test::TestRequest::post().set_json(body).uri(t[2]).to_request()
                } else {
                    test::TestRequest::get().uri(t[2]).to_request()
                };
                let resp = test::call_service(&app, req).await;
                let status = resp.status().as_u16();
                out.stats.bump(&format!("RAW_{status}"));
                let seq = {
                    let h = data.lock().unwrap_or_else(|e| e.into_inner());
                    let ids = direct.ids();
                    h.last() == direct.last() && h.ids() == ids && ids.iter().all(|b| canon_eq(&h.snap(*b).unwrap_or_default(), &direct.snap(*b).unwrap_or_default()) && h.clock(*b) == direct.clock(*b))
                };
                out.emit(line, &format!("ST {status} ; J - ; EQ {} ; SEQ {seq} ; CL - ; TC -", (400..500).contains(&status)));
                continue;
            }
            let bt = if t[0] == "INIT" { 0 } else { pu(t[1]) };
            let mut ann = line.clone();
            let (req, want): (actix_http::Request, Option<Value>) = match t[0] {
                "INIT" => {
                    let name = t[1].to_string();
                    let r = catch(|| direct.init(&name));
                    (test::TestRequest::get().uri(&format!("/init/{}", t[1])).to_request(), r.flatten().map(|id| json!({ "backtest_id": id })))
                }
                "INS" => {
                    let (ok, a) = direct.ins(bt, &t[2..]);
                    ann = format!("INS {bt} {a}");
                    (test::TestRequest::post().set_json(H::insert_body(&t[2..])).uri(&format!("/backtest/{bt}/insert_order")).to_request(), if ok { Some(Value::Null) } else { None })
                }
                "DEL" => {
                    let ok = direct.del(bt, &t[2..]);
                    (test::TestRequest::post().set_json(H::delete_body(&t[2..])).uri(&format!("/backtest/{bt}/delete_order")).to_request(), if ok { Some(Value::Null) } else { None })
                }
                "TICK" => {
                    // admission annotation from the twin (its batch is the same)
                    let mut probe = None;
                    let a = {
                        let d = &mut direct;
                        let r = catch(|| d.tick_annot(bt));
                        match r {
                            Some(Some((a, v))) => {
                                probe = Some(v);
                                a
                            }
                            _ => "A 0".to_string(),
                        }
                    };
                    ann = format!("TICK {bt} {a}");
                    let _ = &probe;
                    (test::TestRequest::get().uri(&format!("/backtest/{bt}/tick")).to_request(), probe)
                }
                "FETCH" => (test::TestRequest::get().uri(&format!("/backtest/{bt}/fetch_quotes")).to_request(), direct.fetch(bt).map(quotes_value)),
                "NOW" => (test::TestRequest::get().uri(&format!("/backtest/{bt}/now")).to_request(), direct.now(bt).map(|(d, hn)| json!({"now": d, "has_next": hn}))),
                "INFO" => (test::TestRequest::get().uri(&format!("/backtest/{bt}/info")).to_request(), direct.clock(bt).map(|c| json!({"version": "v1", "dataset": c.2}))),
                _ => panic!("bad op line: {line}"),
            };
            let resp = test::call_service(&app, req).await;
            let status = resp.status().as_u16();
            let body = test::read_body(resp).await;
            out.stats.bump(&format!("{}_{}", t[0], status));
            let got: Option<Value> = if status == 200 { serde_json::from_slice(&body).ok() } else { None };
            let jtxt = got.as_ref().map(|v| canon(v, "")).unwrap_or_else(|| "-".into());
            // transport faithfulness on the implementation itself: 400 exactly where the in-process call says
            // None, otherwise the decoded body equals the in-process result
            let eq = if t[0] == "NOW" && !H::has_now() {
                status == 404
            } else {
                match (&got, &want) {
                    (None, None) => status == 400,
                    (Some(g), Some(w)) => {
                        // a list the in-process call returns empty may be absent on the wire without loss
                        let mut w = w.clone();
                        if let (Some(wo), Some(go)) = (w.as_object_mut(), g.as_object()) {
                            let empty: Vec<String> = wo.iter().filter(|(k, v)| !go.contains_key(*k) && v.as_array().map(|a| a.is_empty()).unwrap_or(false)).map(|(k, _)| k.clone()).collect();
                            for k in empty {
                                wo.remove(&k);
                            }
                        }
                        canon_eq(&canon(g, ""), &canon(&w, ""))
                    }
                    _ => false,
                }
            };
            // the two servers must also end in the same state (orders survived the JSON round trip)
            let seq = {
                let h = data.lock().unwrap();
                let (a, b) = (h.snap(bt).unwrap_or_default(), direct.snap(bt).unwrap_or_default());
                canon_eq(&a, &b) && h.clock(bt) == direct.clock(bt) && h.last() == direct.last()
            };
            // a tick carries orders and fills, whose private fields only `{:?}` shows without going through the derives
            // under test: the body decoded into the typed response must render like the in-process response
            let eq = if eq && t[0] == "TICK" && status == 200 {
                match H::decode_tick_debug(&body) {
                    Some(d) => {
                        let same = debug_eq(&d, &direct.last_tick_debug());
                        if !same {
                            out.stats.bump("typed_tick_response_differs_from_in_process");
                        }
                        same
                    }
                    None => false,
                }
            } else {
                eq
            };
            if !eq {
                out.stats.bump("transport_differs_from_in_process");
            }
            // the same call through the repository's reqwest client against the real server
            let cl = match client.as_mut() {
                None => "-".to_string(),
                Some(c) => match H::client_call(c, t[0], bt, &t).await {
                    None => "-".to_string(),
                    Some(got3) => {
                        out.stats.bump(&format!("client_{}_{}", t[0], if got3.is_some() { "ok" } else { "err" }));
                        let same = match (&got3, &want) {
                            (None, None) => true,
                            (Some(g), Some(w)) => {
                                let mut w = w.clone();
                                if let (Some(wo), Some(go)) = (w.as_object_mut(), g.as_object()) {
                                    let empty: Vec<String> = wo.iter().filter(|(k, v)| !go.contains_key(*k) && v.as_array().map(|a| a.is_empty()).unwrap_or(false)).map(|(k, _)| k.clone()).collect();
                                    for k in empty {
                                        wo.remove(&k);
                                    }
                                }
                                canon_eq(&canon(g, ""), &canon(&w, ""))
                            }
                            _ => false,
                        };
                        let st3 = {
                            let h = data3.lock().unwrap_or_else(|e| e.into_inner());
                            canon_eq(&h.snap(bt).unwrap_or_default(), &direct.snap(bt).unwrap_or_default()) && h.clock(bt) == direct.clock(bt) && h.last() == direct.last()
                        };
                        if !(same && st3) {
                            out.stats.bump("repo_client_differs_from_in_process");
                        }
                        (same && st3).to_string()
                    }
                },
            };
            // and through the in-process test client (Uist, `single` cases)
            let tc = match tcl.as_mut() {
                None => "-".to_string(),
                Some(c) => match H::tclient_call(c, t[0], bt, &t).await {
                    None => "-".to_string(),
                    Some(got4) => {
                        out.stats.bump(&format!("testclient_{}_{}", t[0], if got4.is_some() { "ok" } else { "err" }));
                        let h = H::tclient_state(c);
                        let st4 = canon_eq(&h.snap(bt).unwrap_or_default(), &direct.snap(bt).unwrap_or_default()) && h.clock(bt) == direct.clock(bt) && h.last() == direct.last();
                        let ok = same_result(&got4, &want) && st4;
                        if !ok {
                            out.stats.bump("test_client_differs_from_in_process");
                        }
                        ok.to_string()
                    }
                },
            };
            out.emit(&ann, &format!("ST {status} ; J {jtxt} ; EQ {eq} ; SEQ {seq} ; CL {cl} ; TC {tc}"));
        }
        i = k;
    }
    if let Some(h) = handle {
        h.stop(false).await;
    }
    out.finish();
}


/// the in-process result of one request, as the JSON value the transport is expected to deliver
fn direct_want<H: HX>(direct: &mut H::A, t: &[&str], bt: u64) -> Option<Value> {
    match t[0] {
        "INIT" => catch(|| direct.init(t[1])).flatten().map(|id| json!({ "backtest_id": id })),
        "INS" => if direct.ins(bt, &t[2..]).0 { Some(Value::Null) } else { None },
        "DEL" => if direct.del(bt, &t[2..]) { Some(Value::Null) } else { None },
        "TICK" => catch(|| direct.tick_annot(bt)).flatten().map(|(_, v)| v),
        "FETCH" => direct.fetch(bt).map(quotes_value),
        "NOW" => direct.now(bt).map(|(d, hn)| json!({"now": d, "has_next": hn})),
        "INFO" => direct.clock(bt).map(|c| json!({"version": "v1", "dataset": c.2})),
        _ => None,
    }
}

/// **real concurrency** (C08): `tasks` OS threads, each with its own reqwest client, create one backtest each on one
/// real multi-worker `HttpServer` and drive it at the same time; afterwards every thread's responses must equal those
/// of the same requests on a fresh in-process AppState that holds only that backtest, and the ids handed out must be
/// pairwise distinct. Prints one JSON line. Schedules are whatever the OS gives: a support for the serial theorem,
/// not a proof about threads.
pub fn conc<H: HX>(seed: u64, tasks: usize, rounds: usize, steps: usize)
where
    Mutex<H::A>: 'static,
{
    let data: web::Data<Mutex<H::A>> = web::Data::new(Mutex::new(H::A::create(&mut HashMap::new())));
    let d = data.clone();
    let (tx, rx) = std::sync::mpsc::channel();
    std::thread::spawn(move || {
        let sys = actix_web::rt::System::new();
        match actix_web::HttpServer::new(move || App::new().app_data(d.clone()).configure(H::configure)).workers(4).disable_signals().bind(("127.0.0.1", 0)) {
            Ok(s) => {
                let _ = tx.send(Some(s.addrs()[0]));
                let _ = sys.block_on(s.run());
            }
            Err(_) => {
                let _ = tx.send(None);
            }
        }
    });
    let addr = if std::env::var("VERIF_NO_TCP").is_ok() { None } else { rx.recv_timeout(std::time::Duration::from_secs(10)).ok().flatten() };
    let Some(addr) = addr else {
        println!("{}", json!({"tcp": false}));
        return;
    };
    let (mut requests, mut collisions, mut mismatches) = (0u64, 0u64, 0u64);
    let mut first: Option<Value> = None;
    for round in 0..rounds {
        // a dataset of 2..9 dates, two symbols, some gaps
        let mut rng = Rng::new(seed.wrapping_mul(1000003).wrapping_add(round as u64));
        let mut ds = Penelope::new();
        let nd = 2 + rng.below(8) as i64;
        for dte in 0..nd {
            for sym in H::conc_syms() {
                if dte == 0 || !rng.chance(1, 5) {
                    let bid = (1 + rng.below(12)) as f64 * 0.5;
                    ds.add_quote(bid, bid + rng.below(2) as f64 * 0.5, 100 + dte, sym.to_string());
                }
            }
        }
        let mut m = HashMap::new();
        m.insert("D".to_string(), ds);
        data.clear_poison();
        *data.lock().unwrap_or_else(|e| e.into_inner()) = H::A::create(&mut m.clone());
        let mut handles = Vec::new();
        for task in 0..tasks {
            let path = format!("http://{addr}");
            let tseed = seed.wrapping_mul(7919).wrapping_add((round * 64 + task) as u64);
            let has_now = H::has_now();
            handles.push(std::thread::spawn(move || {
                let rt = tokio::runtime::Builder::new_current_thread().enable_all().build().unwrap();
                rt.block_on(async move {
                    let mut r = Rng::new(tseed);
                    let mut c = H::client(path);
                    let mut lines: Vec<String> = vec!["INIT D".to_string()];
                    let mut got: Vec<Option<Value>> = Vec::new();
                    let first = H::client_call(&mut c, "INIT", 0, &["INIT", "D"]).await.flatten();
                    let bt = first.as_ref().and_then(|v| v["backtest_id"].as_u64()).unwrap_or(u64::MAX);
                    got.push(first);
                    for _ in 0..steps {
                        let line = match r.below(8) {
                            0..=2 => format!("INS {} {}", bt, H::rand_ins(&mut r)),
                            3 | 4 => format!("TICK {bt}"),
                            5 => format!("FETCH {bt}"),
                            6 => if has_now { format!("NOW {bt}") } else { format!("INFO {bt}") },
                            _ => format!("DEL {} {}", bt, H::rand_del(&mut r)),
                        };
                        let t: Vec<&str> = line.split(' ').collect();
                        got.push(H::client_call(&mut c, t[0], bt, &t).await.flatten());
                        lines.push(line.clone());
                    }
                    (bt, lines, got)
                })
            }));
        }
        let mut ids = Vec::new();
        for h in handles {
            let (bt, lines, got) = h.join().unwrap();
            requests += lines.len() as u64;
            ids.push(bt);
            // the same requests on a server that holds only this backtest
            let mut solo = H::A::create(&mut m.clone());
            let solo_bt = solo.init("D").unwrap_or(u64::MAX);
            for (k, line) in lines.iter().enumerate() {
                if k == 0 {
                    if got[0].is_none() {
                        mismatches += 1;
                    }
                    continue;
                }
                let line = line.replacen(&format!(" {bt}"), &format!(" {solo_bt}"), 1);
                let t: Vec<&str> = line.split(' ').collect();
                // self-test of the reporting path only: make the reference skip inserts
                if t[0] == "INS" && std::env::var("VERIF_CONC_SELFTEST").is_ok() {
                    continue;
                }
                let want = direct_want::<H>(&mut solo, &t, solo_bt);
                if !same_result(&got[k], &want) {
                    mismatches += 1;
                    if first.is_none() {
                        first = Some(json!({"round": round, "backtest": bt, "step": k, "request": lines[k], "concurrent": got[k], "solo": want, "requests_of_this_client": lines}));
                    }
                    break;
                }
            }
        }
        let mut s = ids.clone();
        s.sort();
        s.dedup();
        if s.len() != ids.len() || ids.contains(&u64::MAX) {
            collisions += 1;
            if first.is_none() {
                first = Some(json!({"round": round, "ids_handed_out": ids}));
            }
        }
    }
    println!("{}", json!({"tcp": true, "rounds": rounds, "clients": tasks, "requests": requests, "id_collisions": collisions, "transcript_mismatches": mismatches, "first": first}));
}
