//! cost model: BrokerCost::{calc, trade_impact, trade_impact_total} and the Portfolio wrappers
use crate::broker::parse_costs;
use crate::common::*;
use alator::broker::uist::UistBrokerBuilder;
use alator::broker::*;
use rotala::exchange::uist_v1::{Trade, TradeType};
use rotala::http::uist::uistv1_client::{TestClient, UistClient};
use rotala::input::penelope::Penelope;

pub fn gen(seed: u64, cases: usize, flavour: &str, path: &str) {
    let mut g = Gen::new(seed, path);
    let wide = flavour.contains("wide");
    for _ in 0..cases {
        g.line("RESET");
        g.stats.bump("cases");
        for _ in 0..20 {
            // one line in fifteen leaves the ordinary regime: a long cost list (past 16, 32 entries), or everything
            // (fees, budget, price) scaled far from 1
            let stress = if g.rng.chance(1, 15) { 1 + g.rng.below(2) } else { 0 };
            g.stats.bump(match stress { 1 => "stress_long_cost_list", 2 => "stress_magnitudes", _ => "ordinary_regime" });
            let mag: f64 = if stress == 2 { *g.rng.pick(&[1e-9, 1e-10, 1e9, 1.0 / 1073741824.0, 1099511627776.0]) } else { 1.0 };
            let nc = if stress == 1 { *g.rng.pick(&[16u64, 17, 18, 33, 40]) } else { g.rng.below(7) };
            let small = stress == 1; // many entries: keep each one small so that something is left to trade with
            let mut cl = String::new();
            let mut pct_sum = 0.0;
            for _ in 0..nc {
                match g.rng.below(3) {
                    0 => cl += &format!(" P {}", fb(mag * if small { *g.rng.pick(&[0.0, 0.01, 0.5]) } else if wide { g.rng.unit() * 2.0 } else { *g.rng.pick(&[0.0, 0.25, 0.5, 0.01]) })),
                    1 => {
                        let mut p = if small { *g.rng.pick(&[0.0, 0.001, 0.01]) } else if wide { g.rng.unit() * 0.3 } else { *g.rng.pick(&[0.0, 0.125, 0.01, 0.25]) };
                        if pct_sum + p >= 0.99 {
                            p = 0.0;
                        }
                        pct_sum += p;
                        cl += &format!(" C {}", fb(p));
                    }
                    _ => cl += &format!(" F {}", fb(mag * if small { *g.rng.pick(&[0.0, 1.0, 10.0]) } else if wide { g.rng.unit() * 50.0 } else { *g.rng.pick(&[0.0, 1.0, 10.0, 2500.0]) })),
                }
            }
            g.stats.bump(&format!("cost_list_len_{nc}"));
            let budget = if wide { g.rng.unit() * 100000.0 } else { *g.rng.pick(&[0.0, 5.0, 10.0, 100.0, 1000.0, 12345.5, 100000.0]) };
            let price = if wide { 0.01 + g.rng.unit() * 500.0 } else { (g.rng.below(400) + 1) as f64 * 0.25 };
            let is_buy = g.rng.chance(2, 3);
            let (budget, price) = (budget * mag, price * mag);
            g.line(&format!("COST {nc}{cl} ; {} {} {}", fb(budget), fb(price), if is_buy { 1 } else { 0 }));
        }
    }
    g.finish();
}

pub fn run(ops: &str, annot: &str, imp: &str) {
    let mut out = Out::new(annot, imp);
    for line in read_ops(ops) {
        if line.starts_with("RESET") {
            out.emit("RESET", "reset");
            continue;
        }
        let (l, r) = line.split_once(" ; ").expect("COST line");
        let t: Vec<&str> = l.split(' ').filter(|x| !x.is_empty()).collect();
        let a: Vec<&str> = r.split(' ').filter(|x| !x.is_empty()).collect();
        let costs = parse_costs(&t[1..]);
        let (budget, price, is_buy) = (pf(a[0]), pf(a[1]), a[2] == "1");
        let (nb, np) = BrokerCost::trade_impact_total(&costs, &budget, &price, is_buy);
        let n = (nb / np).floor();
        if nb < 0.0 {
            out.stats.bump("net_budget_negative");
        }
        if n >= 1.0 {
            out.stats.bump("size_at_least_one");
        }
        let trade = Trade::new("AAA", n * price, n, 100, if is_buy { TradeType::Buy } else { TradeType::Sell });
        let mut fee = 0.0;
        for c in &costs {
            fee += c.calc(trade.clone());
        }
        // the same through the Portfolio trait of a real broker carrying this cost list
        let mut src = Penelope::new();
        src.add_quote(1.0, 1.0, 100, "AAA");
        let mut c = TestClient::single("D", src);
        let id = block_on(c.init("D".to_string())).unwrap().backtest_id;
        let b = block_on(UistBrokerBuilder::new().with_client(c, id).with_trade_costs(costs.clone()).build());
        let (nb2, np2) = b.calc_trade_impact(&budget, &price, is_buy);
        let fee2 = b.calculate_trade_costs(trade.clone());
        let same = nb2.to_bits() == nb.to_bits() && np2.to_bits() == np.to_bits() && fee2.to_bits() == fee.to_bits();
        out.emit(&line, &format!("NB {} ; NP {} ; N {} ; FEE {} ; SAME {}", fb(nb), fb(np), fb(n), fb(fee), same));
    }
    out.finish();
}
