//! LastBusinessDayTradingSchedule / DefaultTradingSchedule / DateTime accessors: the whole domain
use crate::common::*;
use alator::broker::DateTime;
use alator::schedule::{DefaultTradingSchedule, LastBusinessDayTradingSchedule, TradingSchedule};

/// every day from 1970-01-01 to 2200-12-31 (84 371 days), in order
pub fn gen(_seed: u64, _cases: usize, _flavour: &str, path: &str) {
    let mut g = Gen::new(0, path);
    // one case per calendar year
    let mut n: i64 = 0;
    let mut year = 0;
    loop {
        let dt = time::OffsetDateTime::from_unix_timestamp(n * 86400).unwrap();
        if dt.year() > 2200 {
            break;
        }
        if dt.year() != year {
            year = dt.year();
            g.line("RESET");
            g.stats.bump("years");
        }
        g.line(&format!("D {n}"));
        n += 1;
    }
    g.stats.add("days", n as u64);
    g.finish();
}

pub fn run(ops: &str, annot: &str, imp: &str) {
    let mut out = Out::new(annot, imp);
    for line in read_ops(ops) {
        if line.starts_with("RESET") {
            out.emit("RESET", "reset");
            continue;
        }
        let n = pi(line.split(' ').nth(1).unwrap());
        let ts = n * 86400 + 32400;
        let d = DateTime::from(ts);
        let wd = d.weekday().number_days_from_monday();
        let dt = time::OffsetDateTime::from_unix_timestamp(ts).unwrap();
        let a = LastBusinessDayTradingSchedule::should_trade(&d);
        let mut same = true;
        let mut def = DefaultTradingSchedule::should_trade(&d);
        for s in [0i64, 1, 32400, 61200, 86399] {
            let x = DateTime::from(n * 86400 + s);
            if LastBusinessDayTradingSchedule::should_trade(&x) != a {
                same = false;
            }
            def = def && DefaultTradingSchedule::should_trade(&x);
        }
        // the answer must not depend on what was asked before: jump far ahead, come back to the evening of this day (so
        // that the next day's first question arrives less than 24 hours after the last one, on another date)
        let _ = LastBusinessDayTradingSchedule::should_trade(&DateTime::from((n + 40) * 86400 + 43200));
        if LastBusinessDayTradingSchedule::should_trade(&DateTime::from(n * 86400 + 61200)) != a {
            same = false;
        }
        if a {
            out.stats.bump("days_true");
        }
        out.stats.bump("days");
        out.emit(&line, &format!("C {} {} {} {} ; A {} ; T {} ; DEF {}", dt.year(), d.month() as u8, d.day(), wd, a, same, def));
    }
    out.finish();
}
