//! AppState (multi-backtest server state) of both exchanges: generator and interpreter
use crate::common::*;
use crate::{jura, uist};
use rotala::http::jura::AppState as JApp;
use rotala::http::uist::AppState as UApp;
use rotala::input::penelope::{Penelope, PenelopeQuote};
use std::cell::RefCell;
use std::collections::HashMap;
thread_local! {
    static LAST_TICK_DEBUG: RefCell<String> = const { RefCell::new(String::new()) };
}

pub trait Srv: Sized {
    fn single(name: &str, data: Penelope) -> Self;
    fn create(ds: &mut HashMap<String, Penelope>) -> Self;
    fn init(&mut self, name: &str) -> Option<u64>;
    fn new_backtest(&mut self, name: &str) -> Option<u64>;
    /// returns (response, annotated order tokens)
    fn ins(&mut self, bt: u64, toks: &[&str]) -> (bool, String);
    fn del(&mut self, bt: u64, toks: &[&str]) -> bool;
    /// returns (admission annotation, output sections) or None
    fn tick(&mut self, bt: u64) -> Option<(String, String)>;
    fn fetch(&self, bt: u64) -> Option<Vec<PenelopeQuote>>;
    fn clock(&self, bt: u64) -> Option<(usize, i64, String)>;
    fn now(&self, bt: u64) -> Option<(i64, bool)>;
    fn snap(&self, bt: u64) -> Option<String>;
    fn last(&self) -> u64;
    fn ids(&self) -> Vec<u64>;
    /// tick that also returns the in-process result as a JSON value (for the transport comparison)
    fn tick_annot(&mut self, bt: u64) -> Option<(String, serde_json::Value)>;
    /// `{:?}` of the typed response the last `tick_annot` stands for: the only view of private fields (Jura's `cloid`,
    /// `reduce_only`, ...) that does not pass through the serde derives under test
    fn last_tick_debug(&self) -> String;
}

impl Srv for UApp {
    fn single(name: &str, data: Penelope) -> Self {
        UApp::single(name, data)
    }
    fn create(ds: &mut HashMap<String, Penelope>) -> Self {
        UApp::create(ds)
    }
    fn init(&mut self, name: &str) -> Option<u64> {
        UApp::init(self, name.to_string())
    }
    fn new_backtest(&mut self, name: &str) -> Option<u64> {
        UApp::new_backtest(self, name)
    }
    fn ins(&mut self, bt: u64, t: &[&str]) -> (bool, String) {
        let o = uist::mk_order_toks(t);
        (self.insert_order(o, bt).is_some(), t.join(" "))
    }
    fn del(&mut self, bt: u64, t: &[&str]) -> bool {
        self.delete_order(pu(t[0]), bt).is_some()
    }
    fn tick(&mut self, bt: u64) -> Option<(String, String)> {
        let batch = self.backtests.get(&bt).map(|b| b.exchange.verif_snapshot().1).unwrap_or_default();
        let (hn, trades, inserted) = UApp::tick(self, bt)?;
        let a = match uist::admission_indices(&batch, &inserted) {
            Some(ix) if ix.len() == batch.len() => format!("A {} {}", ix.len(), ix.iter().map(|i| i.to_string()).collect::<Vec<_>>().join(" ")),
            _ => format!("A {} BAD", inserted.len()),
        };
        let fs: Vec<String> = trades.iter().map(uist::show_trade).collect();
        let as_: Vec<String> = inserted.iter().map(uist::show_order).collect();
        Some((a, format!("H {} ; F {} {} ; A {} {}", hn, trades.len(), fs.join(" "), inserted.len(), as_.join(" "))))
    }
    fn fetch(&self, bt: u64) -> Option<Vec<PenelopeQuote>> {
        self.fetch_quotes(bt).map(|q| q.values().cloned().collect())
    }
    fn clock(&self, bt: u64) -> Option<(usize, i64, String)> {
        self.backtests.get(&bt).map(|b| (b.pos, b.date, b.dataset_name.clone()))
    }
    fn now(&self, bt: u64) -> Option<(i64, bool)> {
        // what the `now` handler and TestClient::now compute
        let b = self.backtests.get(&bt)?;
        let d = self.datasets.get(&b.dataset_name)?;
        Some((b.date, d.has_next(b.pos)))
    }
    fn snap(&self, bt: u64) -> Option<String> {
        self.backtests.get(&bt).map(|b| uist::snapshot(&b.exchange))
    }
    fn last(&self) -> u64 {
        self.last
    }
    fn ids(&self) -> Vec<u64> {
        let mut v: Vec<u64> = self.backtests.keys().cloned().collect();
        v.sort();
        v
    }
    fn tick_annot(&mut self, bt: u64) -> Option<(String, serde_json::Value)> {
        let batch = self.backtests.get(&bt).map(|b| b.exchange.verif_snapshot().1).unwrap_or_default();
        let (hn, trades, inserted) = UApp::tick(self, bt)?;
        let a = match uist::admission_indices(&batch, &inserted) {
            Some(ix) if ix.len() == batch.len() => format!("A {} {}", ix.len(), ix.iter().map(|i| i.to_string()).collect::<Vec<_>>().join(" ")),
            _ => format!("A {} BAD", inserted.len()),
        };
        let j = serde_json::json!({"has_next": hn, "executed_trades": trades, "inserted_orders": inserted});
        let typed = rotala::http::uist::uistv1_server::TickResponse { has_next: hn, executed_trades: trades, inserted_orders: inserted };
        LAST_TICK_DEBUG.with(|d| *d.borrow_mut() = format!("{typed:?}"));
        Some((a, j))
    }
    fn last_tick_debug(&self) -> String {
        LAST_TICK_DEBUG.with(|d| d.borrow().clone())
    }
}

impl Srv for JApp {
    fn single(name: &str, data: Penelope) -> Self {
        JApp::single(name, data)
    }
    fn create(ds: &mut HashMap<String, Penelope>) -> Self {
        JApp::create(ds)
    }
    fn init(&mut self, name: &str) -> Option<u64> {
        JApp::init(self, name.to_string())
    }
    fn new_backtest(&mut self, name: &str) -> Option<u64> {
        JApp::new_backtest(self, name)
    }
    fn ins(&mut self, bt: u64, t: &[&str]) -> (bool, String) {
        let (asset, is_buy, px, sz, kind, sp, via) = (pu(t[0]), t[1] == "1", pf(t[2]), pf(t[3]), t[4], pu(t[5]), t[6] == "1");
        let o = match (via, jura::via_ctor(asset, is_buy, px, sz, kind, sp)) {
            (true, Some(c)) => c,
            _ => serde_json::from_value(jura::order_json(asset, is_buy, px, sz, kind, sp)).unwrap(),
        };
        (self.insert_order(o, bt).is_some(), format!("{}{}", t[..5].join(" "), jura::extras_tok(sp)))
    }
    fn del(&mut self, bt: u64, t: &[&str]) -> bool {
        self.delete_order(pu(t[0]), pu(t[1]), bt).is_some()
    }
    fn tick(&mut self, bt: u64) -> Option<(String, String)> {
        let batch: Vec<serde_json::Value> = self
            .backtests
            .get(&bt)
            .map(|b| b.exchange.verif_snapshot().1.iter().map(|o| serde_json::to_value(o).unwrap()).collect())
            .unwrap_or_default();
        let (hn, fills, inserted, kids) = JApp::tick(self, bt)?;
        let ins: Vec<serde_json::Value> = inserted.iter().map(|o| serde_json::to_value(o).unwrap()).collect();
        let mut used = vec![false; batch.len()];
        let mut idx: Option<Vec<usize>> = Some(Vec::new());
        for o in &ins {
            match (0..batch.len()).find(|&i| !used[i] && &batch[i] == o) {
                Some(i) => {
                    used[i] = true;
                    if let Some(v) = idx.as_mut() {
                        v.push(i)
                    }
                }
                None => idx = None,
            }
        }
        let a = match &idx {
            Some(ix) if ix.len() == batch.len() => format!("A {} {}", ix.len(), ix.iter().map(|i| i.to_string()).collect::<Vec<_>>().join(" ")),
            _ => format!("A {} BAD", inserted.len()),
        };
        let fs: Vec<String> = fills.iter().map(jura::show_fill).collect();
        Some((
            a,
            format!(
                "H {} ; F {} {} ; K {} {} ; N {}",
                hn,
                fills.len(),
                fs.join(" "),
                kids.len(),
                kids.iter().map(|k| k.to_string()).collect::<Vec<_>>().join(" "),
                inserted.len()
            ),
        ))
    }
    fn fetch(&self, bt: u64) -> Option<Vec<PenelopeQuote>> {
        self.fetch_quotes(bt).map(|q| q.values().cloned().collect())
    }
    fn clock(&self, bt: u64) -> Option<(usize, i64, String)> {
        self.backtests.get(&bt).map(|b| (b.pos, b.date, b.dataset_name.clone()))
    }
    fn now(&self, bt: u64) -> Option<(i64, bool)> {
        // Jura has no `now` route; this is the same computation from the public fields
        let b = self.backtests.get(&bt)?;
        let d = self.datasets.get(&b.dataset_name)?;
        Some((b.date, d.has_next(b.pos)))
    }
    fn snap(&self, bt: u64) -> Option<String> {
        self.backtests.get(&bt).map(|b| jura::snapshot(&b.exchange))
    }
    fn last(&self) -> u64 {
        self.last
    }
    fn ids(&self) -> Vec<u64> {
        let mut v: Vec<u64> = self.backtests.keys().cloned().collect();
        v.sort();
        v
    }
    fn tick_annot(&mut self, bt: u64) -> Option<(String, serde_json::Value)> {
        let batch: Vec<serde_json::Value> = self
            .backtests
            .get(&bt)
            .map(|b| b.exchange.verif_snapshot().1.iter().map(|o| serde_json::to_value(o).unwrap()).collect())
            .unwrap_or_default();
        let (hn, fills, inserted, kids) = JApp::tick(self, bt)?;
        let ins: Vec<serde_json::Value> = inserted.iter().map(|o| serde_json::to_value(o).unwrap()).collect();
        let mut used = vec![false; batch.len()];
        let mut idx: Option<Vec<usize>> = Some(Vec::new());
        for o in &ins {
            match (0..batch.len()).find(|&i| !used[i] && &batch[i] == o) {
                Some(i) => {
                    used[i] = true;
                    if let Some(v) = idx.as_mut() {
                        v.push(i)
                    }
                }
                None => idx = None,
            }
        }
        let a = match &idx {
            Some(ix) if ix.len() == batch.len() => format!("A {} {}", ix.len(), ix.iter().map(|i| i.to_string()).collect::<Vec<_>>().join(" ")),
            _ => format!("A {} BAD", inserted.len()),
        };
        // everything the in-process call returns, including the ids of the triggered children
        let j = serde_json::json!({"has_next": hn, "executed_trades": fills, "inserted_orders": inserted, "triggered_order_ids": kids});
        let typed = rotala::http::jura::jurav1_server::TickResponse { has_next: hn, executed_trades: fills, inserted_orders: inserted, triggered_order_ids: kids };
        LAST_TICK_DEBUG.with(|d| *d.borrow_mut() = format!("{typed:?}"));
        Some((a, j))
    }
    fn last_tick_debug(&self) -> String {
        LAST_TICK_DEBUG.with(|d| d.borrow().clone())
    }
}

fn show_quotes(mut v: Vec<PenelopeQuote>) -> String {
    v.sort_by(|a, c| a.symbol.cmp(&c.symbol));
    format!("{} {}", v.len(), v.iter().map(|x| format!("{} {} {} {}", x.symbol, fb(x.bid), fb(x.ask), x.date)).collect::<Vec<_>>().join(" "))
}

pub fn gen(jura_kind: bool, seed: u64, cases: usize, flavour: &str, path: &str) {
    let mut g = Gen::new(seed, path);
    let long = flavour.contains("clock");
    let syms: [&str; 2] = if jura_kind { ["0", "1"] } else { ["AAA", "BBB"] };
    for _ in 0..cases {
        g.line("RESET");
        g.stats.bump("cases");
        // one or two datasets; dates strictly increasing (sometimes shuffled or repeated: malformed stream)
        let two = g.rng.chance(1, 2);
        // one case in twelve leaves the ordinary regime: a crowd of backtests, a long dataset walked to its end, or
        // dataset names that are unusual but legal in a URL path segment (reserved characters `/ ? # %` are outside
        // what the transport can carry unchanged and are not generated: DESIGN section 13)
        let stress = if g.rng.chance(1, 12) { 1 + g.rng.below(3) } else { 0 };
        g.stats.bump(match stress { 1 => "stress_many_backtests", 2 => "stress_long_dataset", 3 => "stress_unusual_names", _ => "ordinary_regime" });
        let odd: [&str; 4] = ["a.b-c_d~e", "UPPERlower0123456789", "a!b$c&d'e(f)g*h+i,j;k=l:m@n", "NNNNNNNNNNNNNNNNNNNNNNNNNNNNNNNNNNNNNNNNNNNNNNNNNNNNNNNNNNNNNNNNNNNNNNNNNNNNNNNNNNNNNNNNNNNNNNNNNNNNNNNNNNNNNNNNNNNNNNNNNNNNNNNN"];
        let o1 = g.rng.below(4) as usize;
        // the clock in epoch milliseconds, a quarter of a second apart
        let big_dates = stress != 0 && g.rng.chance(1, 3);
        // or in epoch nanoseconds with a sub-second part: integers past 2^53, which a binary64 cannot hold
        let nano = big_dates && g.rng.chance(1, 2);
        if big_dates {
            g.stats.bump(if nano { "stress_epoch_nanosecond_dates_past_2_53" } else { "stress_epoch_millisecond_dates" });
        }
        let names: Vec<&str> = if stress == 3 {
            if two { vec![odd[o1], odd[(o1 + 1) % 4]] } else { vec![odd[o1]] }
        } else if two {
            vec!["D", "E"]
        } else {
            vec!["D"]
        };
        let mut lens: HashMap<&str, u64> = HashMap::new();
        for (ni, name) in names.iter().enumerate() {
            // an empty dataset makes `init` / `single` panic (an unwrap); inside an actix handler that poisons
            // the shared Mutex, so the transport streams leave it out
            let nd = if !flavour.contains("http") && g.rng.chance(1, 20) { 0 } else if stress == 2 { 60 + g.rng.below(240) } else if long { 1 + g.rng.below(40) } else { 1 + g.rng.below(8) };
            lens.insert(*name, nd);
            g.line(&format!("DATA {} 2 {}", name, syms.join(" ")));
            let mut ds: Vec<i64> = (0..nd as i64).map(|d| if big_dates && nano { 1_659_484_800_123_456_789 + 1_000_000_007 * d + if ni == 1 { 500_000_003 } else { 0 } } else if big_dates { 1_700_000_000_000 + 250 * d + if ni == 1 { 125 } else { 0 } } else { 100 + 3 * d + if ni == 1 { 1 } else { 0 } }).collect();
            if !ds.is_empty() && g.rng.chance(1, 12) {
                g.stats.bump("dataset_shuffled_or_repeated_dates");
                let n = ds.len();
                for i in 0..n {
                    let j = g.rng.below(n as u64) as usize;
                    ds.swap(i, j);
                }
                let x = ds[g.rng.below(n as u64) as usize];
                ds.push(x);
            }
            for (di, d) in ds.into_iter().enumerate() {
                let mut l = String::new();
                let mut nq = 0;
                let first = di == 0 && flavour.contains("http");
                for s in syms.iter() {
                    if first || !g.rng.chance(1, 4) {
                        let bid = (g.rng.below(20) + 1) as f64 * 0.5;
                        let ask = bid + g.rng.below(3) as f64 * 0.5;
                        l += &format!(" {} {} {}", s, fb(bid), fb(ask));
                        nq += 1;
                    }
                }
                if nq == 0 {
                    g.stats.bump("date_without_any_quote_is_not_a_date");
                }
                g.line(&format!("Q {} {} {}{}", name, d, nq, l));
            }
        }
        let single = !two && g.rng.chance(2, 3);
        if single {
            g.line(&format!("SINGLE {}", names[0]));
        } else {
            g.line("CREATE");
        }
        let mut qty = 0u64;
        if stress == 1 && g.rng.chance(1, 3) {
            // past 256 live backtests
            let n = 257 + g.rng.below(40);
            for _ in 0..n {
                g.line(&format!("INIT {}", names[0]));
            }
            g.stats.bump("stress_more_than_256_backtests");
        }
        if stress == 2 && g.rng.chance(1, 4) {
            // more than 1024 orders handed to one backtest between two ticks
            let n = *g.rng.pick(&[257u64, 1025, 1100]);
            if single {
                for k in 0..n {
                    if jura_kind {
                        g.line(&format!("INS 0 {} {} {} {} L:gtc 0 0", k % 2, k % 2, fb(3.0), fb(1000.0 + k as f64)));
                    } else {
                        g.line(&format!("INS 0 {} {} {} -", k % 2, syms[0], fb(1000.0 + k as f64)));
                    }
                }
                g.stats.bump("stress_more_than_1024_orders_between_ticks");
            }
        }
        let len = if stress == 2 { 300 + g.rng.below(500) } else if stress == 1 { 150 + g.rng.below(250) } else if long { 20 + g.rng.below(100) } else { 5 + g.rng.below(50) };
        for _ in 0..len {
            // ids 0..4, some never created; the clock flavour concentrates on few backtests so that
            // whole datasets get walked
            let bt = if stress == 1 { if g.rng.chance(1, 4) { 250 + g.rng.below(60) } else { g.rng.below(24) } } else if stress == 2 { g.rng.below(2) } else if long { g.rng.below(3) } else { g.rng.below(5) };
            match g.rng.below(14) {
                0 | 1 => {
                    // unknown names: unrelated, and near misses of a registered name (letter case, prefix, extension)
                    let name = if g.rng.chance(1, 5) { *g.rng.pick(&["X", "d", "e", "DD", "D1", "dE"]) } else { *g.rng.pick(&names) };
                    let op = if g.rng.chance(1, 2) { "INIT" } else { "NEWBT" };
                    g.stats.bump(op);
                    g.line(&format!("{op} {name}"));
                }
                2..=4 => {
                    qty += 1;
                    let px = (g.rng.below(20) + 1) as f64 * 0.5;
                    let line = if jura_kind {
                        let kind = match g.rng.below(4) {
                            0 => "L:ioc".to_string(),
                            1 => "L:gtc".to_string(),
                            _ => format!("T:{}:{}:{}", fb(if g.rng.chance(1, 2) { px } else { (g.rng.below(20) + 1) as f64 * 0.5 }), g.rng.below(2), if g.rng.chance(1, 2) { "tp" } else { "sl" }),
                        };
                        {
                            // spelling, plus (one order in five) reduce_only and / or a client order id
                            let sp = g.rng.below(3) + if g.rng.chance(1, 5) { 3 * (1 + g.rng.below(3)) } else { 0 };
                            format!("INS {} {} {} {} {} {} {} {}", bt, g.rng.below(2), g.rng.below(2), fb(px), fb(qty as f64), kind, sp, g.rng.below(2))
                        }
                    } else {
                        let t = g.rng.below(6);
                        let p = if t < 2 { "-".to_string() } else { fb(px) };
                        // one order in twelve arrives with its public `order_id` already set
                        let preset = if g.rng.chance(1, 12) { format!(" {}", g.rng.below(9)) } else { String::new() };
                        format!("INS {} {} {} {} {}{}", bt, t, g.rng.pick(&syms), fb(qty as f64), p, preset)
                    };
                    g.stats.bump("INS");
                    g.line(&line);
                }
                5 => {
                    g.stats.bump("DEL");
                    let (x, y) = (g.rng.below(2), g.rng.below(12));
                    if jura_kind {
                        g.line(&format!("DEL {bt} {x} {y}"));
                    } else {
                        g.line(&format!("DEL {bt} {y}"));
                    }
                }
                6..=9 => {
                    g.stats.bump("TICK");
                    g.line(&format!("TICK {bt}"));
                }
                10 | 11 => {
                    g.stats.bump("FETCH");
                    g.line(&format!("FETCH {bt}"));
                }
                12 => {
                    g.stats.bump("NOW");
                    g.line(&format!("NOW {bt}"));
                    // over HTTP the id is a path segment: one that is not a backtest id at all must be refused
                    if flavour.contains("http") && g.rng.chance(1, 3) {
                        let seg = *g.rng.pick(&["-1", "abc", "1.5", "18446744073709551616", "0x1", " 1"]);
                        let seg = seg.replace(' ', "%20");
                        let (m, route) = *g.rng.pick(&[("GET", "tick"), ("GET", "fetch_quotes"), ("GET", "info"), ("POST", "insert_order"), ("POST", "delete_order")]);
                        g.line(&format!("RAW {m} /backtest/{seg}/{route}"));
                        g.stats.bump("RAW_malformed_id_segment");
                    }
                }
                _ => {
                    g.stats.bump("INFO");
                    g.line(&format!("INFO {bt}"));
                }
            }
        }
    }
    g.finish();
}

pub fn run<S: Srv>(ops: &str, annot: &str, imp: &str) {
    let mut out = Out::new(annot, imp);
    let mut datasets: HashMap<String, Penelope> = HashMap::new();
    let mut st: Option<S> = None;
    for line in read_ops(ops) {
        let t: Vec<&str> = line.split(' ').filter(|x| !x.is_empty()).collect();
        match t[0] {
            "RESET" => {
                datasets.clear();
                st = None;
                out.emit("RESET", "reset");
            }
            "DATA" => {
                datasets.insert(t[1].to_string(), Penelope::new());
                out.emit(&line, "ok");
            }
            "Q" => {
                let ds = datasets.get_mut(t[1]).expect("Q before DATA");
                let date = pi(t[2]);
                let nq = pu(t[3]) as usize;
                for k in 0..nq {
                    let b = 4 + 3 * k;
                    ds.add_quote(pf(t[b + 1]), pf(t[b + 2]), date, t[b].to_string());
                }
                out.emit(&line, "ok");
            }
            "SINGLE" => {
                let data = datasets.get(t[1]).cloned().expect("SINGLE before DATA");
                match catch(|| S::single(t[1], data)) {
                    Some(s) => {
                        st = Some(s);
                        out.emit(&line, "ok");
                    }
                    None => {
                        out.stats.bump("single_panics_on_empty_dataset");
                        out.emit(&line, "PANIC");
                    }
                }
            }
            "CREATE" => {
                let mut ds = datasets.clone();
                st = Some(S::create(&mut ds));
                out.emit(&line, "ok");
            }
            _ => {
                let Some(s) = st.as_mut() else {
                    out.emit(&line, "bad-op");
                    continue;
                };
                let tail = |s: &S, bt: u64| -> String {
                    // clock and exchange state of the addressed backtest, id counter, live ids
                    let c = match s.clock(bt) {
                        Some((pos, date, ds)) => format!("C {pos} {date} {ds}"),
                        None => "C -".to_string(),
                    };
                    let e = s.snap(bt).unwrap_or_else(|| "B -".to_string());
                    format!("{c} ; {e} ; Z {} {}", s.last(), s.ids().iter().map(|i| i.to_string()).collect::<Vec<_>>().join(" "))
                };
                match t[0] {
                    "INIT" | "NEWBT" => {
                        let name = t[1].to_string();
                        let is_init = t[0] == "INIT";
                        let r = catch(|| if is_init { s.init(&name) } else { s.new_backtest(&name) });
                        let (resp, bt) = match r {
                            None => {
                                out.stats.bump("create_panics_on_empty_dataset");
                                ("PANIC".to_string(), 0)
                            }
                            Some(None) => {
                                out.stats.bump("create_unknown_dataset");
                                ("R none".to_string(), 0)
                            }
                            Some(Some(i)) => {
                                out.stats.bump("create_ok");
                                (format!("R ok {i}"), i)
                            }
                        };
                        let tl = tail(s, bt);
                        out.emit(&line, &format!("{resp} ; {tl}"));
                    }
                    "INS" => {
                        let bt = pu(t[1]);
                        let (ok, ann) = s.ins(bt, &t[2..]);
                        out.stats.bump(if ok { "insert_ok" } else { "insert_unknown_backtest" });
                        let tl = tail(s, bt);
                        out.emit(&format!("INS {bt} {ann}"), &format!("R {} ; {tl}", if ok { "ok" } else { "none" }));
                    }
                    "DEL" => {
                        let bt = pu(t[1]);
                        let ok = s.del(bt, &t[2..]);
                        out.stats.bump(if ok { "delete_ok" } else { "delete_unknown_backtest" });
                        let tl = tail(s, bt);
                        out.emit(&line, &format!("R {} ; {tl}", if ok { "ok" } else { "none" }));
                    }
                    "TICK" => {
                        let bt = pu(t[1]);
                        let before = s.clock(bt);
                        match catch(|| s.tick(bt)) {
                            None => {
                                out.stats.bump("tick_panic");
                                out.emit(&format!("TICK {bt} A 0"), "PANIC");
                            }
                            Some(None) => {
                                out.stats.bump("tick_unknown_backtest");
                                let tl = tail(s, bt);
                                out.emit(&format!("TICK {bt} A 0"), &format!("R none ; {tl}"));
                            }
                            Some(Some((a, o))) => {
                                out.stats.bump("tick_ok");
                                if let (Some((p0, _, _)), Some((p1, _, _))) = (before, s.clock(bt)) {
                                    if p1 <= p0 {
                                        out.stats.bump("tick_did_not_advance_pos");
                                    }
                                }
                                let tl = tail(s, bt);
                                out.emit(&format!("TICK {bt} {a}"), &format!("R ok ; {o} ; {tl}"));
                            }
                        }
                    }
                    "FETCH" => {
                        let bt = pu(t[1]);
                        let r = s.fetch(bt);
                        let tl = tail(s, bt);
                        match r {
                            None => out.emit(&line, &format!("R none ; {tl}")),
                            Some(q) => {
                                out.stats.bump("fetch_ok");
                                out.emit(&line, &format!("R ok ; Q {} ; {tl}", show_quotes(q)))
                            }
                        }
                    }
                    "NOW" => {
                        let bt = pu(t[1]);
                        let r = s.now(bt);
                        let tl = tail(s, bt);
                        match r {
                            None => out.emit(&line, &format!("R none ; {tl}")),
                            Some((d, hn)) => out.emit(&line, &format!("R ok ; W {d} {hn} ; {tl}")),
                        }
                    }
                    "INFO" => {
                        let bt = pu(t[1]);
                        let r = s.clock(bt).map(|c| c.2);
                        let tl = tail(s, bt);
                        match r {
                            None => out.emit(&line, &format!("R none ; {tl}")),
                            Some(d) => out.emit(&line, &format!("R ok ; I v1 {d} ; {tl}")),
                        }
                    }
                    _ => panic!("bad op line: {line}"),
                }
            }
        }
    }
    out.finish();
}
