//! shared helpers: PRNG, float tokens, stats, a minimal executor, panic capture
use std::collections::BTreeMap;
use std::future::Future;
use std::pin::Pin;
use std::task::{Context, Poll, RawWaker, RawWakerVTable, Waker};

pub struct Rng(pub u64);
impl Rng {
    pub fn new(seed: u64) -> Self {
        Rng(seed.wrapping_add(1).wrapping_mul(0x9E3779B97F4A7C15) | 1)
    }
    pub fn next(&mut self) -> u64 {
        self.0 ^= self.0 << 13;
        self.0 ^= self.0 >> 7;
        self.0 ^= self.0 << 17;
        self.0
    }
    pub fn below(&mut self, n: u64) -> u64 {
        self.next() % n
    }
    pub fn chance(&mut self, num: u64, den: u64) -> bool {
        self.below(den) < num
    }
    pub fn pick<'a, T>(&mut self, xs: &'a [T]) -> &'a T {
        &xs[self.below(xs.len() as u64) as usize]
    }
    /// uniform in [0,1)
    pub fn unit(&mut self) -> f64 {
        (self.next() >> 11) as f64 / (1u64 << 53) as f64
    }
}

/// float token: `f<bits as decimal u64>`; -0.0 printed as 0.0's pattern
pub fn fb(x: f64) -> String {
    let x = if x == 0.0 { 0.0 } else { x };
    format!("f{}", x.to_bits())
}
pub fn pf(tok: &str) -> f64 {
    let t = tok.strip_prefix('f').unwrap_or_else(|| panic!("bad float token {tok}"));
    f64::from_bits(t.parse::<u64>().unwrap_or_else(|_| panic!("bad float token {tok}")))
}
pub fn pu(tok: &str) -> u64 {
    tok.parse::<u64>().unwrap_or_else(|_| panic!("bad uint token {tok}"))
}
pub fn pi(tok: &str) -> i64 {
    tok.parse::<i64>().unwrap_or_else(|_| panic!("bad int token {tok}"))
}

#[derive(Default)]
pub struct Stats(pub BTreeMap<String, u64>);
impl Stats {
    pub fn bump(&mut self, k: &str) {
        *self.0.entry(k.to_string()).or_insert(0) += 1;
    }
    pub fn add(&mut self, k: &str, n: u64) {
        *self.0.entry(k.to_string()).or_insert(0) += n;
    }
    pub fn max(&mut self, k: &str, n: u64) {
        let e = self.0.entry(k.to_string()).or_insert(0);
        if n > *e {
            *e = n;
        }
    }
    pub fn to_json(&self) -> String {
        let parts: Vec<String> = self.0.iter().map(|(k, v)| format!("\"{}\": {}", k, v)).collect();
        format!("{{{}}}", parts.join(", "))
    }
}

fn noop_raw() -> RawWaker {
    fn clone(_: *const ()) -> RawWaker {
        noop_raw()
    }
    fn noop(_: *const ()) {}
    static VT: RawWakerVTable = RawWakerVTable::new(clone, noop, noop, noop);
    RawWaker::new(std::ptr::null(), &VT)
}

/// minimal executor: polls in a loop with a no-op waker. The crate's own `now()`/`has_next()`
/// call `futures::executor::block_on` internally, which must not be nested in another
/// `futures` executor, so the harness never uses one.
pub fn block_on<F: Future>(mut fut: F) -> F::Output {
    let waker = unsafe { Waker::from_raw(noop_raw()) };
    let mut cx = Context::from_waker(&waker);
    let mut fut = unsafe { Pin::new_unchecked(&mut fut) };
    loop {
        if let Poll::Ready(v) = fut.as_mut().poll(&mut cx) {
            return v;
        }
    }
}

pub fn quiet_panics() {
    if std::env::var("VERIF_LOUD").is_err() {
        std::panic::set_hook(Box::new(|_| {}));
    }
}

pub fn catch<T>(f: impl FnOnce() -> T) -> Option<T> {
    std::panic::catch_unwind(std::panic::AssertUnwindSafe(f)).ok()
}

pub struct Out {
    pub annot: std::io::BufWriter<std::fs::File>,
    pub imp: std::io::BufWriter<std::fs::File>,
    pub stats: Stats,
    stats_path: String,
}
impl Out {
    pub fn new(annot: &str, imp: &str) -> Self {
        Out {
            annot: std::io::BufWriter::new(std::fs::File::create(annot).expect("annot out")),
            imp: std::io::BufWriter::new(std::fs::File::create(imp).expect("impl out")),
            stats: Stats::default(),
            stats_path: format!("{imp}.stats"),
        }
    }
    pub fn emit(&mut self, annot: &str, imp: &str) {
        use std::io::Write;
        writeln!(self.annot, "{annot}").unwrap();
        writeln!(self.imp, "{imp}").unwrap();
    }
    pub fn finish(mut self) {
        use std::io::Write;
        self.annot.flush().unwrap();
        self.imp.flush().unwrap();
        std::fs::write(&self.stats_path, self.stats.to_json()).unwrap();
    }
}

pub fn read_ops(path: &str) -> Vec<String> {
    std::fs::read_to_string(path)
        .unwrap_or_else(|e| panic!("cannot read ops {path}: {e}"))
        .lines()
        .map(|l| l.trim().to_string())
        .filter(|l| !l.is_empty())
        .collect()
}

pub struct Gen {
    pub w: std::io::BufWriter<std::fs::File>,
    pub rng: Rng,
    pub stats: Stats,
    stats_path: String,
}
impl Gen {
    pub fn new(seed: u64, path: &str) -> Self {
        Gen {
            w: std::io::BufWriter::new(std::fs::File::create(path).expect("ops out")),
            rng: Rng::new(seed),
            stats: Stats::default(),
            stats_path: format!("{path}.stats"),
        }
    }
    pub fn line(&mut self, s: &str) {
        use std::io::Write;
        writeln!(self.w, "{s}").unwrap();
    }
    pub fn finish(mut self) {
        use std::io::Write;
        self.w.flush().unwrap();
        std::fs::write(&self.stats_path, self.stats.to_json()).unwrap();
    }
}
