//! PerformanceCalculator::calculate: generator and interpreter
use crate::common::*;
use alator::broker::StrategySnapshot;
use alator::perf::{Frequency, PerformanceCalculator};

pub fn gen(seed: u64, cases: usize, flavour: &str, path: &str) {
    let mut g = Gen::new(seed, path);
    let ddf = flavour.contains("dd");
    for _ in 0..cases {
        g.line("RESET");
        g.stats.bump("cases");
        for _ in 0..10 {
            // one series in fifteen leaves the ordinary regime: a long history, magnitudes far from 1 (powers of two, so the
            // return-based figures are unchanged), or epoch-second / epoch-millisecond dates
            let stress = if g.rng.chance(1, 15) { 1 + g.rng.below(3) } else { 0 };
            g.stats.bump(match stress { 1 => "stress_long_series", 2 => "stress_magnitudes", 3 => "stress_epoch_dates", _ => "ordinary_regime" });
            let mag: f64 = if stress == 2 { *g.rng.pick(&[1099511627776.0, 1.0 / 1073741824.0, 1048576.0]) } else { 1.0 };
            let (d0, dstep): (i64, i64) = if stress == 3 { *g.rng.pick(&[(1_700_000_000i64, 86_400i64), (1_700_000_000_000, 86_400_000), (1_700_000_000_000, 250)]) } else { (100, 1) };
            let n = if stress == 1 { 300 + g.rng.below(1200) as usize } else if g.rng.chance(1, 40) { 1 } else { 2 + g.rng.below(if ddf { 40 } else { 14 }) as usize };
            let grid = g.rng.chance(1, 3) && !(stress == 1);
            let flows = !ddf && g.rng.chance(1, 2);
            let infl = !ddf && g.rng.chance(1, 4);
            let shape = if stress == 1 && g.rng.chance(1, 3) { 6 } else { g.rng.below(6) }; // 0 random, 1 monotone up, 2 monotone down, 3 V, 4 ties/plateaus, 5 two drawdowns with recovery, 6 explosive growth (the compounded index passes 1e154) then drawdowns of different depth
            // a deposit that is later withdrawn in full: the cumulative flow ends where it began, in between it does not
            let cancel: Option<(usize, usize, f64)> = if n >= 4 && g.rng.chance(1, 6) {
                let i = 1 + g.rng.below((n - 2) as u64) as usize;
                let j = i + 1 + g.rng.below((n - 1 - i) as u64) as usize;
                Some((i, j, *g.rng.pick(&[50.0, 500.0, 64.0])))
            } else {
                None
            };
            if cancel.is_some() {
                g.stats.bump("cash_flows_that_cancel_exactly");
            }
            let mut v = 100.0 + g.rng.below(1000) as f64;
            let mut ncf = 0.0;
            let mut line = format!("CALC {n}");
            for i in 0..n {
                if i > 0 {
                    let f = match shape {
                        1 => 1.0 + 0.05 * g.rng.unit(),
                        2 => 1.0 - 0.05 * g.rng.unit(),
                        3 => if i < n / 2 { 0.9 } else { 1.15 },
                        4 => if g.rng.chance(1, 2) { 1.0 } else { 0.7 + 0.6 * g.rng.unit() },
                        5 => match (4 * i) / n { 0 => 0.93, 1 => 1.12, 2 => 0.85, _ => 1.2 },
                        6 => if i <= 160 { 11.0 } else { *[0.9, 2.0, 0.5, 1.2, 0.7, 3.0].get((i - 161) % 6).unwrap() },
                        _ => 0.7 + 0.6 * g.rng.unit(),
                    };
                    v = if grid { (v + (g.rng.below(41) as f64 - 20.0) * 4.0).max(if g.rng.chance(1, 30) { 0.0 } else { 4.0 }) } else { v * f };
                    if let Some((ci, cj, amt)) = cancel {
                        if i == ci {
                            ncf += amt;
                            v += amt;
                        }
                        if i == cj {
                            ncf -= amt;
                            v = (v - amt).max(1.0);
                        }
                    }
                    if flows && cancel.is_none() && g.rng.chance(1, 3) {
                        let fl = if grid { (g.rng.below(21) as f64 - 10.0) * 8.0 } else { (g.rng.unit() - 0.5) * 50.0 };
                        ncf += fl;
                        v = (v + fl).max(1.0);
                        g.stats.bump("cash_flow");
                    }
                }
                let inf = if infl { g.rng.below(5) as f64 * 0.01 } else { 0.0 };
                line += &format!(" {} {} {} {}", d0 + dstep * i as i64, fb(v * mag), fb(ncf * mag), fb(inf));
            }
            g.stats.bump(&format!("shape_{shape}"));
            g.line(&line);
        }
    }
    g.finish();
}

fn lst(v: &[f64]) -> String {
    format!("{} {}", v.len(), v.iter().map(|x| fb(*x)).collect::<Vec<_>>().join(" "))
}

pub fn run(ops: &str, annot: &str, imp: &str) {
    let mut out = Out::new(annot, imp);
    for line in read_ops(ops) {
        if line.starts_with("RESET") {
            out.emit("RESET", "reset");
            continue;
        }
        let t: Vec<&str> = line.split(' ').filter(|x| !x.is_empty()).collect();
        let n = pu(t[1]) as usize;
        let snaps: Vec<StrategySnapshot> = (0..n).map(|k| StrategySnapshot::real(pi(t[2 + 4 * k]).into(), pf(t[3 + 4 * k]), pf(t[4 + 4 * k]), pf(t[5 + 4 * k]))).collect();
        match catch(|| PerformanceCalculator::calculate(Frequency::Daily, snaps)) {
            None => {
                out.stats.bump("panic_single_snapshot");
                out.emit(&line, "PANIC");
            }
            Some(o) => {
                if o.mdd < 0.0 {
                    out.stats.bump("with_drawdown");
                }
                out.emit(
                    &line,
                    &format!(
                        "R {} {} {} {} ; DD {} {} {} ; BW {} {} ; VAL {} ; RET {} ; DAT {} {} ; CF {} ; FL {} {}",
                        fb(o.ret),
                        fb(o.cagr),
                        fb(o.vol),
                        fb(o.sharpe),
                        fb(o.mdd),
                        o.dd_start_date,
                        o.dd_end_date,
                        fb(o.best_return),
                        fb(o.worst_return),
                        lst(&o.values),
                        lst(&o.returns),
                        o.dates.len(),
                        o.dates.iter().map(|d| d.to_string()).collect::<Vec<_>>().join(" "),
                        lst(&o.cash_flows),
                        o.first_date,
                        o.last_date
                    ),
                );
            }
        }
    }
    out.finish();
}
