mod broker;
mod common;
mod cost;
mod http;
mod jura;
mod perf;
mod sched;
mod server;
mod strategy;
mod uist;

fn usage() -> ! {
    eprintln!("usage: harness <component> gen <seed> <cases> <flavour> <ops_out>\n       harness <component> run <ops_in> <annot_out> <impl_out>\n       harness http-uist|http-jura conc <seed> <clients> <rounds> <steps>");
    std::process::exit(2)
}

fn main() {
    let a: Vec<String> = std::env::args().collect();
    if a.len() < 3 {
        usage();
    }
    common::quiet_panics();
    match (a[1].as_str(), a[2].as_str()) {
        (c, "gen") if a.len() == 7 => {
            let seed: u64 = a[3].parse().expect("seed");
            let cases: usize = a[4].parse().expect("cases");
            match c {
                "uist" => uist::gen(seed, cases, &a[5], &a[6]),
                "broker" => broker::gen(seed, cases, &a[5], &a[6]),
                "cost" => cost::gen(seed, cases, &a[5], &a[6]),
                "perf" => perf::gen(seed, cases, &a[5], &a[6]),
                "sched" => sched::gen(seed, cases, &a[5], &a[6]),
                "strategy" => strategy::gen(seed, cases, &a[5], &a[6]),
                "jura" => jura::gen(seed, cases, &a[5], &a[6]),
                "server-uist" => server::gen(false, seed, cases, &a[5], &a[6]),
                "server-jura" => server::gen(true, seed, cases, &a[5], &a[6]),
                "http-uist" => server::gen(false, seed, cases, &a[5], &a[6]),
                "http-jura" => server::gen(true, seed, cases, &a[5], &a[6]),
                _ => usage(),
            }
        }
        (c, "run") if a.len() == 6 => match c {
            "uist" => uist::run(&a[3], &a[4], &a[5]),
            "broker" => broker::run(&a[3], &a[4], &a[5]),
            "cost" => cost::run(&a[3], &a[4], &a[5]),
            "perf" => perf::run(&a[3], &a[4], &a[5]),
            "sched" => sched::run(&a[3], &a[4], &a[5]),
            "strategy" => strategy::run(&a[3], &a[4], &a[5]),
            "jura" => jura::run(&a[3], &a[4], &a[5]),
            "server-uist" => server::run::<rotala::http::uist::AppState>(&a[3], &a[4], &a[5]),
            "server-jura" => server::run::<rotala::http::jura::AppState>(&a[3], &a[4], &a[5]),
            "http-uist" => http::run::<http::U>(&a[3], &a[4], &a[5]),
            "http-jura" => http::run::<http::J>(&a[3], &a[4], &a[5]),
            _ => usage(),
        },
        (c, "conc") if a.len() == 7 => {
            let (seed, tasks, rounds, steps): (u64, usize, usize, usize) = (a[3].parse().expect("seed"), a[4].parse().expect("clients"), a[5].parse().expect("rounds"), a[6].parse().expect("steps"));
            match c {
                "http-uist" => http::conc::<http::U>(seed, tasks, rounds, steps),
                "http-jura" => http::conc::<http::J>(seed, tasks, rounds, steps),
                _ => usage(),
            }
        }
        _ => usage(),
    }
}
