//! UistV1 exchange: generator of operation sequences and interpreter over the real code
use crate::common::*;
use rotala::exchange::uist_v1::{Order, OrderType, Trade, TradeType, UistV1};
use rotala::input::penelope::{PenelopeQuote, PenelopeQuoteByDate};
use std::collections::HashMap;

pub const SYMS: [&str; 4] = ["AAA", "BBB", "CCC", "ZZZ"]; // ZZZ is never quoted

pub fn typ_num(t: &OrderType) -> u32 {
    match t {
        OrderType::MarketSell => 0,
        OrderType::MarketBuy => 1,
        OrderType::LimitSell => 2,
        OrderType::LimitBuy => 3,
        OrderType::StopSell => 4,
        OrderType::StopBuy => 5,
    }
}
pub fn num_typ(t: u64) -> OrderType {
    match t {
        0 => OrderType::MarketSell,
        1 => OrderType::MarketBuy,
        2 => OrderType::LimitSell,
        3 => OrderType::LimitBuy,
        4 => OrderType::StopSell,
        5 => OrderType::StopBuy,
        _ => panic!("bad order type {t}"),
    }
}
pub fn mk_order(t: u64, sym: &str, sh: f64, px: Option<f64>) -> Order {
    // the constructors when they apply; a priced type without a price (possible through
    // deserialisation: `price: null`) is built field by field
    match (t, px) {
        (0, None) => Order::market_sell(sym, sh),
        (1, None) => Order::market_buy(sym, sh),
        (2, Some(p)) => Order::limit_sell(sym, sh, p),
        (3, Some(p)) => Order::limit_buy(sym, sh, p),
        (4, Some(p)) => Order::stop_sell(sym, sh, p),
        (5, Some(p)) => Order::stop_buy(sym, sh, p),
        _ => Order { order_id: None, order_type: num_typ(t), symbol: sym.to_string(), shares: sh, price: px },
    }
}
pub fn px_tok(p: &Option<f64>) -> String {
    p.map(fb).unwrap_or_else(|| "-".into())
}
pub fn show_order(o: &Order) -> String {
    format!(
        "{} {} {} {} {}",
        o.order_id.map(|i| i.to_string()).unwrap_or_else(|| "-".into()),
        typ_num(&o.order_type),
        o.symbol,
        fb(o.shares),
        px_tok(&o.price)
    )
}
pub fn show_trade(t: &Trade) -> String {
    format!("{} {} {} {} {}", t.symbol, fb(t.value), fb(t.quantity), t.date, if t.typ == TradeType::Buy { "B" } else { "S" })
}
fn key(o: &Order) -> (u32, String, u64, Option<u64>) {
    (typ_num(&o.order_type), o.symbol.clone(), o.shares.to_bits(), o.price.map(|p| p.to_bits()))
}
/// admission order as indices into the submitted batch (each index used once)
/// `mk_order` plus an optional trailing token: an `order_id` already set when the order is handed in
pub fn mk_order_toks(t: &[&str]) -> Order {
    let px = if t[3] == "-" { None } else { Some(pf(t[3])) };
    let mut o = mk_order(pu(t[0]), t[1], pf(t[2]), px);
    if t.len() > 4 {
        o.order_id = Some(pu(t[4]));
    }
    o
}
pub fn admission_indices(batch: &[Order], admitted: &[Order]) -> Option<Vec<usize>> {
    let mut used = vec![false; batch.len()];
    let mut idx = Vec::new();
    for o in admitted {
        let k = key(o);
        let i = (0..batch.len()).find(|&i| !used[i] && key(&batch[i]) == k)?;
        used[i] = true;
        idx.push(i);
    }
    Some(idx)
}
pub fn snapshot(ex: &UistV1) -> String {
    let (book, buf, next, log) = ex.verif_snapshot();
    format!(
        "B {} {} ; U {} ; N {} ; L {}",
        book.len(),
        book.iter().map(show_order).collect::<Vec<_>>().join(" "),
        buf.len(),
        next,
        log.len()
    )
}
pub fn parse_quotes(toks: &[&str]) -> (PenelopeQuoteByDate, usize) {
    // <nq> {sym fbid fask date}
    let nq = pu(toks[0]) as usize;
    let mut q: PenelopeQuoteByDate = HashMap::new();
    for k in 0..nq {
        let b = 1 + 4 * k;
        let sym = toks[b].to_string();
        q.insert(sym.clone(), PenelopeQuote { bid: pf(toks[b + 1]), ask: pf(toks[b + 2]), symbol: sym, date: pi(toks[b + 3]) });
    }
    (q, 1 + 4 * nq)
}

pub fn gen(seed: u64, cases: usize, flavour: &str, path: &str) {
    let mut g = Gen::new(seed, path);
    let thorough = flavour.contains("thorough");
    let batchy = flavour.contains("batch");
    // "dup": quantities from a tiny set, so that resting orders that agree in symbol, type and quantity
    // (and differ only in price and id) are common; the default makes quantities pairwise distinct
    let dup = flavour.contains("dup");
    let grid = |r: &mut Rng| (r.below(12) + 1) as f64 * 0.25;
    for _ in 0..cases {
        g.line("RESET");
        g.stats.bump("cases");
        let mut next_id = 0u64;
        let mut pending = 0u64;
        let mut date = 100i64;
        let mut qty = 0u64;
        let mut recent_px: Vec<f64> = Vec::new();
        // one case in twelve leaves the ordinary regime: a long history (ids in the hundreds, a deep book), a dozen
        // symbols, or magnitudes far from 1 (powers of two, so the grid stays exact)
        let stress = if g.rng.chance(1, 12) { 1 + g.rng.below(3) } else { 0 };
        g.stats.bump(match stress { 1 => "stress_long_history", 2 => "stress_many_symbols", 3 => "stress_magnitudes", _ => "ordinary_regime" });
        // ten symbols, the lower-case twins of two of them, and the never-quoted one
        let wide: Vec<String> = (0..10).map(|i| format!("S{i:02}")).chain(["s00".to_string(), "s01".to_string(), "ZZZ".to_string()]).collect();
        let syms: Vec<&str> = if stress == 2 { wide.iter().map(|x| x.as_str()).collect() } else { SYMS.to_vec() };
        let nsym = syms.len() - 1; // the last one is never quoted
        let mag: f64 = if stress == 3 { *g.rng.pick(&[1073741824.0, 1.0 / 1048576.0, 1099511627776.0]) } else { 1.0 };
        // magnitudes include the clock: epoch milliseconds, a quarter of a second apart
        let (date_step, date_jitter) = if stress == 3 && g.rng.chance(1, 2) { date = 1_700_000_000_000; (250i64, 1u64) } else { (1i64, 3u64) };
        let len = if stress == 1 && batchy { 30 + g.rng.below(40) } else if stress == 1 { 250 + g.rng.below(450) } else if batchy { 3 + g.rng.below(6) } else { 5 + g.rng.below(60) };
        let deep = g.rng.chance(1, if thorough { 150 } else { 400 });
        let len = if deep { 4 + g.rng.below(8) } else { len };
        if deep {
            // a deep book: several thousand resting limit orders far from the market (buys far below, sells far above)
            let rounds = 5 + g.rng.below(2);
            for _ in 0..rounds {
                for k in 0..1000u64 {
                    g.line(&format!("I {} {} {} {}", if k % 2 == 1 { 3 } else { 2 }, syms[(k % 3) as usize % nsym.max(1)], fb(100000.0 + k as f64), fb(if k % 2 == 1 { 0.125 } else { 4000.0 })));
                    pending += 1;
                }
                g.line(&format!("T 0"));
                next_id += pending;
                pending = 0;
            }
            g.stats.bump("stress_book_of_5000_or_more_resting_orders");
        }
        for _ in 0..len {
            let roll = g.rng.below(10);
            if roll <= 4 {
                let reps = if batchy {
                    let sizes: [u64; 16] = [1, 2, 3, 7, 19, 20, 21, 22, 32, 33, 40, 64, 65, 100, 129, 300];
                    let mut n = *g.rng.pick(&sizes);
                    if thorough && g.rng.chance(1, 60) {
                        n = 500 + g.rng.below(4500);
                    }
                    n
                } else if g.rng.chance(1, 25) {
                    20 + g.rng.below(60)
                } else if g.rng.chance(1, if thorough { 150 } else { 600 }) {
                    // past the round capacities a buffer or a book may be given: 256, 1000, 1024
                    *g.rng.pick(&[256, 257, 300, 1000, 1025, 1100])
                } else {
                    1
                };
                g.stats.max("max_batch_requested", reps);
                // arrangement of sides inside a batch: random, all-buys-then-sells, alternating, runs
                let arrangement = g.rng.below(4);
                for k in 0..reps {
                    let side_sell = match arrangement {
                        0 => g.rng.chance(1, 2),
                        1 => k >= reps / 2,
                        2 => k % 2 == 0,
                        _ => (k / 5) % 2 == 0,
                    };
                    let kind = g.rng.below(3); // market, limit, stop
                    let t = kind * 2 + if side_sell { 0 } else { 1 };
                    let sym = syms[if g.rng.chance(1, 15) { nsym } else { g.rng.below(nsym as u64) as usize }];
                    qty += 1;
                    let sh = (if dup { (1 + g.rng.below(3)) as f64 } else { qty as f64 + if g.rng.chance(1, 5) { 0.5 } else { 0.0 } }) * if stress == 3 { 1.0 / mag } else { 1.0 };
                    let sym = if dup { syms[g.rng.below(2) as usize] } else { sym };
                    // quantities far from the ordinary: dust, nine decimals, 2^52 (still pairwise distinct per case w.h.p.)
                    let sh = if stress == 3 && g.rng.chance(1, 6) { *g.rng.pick(&[1e-16, 4e-9, 1.123456789, 4503599627370496.0, 987654321987.0]) * (1.0 + qty as f64 / 1024.0) } else { sh };
                    let px = if kind == 0 || g.rng.chance(1, 40) {
                        None
                    } else if g.rng.chance(1, 8) {
                        // decimal fractions that binary64 only approximates (0.1 + 0.2 is not 0.3)
                        Some(*g.rng.pick(&[0.3, 0.1 + 0.2, 0.7, 0.1 * 7.0, 1.1, 1.0 + 0.1, 0.9, 1.0 - 0.1]) * mag)
                    } else {
                        Some(grid(&mut g.rng) * mag)
                    };
                    if let Some(p) = px {
                        recent_px.push(p);
                        if recent_px.len() > 8 {
                            recent_px.remove(0);
                        }
                    }
                    if kind != 0 && px.is_none() {
                        g.stats.bump("priced_type_without_price");
                    }
                    // an order object may arrive with its public `order_id` already set (re-sent after a tick returned
                    // it, or decoded from JSON): the exchange must still stamp the next id
                    if g.rng.chance(1, 12) {
                        let preset = g.rng.below(9.max(next_id + 3));
                        g.line(&format!("I {} {} {} {} {}", t, sym, fb(sh), px_tok(&px), preset));
                        g.stats.bump("insert_with_preset_id");
                    } else {
                        g.line(&format!("I {} {} {} {}", t, sym, fb(sh), px_tok(&px)));
                    }
                    g.stats.bump(&format!("insert_type_{t}"));
                    pending += 1;
                }
            } else if roll == 5 {
                let id = if next_id > 0 && !g.rng.chance(1, 4) { g.rng.below(next_id) } else { next_id + g.rng.below(5) };
                g.stats.bump(if id < next_id { "delete_issued_id" } else { "delete_unissued_id" });
                g.line(&format!("D {id}"));
            } else {
                let mut line = String::new();
                let mut nq = 0;
                for s in syms.iter().take(nsym) {
                    if !g.rng.chance(1, 4) {
                        let mut bid = grid(&mut g.rng) * mag;
                        let mut ask = bid + g.rng.below(3) as f64 * 0.25 * mag;
                        // a quote that touches a recent limit / stop price, or misses it by one unit in the last place
                        if !recent_px.is_empty() && g.rng.chance(1, 6) {
                            let p = *g.rng.pick(&recent_px);
                            let q = match g.rng.below(3) { 0 => p, 1 => f64::from_bits(p.to_bits() + 1), _ => f64::from_bits(p.to_bits() - 1) };
                            if g.rng.chance(1, 2) { bid = q; if ask < bid { ask = bid; } } else { ask = q; if bid > ask { bid = ask; } }
                            g.stats.bump("quote_within_one_ulp_of_a_resting_price");
                        }
                        line += &format!(" {} {} {} {}", s, fb(bid), fb(ask), date);
                        nq += 1;
                    } else {
                        g.stats.bump("quote_gap");
                    }
                }
                g.line(&format!("T {nq}{line}"));
                g.stats.bump("tick");
                next_id += pending;
                pending = 0;
                date += date_step * (1 + g.rng.below(date_jitter) as i64);
            }
        }
    }
    g.finish();
}

pub fn run(ops: &str, annot: &str, imp: &str) {
    let mut out = Out::new(annot, imp);
    let mut ex = UistV1::new();
    let mut batch: Vec<Order> = Vec::new();
    let mut resting_px: Vec<u64> = Vec::new();
    for line in read_ops(ops) {
        let toks: Vec<&str> = line.split(' ').filter(|t| !t.is_empty()).collect();
        match toks[0] {
            "RESET" => {
                ex = UistV1::new();
                batch.clear();
                resting_px.clear();
                out.emit("RESET", "reset");
            }
            "I" => {
                let px = if toks[4] == "-" { None } else { Some(pf(toks[4])) };
                let mut o = mk_order(pu(toks[1]), toks[2], pf(toks[3]), px);
                if toks.len() > 5 {
                    o.order_id = Some(pu(toks[5]));
                }
                if let Some(p) = px {
                    resting_px.push(p.to_bits());
                }
                batch.push(o.clone());
                ex.insert_order(o);
                out.stats.bump("insert");
                out.emit(&line, "ok");
            }
            "D" => {
                ex.delete_order(pu(toks[1]));
                out.stats.bump("delete");
                let s = snapshot(&ex);
                out.emit(&line, &format!("ok ; {s}"));
            }
            "T" => {
                let (q, used) = parse_quotes(&toks[1..]);
                for v in q.values() {
                    if resting_px.contains(&v.bid.to_bits()) || resting_px.contains(&v.ask.to_bits()) {
                        out.stats.bump("quote_equals_some_order_price");
                    }
                }
                let res = catch(|| ex.tick(&q));
                match res {
                    None => {
                        out.stats.bump("panic");
                        out.emit(&format!("{} A 0", toks[..1 + used].join(" ")), "PANIC");
                    }
                    Some((trades, inserted)) => {
                        out.stats.add("fills", trades.len() as u64);
                        out.stats.max("max_batch", inserted.len() as u64);
                        out.stats.bump("tick");
                        if !trades.is_empty() {
                            out.stats.bump("tick_with_fill");
                        }
                        let idx = admission_indices(&batch, &inserted);
                        let a = match &idx {
                            Some(ix) if ix.len() == batch.len() => {
                                format!("A {} {}", ix.len(), ix.iter().map(|i| i.to_string()).collect::<Vec<_>>().join(" "))
                            }
                            // the admitted list is not a permutation of the submitted batch
                            _ => format!("A {} BAD", inserted.len()),
                        };
                        let fs: Vec<String> = trades.iter().map(show_trade).collect();
                        let as_: Vec<String> = inserted.iter().map(show_order).collect();
                        let s = snapshot(&ex);
                        out.emit(
                            &format!("{} {}", toks[..1 + used].join(" "), a),
                            &format!("F {} {} ; A {} {} ; {}", trades.len(), fs.join(" "), inserted.len(), as_.join(" "), s),
                        );
                        batch.clear();
                    }
                }
            }
            _ => panic!("bad op line: {line}"),
        }
    }
    out.finish();
}
