//! StaticWeightStrategy over the real broker and clients: generator and interpreter
use crate::broker::{parse_costs, StateView, Wrap, SYMS};
use crate::common::*;
use crate::uist;
use alator::broker::uist::{UistBroker, UistBrokerBuilder};
use alator::broker::*;
use alator::strategy::staticweight::{StaticWeightStrategy, StaticWeightStrategyBuilder};
use rotala::exchange::uist_v1::{Order, UistQuote};
use rotala::http::uist::uistv1_client::{BacktestId, TestClient, UistClient};
use rotala::input::penelope::Penelope;
use std::collections::HashMap;

pub fn gen(seed: u64, cases: usize, flavour: &str, path: &str) {
    let mut g = Gen::new(seed, path);
    let constant_only = flavour.contains("constant");
    for _ in 0..cases {
        g.line("RESET");
        g.stats.bump("cases");
        let client = *g.rng.pick(&["test", "test", "eager", "lazy", "slow"]);
        g.line(&format!("CLIENT {client}"));
        let nc = g.rng.below(3);
        let mut cl = String::new();
        for _ in 0..nc {
            match g.rng.below(3) {
                0 => cl += &format!(" P {}", fb(*g.rng.pick(&[0.25, 0.5]))),
                1 => cl += &format!(" C {}", fb(*g.rng.pick(&[0.0, 0.125, 0.0625]))),
                _ => cl += &format!(" F {}", fb(*g.rng.pick(&[0.0, 1.0, 8.0]))),
            }
        }
        g.line(&format!("COSTS {nc}{cl}"));
        // one case in twelve leaves the ordinary regime: a long run, a dozen symbols, magnitudes far from 1 (powers of
        // two), an epoch-millisecond clock
        let stress = if g.rng.chance(1, 12) { 1 + g.rng.below(4) } else { 0 };
        g.stats.bump(match stress { 1 => "stress_long_run", 2 => "stress_many_symbols", 3 => "stress_magnitudes", 4 => "stress_epoch_millisecond_dates", _ => "ordinary_regime" });
        let wide: Vec<String> = (0..12).map(|i| format!("S{i:02}")).collect();
        let syms: Vec<&str> = if stress == 2 { wide.iter().map(|x| x.as_str()).collect() } else { SYMS.to_vec() };
        let mag: f64 = if stress == 3 { *g.rng.pick(&[1048576.0, 1.0 / 128.0, 1073741824.0]) } else { 1.0 };
        let (date0, dstep): (i64, i64) = if stress == 4 { (1_700_000_000_000, 250) } else { (100, 1) };
        let nd = if stress == 1 { 120 + g.rng.below(200) as i64 } else { 1 + g.rng.below(14) as i64 };
        g.line(&format!("DATA D {} {}", syms.len(), syms.join(" ")));
        let constant = constant_only || g.rng.chance(1, 3);
        g.stats.bump(if constant { "constant_prices_zero_spread" } else { "moving_prices" });
        let mut px = [40u64, 80, 120, 60, 70, 90, 100, 110, 130, 140, 150, 160];
        // the same dataset is loaded date by date, or one symbol at a time (as the repository's own perf test does);
        // in the second case the first symbol is quoted on every date, so that `dates` still comes out increasing
        let bysym = g.rng.chance(1, 4);
        g.stats.bump(if bysym { "dataset_loaded_symbol_by_symbol" } else { "dataset_loaded_date_by_date" });
        let mut entries: Vec<(i64, usize, f64, f64)> = Vec::new();
        for d in 0..nd {
            for k in 0..syms.len() {
                if d == 0 || (bysym && k == 0) || !g.rng.chance(1, 6) {
                    if !constant {
                        px[k] = (px[k] as i64 + g.rng.below(9) as i64 - 4).max(2) as u64;
                    }
                    let bid = px[k] as f64 * 0.5 * mag;
                    let ask = if constant { bid } else { bid + g.rng.below(2) as f64 * 0.5 * mag };
                    entries.push((date0 + dstep * d, k, bid, ask));
                }
            }
        }
        if bysym {
            for k in 0..syms.len() {
                for e in entries.iter().filter(|e| e.1 == k) {
                    g.line(&format!("Q D {} 1 {} {} {}", e.0, syms[k], fb(e.2), fb(e.3)));
                }
            }
        } else {
            for d in 0..nd {
                let es: Vec<_> = entries.iter().filter(|e| e.0 == date0 + dstep * d).collect();
                let l: String = es.iter().map(|e| format!(" {} {} {}", syms[e.1], fb(e.2), fb(e.3))).collect();
                g.line(&format!("Q D {} {}{}", date0 + dstep * d, es.len(), l));
            }
        }
        let n = 1 + g.rng.below(if stress == 2 { 10 } else { 3 });
        let mut wl = String::new();
        let mut used: Vec<&str> = Vec::new();
        for _ in 0..n {
            let s = if g.rng.chance(1, 8) { "ZZZ" } else { *g.rng.pick(&syms) };
            if used.contains(&s) {
                continue;
            }
            used.push(s);
            wl += &format!(" {} {}", s, fb(*g.rng.pick(&[0.0, 0.25, 0.125, 0.5]) * if stress == 2 { 0.25 } else { 1.0 }));
        }
        g.line(&format!("WEIGHTS {}{}", used.len(), wl));
        g.line("BUILD");
        let c0 = *g.rng.pick(&[0.0, 1000.0, 100000.0, 4096.0]) * mag;
        g.line(&format!("INIT {}", fb(c0)));
        let stepwise = g.rng.chance(2, 3);
        if stepwise {
            let k = g.rng.below(nd as u64 + 3);
            for _ in 0..k {
                if g.rng.chance(1, 6) {
                    // small, large, impossible, or exactly the broker's whole cash balance
                    if g.rng.chance(1, 4) {
                        let w = *g.rng.pick(&["WD cash", "WD cash", "WD cash*up", "WD cash*down"]);
                        g.line(w);
                    } else {
                        let x = *g.rng.pick(&[10.0, 500.0, 1e9]);
                        g.line(&format!("WD {}", fb(x)));
                    }
                    g.stats.bump("WD");
                }
                if g.rng.chance(1, 15) {
                    let x = *g.rng.pick(&[64.0, 1000.0, 1002.9, 7000.7]);
                    g.line(&format!("INIT {}", fb(x)));
                    g.stats.bump("second_deposit");
                }
                g.line("UPDATE");
                g.stats.bump("UPDATE");
            }
        }
        g.line("RUNREST");
    }
    g.finish();
}

type Strat<C> = StaticWeightStrategy<UistQuote, Order, UistBroker<C>>;

fn tail<C: UistClient + StateView>(s: &Strat<C>, id: BacktestId) -> String {
    let b = s.verif_brkr();
    let (pos, date, n_dates, xb) = b.verif_client().view(|st| {
        let bt = st.backtests.get(&id).unwrap();
        let nd = (0..).take_while(|p| st.datasets.get(&bt.dataset_name).unwrap().has_next(*p)).count();
        (bt.pos, bt.date, nd, bt.exchange.verif_snapshot().1.len())
    });
    let st = match b.get_broker_state() {
        BrokerState::Ready => "Ready",
        BrokerState::Failed => "Failed",
    };
    let h = s.get_history();
    let positions = b.get_positions();
    format!(
        "G {} ; TV {} ; S {} ; K {} {} {} ; HL {} ; XB {} ; H {} ; W {} {}",
        fb(b.get_cash_balance()),
        fb(b.get_total_value()),
        st,
        pos,
        date,
        n_dates,
        h.len(),
        xb,
        crate::broker::smap(&b.get_holdings()),
        positions.len(),
        positions.join(" ")
    )
}

fn run_case<C: UistClient + StateView>(mut strat: Strat<C>, id: BacktestId, lines: &[String], out: &mut Out) {
    let mut dead = false;
    for line in lines {
        let t: Vec<&str> = line.split(' ').filter(|x| !x.is_empty()).collect();
        if dead {
            out.emit(&format!("{line} @ DEAD"), "dead");
            continue;
        }
        match t[0] {
            "INIT" => {
                let x = pf(t[1]);
                let r = catch(|| strat.init(&x));
                if r.is_none() {
                    dead = true;
                    out.stats.bump("init_panic_zero_value");
                    out.emit(&format!("{line} @ W 0"), "PANIC");
                    continue;
                }
                let tl = tail(&strat, id);
                let w = tl.rsplit(" ; W ").next().unwrap().to_string();
                out.emit(&format!("{line} @ W {w}"), &format!("EV ok ; {tl}"));
            }
            "WD" => {
                let c = strat.verif_brkr().get_cash_balance();
                // the whole balance, or the balance moved by one unit in the last place
                let x = match t[1] {
                    "cash" => c,
                    "cash*up" | "cash*down" if c.is_finite() && c != 0.0 => f64::from_bits(if (t[1] == "cash*up") == (c > 0.0) { c.to_bits() + 1 } else { c.to_bits() - 1 }),
                    "cash*up" | "cash*down" => c,
                    _ => pf(t[1]),
                };
                let line = format!("WD {}", fb(x));
                let e = match strat.withdraw_cash(&x) {
                    alator::strategy::StrategyEvent::WithdrawSuccess(_) => "WOK",
                    alator::strategy::StrategyEvent::WithdrawFailure(_) => "WFAIL",
                    _ => "?",
                };
                let tl = tail(&strat, id);
                let w = tl.rsplit(" ; W ").next().unwrap().to_string();
                out.emit(&format!("{line} @ W {w}"), &format!("EV {e} ; {tl}"));
            }
            "UPDATE" => {
                let (batch, next_before) = strat.verif_brkr().verif_client().view(|s| {
                    let snap = s.backtests.get(&id).unwrap().exchange.verif_snapshot();
                    (snap.1, snap.2)
                });
                let r = catch(|| block_on(strat.update()));
                // the tick inside update() happened even if the target-weight diff panicked afterwards
                let admitted: Vec<Order> = strat.verif_brkr().verif_client().view(|s| {
                    s.backtests.get(&id).unwrap().exchange.verif_snapshot().0.into_iter().filter(|o| o.order_id.unwrap() >= next_before).collect()
                });
                let a = match uist::admission_indices(&batch, &admitted) {
                    Some(ix) if ix.len() == batch.len() => format!("A {} {}", ix.len(), ix.iter().map(|i| i.to_string()).collect::<Vec<_>>().join(" ")),
                    _ => format!("A {} BAD", admitted.len()),
                };
                if r.is_none() {
                    dead = true;
                    out.stats.bump("update_panic");
                    let lvz = strat.verif_brkr().get_liquidation_value() == 0.0;
                    let positions = strat.verif_brkr().get_positions();
                    out.emit(&format!("UPDATE @ {a} ; W {} {}", positions.len(), positions.join(" ")), &format!("PANIC ; LVZ {lvz}"));
                    continue;
                }
                out.stats.bump("update");
                let h = strat.get_history();
                let sn = h.last().unwrap();
                let tl = tail(&strat, id);
                let w = tl.rsplit(" ; W ").next().unwrap().to_string();
                out.emit(&format!("UPDATE @ {a} ; W {w}"), &format!("EV ok ; SN {} {} {} ; {tl}", *sn.date, fb(sn.portfolio_value), fb(sn.net_cash_flow)));
            }
            "RUNREST" => {
                let before = strat.get_history().len();
                let r = catch(|| block_on(strat.run()));
                if r.is_none() {
                    dead = true;
                    out.stats.bump("run_panic");
                    // the only panic on this path is the zero-value panic of the target-weight diff, which the
                    // model cannot foresee without the per-update oracles: tell it (the monitor checks that
                    // this happens only to portfolios of zero value)
                    // is it the documented zero-value panic of the target-weight diff?
                    let lvz = strat.verif_brkr().get_liquidation_value() == 0.0;
                    out.emit("RUNREST @ W 0 ; RUNPANIC 1", &format!("PANIC ; LVZ {lvz}"));
                    continue;
                }
                let h = strat.get_history();
                out.stats.add("run_updates", (h.len() - before) as u64);
                let sns: Vec<String> = h[before..].iter().map(|s| format!("{} {} {}", *s.date, fb(s.portfolio_value), fb(s.net_cash_flow))).collect();
                let tl = tail(&strat, id);
                let w = tl.rsplit(" ; W ").next().unwrap().to_string();
                out.emit(&format!("RUNREST @ W {w}"), &format!("EV ok ; RR {} ; SNS {} {} ; {tl}", h.len() - before, sns.len(), sns.join(" ")));
            }
            _ => panic!("bad op line: {line}"),
        }
    }
}

pub fn run(ops: &str, annot: &str, imp: &str) {
    let mut out = Out::new(annot, imp);
    let lines = read_ops(ops);
    let mut i = 0;
    while i < lines.len() {
        assert!(lines[i].starts_with("RESET"), "case must start with RESET: {}", lines[i]);
        out.emit("RESET", "reset");
        i += 1;
        let mut client = "test".to_string();
        let mut costs: Vec<BrokerCost> = Vec::new();
        let mut src = Penelope::new();
        let mut weights: HashMap<String, f64> = HashMap::new();
        let mut built = false;
        while i < lines.len() && !lines[i].starts_with("RESET") && !built {
            let t: Vec<&str> = lines[i].split(' ').filter(|x| !x.is_empty()).collect();
            let mut ann = lines[i].clone();
            match t[0] {
                "CLIENT" => client = t[1].to_string(),
                "COSTS" => costs = parse_costs(&t[1..]),
                "DATA" => src = Penelope::new(),
                "Q" => {
                    let date = pi(t[2]);
                    let nq = pu(t[3]) as usize;
                    for k in 0..nq {
                        let b = 4 + 3 * k;
                        src.add_quote(pf(t[b + 1]), pf(t[b + 2]), date, t[b].to_string());
                    }
                }
                "WEIGHTS" => {
                    weights.clear();
                    for k in 0..pu(t[1]) as usize {
                        weights.insert(t[2 + 2 * k].to_string(), pf(t[3 + 2 * k]));
                    }
                    // the iteration order of the map the strategy will own (moving a map keeps its table)
                    let order: Vec<String> = weights.iter().map(|(k, v)| format!("{} {}", k, fb(*v))).collect();
                    ann = format!("WEIGHTS {} {}", order.len(), order.join(" "));
                }
                "BUILD" => built = true,
                _ => panic!("unexpected line before BUILD: {}", lines[i]),
            }
            out.emit(&ann, "ok");
            i += 1;
        }
        let mut j = i;
        while j < lines.len() && !lines[j].starts_with("RESET") {
            j += 1;
        }
        if !built || src.get_date(0).is_none() {
            for l in &lines[i..j] {
                out.emit(&format!("{l} @ DEAD"), "dead");
            }
            i = j;
            continue;
        }
        let body = &lines[i..j];
        match client.as_str() {
            "test" => {
                let mut c = TestClient::single("D", src);
                let id = block_on(c.init("D".to_string())).unwrap().backtest_id;
                let b = block_on(UistBrokerBuilder::new().with_client(c, id).with_trade_costs(costs).build());
                let s = StaticWeightStrategyBuilder::new().with_brkr(b).with_weights(weights).default();
                run_case(s, id, body, &mut out);
            }
            k => {
                let mut c = Wrap::new(src, k);
                let id = block_on(c.init("D".to_string())).unwrap().backtest_id;
                let b = block_on(UistBrokerBuilder::new().with_client(c, id).with_trade_costs(costs).build());
                let s = StaticWeightStrategyBuilder::new().with_brkr(b).with_weights(weights).default();
                run_case(s, id, body, &mut out);
            }
        }
        i = j;
    }
    out.finish();
}
