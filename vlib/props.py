"""Per-property configuration: streams, observation alphabets, non-triviality rules, monitors."""
import os
from .core import Stream, sections, fdec, FLOAT_TOK, split_cases

TRUSTED_COMMON = [
    "Lean 4.33 kernel; axioms of each theorem audited on every run to be within {propext, Classical.choice, Quot.sound}",
    "hand-written Lean model of the code, tied to /repo by the correspondence run (differential, bounded by the generators)",
    "Rust harness (/verif/harness), Lean driver parser/printer (lean/AlatorVerif/Driver), comparison script (/verif/vlib)",
    "u64/i64/usize do not overflow; HashMap is a finite map; VecDeque is a list",
]


class Prop:
    id = "C00"
    streams = []
    determined = False          # True: the property fixes the compared alphabet uniquely, so a
    #                             model-vs-impl difference is itself a concrete failing input
    determined_why = ""
    rule = ""
    assumptions = []
    trusted = []
    level_text = ""
    level_note = ""
    technique = "Lean 4 theorem over an executable model + differential correspondence with the Rust code"
    design_ref = "DESIGN.md section 8"

    def nontrivial(self, stream, annot, impl):
        return len(annot) > 2

    def monitor(self, stream, annot, impl):
        return []

    def in_domain(self, stream, ops):
        """does this case lie inside what the property quantifies over? (only asked for determined properties, to decide
        whether a model-vs-implementation difference is a concrete failing input or only a broken correspondence)"""
        return True


def uist_case_in_domain(ops):
    """C02's domain: finite positive limit / stop prices and quantities; a priced type without a price (possible only
    through deserialisation) is outside it"""
    for op in ops:
        t = op.split(" A ")[0].split()
        if t and t[0] == "I":
            typ, sh, px = int(t[1]), fdec(t[3]), t[4]
            if not (0 < sh < float("inf")):
                return False
            if typ >= 2 and (px == "-" or not (0 < fdec(px) < float("inf"))):
                return False
            if typ < 2 and px != "-":
                return False
    return True


# ---------------------------------------------------------------- helpers on the uist protocol

def uist_orders(toks):
    """[id typ sym fsh px]* -> list of dicts"""
    out = []
    for k in range(0, len(toks), 5):
        i, t, s, sh, px = toks[k:k + 5]
        out.append({"id": None if i == "-" else int(i), "typ": int(t), "sym": s, "sh": sh,
                    "px": None if px == "-" else px})
    return out


def uist_trades(toks):
    out = []
    for k in range(0, len(toks), 5):
        s, v, q, d, sd = toks[k:k + 5]
        out.append({"sym": s, "value": v, "qty": q, "date": int(d), "side": sd})
    return out


def uist_quotes(op):
    t = op.split()
    nq = int(t[1])
    q = {}
    for k in range(nq):
        b = 2 + 4 * k
        q[t[b]] = {"bid": fdec(t[b + 1]), "ask": fdec(t[b + 2]), "date": int(t[b + 3])}
    return q


def uist_cond(o, q):
    """the table in C02's statement, with Rust's Option ordering for a missing price"""
    typ, px = o["typ"], (None if o["px"] is None else fdec(o["px"]))
    if typ in (0, 1):
        return True
    if typ == 3:   # limit buy: ask <= limit
        return px is not None and q["ask"] <= px
    if typ == 2:   # limit sell: bid >= limit
        return px is None or q["bid"] >= px
    if typ == 5:   # stop buy: ask >= stop
        return px is None or q["ask"] >= px
    if typ == 4:   # stop sell: bid <= stop
        return px is not None and q["bid"] <= px
    raise ValueError(typ)


def is_sell(typ):
    return typ in (0, 2, 4)


def sort_fills(secs):
    """C02 does not speak about the order of fills within a tick (C17 does): compare them as a set"""
    if "F" in secs and len(secs["F"]) > 1:
        t = secs["F"][1:]
        rows = sorted(tuple(t[k:k + 5]) for k in range(0, len(t), 5))
        secs = dict(secs)
        secs["F"] = [secs["F"][0]] + [x for r in rows for x in r]
    return secs


class C02(Prop):
    id = "C02"

    def in_domain(self, stream, ops):
        return uist_case_in_domain(ops)

    streams = [Stream("uist", "mix", quick=400, thorough=40000, tags={"F", "B", "REJECT-ADMISSION", "PANIC"}, canon=sort_fills, exact="uist-exact"),
               Stream("uist", "dup", quick=300, thorough=20000, tags={"F", "B", "REJECT-ADMISSION", "PANIC"}, canon=sort_fills, exact="uist-exact")]
    determined = True
    determined_why = ("the property fixes, for a given resting book and tick quotes, exactly which orders fill, "
                      "at which price, quantity, value and date, and that the others keep resting")
    rule = ("random Uist histories on a quarter-point price grid (insert of all six types incl. priced types "
            "without price, delete, tick with per-symbol gaps); non-trivial = the case has a tick with at least "
            "one fill and a tick after which a priced order still rests; distinct = distinct op sequences")
    level_text = ("Theorems C02.* (Lean 4): for every operation history and every tick, the fills of the Uist model are exactly the "
                  "quoted resting orders meeting the property's table (iff, per order type), priced at ask/bid for the full quantity "
                  "and dated by the quote, and all other resting orders stay unchanged in order. The model is tied to the code by a "
                  "step-by-step comparison with UistV1 (tick outputs and the whole book through the verif snapshot) on generated "
                  "boundary-rich histories, and a monitor of the property's table runs on the implementation's own traces.")
    level_note = ("Proof is about the model over any linear order; the tie to the Rust code is differential (generated histories); "
                  "trusted: Lean kernel + standard axioms, harness, driver, comparison script; admission order taken from the implementation")
    technique = "Lean 4 proof by induction over operation histories (id invariant, refinement of the delete-by-id pass to a filter) + model/implementation correspondence"
    design_ref = "DESIGN.md section 8, C02"
    assumptions = ["binary64 comparison is a linear order off NaN (the theorems need only a linear order and *)",
                   "sort_by admission order is taken from the implementation (checked sell-first permutation)"]

    def nontrivial(self, stream, annot, impl):
        fill = rest = False
        for l in impl:
            s = sections(l)
            if "F" in s and s["F"] and s["F"][0] != "0":
                fill = True
            if "B" in s and len(s["B"]) > 1 and any(o["typ"] >= 2 for o in uist_orders(s["B"][1:])):
                rest = True
        return fill and rest

    def monitor(self, stream, annot, impl):
        """C02 evaluated directly on the implementation's trace: from the book before the tick (snapshot
        of the previous step + orders admitted) and the tick's quotes, decide per resting order."""
        if not uist_case_in_domain(annot):
            return      # the property says nothing about a limit / stop order without a price
        book = []
        for k, (op, out) in enumerate(zip(annot, impl)):
            s = sections(out)
            if op.startswith("T ") and "F" in s and "B" in s:
                quotes = uist_quotes(op)
                fills = uist_trades(s["F"][1:])
                post = uist_orders(s["B"][1:])
                expect = []
                keep = []
                for o in book:
                    q = quotes.get(o["sym"])
                    if q is not None and uist_cond(o, q):
                        px = q["ask"] if not is_sell(o["typ"]) else q["bid"]
                        expect.append((o, px, q["date"]))
                    else:
                        keep.append(o)
                if len(fills) != len(expect):
                    yield (k, "fill-iff-condition", f"{len(fills)} fills reported, {len(expect)} resting orders meet their condition")
                    return
                # fills against orders as multisets of (symbol, quantity, side, value, date): robust to orders
                # that agree in symbol, type and quantity
                want = sorted((o["sym"], o["sh"], "S" if is_sell(o["typ"]) else "B", px * fdec(o["sh"]), d) for (o, px, d) in expect)
                got = sorted((f["sym"], f["qty"], f["side"], fdec(f["value"]), f["date"]) for f in fills)
                if want != got:
                    bad = [x for x in want if x not in got][:1] + [x for x in got if x not in want][:1]
                    yield (k, "fill-price-side-date", f"fills differ from the conditioned resting orders, e.g. {bad}")
                    return
                rest_ids = [o["id"] for o in post]
                for o in keep:
                    if o["id"] not in rest_ids:
                        yield (k, "unfilled-keeps-resting", f"order {o} neither filled nor resting")
                        return
                    p = post[rest_ids.index(o["id"])]
                    if (p["typ"], p["sym"], p["sh"], p["px"]) != (o["typ"], o["sym"], o["sh"], o["px"]):
                        yield (k, "unfilled-unchanged", f"order {o} changed to {p}")
                        return
            if "B" in s:
                book = uist_orders(s["B"][1:])
            if op.startswith("RESET"):
                book = []


# ---------------------------------------------------------------- helpers on the jura protocol

def jura_book(toks):
    out = []
    for k in range(0, len(toks), 7):
        i, a, b, px, sz, kind, att = toks[k:k + 7]
        out.append({"id": int(i), "asset": a, "buy": b == "1", "px": px, "sz": sz, "kind": kind, "att": att == "1"})
    return out


def jura_fills(toks):
    out = []
    for k in range(0, len(toks), 6):
        c, oid, px, side, sz, tm = toks[k:k + 6]
        out.append({"coin": c, "oid": int(oid), "px": px, "side": side, "sz": sz, "time": int(tm)})
    return out


EXCH_STATE = {"B", "U", "N", "X", "L"}


def exch_streams(kind, prop_tags_uist, prop_tags_jura, q=300, t=30000, canon=None):
    ss = []
    if prop_tags_uist is not None:
        ss.append(Stream("uist", kind, quick=q, thorough=t, tags=set(prop_tags_uist) | {"REJECT-ADMISSION", "PANIC", "ok", "reset", "bad-op"},
                         state_tags=EXCH_STATE - set(prop_tags_uist), canon=canon, exact="uist-exact"))
    if prop_tags_jura is not None:
        ss.append(Stream("jura", kind, quick=q, thorough=t, tags=set(prop_tags_jura) | {"REJECT-ADMISSION", "PANIC", "ok", "reset", "bad-op"},
                         state_tags=EXCH_STATE - set(prop_tags_jura), exact="jura-exact"))
    return ss


def walk_exchange(stream, annot, impl):
    """iterate a uist/jura case: yields (k, op, sections, pre_book, inserted_since_last_tick, tick_no)"""
    book, batch, ticks = [], [], 0
    for k, (op, out) in enumerate(zip(annot, impl)):
        s = sections(out)
        yield k, op, s, book, batch, ticks
        if op.startswith("I "):
            batch = batch + [op.split()[1:]]
        if op.startswith("T ") and "PANIC" not in s:
            batch, ticks = [], ticks + 1
        if "B" in s:
            book = uist_orders(s["B"][1:]) if stream.component == "uist" else jura_book(s["B"][1:])
        if op.startswith("RESET"):
            book, batch, ticks = [], [], 0


class C01(Prop):
    id = "C01"
    streams = exch_streams("mix", {"F", "A"}, {"F", "K", "N"}) + [
        Stream(f"server-{k}", "mix", quick=250, thorough=20000,
               tags={"F", "H", "C", "R", "PANIC", "REJECT-ADMISSION", "ok", "reset", "bad-op"},
               state_tags={"A", "K", "N", "Q", "W", "I", "Z", "B", "U", "X", "L"}) for k in ("uist", "jura")]
    determined = False
    rule = ("random Uist and Jura histories (all order types, per-symbol quote gaps, deletions); non-trivial = an order was "
            "inserted, admitted by a tick and filled by a later tick in the same case; distinct = distinct op sequences")
    level_text = ("Theorems C01.* (Lean 4): on both exchange models, after any history, every fill of a tick belongs to an id below "
                  "the next-id value at entry while everything admitted by the tick gets an id at or above it, each fill is priced and "
                  "dated from the quotes passed to that tick only; server level, both servers, any number of backtests, every interleaving of "
                  "requests (generic in the exchange, ghost clock positions of id hand-out and of submission): every fill is dated strictly after the clock at which "
                  "its order was submitted while ticks are issued only as long as has_next allows. Tied to the code by the "
                  "exchange- and server-level correspondence runs; a monitor checks on the implementation's own traces that no order "
                  "fills on or before the tick that admits it and that fill dates and prices come from the current tick's quotes.")
    level_note = ("Proof over the model (any linear order); correspondence is differential; admission order taken from the implementation")
    technique = "Lean 4 invariant proof (ids below next-id at entry; ghost admission positions) + model/implementation correspondence + trace monitor"
    design_ref = "DESIGN.md section 8, C01"
    assumptions = ["clients stop ticking once has_next is false (stated in the property)",
                   "datasets have strictly increasing dates with each quote stored under its own date (what Penelope::add_quote builds)"]

    def nontrivial(self, stream, annot, impl):
        return any("F" in sections(l) and sections(l)["F"] and sections(l)["F"][0] not in ("0",) for l in impl[2:])

    def monitor_server(self, stream, annot, impl):
        """server level: a fill is dated strictly after the clock date at which its order was submitted
        (well-formed datasets; ticks issued after has_next was reported false are outside the property)"""
        if not srv_wellformed(annot):
            return
        uist = stream.component == "server-uist"
        sub = {}       # (backtest, quantity token) -> clock date at submission
        done = set()   # backtests whose last tick reported has_next = false
        for n, (op, out) in enumerate(zip(annot, impl)):
            t = op.split()
            s = sections(out)
            if t[0] == "RESET":
                sub, done = {}, set()
            if t[0] in ("INIT", "NEWBT") and s.get("R", [""])[0] == "ok":
                done.discard(int(s["R"][1]))
                sub = {k: v for k, v in sub.items() if k[0] != int(s["R"][1])}
            if t[0] == "INS" and s.get("R") == ["ok"] and s["C"][0] != "-":
                qty = t[4] if uist else t[5]
                sub[(int(t[1]), qty)] = int(s["C"][1])
            if t[0] == "TICK" and s.get("R") == ["ok"] and "F" in s:
                bt = int(t[1])
                if bt in done:
                    continue
                f = s["F"][1:]
                fills = [(f[k + 2], int(f[k + 3])) for k in range(0, len(f), 5)] if uist else [(f[k + 4], int(f[k + 5])) for k in range(0, len(f), 6)]
                for qty, date in fills:
                    d0 = sub.get((bt, qty))
                    if d0 is None:
                        yield (n, "fill-of-unknown-order", f"backtest {bt} fill qty {qty}")
                        return
                    if not date > d0:
                        yield (n, "fill-dated-after-submission-clock", f"backtest {bt}: order submitted at clock {d0} filled with date {date}")
                        return
                if s["H"] == ["false"]:
                    done.add(bt)

    def monitor(self, stream, annot, impl):
        if stream.component.startswith("server-"):
            yield from self.monitor_server(stream, annot, impl)
            return
        stamp = {}   # uist: (sym, qty) -> number of ticks completed when the order was inserted
        admitted_at = {}   # jura: id -> tick number that admitted / created it
        nxt = 0
        for k, op, s, book, batch, ticks in walk_exchange(stream, annot, impl):
            t = op.split()
            if stream.component == "uist":
                if t[0] == "I":
                    stamp[(t[2], t[3])] = ticks
                if t[0] == "T" and "F" in s:
                    quotes = uist_quotes(op)
                    for f in uist_trades(s["F"][1:]):
                        st = stamp.get((f["sym"], f["qty"]))
                        if st is None:
                            yield (k, "fill-of-unknown-order", f"{f}")
                            return
                        # inserted after `st` ticks: admitted by tick st+1, may fill from tick st+2 = index ticks+1 >= st+2
                        if ticks + 1 < st + 2:
                            yield (k, "fills-on-admitting-tick", f"order inserted after {st} ticks filled by tick {ticks + 1}: {f}")
                            return
                        q = quotes.get(f["sym"])
                        if q is None or f["date"] != q["date"]:
                            yield (k, "fill-dated-by-this-tick", f"fill {f} but the tick's quote for the symbol is {q}")
                            return
                        px = q["ask"] if f["side"] == "B" else q["bid"]
                        if fdec(f["value"]) != px * fdec(f["qty"]):
                            yield (k, "fill-priced-by-this-tick", f"fill {f} but the tick's quote is {q}")
                            return
            else:
                if t[0] == "T" and "F" in s:
                    quotes = uist_quotes(op)
                    pre_ids = {o["id"] for o in book}
                    for f in jura_fills(s["F"][1:]):
                        if f["oid"] not in pre_ids:
                            yield (k, "fills-on-admitting-tick", f"fill for id {f['oid']} which was not resting before this tick")
                            return
                        q = quotes.get(f["coin"])
                        if q is None or f["time"] != q["date"] or fdec(f["px"]) != (q["ask"] if f["side"] == "A" else q["bid"]):
                            yield (k, "fill-priced-and-dated-by-this-tick", f"fill {f} but the tick's quote is {q}")
                            return


class C03(Prop):
    id = "C03"
    streams = exch_streams("mix", {"F", "A", "B", "N"}, {"F", "K", "N", "B", "X"}) + \
        exch_streams("dup", {"F", "A", "B", "N"}, {"F", "K", "N", "B", "X"}, q=200, t=20000)
    determined = False
    rule = ("random Uist and Jura histories with deletions of resting, stale, buffered and never-issued ids; non-trivial = the "
            "case contains a fill, a deletion that removed a resting order and a deletion that hit nothing; distinct op sequences")
    level_text = ("Theorems C03.* (Lean 4): for every operation history of either exchange model, admitted ids are 0,1,2,… in admission "
                  "order (never reused), filled ++ cancelled ++ resting is a permutation of the admitted ids (Uist, ghost log), delete-by-id "
                  "removes exactly the resting order with that id (and asset on Jura) and is the identity otherwise, and a spent id "
                  "(filled, cancelled, fired, expired IOC) is never filled again (Jura). Tied to the code by whole-state correspondence "
                  "(book, buffer, next id) and a conservation monitor over the implementation's traces.")
    level_note = "Proof over the model; differential tie; Uist fills are matched to orders through pairwise distinct quantities"
    technique = "Lean 4 induction over operation histories with a ghost event log (permutation invariant) + correspondence + conservation monitor"
    design_ref = "DESIGN.md section 8, C03"
    assumptions = ["u64 id counter does not overflow"]

    def nontrivial(self, stream, annot, impl):
        fill = hit = miss = False
        prev = None
        for op, out in zip(annot, impl):
            s = sections(out)
            if "F" in s and s["F"] and s["F"][0] != "0":
                fill = True
            if op.startswith("D ") and prev is not None and "B" in s:
                if s["B"][0] != prev:
                    hit = True
                else:
                    miss = True
            if "B" in s:
                prev = s["B"][0]
        return fill and hit and miss

    def monitor(self, stream, annot, impl):
        uist = stream.component == "uist"
        admitted, filled, gone = [], set(), set()      # ids
        qty_to_id = {}
        nxt = 0
        for k, op, s, book, batch, ticks in walk_exchange(stream, annot, impl):
            t = op.split()
            if t[0] == "RESET":
                admitted, filled, gone, qty_to_id, nxt = [], set(), set(), {}, 0
                continue
            if "B" not in s:
                continue
            post = uist_orders(s["B"][1:]) if uist else jura_book(s["B"][1:])
            post_ids = [o["id"] for o in post]
            if len(set(post_ids)) != len(post_ids):
                yield (k, "unique-ids", f"duplicate id in the book: {post_ids}")
                return
            if t[0] == "D":
                target = int(t[1]) if uist else int(t[2])
                pre_ids = [o["id"] for o in book]
                if uist:
                    expect = [i for i in pre_ids if i != target]
                else:
                    expect = [o["id"] for o in book if not (o["id"] == target and o["asset"] == t[1])]
                if post_ids != expect:
                    yield (k, "cancel-removes-exactly-that-order", f"book ids {pre_ids} -> {post_ids} after cancelling {t[1:]}")
                    return
                gone |= set(pre_ids) - set(post_ids)
            if t[0] == "T" and "F" in s:
                pre_ids = [o["id"] for o in book]
                if uist:
                    fills = uist_trades(s["F"][1:])
                    adm = uist_orders(s["A"][1:])
                    new_ids = [o["id"] for o in adm]
                    # Uist fills carry no id: the orders that left the book on this tick must be exactly the
                    # filled ones, as multisets of (symbol, quantity, side) (robust to look-alike orders)
                    left_orders = [o for o in book if o["id"] not in post_ids]
                    got = sorted((f["sym"], f["qty"], f["side"]) for f in fills)
                    want = sorted((o["sym"], o["sh"], "S" if is_sell(o["typ"]) else "B") for o in left_orders)
                    if got != want:
                        yield (k, "conservation", f"{len(left_orders)} orders left the book ({want[:4]}...) but the tick reported {len(fills)} fills ({got[:4]}...)")
                        return
                    fill_ids = [o["id"] for o in left_orders]
                    if len(adm) != len(batch):
                        yield (k, "admitted-exactly-once", f"{len(batch)} orders submitted, {len(adm)} reported admitted")
                        return
                else:
                    fills = jura_fills(s["F"][1:])
                    fill_ids = [f["oid"] for f in fills]
                    kids = [int(x) for x in s["K"][1:]]
                    n_adm = int(s["N"][0])
                    if n_adm != len(batch):
                        yield (k, "admitted-exactly-once", f"{len(batch)} orders submitted, {n_adm} reported admitted")
                        return
                    by_id = {o["id"]: o for o in book}
                    for f in fills:
                        o = by_id.get(f["oid"])
                        if o is None or o["sz"] != f["sz"] or o["asset"] != f["coin"]:
                            yield (k, "fill-for-full-quantity-of-an-admitted-order", f"{f} vs resting {o}")
                            return
                    new_ids = kids + list(range(nxt + len(kids), nxt + len(kids) + n_adm))
                    if int(s["X"][0]) != nxt + len(kids) + n_adm:
                        yield (k, "fresh-ids", f"next id {s['X'][0]} after {len(kids)} children and {n_adm} admissions from {nxt}")
                        return
                if new_ids != list(range(nxt, nxt + len(new_ids))):
                    yield (k, "fresh-ids", f"ids handed out {new_ids}, next id was {nxt}")
                    return
                nxt += len(new_ids)
                for i in fill_ids:
                    if i in filled or i in gone:
                        yield (k, "fills-at-most-once", f"id {i} fills after it was already filled, cancelled or expired")
                        return
                    if i not in pre_ids:
                        yield (k, "fill-of-resting-order", f"id {i} fills but was not resting")
                        return
                filled |= set(fill_ids)
                admitted += new_ids
                # whatever left the book without a fill expired / fired (Jura) -- Uist has no such path
                left = set(pre_ids) - set(post_ids) - set(fill_ids)
                if uist and left:
                    yield (k, "conservation", f"ids {sorted(left)} left the book without fill or cancellation")
                    return
                gone |= left
            # admitted = filled + cancelled/expired + resting, disjointly
            if sorted(admitted) != sorted(list(filled) + list(gone) + post_ids):
                yield (k, "conservation", f"admitted {sorted(admitted)} filled {sorted(filled)} gone {sorted(gone)} resting {post_ids}")
                return


class C17(Prop):
    id = "C17"
    streams = exch_streams("batch", {"F", "A"}, {"F", "K", "N"}, q=120, t=4000)
    determined = False
    rule = ("batches of 1..300 orders (thorough: up to 5000) straddling the standard library's small-sort thresholds (20/21, 32/33, "
            "64/65), in random / buys-first / alternating / run arrangements of sides and all order types, on both exchanges; "
            "non-trivial = a batch with both sides larger than 20 orders was admitted and a later tick filled orders of both sides")
    level_text = ("Theorems C17.* (Lean 4): for every admission order that is a sell-first permutation of the submitted batch, the admitted "
                  "list is that permutation stamped with consecutive ids (so the admitted set is the submitted set and every sell's id is "
                  "below every buy's), ids in the book increase strictly in every reachable state, and the fills of a tick are in "
                  "increasing id order. That sort_by under the one-sided comparator returns a sell-first permutation is outside the "
                  "proof (unspecified by std): it is checked on every admitted batch of every run by the driver and by a monitor; for the "
                  "insertion sort std runs on slices of at most 20 elements the hypothesis is discharged (small_slice_sort_is_sell_first).")
    level_note = ("Partial: the standard library's behaviour for a comparator that is not a total order is assumed, and validated on every "
                  "run for batch sizes across all sort thresholds; the rest is proved over the model")
    technique = "Lean 4 proof relative to a checked sell-first-permutation oracle for sort_by + batch-size-targeted correspondence"
    design_ref = "DESIGN.md sections 5.1 and 8, C17"
    assumptions = ["slice::sort_by with the one-sided comparator yields a sell-first permutation (checked on every batch, not proved)"]

    def nontrivial(self, stream, annot, impl):
        big = False
        for op in annot:
            if op.startswith("T ") and " A " in op:
                n = int(op.split(" A ")[1].split()[0])
                if n > 20:
                    big = True
        return big and any("F" in sections(l) and sections(l)["F"][0] not in ("0", "1") for l in impl if l.startswith("F"))

    def monitor(self, stream, annot, impl):
        uist = stream.component == "uist"
        last_id = -1
        qty_to_id = {}
        for k, op, s, book, batch, ticks in walk_exchange(stream, annot, impl):
            t = op.split()
            if t[0] == "RESET":
                last_id, qty_to_id = -1, {}
            if t[0] != "T" or "F" not in s:
                continue
            if " A " in op and op.split(" A ")[1].split()[1:] == ["BAD"]:
                yield (k, "admitted-set-is-submitted-set", "the admitted list is not a permutation of the submitted batch")
                return
            idx = [int(x) for x in op.split(" A ")[1].split()[1:]]
            if sorted(idx) != list(range(len(batch))):
                yield (k, "admitted-set-is-submitted-set", f"admission indices {idx[:20]} for a batch of {len(batch)}")
                return
            if uist:
                sides = [is_sell(int(batch[i][0])) for i in idx]
            else:
                sides = [batch[i][1] == "0" for i in idx]
            if any(b and not a for a, b in zip(sides, sides[1:])):
                yield (k, "sells-admitted-before-buys", f"a buy precedes a sell in the admitted batch (sides sell={sides[:40]})")
                return
            if uist:
                adm = uist_orders(s["A"][1:])
                ids = [o["id"] for o in adm]
                fills = [qty_to_id.get((f["sym"], f["qty"]), -1) for f in uist_trades(s["F"][1:])]
                for o in adm:
                    qty_to_id[(o["sym"], o["sh"])] = o["id"]
            else:
                kids = [int(x) for x in s["K"][1:]]
                # Jura does not return the ids of admitted orders: they are the ids handed out after the children
                ids = kids + list(range(int(s["X"][0]) - len(idx), int(s["X"][0])))
                fills = [f["oid"] for f in jura_fills(s["F"][1:])]
            if any(b <= a for a, b in zip([last_id] + ids, ids)):
                yield (k, "ids-grow-with-admission", f"ids {ids[:20]} after {last_id}")
                return
            if ids:
                last_id = ids[-1]
            if any(b <= a for a, b in zip(fills, fills[1:])):
                yield (k, "fills-in-admission-order", f"fill ids {fills[:30]}")
                return

    def extra(self, stream, runs, wdir, tier, collect):
        """evidence only, never a verdict: how many admitted batches of at most 20 orders came out exactly as the insertion sort
        of `Lemmas/SmallSort.lean` predicts under the one-sided comparator (the sells, last arrived first, then the buys in order
        of arrival; theorem C17.small_slice_sort_is_sell_first). The standard library may change its small-slice algorithm
        without breaking the property, so a mismatch is a statistic, not an alarm."""
        uist = stream.component == "uist"
        tot = hit = 0
        for ops, annot, impl in runs:
            for a, i in zip(split_cases(annot), split_cases(impl)):
                if len(a) != len(i):
                    continue
                try:
                    for k, op, s, book, batch, ticks in walk_exchange(stream, a, i):
                        if not op.startswith("T ") or " A " not in op or "F" not in s:
                            continue
                        toks = op.split(" A ")[1].split()[1:]
                        if not toks or toks == ["BAD"] or not (2 <= len(batch) <= 20):
                            continue
                        idx = [int(x) for x in toks]
                        if sorted(idx) != list(range(len(batch))):
                            continue
                        sell = [is_sell(int(b[0])) if uist else b[1] == "0" for b in batch]
                        pred = [j for j in reversed(range(len(batch))) if sell[j]] + [j for j in range(len(batch)) if not sell[j]]
                        tot += 1
                        hit += idx == pred
                except Exception:
                    continue
        rs = collect["run_stats"]
        rs[f"{stream.component}.small_batches_le20"] = rs.get(f"{stream.component}.small_batches_le20", 0) + tot
        rs[f"{stream.component}.small_batches_le20_equal_to_insertion_sort_model"] = \
            rs.get(f"{stream.component}.small_batches_le20_equal_to_insertion_sort_model", 0) + hit


class C18(Prop):
    id = "C18"
    streams = exch_streams("mix", None, {"F", "K", "N"}, q=500, t=40000)
    determined = True
    determined_why = ("for a given resting book, attempted flags and tick quotes the property fixes the fills (IOC at the 10% tolerance, "
                      "GTC at the limit), which triggers fire, the announced child ids and that children wait for the following tick")
    rule = ("random Jura histories over the eight constructors and deserialised orders (trigger price different from the limit, "
            "is_market=false), decimal strings in three spellings, quote gaps, cancellations; prices on a quarter-point grid so that "
            "ask = limit*1.1, bid = limit*0.9 and bid/ask = trigger are hit; non-trivial = the case has a fill, a fired trigger and an "
            "IOC order that was dropped unfilled")
    level_text = ("Theorems C18.* (Lean 4): per-order visit lemmas give the IOC / GTC / four trigger conditions exactly as stated (iff), "
                  "the shape of fills and children; over every history: whole-book form of a tick (survivors, children with fresh "
                  "consecutive announced ids, then the admitted batch), children and admitted orders cannot fill in the tick that creates "
                  "them, and an IOC order is spent after the first tick that quotes its asset and never fills in any continuation. Tied to "
                  "the code by whole-state correspondence (book with attempted flags, next id) on boundary-rich histories.")
    level_note = "Proof over the model at any linear order with + - * and decimal literals; binary64 rounding of limit*(1±0.1) is shared by model and code (same IEEE operations) but not covered by the theorems' exact-arithmetic reading"
    technique = "Lean 4 case analysis of the per-order visit + refinement of the deferred delete/insert pass + induction over histories (spent ids) + correspondence"
    design_ref = "DESIGN.md section 8, C18"
    assumptions = ["TimeInForce::Alo is unimplemented!() in the code and excluded", "decimal strings parse to the binary64 the harness computed (checked by the harness)"]

    def nontrivial(self, stream, annot, impl):
        fill = fired = dropped = False
        book = []
        for op, out in zip(annot, impl):
            s = sections(out)
            if "F" in s and s["F"][0] != "0":
                fill = True
            if "K" in s and s["K"][0] != "0":
                fired = True
            if "B" in s:
                nb = jura_book(s["B"][1:])
                if op.startswith("T ") and "F" in s:
                    fl = {f["oid"] for f in jura_fills(s["F"][1:])}
                    for o in book:
                        if o["kind"] == "L:ioc" and o["att"] and o["id"] not in fl and o["id"] not in {x["id"] for x in nb}:
                            dropped = True
                book = nb
        return fill and fired and dropped

    def monitor(self, stream, annot, impl):
        """the property's rules, re-evaluated per resting order on the implementation's own trace (exact rationals; where the
        binary64 product limit*1.1 / limit*0.9 and the exact one decide differently, either answer is accepted)"""
        tried = set()      # IOC ids already visited by a tick that quoted their asset
        nxt = 0
        for k, op, s, book, batch, ticks in walk_exchange(stream, annot, impl):
            if op.startswith("RESET"):
                tried, nxt = set(), 0
            if op.startswith("T ") and "F" in s and "B" in s and "PANIC" not in s:
                t = op.split(" A ")[0].split()
                nq = int(t[1])
                quotes = {t[2 + 4 * i]: (t[3 + 4 * i], t[4 + 4 * i], int(t[5 + 4 * i])) for i in range(nq)}
                fills = jura_fills(s["F"][1:])
                post = {o["id"]: o for o in jura_book(s["B"][1:])}
                kids = [int(x) for x in s["K"][1:]] if "K" in s else []
                pre_ids = {o["id"] for o in book}
                byid = {}
                for f in fills:
                    if f["oid"] in byid:
                        yield (k, "at-most-one-fill-per-order", f"order {f['oid']} filled twice in one tick")
                        return
                    byid[f["oid"]] = f
                    if f["oid"] not in pre_ids:
                        yield (k, "eligible-only-from-the-following-tick", f"fill for id {f['oid']}, which was not resting when the tick began (resting: {sorted(pre_ids)})")
                        return
                fired = []
                for o in book:
                    q = quotes.get(o["asset"])
                    f = byid.get(o["id"])
                    px = fr(o["px"])
                    want = None          # None = either answer accepted
                    if o["kind"] == "L:ioc":
                        if q is None:
                            want = False
                        elif o["id"] in tried:
                            want = False
                            if o["id"] in post:
                                yield (k, "ioc-dropped-after-its-one-attempt", f"IOC order {o['id']} was tried before and still rests after a tick quoting its asset")
                                return
                        else:
                            tried.add(o["id"])
                            if o["buy"]:
                                ex, fl = fr(q[1]) <= px * Fraction(11, 10), fdec(q[1]) <= fdec(o["px"]) * (1.0 + 0.1)
                            else:
                                ex, fl = fr(q[0]) >= px * Fraction(9, 10), fdec(q[0]) >= fdec(o["px"]) * (1.0 - 0.1)
                            want = ex if ex == fl else None
                    elif o["kind"] == "L:gtc":
                        want = q is not None and (fr(q[1]) <= px if o["buy"] else fr(q[0]) >= px)
                        if not want and o["id"] not in post:
                            yield (k, "gtc-rests-until-its-price", f"GTC order {o['id']} (limit {fdec(o['px'])}, quote {q and (fdec(q[0]), fdec(q[1]))}) neither filled nor resting")
                            return
                    elif o["kind"].startswith("T:"):
                        want = False
                        _, trg, mkt, tpsl = o["kind"].split(":")
                        trg = fr(trg)
                        fire = q is not None and {("sl", True): fr(q[1]) >= trg, ("sl", False): fr(q[0]) <= trg,
                                                   ("tp", True): fr(q[1]) <= trg, ("tp", False): fr(q[0]) >= trg}[(tpsl, o["buy"])] if q is not None else False
                        if fire:
                            fired.append((o, mkt == "1"))
                            if o["id"] in post:
                                yield (k, "trigger-fires-iff-condition", f"trigger {o['id']} ({o['kind']}, quote {(fdec(q[0]), fdec(q[1]))}) should have fired but still rests")
                                return
                        elif o["id"] not in post:
                            yield (k, "trigger-fires-iff-condition", f"trigger {o['id']} ({o['kind']}, quote {q and (fdec(q[0]), fdec(q[1]))}) should not fire but left the book")
                            return
                    else:
                        continue
                    if want is True and f is None:
                        yield (k, "fill-iff-condition", f"order {o['id']} {o['kind']} {'buy' if o['buy'] else 'sell'} limit {fdec(o['px'])} on quote {(fdec(q[0]), fdec(q[1]))}: expected a fill, none reported")
                        return
                    if want is False and f is not None:
                        yield (k, "fill-iff-condition", f"order {o['id']} {o['kind']} {'buy' if o['buy'] else 'sell'} limit {fdec(o['px'])} (tried before: {o['id'] in tried and o['kind'] == 'L:ioc'}) on quote {q and (fdec(q[0]), fdec(q[1]))}: no fill expected, got {f}")
                        return
                    if f is not None:
                        good = (f["coin"] == o["asset"] and tok_same(f["sz"], o["sz"]) and f["time"] == q[2]
                                and tok_same(f["px"], q[1] if o["buy"] else q[0]) and f["side"] == ("A" if o["buy"] else "B"))
                        if not good:
                            yield (k, "fill-carries-id-asset-size-quote-price-date", f"fill {f} for order {o} on quote {q}")
                            return
                # children: one per fired trigger, fresh consecutive ids announced in K, resting (not filled) afterwards
                if len(kids) != len(fired) or kids != list(range(nxt, nxt + len(kids))):
                    yield (k, "children-announced-with-fresh-ids", f"fired {[o['id'] for o, _ in fired]}, announced {kids}, next id was {nxt}")
                    return
                for (o, mkt), cid in zip(fired, kids):
                    c = post.get(cid)
                    ok = c is not None and c["kind"] == ("L:ioc" if mkt else "L:gtc") and c["asset"] == o["asset"] and c["buy"] == o["buy"] \
                        and tok_same(c["px"], o["px"]) and tok_same(c["sz"], o["sz"])
                    if not ok:
                        yield (k, "firing-replaces-trigger-with-limit-child", f"trigger {o} fired, child id {cid} is {c}")
                        return
            if "X" in s:
                nxt = int(s["X"][0])


def tok_same(a, b):
    return a == b or (FLOAT_TOK.match(a) and FLOAT_TOK.match(b) and fdec(a) == fdec(b))


# ---------------------------------------------------------------- server protocol

SRV_ALL = {"R", "H", "F", "A", "K", "N", "Q", "W", "I", "C", "Z", "PANIC", "REJECT-ADMISSION", "ok", "reset", "bad-op"}
SRV_STATE = {"B", "U", "X", "L"}


def srv_streams(flavour, tags, q=250, t=20000, kinds=("uist", "jura")):
    return [Stream(f"server-{k}", flavour, quick=q, thorough=t, tags=set(tags) | {"PANIC", "REJECT-ADMISSION", "ok", "reset", "bad-op"},
                   state_tags=(SRV_ALL | SRV_STATE) - set(tags)) for k in kinds]


def srv_datasets(annot):
    """dataset name -> (dates in first-insertion order, well_formed)"""
    ds = {}
    for op in annot:
        t = op.split()
        if t[0] == "DATA":
            ds[t[1]] = []
        elif t[0] == "Q" and int(t[3]) > 0:
            d = int(t[2])
            if d not in ds[t[1]]:
                ds[t[1]].append(d)
    return ds


def srv_wellformed(annot):
    """the property's datasets: d1 < ... < dN. A store lists each stored date once, in the order in which the dates were first
    added (C07.dataset_lists_each_stored_date_once), so the datasets the property speaks about are those whose dates *first
    appear* in increasing order: add_quote calls in non-decreasing date order (C07.dataset_loaded_in_date_order_is_increasing),
    and also a dataset loaded one symbol at a time whose first symbol covers every date
    (C07.dataset_loaded_symbol_by_symbol); a date may be quoted by several calls (more symbols, revisions)"""
    ds = {}
    for op in annot:
        t = op.split()
        if t and t[0] == "Q" and int(t[3]) > 0:
            d = int(t[2])
            if d not in ds.setdefault(t[1], []):
                ds[t[1]].append(d)
    return all(all(a < b for a, b in zip(v, v[1:])) for v in ds.values())


def srv_case_in_domain(ops):
    """C07's domain: datasets d1 < ... < dN with N >= 1 (a registered dataset without any quote has N = 0)"""
    declared, quoted = set(), set()
    for op in ops:
        t = op.split()
        if t and t[0] == "DATA":
            declared.add(t[1])
        if t and t[0] == "Q" and int(t[3]) > 0:
            quoted.add(t[1])
    return srv_wellformed(ops) and declared <= quoted


class C07(Prop):
    id = "C07"

    def in_domain(self, stream, ops):
        return srv_case_in_domain(ops)

    streams = srv_streams("clock", {"R", "H", "Q", "W", "C", "F"})
    determined = True
    determined_why = ("for a dataset d1<...<dN the property fixes the clock position and date after every request, the has_next "
                      "flag of every tick and of now, the date of the quotes fetch_quotes returns and the date of the quotes a tick matches against")
    rule = ("random request sequences (tick / fetch_quotes / now / info / insert / delete / init / new_backtest on ids 0..4) against both "
            "AppStates, datasets of 1..40 dates with per-symbol gaps, one or two datasets, `single` and `create`; non-trivial = some "
            "backtest was ticked to the end of its dataset (has_next false reported) and fetched or asked `now` on the way")
    level_text = ("Theorems C07.* (Lean 4), for any exchange plugged into the server model (instantiated at Uist and Jura): after any "
                  "interleaving of requests a backtest that received k ticks stands at pos k and shows dates[min k (N-1)]; the k-th tick "
                  "hands exactly the quotes of d_k to the exchange and reports has_next iff k<N; now/fetch_quotes read that clock; a "
                  "client looping while has_next performs exactly N ticks (fuelled loop, fuel shown sufficient). Tied to both AppStates "
                  "by correspondence on responses, clock fields and exchange state, with a clock monitor on the implementation's traces.")
    level_note = "Proof over the server model for any exchange; tie is differential; usize pos does not overflow"
    technique = "Lean 4 invariant (clock = dates[min pos (N-1)]) by induction over request histories + fuelled-loop termination + correspondence"
    design_ref = "DESIGN.md section 8, C07"
    assumptions = ["datasets are built by add_quote in increasing date order (malformed datasets are generated too, but only compared against the model, not monitored)"]

    def nontrivial(self, stream, annot, impl):
        end = any("H" in sections(l) and sections(l)["H"] == ["false"] for l in impl)
        looked = any(("Q" in sections(l)) or ("W" in sections(l)) for l in impl)
        return end and looked and srv_wellformed(annot)

    def monitor(self, stream, annot, impl):
        if not srv_wellformed(annot):
            return
        ds = srv_datasets(annot)
        k = {}      # live backtest -> (ticks so far, dataset name)
        for n, (op, out) in enumerate(zip(annot, impl)):
            t = op.split()
            s = sections(out)
            if t[0] == "RESET":
                k = {}
            if t[0] == "SINGLE" and out == "ok":
                k[0] = (0, t[1])
            if t[0] in ("INIT", "NEWBT") and s.get("R", [""])[0] == "ok":
                k[int(s["R"][1])] = (0, t[1])
            if t[0] not in ("TICK", "FETCH", "NOW", "INS", "DEL", "INFO", "INIT", "NEWBT"):
                continue
            if s.get("R", [""])[0] != "ok":
                # a backtest that was created keeps its clock: it shows dN after its last tick, it does not disappear
                if t[0] in ("TICK", "FETCH", "NOW", "INFO") and s.get("R") == ["none"] and int(t[1]) in k:
                    yield (n, "created-backtest-keeps-answering", f"{op.split(' A ')[0]}: backtest {t[1]} was created and ticked {k[int(t[1])][0]} times, now the server does not know it")
                    return
                continue
            bt = int(s["R"][1]) if t[0] in ("INIT", "NEWBT") else int(t[1])
            if bt not in k:
                continue
            kk, name = k[bt]
            dates = ds[name]
            N = len(dates)
            if t[0] == "TICK":
                dk = dates[min(kk, N - 1)]
                if kk < N:
                    fd = ([int(x) for x in s["F"][4::5]] if stream.component == "server-uist" else [int(x) for x in s["F"][6::6]])
                    if any(d != dk for d in fd):
                        yield (n, "kth-tick-matches-dk-only", f"tick {kk + 1} reported fills dated {fd}, the clock date was {dk}")
                        return
                kk += 1
                k[bt] = (kk, name)
                if s["H"] != [str(kk < N).lower()]:
                    yield (n, "has-next-iff-k-lt-N", f"tick {kk} of {N} reported has_next={s['H']}")
                    return
            want_date = dates[min(kk, N - 1)]
            if "C" in s and s["C"][0] != "-":
                if int(s["C"][0]) != kk or int(s["C"][1]) != want_date:
                    yield (n, "clock-after-k-ticks", f"after {kk} ticks of {N}: pos {s['C'][0]} date {s['C'][1]}, expected pos {kk} date {want_date}")
                    return
            if t[0] == "FETCH" and "Q" in s:
                qd = [int(x) for x in s["Q"][4::4]]
                if any(d != want_date for d in qd):
                    yield (n, "fetch-shows-current-date", f"quotes dated {qd}, clock {want_date}")
                    return
            if t[0] == "NOW" and "W" in s:
                if int(s["W"][0]) != want_date or s["W"][1] != str(kk < N).lower():
                    yield (n, "now-reads-the-clock", f"now {s['W']} after {kk} ticks of {N}, clock {want_date}")
                    return


class C08(Prop):
    id = "C08"
    # the in-process server state, and (a smaller volume) the same request mix over the JSON services, where an unknown
    # backtest is HTTP 400 and an id segment that is no id at all (`-1`, `abc`, 2^64) must be refused without touching a state
    streams = srv_streams("mix", {"R", "H", "F", "A", "K", "N", "Q", "W", "I", "C", "Z"}) + [
        Stream(f"http-{k}", "http-mix", quick=60, thorough=4000, rtol=1e-12,
               tags={"ST", "NB", "PANIC", "REJECT-ADMISSION", "ok", "reset", "bad-op"}) for k in ("uist", "jura")]
    determined = False
    solo_cases_quick = 400
    solo_cases_thorough = 3000
    rule = ("random interleavings of init / new_backtest / insert / delete / tick / fetch / now / info over backtest ids 0..4 (some never "
            "created), one or two datasets plus an unknown dataset name, on both AppStates; for a sample of cases every backtest's "
            "response stream is also compared with a solo run of the implementation containing only the creations and that backtest's "
            "requests; non-trivial = at least two backtests live and a request to an unknown id in the case")
    level_text = ("Theorems C08.* (Lean 4), for any exchange in the server model: a successful creation returns last+1, stores it and "
                  "touches no other entry; over every request history the returned ids are strictly increasing and above the initial "
                  "counter; the responses to the requests addressed to one backtest equal those of the run containing only these "
                  "requests (projection lemma by induction); unknown backtests/datasets are rejected with the state unchanged. Real "
                  "thread schedules are not modelled (one Mutex held per handler: every serial order is covered). Tied to both AppStates "
                  "by correspondence plus an implementation-only solo-run comparison.")
    level_note = "Partial with respect to 'schedules': atomicity of each request is assumed from the Mutex held for the whole handler body"
    technique = "Lean 4 projection/non-interference lemma by induction over interleavings + id monotonicity invariant + correspondence + solo-run metamorphic check"
    design_ref = "DESIGN.md section 8, C08"
    assumptions = ["each request is atomic (Mutex<AppState> held for the handler body)", "u64 backtest id counter does not overflow"]

    def nontrivial(self, stream, annot, impl):
        live = set()
        unknown = False
        for op, out in zip(annot, impl):
            s = sections(out)
            if "Z" in s:
                live |= set(s["Z"][1:])
            if s.get("R") == ["none"] and op.split()[0] in ("TICK", "INS", "DEL", "FETCH", "NOW", "INFO"):
                unknown = True
        return len(live) >= 2 and unknown

    def monitor_http(self, stream, annot, impl):
        for n, (op, out) in enumerate(zip(annot, impl)):
            s = sections(out)
            if "ST" not in s:
                continue
            refused = s["ST"][0].startswith("4")
            if op.startswith("RAW") and not refused:
                yield (n, "malformed-backtest-id-refused", f"{op}: answered {s['ST'][0]}")
                return
            if refused and s.get("SEQ") == ["false"]:
                yield (n, "rejected-request-changes-no-state", f"{op.split(' A ')[0]}: answered {s['ST'][0]} but a backtest's state differs from the in-process twin's afterwards")
                return
            if not op.startswith("RAW") and s.get("EQ") == ["false"] and (refused or s["ST"][0] == "200"):
                yield (n, "unknown-backtest-or-dataset-is-400", f"{op.split(' A ')[0]}: HTTP {s['ST'][0]}, the in-process call {'succeeds' if refused else 'reports unknown (or returns something else)'}")
                return

    def monitor(self, stream, annot, impl):
        if stream.component.startswith("http-"):
            yield from self.monitor_http(stream, annot, impl)
            return
        returned = []
        for n, (op, out) in enumerate(zip(annot, impl)):
            t = op.split()
            s = sections(out)
            if t[0] == "RESET":
                returned = []
                prev_live = set()
                declared, known = set(), set()
            if t[0] == "DATA":
                declared.add(t[1])
            if t[0] == "CREATE":
                known = set(declared)
            if t[0] == "SINGLE" and out == "ok":
                prev_live = {"0"}
                known = {t[1]}
            if t[0] in ("INIT", "NEWBT"):
                if t[1] not in known and s.get("R", [""])[0] != "none" and "R" in s:
                    yield (n, "unknown-dataset-rejected", f"{op}: the server holds the datasets {sorted(known)} but answered {s['R']}")
                    return
                if s.get("R", [""])[0] == "ok":
                    i = int(s["R"][1])
                    if i in returned or (returned and i <= max(returned)) or str(i) in prev_live:
                        yield (n, "fresh-id", f"creation returned id {i}; earlier ids {returned}, live before {sorted(prev_live)}")
                        return
                    returned.append(i)
                    if s["C"][:2] != ["0", s["C"][1]] or s.get("B", ["x"])[0] != "0" or s.get("U") != ["0"]:
                        yield (n, "fresh-backtest", f"new backtest state {out}")
                        return
                elif s.get("R") == ["none"]:
                    if "Z" in s and set(s["Z"][1:]) != prev_live:
                        yield (n, "rejected-creation-is-inert", f"live ids changed from {sorted(prev_live)} to {s['Z'][1:]}")
                        return
            if "Z" in s:
                prev_live = set(s["Z"][1:])

    def extra(self, stream, runs, wdir, tier, collect):
        """implementation-only metamorphic check: per-backtest response streams equal those of solo runs"""
        from . import core
        import os
        if stream.component.startswith("http-"):
            return      # the solo runs and the concurrent run belong to the in-process streams
        limit = self.solo_cases_thorough if tier == "thorough" else self.solo_cases_quick
        solo_ops, index = [], []
        ncase = 0
        for (ops, annot, impl) in runs:
            for o, i in zip(core.split_cases(ops), core.split_cases(impl)):
                if ncase >= limit:
                    break
                ncase += 1
                setup = [l for l in o if l.split()[0] in ("RESET", "DATA", "Q", "SINGLE", "CREATE")]
                for bt in range(5):
                    mine = [k for k, l in enumerate(o) if l.split()[0] in ("TICK", "INS", "DEL", "FETCH", "NOW", "INFO") and l.split()[1] == str(bt)]
                    if not mine:
                        continue
                    keep = [k for k, l in enumerate(o) if l.split()[0] in ("INIT", "NEWBT")] + mine
                    keep.sort()
                    base = len(solo_ops) + len(setup)
                    pos = {k: base + j for j, k in enumerate(keep)}
                    solo_ops += setup + [o[k] for k in keep]
                    index.append((o, i, bt, mine, pos))
        if not solo_ops:
            return
        p = os.path.join(wdir, f"solo-{stream.component}.ops")
        open(p, "w").write("\n".join(solo_ops) + "\n")
        (_, _), simpl, _, _ = core.run_ops(stream, p, wdir, f"solo-{stream.component}")
        collect["evaluations"] += len(solo_ops)
        collect.setdefault("solo_runs", 0)
        collect["solo_runs"] += len(index)
        for (o, i, bt, mine, pos) in index:
            for k in mine:
                if i[k] != simpl[pos[k]]:
                    ops_min = [l for l in o]
                    collect["fails"].append(core.Failure("monitor", stream, ops_min, k, "responses-independent-of-other-backtests",
                                                         f"backtest {bt}: in the interleaved run the response is [{i[k][:160]}], in the solo run [{simpl[pos[k]][:160]}]",
                                                         impl=i[k], origin="solo-run comparison"))
                    break
        self.concurrent(stream, tier, collect)

    def concurrent(self, stream, tier, collect):
        """real threads, real sockets (support for the serial theorem, see DESIGN section 6): several reqwest clients drive
        one multi-worker HttpServer at the same time; ids must be distinct and every client's responses those of a solo run"""
        from . import core
        import json, subprocess
        comp = stream.component.replace("server-", "http-")
        seed = int(os.environ.get("VERIF_SEED", "0"))
        clients, rounds, steps = (8, 60, 40) if tier == "thorough" else (6, 6, 30)
        cmd = [core.HBIN, comp, "conc", str(seed), str(clients), str(rounds), str(steps)]
        p = subprocess.run(cmd, env=core.ENV, stdout=subprocess.PIPE, stderr=subprocess.DEVNULL, text=True)
        line = [l for l in p.stdout.strip().split("\n") if l.startswith("{")]
        if p.returncode != 0 or not line:
            raise core.HarnessCrash(f"the harness stopped during the concurrent run ({comp})")
        r = json.loads(line[-1])
        st = collect.setdefault("run_stats", {})
        if not r.get("tcp"):
            st[f"{stream.component}.concurrent_run_skipped_tcp_unavailable"] = 1
            return
        st[f"{stream.component}.concurrent_requests"] = st.get(f"{stream.component}.concurrent_requests", 0) + r["requests"]
        st[f"{stream.component}.concurrent_clients_x_rounds"] = clients * rounds
        collect["evaluations"] += r["requests"]
        if r["id_collisions"] or r["transcript_mismatches"]:
            clause = "concurrent-clients-get-distinct-ids" if r["id_collisions"] else "concurrent-responses-equal-solo-run"
            f = core.Failure("monitor", stream, ["RESET", "# " + " ".join(cmd)], 1, clause,
                             json.dumps(r["first"])[:1500], impl=json.dumps(r), origin="concurrent clients over a real socket (schedule-dependent: re-run the command in the ops to reproduce)")
            f.no_shrink = True
            collect["fails"].append(f)


# ---------------------------------------------------------------- broker protocol
from fractions import Fraction


class NonFinite(Exception):
    """a clause needed the exact value of a token that is infinite or NaN: the clause does not apply to this trace"""


def fr(tok):
    """exact rational value of a float token"""
    x = fdec(tok)
    if x != x or x in (float("inf"), float("-inf")):
        raise NonFinite(tok)
    return Fraction(x)


def close(a, b, rtol=1e-9, scale=None):
    a, b = float(a), float(b)
    if a == b:
        return True
    m = max(abs(a), abs(b), scale or 0.0)
    return abs(a - b) <= rtol * m


def bmap(toks):
    """'n sym f sym f' -> dict"""
    return {toks[1 + 2 * k]: toks[2 + 2 * k] for k in range(int(toks[0]))}


def bper(toks):
    """V section: sym pv plv cb pp bid ask (x4)"""
    out = {}
    for k in range(0, len(toks), 7):
        sym, pv, plv, cb, pp, bid, ask = toks[k:k + 7]
        out[sym] = {"pv": pv, "plv": plv, "cb": cb, "pp": pp, "bid": bid, "ask": ask}
    return out


class BState:
    def __init__(self, s):
        self.ev = s.get("EV", [])
        self.cash = s["G"][0]
        self.hold, self.pend, self.hp = bmap(s["H"]), bmap(s["P"]), bmap(s["HP"])
        self.state = s["S"][0]
        self.tv, self.lv = s["TV"][0], s["LV"][0]
        self.pos, self.date = int(s["K"][0]), int(s["K"][1])
        self.trades = uist_trades(s["T"][1:])
        self.per = bper(s["V"])
        self.xb = uist_orders(s["XB"][1:])
        self.xk = uist_orders(s["XK"][1:])
        self.xl = int(s["XL"][0])
        self.xtrades = uist_trades(s["XL"][1:])
        self.raw = s


def walk_broker(annot, impl):
    """yields (k, op tokens (before @), costs, prev BState or None, cur BState)"""
    prev, costs = None, []
    for k, (op, out) in enumerate(zip(annot, impl)):
        t = op.split(" @ ")[0].split()
        if t[0] == "RESET":
            prev, costs = None, []
            continue
        if t[0] == "COSTS":
            costs = [(t[2 + 2 * i], fdec(t[3 + 2 * i])) for i in range(int(t[1]))]
        s = sections(out)
        if "G" not in s:
            continue
        cur = BState(s)
        yield k, t, costs, prev, cur
        prev = cur


def costs_wf(costs):
    return all((v >= 0 and (c != "C" or v < 1)) for c, v in costs)


def impact_total(costs, budget, price, is_buy):
    """the cost model in binary64, operation for operation as BrokerCost::trade_impact_total"""
    nb, np_ = budget, price
    for c, v in costs:
        if c == "P":
            np_ = np_ + v if is_buy else np_ - v
        elif c == "C":
            nb = nb * (1.0 - v)
        else:
            nb = nb - v
    return nb, np_


BRK_TAGS = {"EV", "G", "H", "P", "HP", "S", "TV", "LV", "K", "T", "V", "XB", "XK", "XL", "W"}


def brk_stream(flavour, tags, q=300, t=30000, rtol=1e-9):
    return Stream("broker", flavour, quick=q, thorough=t, rtol=rtol,
                  tags=set(tags) | {"PANIC", "REJECT-ADMISSION", "ok", "reset", "bad-op"},
                  state_tags=BRK_TAGS - set(tags), exact="broker-exact")


BRK_NOTE = ("Proof over the broker model in exact arithmetic (any linearly ordered field with floor); binary64 rounding is outside the "
            "proof and bounded by the comparison tolerance; hash-map iteration orders and the admission order are taken from the "
            "implementation; the tie to UistBroker over TestClient / eager / lazy clients is differential")


class C04(Prop):
    id = "C04"
    streams = [brk_stream("mix", {"EV", "G", "T", "XL"}), brk_stream("whole", {"EV", "G", "T", "XL"}, q=150)]
    determined = False
    rule = ("random broker histories (deposit / withdraw / send_order of all six types / check / liquidation request / diff) over the "
            "real TestClient and eager / lazy client wrappers, random cost lists, datasets with gaps and price jumps; amounts "
            "relative to the broker's own state (cash, cash+x, liquidation value, ...); non-trivial = the case has a successful "
            "deposit, an executed buy and an executed sell or a negative balance")
    level_text = ("Theorem C04.cash_ledger (Lean 4): for every admissible history of broker operations, every cost list, dataset and "
                  "both code variants, cash = deposits - withdrawals - sum(buys) + sum(sells) over the broker's log and the broker's log "
                  "equals the exchange's log; submitting orders, refused cash operations and liquidation requests above free cash "
                  "never move cash. Tied to UistBroker by step-by-step comparison of events, cash and trade log (all other state "
                  "compared too) and an exact-rational ledger monitor on the implementation's traces.")
    level_note = BRK_NOTE
    technique = "Lean 4 invariant (ledger identity + log equality) by induction over operation histories + correspondence + exact-rational ledger monitor"
    design_ref = "DESIGN.md section 8, C04"
    assumptions = ["client-issued liquidation requests exceed free cash (the property's own restriction); requests at most the free cash are generated too and only compared against the model"]

    def nontrivial(self, stream, annot, impl):
        dep = buy = sell = neg = False
        for k, t, costs, prev, cur in walk_broker(annot, impl):
            if cur.ev[:1] == ["DOK"] and fdec(cur.ev[1]) > 0:
                dep = True
            for tr in cur.trades:
                buy |= tr["side"] == "B"
                sell |= tr["side"] == "S"
            neg |= fdec(cur.cash) < 0
        return dep and buy and (sell or neg)

    def monitor(self, stream, annot, impl):
        net = Fraction(0)
        gross = Fraction(0)    # sum of the magnitudes booked so far: binary64 rounding scales with it, not with the balance
        for k, t, costs, prev, cur in walk_broker(annot, impl):
            if prev is None:
                net = Fraction(0)
                gross = Fraction(0)
            if t[0] == "DEP" and cur.ev[0] == "DOK":
                net += fr(t[1])
                gross += abs(fr(t[1]))
            if t[0] == "WD" and cur.ev[0] == "WOK":
                net -= fr(t[1])
                gross += abs(fr(t[1]))
            pcash = prev.cash if prev is not None else "f0"     # a freshly built broker holds no cash
            if t[0] == "LIQ" and not fdec(t[1]) > fdec(pcash):
                # a liquidation request of at most the free cash debits cash on its failure paths (outside the property)
                net += fr(cur.cash) - fr(pcash)
                gross += abs(fr(cur.cash) - fr(pcash))
            want = net + sum((fr(x["value"]) if x["side"] == "S" else -fr(x["value"])) for x in cur.trades)
            scale = float(sum(abs(fr(x["value"])) for x in cur.trades) + gross)
            if not close(fr(cur.cash), want, 1e-9, scale):
                yield (k, "cash-ledger", f"cash {fdec(cur.cash)} but deposits-withdrawals-buys+sells = {float(want)}")
                return
            if len(cur.trades) != cur.xl:
                yield (k, "each-trade-booked-once", f"broker log has {len(cur.trades)} trades, the exchange executed {cur.xl}")
                return
            if prev is None:
                continue
            inert = (t[0] == "WD" and cur.ev[0] in ("WFAIL", "OPFAIL")) or (t[0] == "DEP" and cur.ev[0] == "OPFAIL") \
                or t[0] in ("SEND", "SENDDIFF", "DIFF", "GET") or (t[0] == "LIQ" and fdec(t[1]) > fdec(prev.cash))
            if inert and cur.cash != prev.cash and cur.ev[:1] != ["PANIC"]:
                yield (k, "operation-never-moves-cash", f"{' '.join(t)} -> {' '.join(cur.ev)} moved cash from {fdec(prev.cash)} to {fdec(cur.cash)}")
                return


class C05(Prop):
    id = "C05"
    streams = [brk_stream("whole", {"H", "P", "HP", "T"}), brk_stream("mix", {"H", "P", "HP", "T"}, q=150, rtol=1e-6)]
    determined = False
    rule = ("broker histories on a whole-share dyadic grid (exact binary64 arithmetic: zero tests are exact) plus a fractional stream at "
            "1e-6; non-trivial = an accepted order filled, another is still outstanding at some point, and a position went back to flat "
            "or the pending map became empty again")
    level_text = ("Theorems C05.* (Lean 4): over every admissible history holdings(sym) = bought - sold over the log, no zero entry, "
                  "broker log = exchange log, pending(sym) = signed quantity of forwarded orders still in the exchange's buffer or book; "
                  "with the auxiliary invariant (every pending key is non-zero or has an outstanding order) the pending map is empty once "
                  "nothing is outstanding; holdings-with-pending is the pointwise sum. Tied to UistBroker by comparing the three maps, the "
                  "trade log and the exchange's buffer and book, with a reconciliation monitor on the implementation's traces.")
    level_note = BRK_NOTE
    technique = "Lean 4 invariants (holdings = net traded, pending = outstanding exposure) by induction over histories + correspondence + reconciliation monitor"
    design_ref = "DESIGN.md section 8, C05"
    assumptions = ["whole-share quantities for the exact-zero clauses, tolerance 1e-6 otherwise (as the property states)"]

    def nontrivial(self, stream, annot, impl):
        filled = outstanding = again = False
        had = False
        for k, t, costs, prev, cur in walk_broker(annot, impl):
            filled |= len(cur.trades) > 0
            outstanding |= len(cur.xb) + len(cur.xk) > 0
            if cur.pend:
                had = True
            if had and not cur.pend:
                again = True
        return filled and outstanding and again

    def monitor(self, stream, annot, impl):
        tol = stream.rtol
        for k, t, costs, prev, cur in walk_broker(annot, impl):
            if cur.trades != cur.xtrades:
                yield (k, "log-holds-the-executed-trades-in-order", f"broker log {[(x['sym'], x['side'], fdec(x['qty'])) for x in cur.trades][-4:]} vs exchange log {[(x['sym'], x['side'], fdec(x['qty'])) for x in cur.xtrades][-4:]}")
                return
            net, gross = {}, {}     # gross: the quantities that were added and subtracted; the 1e-6 is relative to them
            for x in cur.trades:
                net[x["sym"]] = net.get(x["sym"], Fraction(0)) + (fr(x["qty"]) if x["side"] == "B" else -fr(x["qty"]))
                gross[x["sym"]] = gross.get(x["sym"], 0.0) + abs(fdec(x["qty"]))
            for o in cur.xb + cur.xk:
                gross[o["sym"]] = gross.get(o["sym"], 0.0) + abs(fdec(o["sh"]))
            sc = lambda sym: max(1.0, gross.get(sym, 0.0))
            for sym in set(net) | set(cur.hold):
                have = fr(cur.hold[sym]) if sym in cur.hold else Fraction(0)
                if not close(have, net.get(sym, 0), tol, sc(sym)):
                    yield (k, "holdings-are-bought-minus-sold", f"{sym}: holdings {float(have)}, executed net {float(net.get(sym, 0))}")
                    return
            if any(fdec(v) == 0.0 for v in cur.hold.values()):
                yield (k, "zero-position-absent", f"holdings {cur.hold}")
                return
            out = {}
            for o in cur.xb + cur.xk:
                out[o["sym"]] = out.get(o["sym"], Fraction(0)) + (-fr(o["sh"]) if is_sell(o["typ"]) else fr(o["sh"]))
            for sym in set(out) | set(cur.pend):
                have = fr(cur.pend[sym]) if sym in cur.pend else Fraction(0)
                if not close(have, out.get(sym, 0), tol, sc(sym)):
                    yield (k, "pending-is-outstanding-exposure", f"{sym}: pending {float(have)}, orders still at the exchange {float(out.get(sym, 0))}")
                    return
            if not cur.xb and not cur.xk and cur.pend and stream.flavour == "whole":
                yield (k, "pending-empty-again", f"nothing outstanding but pending = {cur.pend}")
                return
            for sym in set(cur.hold) | set(cur.pend) | set(cur.hp):
                s_ = (fr(cur.hold[sym]) if sym in cur.hold else 0) + (fr(cur.pend[sym]) if sym in cur.pend else 0)
                if sym not in cur.hp or not close(fr(cur.hp[sym]), s_, tol, sc(sym)):
                    yield (k, "holdings-with-pending-is-sum", f"{sym}: {cur.hp.get(sym)} vs {float(s_)}")
                    return


class C06(Prop):
    id = "C06"
    streams = [brk_stream("whole", {"EV", "XB", "G", "H", "P", "XK"}), brk_stream("mix", {"EV", "XB", "G", "H", "P", "XK"}, q=150)]
    determined = False
    rule = ("send_order of all six types through the real TestClient, an eager wrapper and a lazy (async-fn style) wrapper; quantities "
            "include zero, the held quantity, held+1, cash/ask (cost = cash exactly) and floor(cash/ask); Ready and Failed states; "
            "non-trivial = the case has an accepted and a refused order, and an order at the cash = cost or held = shares boundary")
    level_text = ("Theorems C06.* (Lean 4): for every order type a well-formed order is answered with an event, never a panic; it is "
                  "forwarded iff Ready, non-zero quantity, buy cost below cash at the last ask, market sell within the held quantity; a "
                  "forwarded order is appended once and unchanged to the exchange's buffer for eager and lazy client kinds (future "
                  "driven to completion); a refusal leaves broker and exchange identical. Tied to UistBroker over three client "
                  "implementations by comparing events, exchange buffer/book and broker state, with a gatekeeping monitor.")
    level_note = BRK_NOTE + "; real executors, wakers and network failures are not modelled"
    technique = "Lean 4 closed form of send_order's decision (iff) + frame lemma + client-kind model of futures + correspondence over three client implementations"
    design_ref = "DESIGN.md sections 5.3 and 8, C06"
    assumptions = ["well-formed order = its symbol has a last-seen quote (the code unwraps it); orders for never-quoted symbols are generated and compared with the model only",
                   "a conforming client's future performs its effect at call time or when first polled, exactly once"]

    def nontrivial(self, stream, annot, impl):
        sent = refused = False
        for k, t, costs, prev, cur in walk_broker(annot, impl):
            if t[0] == "SEND":
                sent |= cur.ev == ["sent"]
                refused |= cur.ev == ["invalid"]
        return sent and refused

    def monitor_burst(self, annot, impl):
        """a burst of `~SEND` lines prints only the event of each order: every order answered `sent` must be in the
        exchange's buffer, once and unchanged, at the next full observation (no reconciliation happens in between)"""
        before, queued, start = None, [], None
        for k, (op, out) in enumerate(zip(annot, impl)):
            s = sections(out)
            if op.startswith("RESET"):
                before, queued, start = None, [], None
            if op.startswith("~SEND"):
                t = op.split(" @ ")[0].split()
                if start is None:
                    start = k
                if s.get("EV") == ["sent"]:
                    queued.append({"id": None, "typ": int(t[1]), "sym": t[2], "sh": t[3], "px": None if t[4] == "-" else t[4]})
                continue
            if "XB" in s:
                xb = uist_orders(s["XB"][1:])
                if queued and before is not None and not op.startswith(("CHECK", "SENDDIFF", "LIQ")):
                    if xb != before + queued:
                        yield (k, "forwarded-exactly-once-unchanged", f"{len(queued)} orders of the burst from line {start} were answered `sent`; the exchange buffer grew from {len(before)} to {len(xb)} orders" + ("" if len(xb) != len(before) + len(queued) else " (same number, different orders)"))
                        return
                before, queued, start = xb, [], None

    def monitor(self, stream, annot, impl):
        yield from self.monitor_burst(annot, impl)
        for k, t, costs, prev, cur in walk_broker(annot, impl):
            if t[0] != "SEND" or prev is None:
                continue
            typ, sym, sh = int(t[1]), t[2], fdec(t[3])
            q = prev.per.get(sym)
            if q is None or q["ask"] == "-":
                continue   # not well-formed: symbol never quoted
            if cur.ev == ["PANIC"]:
                yield (k, "answered-with-an-event-never-a-panic", f"{' '.join(t)} panicked")
                return
            buy = not is_sell(typ)
            accepts = (prev.state == "Ready" and sh != 0.0 and (not buy or fdec(prev.cash) > sh * fdec(q["ask"]))
                       and not (typ == 0 and sym in prev.hold and not fdec(prev.hold[sym]) >= sh))
            if (cur.ev == ["sent"]) != accepts:
                yield (k, "forwarded-iff-conditions", f"{' '.join(t)}: event {cur.ev}, conditions say {'forward' if accepts else 'refuse'} "
                          f"(state {prev.state}, cash {fdec(prev.cash)}, ask {fdec(q['ask'])}, held {prev.hold.get(sym)})")
                return
            if cur.ev == ["sent"]:
                want = prev.xb + [{"id": None, "typ": typ, "sym": sym, "sh": t[3], "px": None if t[4] == "-" else t[4]}]
                if cur.xb != want:
                    yield (k, "forwarded-exactly-once-unchanged", f"exchange buffer {cur.xb} after forwarding, expected {want}")
                    return
            else:
                same = (cur.cash, cur.hold, cur.pend, cur.xb, cur.xk, cur.state) == (prev.cash, prev.hold, prev.pend, prev.xb, prev.xk, prev.state)
                if not same:
                    yield (k, "refusal-is-inert", f"{' '.join(t)} refused but state changed")
                    return


class C09(Prop):
    id = "C09"
    streams = [brk_stream("liq", {"S", "EV", "G", "LV"}), brk_stream("whole-liq", {"S", "EV", "G", "LV"}, q=150)]
    determined = False
    rule = ("broker histories with price jumps between submission and execution (cash driven negative), liquidation-heavy; "
            "non-trivial = the case reaches Failed, or goes through negative cash and stays Ready with sells queued; operations are "
            "also issued in the Failed state")
    level_text = ("Theorems C09.* (Lean 4): after check, a Ready long-only broker with quoted holdings and well-formed costs is Failed iff "
                  "cash < 0 and -cash + 1000 exceeds the liquidation value (for every walk order; the <- direction is the loop lemma); "
                  "Failed is absorbing over every history; in Failed deposit / withdraw / send_order are refused without effect while "
                  "check still reconciles fills (ledger invariant independent of the flag). Tied to UistBroker by correspondence and a "
                  "state monitor evaluating the iff with the implementation's own cash and liquidation value.")
    level_note = BRK_NOTE
    technique = "Lean 4 iff for the liquidation walk (loop lemma) + absorbing-state induction + correspondence + state monitor"
    design_ref = "DESIGN.md section 8, C09"
    assumptions = ["long-only portfolio whose held symbols have a last-seen quote (true of every state the broker reaches through its own gatekeeping)"]

    def nontrivial(self, stream, annot, impl):
        failed = rescued = False
        for k, t, costs, prev, cur in walk_broker(annot, impl):
            failed |= cur.state == "Failed"
            if prev is not None and t[0] == "CHECK" and fdec(cur.cash) < 0 and cur.state == "Ready" and len(cur.xb) > 0:
                rescued = True
        return failed or rescued

    def monitor(self, stream, annot, impl):
        for k, t, costs, prev, cur in walk_broker(annot, impl):
            if prev is None:
                continue
            if prev.state == "Failed":
                if cur.state != "Failed":
                    yield (k, "failed-is-absorbing", f"{' '.join(t)} left the Failed state")
                    return
                if t[0] in ("DEP", "WD") and cur.ev[0] != "OPFAIL" or t[0] == "SEND" and cur.ev != ["invalid"]:
                    yield (k, "failed-refuses", f"{' '.join(t)} answered {cur.ev} in Failed")
                    return
                if t[0] in ("DEP", "WD", "SEND") and (cur.cash, cur.hold, cur.pend, cur.xb) != (prev.cash, prev.hold, prev.pend, prev.xb):
                    yield (k, "failed-refuses-without-effect", f"{' '.join(t)} changed state in Failed")
                    return
                if t[0] == "CHECK" and cur.ev != ["PANIC"]:
                    # fills in flight are still reconciled into cash and holdings
                    new = cur.xtrades[len(prev.xtrades):]
                    want = fr(prev.cash) + sum((fr(x["value"]) if x["side"] == "S" else -fr(x["value"])) for x in new)
                    if not close(fr(cur.cash), want, 1e-9, float(abs(fr(prev.cash)) + sum(abs(fr(x["value"])) for x in new))):
                        yield (k, "failed-still-reconciles-fills", f"Failed broker: {len(new)} trades executed on this tick, cash {fdec(prev.cash)} -> {fdec(cur.cash)}, expected {float(want)}")
                        return
                    for sym in {x["sym"] for x in new}:
                        d = sum((fr(x["qty"]) if x["side"] == "B" else -fr(x["qty"])) for x in new if x["sym"] == sym)
                        before = fr(prev.hold[sym]) if sym in prev.hold else 0
                        after = fr(cur.hold[sym]) if sym in cur.hold else 0
                        if not close(after, before + d, 1e-9, 1.0):
                            yield (k, "failed-still-reconciles-fills", f"Failed broker: holdings of {sym} {float(before)} -> {float(after)}, executed net {float(d)}")
                            return
            elif t[0] == "CHECK" and cur.ev != ["PANIC"] and costs_wf(costs) and all(fdec(v) >= 0 for v in cur.hold.values()):
                want = fdec(cur.cash) < 0.0 and (fdec(cur.cash) * -1.0 + 1000.0) > fdec(cur.lv)
                if (cur.state == "Failed") != want:
                    yield (k, "failed-iff-uncoverable-shortfall", f"after check: cash {fdec(cur.cash)}, liquidation value {fdec(cur.lv)}, state {cur.state}")
                    return
                if cur.state == "Ready" and fdec(cur.cash) < 0:
                    new = cur.xb
                    if not new or any(o["typ"] != 0 for o in new):
                        yield (k, "negative-balance-queues-sells", f"cash {fdec(cur.cash)} Ready but buffer {new}")
                        return
            elif t[0] != "CHECK" and cur.state != prev.state:
                yield (k, "state-changes-only-in-check", f"{' '.join(t)} changed the state to {cur.state}")
                return


class C10(Prop):
    id = "C10"
    streams = [brk_stream("whole-liq", {"EV", "XB", "G"}), brk_stream("liq", {"EV", "XB", "G"}, q=200)]
    determined = False
    rule = ("liquidation requests (client-issued and automatic) on portfolios of 0..3 whole-share positions, non-integer bids, requests "
            "at cash+1, cash+100, liquidation value, liquidation value+0.5, the midpoint and shortfall+1000, all cost kinds, the walk "
            "order the implementation's hash map produces; non-trivial = a successful liquidation with a partial sale and a failed one")
    level_text = ("Theorems C10.* (Lean 4): for every walk order, cost list and request: success => the queued orders are the collected "
                  "market sells and at the last seen bids they are worth at least the request; no sale exceeds a whole-share position; "
                  "failure (request above free cash) => broker and exchange untouched. Tied to UistBroker by correspondence (events, "
                  "exchange buffer) and a sufficiency monitor in exact rationals on the implementation's traces.")
    level_note = BRK_NOTE
    technique = "Lean 4 loop invariant over the liquidation walk (worth collected + remaining <= worth of result) for every walk order + correspondence + sufficiency monitor"
    design_ref = "DESIGN.md section 8, C10"
    assumptions = ["whole positive share positions, positive bids, request above free cash (the property's hypotheses)"]

    def nontrivial(self, stream, annot, impl):
        ok = fail = False
        for k, t, costs, prev, cur in walk_broker(annot, impl):
            if t[0] == "LIQ" and prev is not None and fdec(t[1]) > fdec(prev.cash):
                ok |= cur.ev[0] == "WOK" and len(cur.xb) > len(prev.xb)
                fail |= cur.ev[0] == "WFAIL"
        return ok and fail

    def check_liq(self, k, req, prev, cur, label):
        new = cur.xb[len(prev.xb):]
        if cur.xb[:len(prev.xb)] != prev.xb:
            return (k, "only-appends-orders", f"{label}: buffer {prev.xb} -> {cur.xb}")
        if any(o["typ"] != 0 for o in new):
            return (k, "only-sell-orders", f"{label}: queued {new}")
        worth = Fraction(0)
        for o in new:
            held = prev.hold.get(o["sym"])
            if held is None or fr(o["sh"]) > fr(held):
                return (k, "no-sale-exceeds-position", f"{label}: sells {fdec(o['sh'])} of {o['sym']}, held {held and fdec(held)}")
            worth += fr(o["sh"]) * fr(prev.per[o["sym"]]["bid"] if label != "rebalance" else cur.per[o["sym"]]["bid"])
        if not (worth >= req or close(worth, req, 1e-9)):
            return (k, "sales-worth-at-least-request", f"{label}: requested {float(req)}, queued sales worth {float(worth)} at the last bids")
        return None

    def monitor(self, stream, annot, impl):
        for k, t, costs, prev, cur in walk_broker(annot, impl):
            if prev is None or prev.state != "Ready":
                continue
            whole = all(0 < fdec(v) < float('inf') for v in prev.hold.values())   # since repair F10 the clauses hold for fractional positions too
            if t[0] == "LIQ" and fdec(t[1]) > fdec(prev.cash) and whole and cur.ev[0] != "PANIC":
                if cur.ev[0] == "WOK":
                    r = self.check_liq(k, fr(t[1]), prev, cur, "request")
                    if r:
                        yield r
                        return
                elif cur.ev[0] == "WFAIL":
                    if cur.xb != prev.xb or cur.cash != prev.cash:
                        yield (k, "failure-queues-nothing", f"buffer {prev.xb} -> {cur.xb}, cash {fdec(prev.cash)} -> {fdec(cur.cash)}")
                        return
            if t[0] == "CHECK" and cur.ev != ["PANIC"] and fdec(cur.cash) < 0 and cur.state == "Ready":
                # automatic rebalancing requested exactly -cash + 1000 after reconciliation; holdings did not change since
                whole2 = all(0 < fdec(v) < float('inf') for v in cur.hold.values())
                if whole2:
                    req = Fraction(fdec(cur.cash) * -1.0 + 1000.0)
                    fake_prev = BState(cur.raw)
                    fake_prev.xb = []
                    r = self.check_liq(k, req, fake_prev, cur, "rebalance")
                    if r:
                        yield r
                        return


class C11(Prop):
    id = "C11"
    streams = [brk_stream("mix", {"TV", "LV", "V", "G", "H"}), brk_stream("whole", {"TV", "LV", "V", "G", "H"}, q=150)]
    determined = False
    rule = ("every getter after every operation of random broker histories with repeated quote gaps, flat / re-open cycles (sell the "
            "held quantity, buy again), all cost kinds; non-trivial = a position was opened, went flat and was reopened or a gap kept "
            "a previous quote while the position was held")
    level_text = ("Theorems C11.* (Lean 4): position value = quantity x last seen bid; total = cash + sum of position values; for a long "
                  "portfolio with well-formed costs liquidation value <= total value, equal without costs; check merges exactly the "
                  "current clock date's quotes into the last-seen table (a gap keeps the previous quote); cost basis is none iff the "
                  "position is flat, otherwise net paid / net quantity since the last flat prefix; profit = value - quantity x basis. "
                  "Tied to UistBroker by comparing every getter after every operation, with an identities monitor in exact rationals.")
    level_note = BRK_NOTE
    technique = "Lean 4 algebraic identities + fold characterisation of cost_basis (last flat prefix) + correspondence + identities monitor"
    design_ref = "DESIGN.md section 8, C11"
    assumptions = ["long-only portfolio and well-formed costs for the inequality (property's hypotheses)"]

    def nontrivial(self, stream, annot, impl):
        held_gap = reopened = False
        flat_after = set()
        for k, t, costs, prev, cur in walk_broker(annot, impl):
            if prev is not None:
                for sym in prev.hold:
                    if sym not in cur.hold:
                        flat_after.add(sym)
                for sym in cur.hold:
                    if sym in flat_after and sym not in prev.hold:
                        reopened = True
                if t[0] == "CHECK" and cur.hold:
                    held_gap = True
        return reopened or held_gap

    def monitor(self, stream, annot, impl):
        # the dataset of the case: symbol -> [(date, bid, ask)] in insertion order
        ds = {}
        for op in annot:
            t = op.split(" @ ")[0].split()
            if t[0] == "Q":
                for j in range(int(t[3])):
                    ds.setdefault(t[4 + 3 * j], []).append((int(t[2]), t[5 + 3 * j], t[6 + 3 * j]))
        increasing = all([d for d, _, _ in v] == sorted({d for d, _, _ in v}) for v in ds.values())
        for k, t, costs, prev, cur in walk_broker(annot, impl):
            tot = fr(cur.cash)
            for sym, p in cur.per.items():
                held = cur.hold.get(sym)
                # last seen quote = the most recent quote published for the symbol up to the current clock
                # (a gap keeps the previous one, never a later one)
                if increasing:
                    seen = [(d, b, a) for (d, b, a) in ds.get(sym, []) if d <= cur.date]
                    want_q = (seen[-1][1], seen[-1][2]) if seen else ("-", "-")
                    if (p["bid"], p["ask"]) != want_q:
                        yield (k, "valued-at-most-recent-quote-up-to-the-clock", f"{sym} at clock {cur.date}: broker's quote {(p['bid'], p['ask'])}, most recent published up to the clock {want_q}")
                        return
                if held is not None and p["bid"] != "-":
                    if p["pv"] == "-" or fdec(p["pv"]) != fdec(p["bid"]) * fdec(held):
                        yield (k, "position-value-is-qty-times-last-bid", f"{sym}: value {p['pv']}, bid {fdec(p['bid'])}, qty {fdec(held)}")
                        return
                    tot += fr(p["pv"])
                elif p["pv"] != "-":
                    yield (k, "position-value-needs-quote-and-position", f"{sym}: {p}")
                    return
            scale = float(abs(fr(cur.cash)) + sum(abs(fr(p["pv"])) for p in cur.per.values() if p["pv"] != "-"))
            if not close(fr(cur.tv), tot, 1e-9, scale):
                yield (k, "total-value-identity", f"total {fdec(cur.tv)} vs cash + positions {float(tot)}")
                return
            long_only = all(fdec(v) >= 0 for v in cur.hold.values())
            if long_only and costs_wf(costs) and fdec(cur.lv) > fdec(cur.tv) and not close(fr(cur.lv), fr(cur.tv), 1e-9, scale):
                yield (k, "liquidation-le-total", f"liquidation {fdec(cur.lv)} > total {fdec(cur.tv)}")
                return
            if not costs and not close(fr(cur.lv), fr(cur.tv), 1e-9, scale):
                yield (k, "liquidation-eq-total-without-costs", f"liquidation {fdec(cur.lv)} vs total {fdec(cur.tv)}")
                return
            # cost basis from the log, per the property: since the position was last flat
            for sym, p in cur.per.items():
                q = v = gq = gv = Fraction(0)     # net and gross quantity / value since the position was last flat
                ambiguous = False                 # "flat" is an exact-zero notion: a net that binary64 may or may not round to 0
                for x in cur.trades:
                    if x["sym"] != sym:
                        continue
                    sg = 1 if x["side"] == "B" else -1
                    q += sg * fr(x["qty"])
                    v += sg * fr(x["value"])
                    gq += abs(fr(x["qty"]))
                    gv += abs(fr(x["value"]))
                    if q == 0:
                        v = gq = gv = Fraction(0)
                    elif abs(q) <= gq * Fraction(1, 10 ** 12):
                        ambiguous = True
                if ambiguous:
                    continue
                if q == 0:
                    if p["cb"] != "-" and stream.flavour == "whole":
                        yield (k, "cost-basis-undefined-when-flat", f"{sym}: {p['cb']}")
                        return
                    continue
                if p["cb"] == "-":
                    if stream.flavour == "whole":
                        yield (k, "cost-basis-defined-when-not-flat", f"{sym}: net quantity {float(q)}")
                        return
                    continue
                # a quotient of two differences: binary64 error is relative to the gross amounts, not to a net that
                # nearly cancelled (a position sold down to a sliver), so the tolerance grows with that conditioning
                cond = float(gq / abs(q)) + (float(gv / abs(v)) if v != 0 else 0.0)
                if not close(fr(p["cb"]), v / q, 1e-6, 1e-6) and not close(fr(p["cb"]), v / q, min(1e-2, 1e-12 * cond)):
                    yield (k, "cost-basis-since-last-flat", f"{sym}: {fdec(p['cb'])} vs {float(v / q)}")
                    return
                if p["pp"] != "-" and p["pv"] != "-" and sym in cur.hold:
                    want = fr(p["pv"]) - fr(cur.hold[sym]) * fr(p["cb"])
                    if not close(fr(p["pp"]), want, 1e-9, float(abs(fr(p["pv"])) + abs(fr(cur.hold[sym]) * fr(p["cb"])))):
                        yield (k, "profit-is-value-minus-qty-times-basis", f"{sym}: {fdec(p['pp'])} vs {float(want)}")
                        return


class C12(Prop):
    id = "C12"
    streams = [brk_stream("whole-diff", {"EV"}), brk_stream("diff", {"EV"}, q=200)]
    determined = False
    rule = ("target-weight diffs on random portfolios: 1..4 target symbols including an unquoted one, weights 0, 0.001, 0.1, 0.25, 0.5, 1 "
            "and the exact current weight of a held position (zero gap), gaps smaller than the fees, all cost kinds, in the hash "
            "order of the weights map; non-trivial = the case produced a buy and a sell and an entry that produced no order")
    level_text = ("Theorems C12.* (Lean 4): the loop's result is the sells of all entries followed by the buys of all entries; per "
                  "entry: buy n iff gap > 0 and n >= 1, sell n iff gap < 0 and n >= 1 with n = floor(net budget/net price) of the cost "
                  "model on |gap|, nothing otherwise (never zero-sized or opposite); at most one order per target symbol; for two "
                  "iteration orders of the same map the results are permutations of each other within sells and within buys. Tied to "
                  "UistBroker::diff_brkr_against_target_weights by correspondence in the implementation's hash order plus a rule monitor.")
    level_note = BRK_NOTE
    technique = "Lean 4 refinement of the sequential loop to a per-entry rule (filterMap) + permutation invariance + correspondence + rule monitor"
    design_ref = "DESIGN.md section 8, C12"
    assumptions = ["portfolio of non-zero liquidation value (the code panics otherwise; compared with the model only)"]

    def nontrivial(self, stream, annot, impl):
        buy = sell = nothing = False
        for k, t, costs, prev, cur in walk_broker(annot, impl):
            if t[0] == "DIFF" and cur.ev[:1] == ["D"]:
                n = int(cur.ev[1])
                sides = cur.ev[2::3]
                buy |= "B" in sides
                sell |= "S" in sides
                nothing |= n < int(t[1])
        return buy and sell and nothing

    def monitor(self, stream, annot, impl):
        for k, t, costs, prev, cur in walk_broker(annot, impl):
            if t[0] != "DIFF" or cur.ev[:1] != ["D"] or prev is None:
                continue
            orders = [(cur.ev[2 + 3 * i], cur.ev[3 + 3 * i], cur.ev[4 + 3 * i]) for i in range(int(cur.ev[1]))]
            weights = {t[2 + 2 * i]: fdec(t[3 + 2 * i]) for i in range(int(t[1]))}
            sides = [o[0] for o in orders]
            if "?" in sides or any(a == "B" and b == "S" for a, b in zip(sides, sides[1:])):
                yield (k, "sells-precede-buys", f"{orders}")
                return
            syms = [o[1] for o in orders]
            if len(set(syms)) != len(syms) or any(sy not in weights for sy in syms):
                yield (k, "at-most-one-order-per-target-symbol", f"{orders} for weights {weights}")
                return
            total = fdec(prev.lv)
            if total != total or total in (float("inf"), float("-inf")) or any(w != w or w in (float("inf"), float("-inf")) for w in weights.values()):
                raise NonFinite("liquidation value or weight")    # an earlier infinite order (net price exactly 0, DESIGN §13) has left the finite numbers
            for sym, w in weights.items():
                p = prev.per[sym]
                mine = [o for o in orders if o[1] == sym]
                if p["bid"] == "-":
                    if mine:
                        yield (k, "unquoted-symbol-skipped", f"{mine}")
                        return
                    continue
                curr = fdec(p["pv"]) if p["pv"] != "-" else 0.0
                gap = total * w - curr
                if gap == 0.0:
                    if mine:
                        yield (k, "no-order-on-zero-gap", f"{mine}")
                        return
                    continue
                buy = gap > 0
                px = fdec(p["ask"]) if buy else fdec(p["bid"])
                nb, np_ = impact_total(costs, abs(gap), px, buy)
                if nb != nb or np_ != np_ or abs(nb) == float("inf") or abs(np_) == float("inf"):
                    raise NonFinite("net budget / net price")
                # the whole number of shares the cost model gives, in exact rationals, with a one-ulp boundary allowance
                exact = Fraction(nb) / Fraction(np_) if np_ != 0 else None
                if not mine:
                    if exact is not None and exact >= 1 and not close(exact, 1, 1e-9):
                        yield (k, "order-when-size-at-least-one", f"{sym}: gap {gap}, floor(net budget/net price) = {float(exact)} but no order")
                        return
                    continue
                side, _, sh = mine[0]
                n = fdec(sh)
                if (side == "B") != buy:
                    yield (k, "never-opposite-direction", f"{sym}: gap {gap} but order {mine[0][0]} {n}")
                    return
                if exact is None:
                    # net price exactly 0 (a per-share fee equal to the quote): budget / 0 is not a number, the
                    # property's size is undefined there and the theorems assume 0 < net price (DESIGN §13)
                    continue
                if n != n or n in (float("inf"), float("-inf")) or n < 1 or n != int(n):
                    yield (k, "whole-shares-never-zero-sized", f"{sym}: {n}")
                    return
                if exact is not None and not (Fraction(n) <= exact or close(n, exact, 1e-9)) or (exact is not None and exact - Fraction(n) >= 1 and not close(exact - Fraction(n), 1, 1e-9)):
                    yield (k, "size-is-floor-of-net-budget-over-net-price", f"{sym}: {n} shares, net budget/net price = {float(exact)}")
                    return


class C13(Prop):
    id = "C13"
    streams = [Stream("cost", "grid", quick=150, thorough=20000, tags={"NB", "NP", "N", "FEE", "SAME"}, rtol=1e-12, exact="cost-exact"),
               Stream("cost", "wide", quick=150, thorough=20000, tags={"NB", "NP", "N", "FEE", "SAME"}, rtol=1e-12, exact="cost-exact")]
    determined = False
    rule = ("cost lists of length 0..6 in random order (per-share, percentage with sum below 100%, flat), budgets from 0 to 100000 and prices "
            "on a grid and wide random; each evaluation calls BrokerCost::trade_impact_total and calc directly and through a real "
            "broker's calc_trade_impact / calculate_trade_costs; non-trivial = at least one share can be bought and the list has a "
            "percentage and a per-share or flat cost")
    level_text = ("Theorem C13.never_overspends (Lean 4): for every cost list (any length, any order, amounts >= 0, each percentage in "
                  "[0,1)), budget and positive price with non-negative net budget, n = floor(net budget/net price) satisfies "
                  "n*price + totalFee(n, n*price) <= gross budget; fees are additive in closed form; net price = gross +/- per-share "
                  "costs; net budget <= gross budget. Tied to the four cost functions by bit-level correspondence (20 evaluations per "
                  "case) and an exact-rational overspend monitor on the implementation's outputs.")
    level_note = "Proof in exact arithmetic over any linearly ordered field with floor; binary64 rounding outside the proof (monitor allows 1e-9 relative)"
    technique = "Lean 4 fold invariant (netBudget*(1+sum pct)+sum flat <= gross) by induction on the cost list + floor lemma + bit-level correspondence"
    design_ref = "DESIGN.md section 8, C13"
    assumptions = ["percentages are individually in [0,1) (the theorem's well-formedness; the property says their sum is below 100%, which implies it)"]

    def nontrivial(self, stream, annot, impl):
        for op, out in zip(annot, impl):
            s = sections(out)
            if "N" in s and fdec(s["N"][0]) >= 1 and " C " in op and (" P " in op or " F " in op):
                return True
        return False

    def monitor(self, stream, annot, impl):
        for k, (op, out) in enumerate(zip(annot, impl)):
            if not op.startswith("COST"):
                continue
            s = sections(out)
            l, r = op.split(" ; ")
            t = l.split()
            costs = [(t[2 + 2 * i], fdec(t[3 + 2 * i])) for i in range(int(t[1]))]
            a = r.split()
            budget, price, buy = fdec(a[0]), fdec(a[1]), a[2] == "1"
            nb, np_, n, fee = (fdec(s[x][0]) for x in ("NB", "NP", "N", "FEE"))
            if s["SAME"] != ["true"]:
                yield (k, "portfolio-wrappers-agree-with-cost-functions", out)
                return
            per = sum(Fraction(v) for c, v in costs if c == "P")
            pct = sum(Fraction(v) for c, v in costs if c == "C")
            flat = sum(Fraction(v) for c, v in costs if c == "F")
            if n == n and abs(n) != float("inf"):
                want_fee = per * Fraction(n) + Fraction(n) * Fraction(price) * pct + flat
                if not close(fee, want_fee, 1e-9, float(abs(per * Fraction(n)) + abs(Fraction(n) * Fraction(price) * pct) + flat)):
                    yield (k, "fees-additive", f"fee {fee} vs per-share*qty + pct*value + flat = {float(want_fee)}")
                    return
            if (buy and np_ < price and not close(np_, price)) or (not buy and np_ > price and not close(np_, price)):
                yield (k, "net-price-side", f"net price {np_} gross {price} buy={buy}")
                return
            if budget >= 0 and nb > budget and not close(nb, budget):
                yield (k, "net-budget-le-gross", f"net {nb} gross {budget}")
                return
            if buy and nb >= 0 and price > 0 and n == n and costs_wf(costs):
                spent = Fraction(n) * Fraction(price) + Fraction(fee)
                if spent > Fraction(budget) and not close(spent, budget, 1e-9, budget):
                    yield (k, "never-overspends", f"{n} shares at {price} plus fees {fee} = {float(spent)} > budget {budget}")
                    return


# ---------------------------------------------------------------- perf protocol
import math


def perf_in(op):
    t = op.split()
    n = int(t[1])
    return [(int(t[2 + 4 * k]), fdec(t[3 + 4 * k]), fdec(t[4 + 4 * k]), fdec(t[5 + 4 * k])) for k in range(n)]


def flist(toks):
    return [fdec(x) for x in toks[1:1 + int(toks[0])]]


PERF_ALL = {"R", "DD", "BW", "VAL", "RET", "DAT", "CF", "FL"}


class C14(Prop):
    id = "C14"
    streams = [Stream("perf", "mix", quick=200, thorough=20000, tags={"R", "BW", "VAL", "RET", "DAT", "CF", "FL", "PANIC"}, state_tags={"DD"}, rtol=1e-12)]
    determined = False
    rule = ("snapshot series of length 1..15 (length 1 panics in the code: compared only), grid and wide random values, cash flows, "
            "inflation, zero capital; every series is also run scaled by 4 (exact in binary64) and the return-based outputs must be "
            "bit-identical; non-trivial = at least 3 snapshots, positive values, a cash flow or inflation present")
    level_text = ("Theorems C14.* (Lean 4, carrier R with Mathlib's exp/log/sqrt/rpow): period-return identity, total return = product of "
                  "(1+r) - 1 (via exp of the sum of logs), plain case last/first - 1 by telescoping, best/worst are max/min, output "
                  "vectors aligned (n, n, n, n-1), vol = sqrt(252) x population standard deviation, CAGR = (1+ret)^(365/n) - 1, Sharpe = "
                  "CAGR/vol or CAGR at vol 0, and invariance of every return-based output under scaling by c > 0. Tied to "
                  "PerformanceCalculator::calculate by correspondence at 1e-12 relative, an identities monitor and a scaling metamorphic run.")
    level_note = "Partial: binary64 exp/ln/powf/sqrt are not the real functions; outputs compared at 1e-12 relative with the model's Float run and at 1e-9 with the identities"
    technique = "Lean 4 real-analysis identities (exp_sum, exp_log, rpow) over the literal model of calculate + correspondence + identities monitor + scaling metamorphic check"
    design_ref = "DESIGN.md section 8, C14"
    assumptions = ["at least two snapshots, positive capital, inflation > -1 (property's hypotheses)"]

    def nontrivial(self, stream, annot, impl):
        for op in annot:
            if op.startswith("CALC"):
                sn = perf_in(op)
                if len(sn) >= 3 and all(v > 0 for _, v, _, _ in sn) and (any(c != 0 for _, _, c, _ in sn) or any(i != 0 for _, _, _, i in sn)):
                    return True
        return False

    def monitor(self, stream, annot, impl):
        for k, (op, out) in enumerate(zip(annot, impl)):
            if not op.startswith("CALC") or out == "PANIC":
                continue
            sn = perf_in(op)
            n = len(sn)
            s = sections(out)
            ret, cagr, vol, sharpe = (fdec(x) for x in s["R"])
            best, worst = (fdec(x) for x in s["BW"])
            vals, rets, cfs = flist(s["VAL"]), flist(s["RET"]), flist(s["CF"])
            dates = [int(x) for x in s["DAT"][1:]]
            if not (len(vals) == len(dates) == len(cfs) == n and len(rets) == n - 1):
                yield (k, "vectors-align", f"n={n}: values {len(vals)} dates {len(dates)} flows {len(cfs)} returns {len(rets)}")
                return
            if vals != [v for _, v, _, _ in sn] or dates != [d for d, _, _, _ in sn]:
                yield (k, "vectors-align", "values/dates are not the snapshots' in order")
                return
            if n < 2 or any(v <= 0 for v in vals):
                continue
            ok = True
            prod = Fraction(1)
            for i in range(1, n):
                flow = sn[i][2] - sn[i - 1][2]
                cap = vals[i - 1] + flow
                if not cap > 0 or not 1 + sn[i][3] > 0:
                    ok = False
                    break
                want = Fraction(cap) * (1 + Fraction(rets[i - 1])) * (1 + Fraction(sn[i][3]))
                if not close(vals[i], want, 1e-9):
                    yield (k, "period-return-identity", f"period {i}: value {vals[i]} vs (prev+flow)(1+r)(1+infl) = {float(want)}")
                    return
                prod *= 1 + Fraction(rets[i - 1])
            if not ok or any(not math.isfinite(x) for x in (ret, cagr, vol, sharpe)):
                continue
            if not close(ret, prod - 1, 1e-9, 1.0):
                yield (k, "total-return-compounds", f"ret {ret} vs prod(1+r)-1 = {float(prod - 1)}")
                return
            if best != max(rets) or worst != min(rets):
                yield (k, "best-worst-are-extremes", f"best {best} worst {worst} of {rets}")
                return
            mean = sum(Fraction(r) for r in rets) / len(rets)
            var = sum((Fraction(r) - mean) ** 2 for r in rets) / len(rets)
            if not close(vol, math.sqrt(252) * math.sqrt(float(var)), 1e-9, 1e-12):
                yield (k, "volatility-definition", f"vol {vol} vs sqrt(252)*pstdev = {math.sqrt(252) * math.sqrt(float(var))}")
                return
            if 1 + ret > 0 and not close(cagr, (1 + ret) ** (365.0 / n) - 1, 1e-9, 1.0):
                yield (k, "cagr-definition", f"cagr {cagr} vs (1+ret)^(365/n)-1 = {(1 + ret) ** (365.0 / n) - 1}")
                return
            want_sh = cagr if vol == 0 else cagr / vol
            if not close(sharpe, want_sh, 1e-9, 1e-300):
                yield (k, "sharpe-definition", f"sharpe {sharpe} vs {want_sh}")
                return

    def extra(self, stream, runs, wdir, tier, collect):
        from . import core
        import os, struct
        def sc(tok):
            x = fdec(tok) * 4.0
            return "f" + str(struct.unpack("<Q", struct.pack("<d", 0.0 if x == 0 else x))[0])
        lines, idx = [], []
        for (ops, annot, impl) in runs:
            for o, i in zip(ops, impl):
                if o.startswith("CALC") and len(idx) < (20000 if tier == "thorough" else 1500):
                    t = o.split()
                    n = int(t[1])
                    for k in range(n):
                        t[3 + 4 * k] = sc(t[3 + 4 * k])
                        t[4 + 4 * k] = sc(t[4 + 4 * k])
                    idx.append((o, i, len(lines)))
                    lines.append(" ".join(t))
        if not lines:
            return
        p = os.path.join(wdir, "scaled.ops")
        open(p, "w").write("\n".join(lines) + "\n")
        (_, _), simpl, _, _ = core.run_ops(stream, p, wdir, "scaled")
        collect["evaluations"] += len(lines)
        collect["scaled_runs"] = len(lines)
        for (o, i, pos) in idx:
            a, b = sections(i), sections(simpl[pos])
            for tag in ("R", "DD", "BW", "RET"):
                if a.get(tag) != b.get(tag) and not all(core.tok_eq(x, y, 0.0) for x, y in zip(a.get(tag, []), b.get(tag, ["x"]))):
                    collect["fails"].append(core.Failure("monitor", stream, ["RESET", o], 1, "return-based-figures-scale-invariant",
                                                         f"section {tag}: {a.get(tag)} vs scaled by 4: {b.get(tag)}", impl=i, origin="scaling metamorphic run"))
                    return


class C15(Prop):
    id = "C15"
    streams = [Stream("perf", "dd", quick=200, thorough=20000, tags={"DD", "RET", "DAT", "PANIC"}, state_tags=PERF_ALL - {"DD", "RET", "DAT"}, rtol=1e-12)]
    determined = False
    rule = ("return paths of length 2..41: random, monotone up, monotone down, V-shaped, plateaus with ties, two drawdowns of different "
            "depth with a recovery to a new high in between; non-trivial = the path has at least two distinct drawdown episodes or a tie")
    level_text = ("Theorems C15.* (Lean 4, any linearly ordered field): on every non-empty positive series the scan's result is <= "
                  "v_j/v_i - 1 for all i <= j and is realised by the returned positions start <= end < length (so it is the minimum); it is "
                  "<= 0, > -1, and 0 when the series never falls; the compounded index has one entry per snapshot and is positive for "
                  "returns above -100%. Tied to calculate by correspondence and a brute-force min-over-pairs monitor on the implementation's outputs.")
    level_note = "Proof over exact arithmetic on the model of the repaired scan (F7); rounding outside the proof; tie is differential"
    technique = "Lean 4 loop invariant (15 fields: running peak, trough since peak, best pair so far) by induction over the series + correspondence + brute-force monitor"
    design_ref = "DESIGN.md section 8, C15"
    assumptions = ["returns above -100% (index stays positive)"]

    def nontrivial(self, stream, annot, impl):
        for op, out in zip(annot, impl):
            if out.startswith("R "):
                rets = flist(sections(out)["RET"])
                falls = sum(1 for a, b in zip(rets, rets[1:]) if a >= 0 > b) + (1 if rets and rets[0] < 0 else 0)
                if falls >= 2:
                    return True
        return False

    def monitor(self, stream, annot, impl):
        for k, (op, out) in enumerate(zip(annot, impl)):
            if not out.startswith("R "):
                continue
            s = sections(out)
            rets = flist(s["RET"])
            dates = [int(x) for x in s["DAT"][1:]]
            mdd, ds, de = fdec(s["DD"][0]), int(s["DD"][1]), int(s["DD"][2])
            if any(not (1 + r > 0) or not math.isfinite(r) for r in rets):
                continue
            idx = [100000.0]
            for r in rets:
                idx.append(idx[-1] * (1.0 + r))
            best = 0.0
            for j in range(len(idx)):
                pk = max(idx[:j + 1])
                best = min(best, idx[j] / pk - 1.0)
            if not close(mdd, best, 1e-12, 1e-300):
                yield (k, "mdd-is-min-over-pairs", f"reported {mdd}, min over i<=j of index_j/index_i-1 = {best}")
                return
            # "never below -1": a loss of all but 1e-25 of the peak is -1 + 1e-25, which binary64 rounds to -1.0
            if not (-1 <= mdd <= 0):
                yield (k, "mdd-range", f"{mdd}")
                return
            if ds not in dates or de not in dates or ds > de:
                yield (k, "drawdown-dates-are-snapshot-dates-in-order", f"start {ds} end {de}")
                return
            a, b = idx[dates.index(ds)], idx[dates.index(de)]
            if not close(b / a - 1.0, mdd, 1e-12, 1e-300):
                yield (k, "drawdown-dates-realise-the-loss", f"index at {ds} = {a}, at {de} = {b}: loss {b / a - 1.0}, reported {mdd}")
                return


STRAT_TAGS = {"EV", "SN", "RR", "HL", "K", "TV", "PANIC", "REJECT-ADMISSION", "ok", "reset", "bad-op", "dead"}


class C16(Prop):
    id = "C16"
    streams = [Stream("strategy", "mix", quick=300, thorough=20000, driver="strat", tags=STRAT_TAGS, state_tags={"G", "S", "XB", "H"}, exact="strat-exact"),
               Stream("strategy", "constant", quick=150, thorough=10000, driver="strat", tags=STRAT_TAGS, state_tags={"G", "S", "XB", "H"}, exact="strat-exact")]
    determined = False
    rule = ("the real StaticWeightStrategy over the real broker over TestClient / eager / lazy clients: datasets of 1..14 dates with gaps, "
            "1..3 target weights (including an unquoted symbol and zero weights), cost lists, deposits through init (also a second "
            "deposit), interleaved withdraw_cash (small, large, impossible), step-wise update() calls followed by the real run() for "
            "the rest; one stream with constant prices and zero spread; non-trivial = at least two updates, a snapshot after a "
            "successful withdrawal or a completed run() of at least 2 updates")
    level_text = ("Theorems C16.* (Lean 4): one update = one clock tick and exactly one snapshot dated with the clock after the tick and "
                  "valued at the broker's total value; from a fresh backtest has_next holds after k updates iff k < N (the loop makes "
                  "exactly N updates); over every history of init / withdraw / update net_cash_flow = successful deposits - withdrawals "
                  "(ghost invariant) and each snapshot carries it; with constant prices and zero spread the book value after any history "
                  "= initial book value + net cash flow for every weight map, cost list and variant. Tied to StaticWeightStrategy by "
                  "step-wise correspondence (snapshots, clock, total value, history length) plus run() for the remaining dates, and a "
                  "history monitor on the implementation's traces.")
    level_note = BRK_NOTE + "; the value theorem carries the side condition that a symbol universe covers the traded symbols"
    technique = "Lean 4 invariants over strategy histories (clock position, ghost net cash flow, book value at fixed prices) + correspondence + history monitor"
    design_ref = "DESIGN.md section 8, C16"
    assumptions = ["withdrawals are withdraw_cash (withdraw_cash_with_liquidation is C10's subject)", "portfolio of non-zero value (the diff panics otherwise: zero-cash runs are generated and only checked to panic for that reason)"]

    def nontrivial(self, stream, annot, impl):
        ups = sum(1 for o in annot if o.startswith("UPDATE"))
        rr = 0
        for l in impl:
            s = sections(l)
            if "RR" in s:
                rr = int(s["RR"][0])
        return ups >= 2 or rr >= 2

    def monitor(self, stream, annot, impl):
        net = Fraction(0)
        gross = Fraction(0)     # sum of |flows|: binary64 sums of flows of magnitude M carry an error of about M * 1e-16 each
        deposited_any = False
        constant = stream.flavour == "constant"
        last_date = None
        hl = 0
        prev_ready, pos_prev, tv_nonzero, tv_prev = True, 0, False, 0.0
        for k, (op, out) in enumerate(zip(annot, impl)):
            t = op.split(" @ ")[0].split()
            s = sections(out)
            if t[0] == "RESET":
                net, deposited_any, last_date, hl = Fraction(0), False, None, 0
                gross = Fraction(0)
                prev_ready, pos_prev, tv_nonzero, tv_prev = True, 0, False, 0.0
                continue
            if out in ("dead", "ok") or "K" not in s and "PANIC" not in s:
                continue
            if "PANIC" in s:
                # the only panic the code documents on this path is "trade a portfolio with zero value"
                # (liquidation value exactly 0 when the target-weight diff runs); anything else is a violation
                if t[0] in ("RUNREST", "UPDATE") and s.get("LVZ") != ["true"]:
                    yield (k, "loop-terminates-without-panic", f"{t[0]} panicked although the liquidation value was not zero (value before: {tv_prev})")
                    return
                continue
            ready = s["S"] == ["Ready"]
            if t[0] == "INIT" and prev_ready:
                net += fr(t[1])
                gross += abs(fr(t[1]))
            if t[0] == "WD" and s["EV"] == ["WOK"]:
                net -= fr(t[1])
                gross += abs(fr(t[1]))
            snaps = []
            if t[0] == "UPDATE":
                snaps = [(int(s["SN"][0]), s["SN"][1], s["SN"][2])]
                if int(s["HL"][0]) != hl + 1:
                    yield (k, "one-snapshot-per-update", f"history length {hl} -> {s['HL'][0]}")
                    return
                if int(s["SN"][0]) != int(s["K"][1]) or s["SN"][1] != s["TV"][0]:
                    yield (k, "snapshot-is-clock-and-total-value", f"snapshot {s['SN']} clock {s['K']} total value {s['TV']}")
                    return
            if t[0] == "RUNREST":
                n = int(s["RR"][0])
                x = s["SNS"][1:]
                snaps = [(int(x[3 * i]), x[3 * i + 1], x[3 * i + 2]) for i in range(n)]
                pos_before, ndates = pos_prev, int(s["K"][2])
                if n != max(0, ndates - pos_before):
                    yield (k, "exactly-N-updates", f"run() made {n} updates from position {pos_before} of {ndates} dates")
                    return
                if int(s["HL"][0]) != hl + n:
                    yield (k, "one-snapshot-per-update", f"history length {hl} -> {s['HL'][0]} after {n} updates")
                    return
            for (d, v, ncf) in snaps:
                if last_date is not None and d < last_date:
                    yield (k, "snapshot-dates-non-decreasing", f"{last_date} then {d}")
                    return
                last_date = d
                # a residue of 1e-4 after flows of 1e12 is the last bit of the running binary64 sum, not a lost flow
                slack = 1e-13 * float(gross)
                if not close(fr(ncf), net, 1e-9, 1.0) and abs(float(fr(ncf) - net)) > slack:
                    yield (k, "net-cash-flow-is-deposits-minus-withdrawals", f"snapshot net_cash_flow {fdec(ncf)}, deposits - withdrawals so far {float(net)}")
                    return
                if constant and not close(fr(v), net, 1e-9, 1.0) and abs(float(fr(v) - net)) > slack:
                    yield (k, "trading-creates-no-value", f"constant prices, zero spread: snapshot value {fdec(v)}, cash deposited (net) {float(net)}")
                    return
            hl = int(s["HL"][0])
            pos_prev = int(s["K"][0])
            prev_ready = ready
            tv_prev = fdec(s["TV"][0])
            tv_nonzero = tv_prev != 0.0

    def __init__(self):
        pass


class C19(Prop):
    id = "C19"
    streams = [Stream("sched", "all", quick=1, thorough=1, seeds_thorough=1, tags={"C", "A", "T", "DEF"})]
    determined = True
    exhaustive = True
    determined_why = "the property fixes the answer for every calendar date (true iff last Monday-Friday of its month) and its independence of the time of day"
    rule = ("every day from 1970-01-01 to 2200-12-31 (84 371 days), each at 00:00:00, 00:00:01, 09:00, 17:00 and 23:59:59 UTC: the real "
            "should_trade, the DateTime accessors (year, month, day, weekday) and the default schedule against the model calendar and "
            "the model schedule; the domain is enumerated completely in both tiers; non-trivial = a case containing days that answer "
            "true and days that answer false (the single case is the whole domain)")
    level_text = ("Theorem C19.true_exactly_on_last_weekday (Lean 4): for every timestamp >= 0 (every day number, unbounded) the model of "
                  "should_trade is true iff the day is a weekday and every later day of the same month is a weekend day; independent of "
                  "the time of day; default schedule constantly true; the driver's streaming evaluation is proved equal to the model. "
                  "The time crate's calendar and the real function are compared with the model on the complete domain 1970-2200.")
    level_note = "Proof for every day number over the model calendar (iteration of next-day from 1970-01-01); the time crate is trusted only through the exhaustive comparison on 1970-2200"
    technique = "Lean 4 proof by case analysis on the position in the month (omega) over an iterated calendar + exhaustive correspondence on the finite domain"
    design_ref = "DESIGN.md section 8, C19"
    assumptions = ["timestamps are non-negative (1970 onwards, the property's range)"]

    def nontrivial(self, stream, annot, impl):
        t = f = False
        for l in impl:
            s = sections(l)
            if "A" in s:
                t |= s["A"] == ["true"]
                f |= s["A"] == ["false"]
        return t and f

    def monitor(self, stream, annot, impl):
        """the property evaluated with Python's own calendar on the implementation's answers"""
        import datetime
        base = datetime.date(1970, 1, 1)
        for k, (op, out) in enumerate(zip(annot, impl)):
            if not op.startswith("D "):
                continue
            s = sections(out)
            d = base + datetime.timedelta(days=int(op.split()[1]))
            want = d.weekday() < 5
            x = d + datetime.timedelta(days=1)
            while x.month == d.month:
                if x.weekday() < 5:
                    want = False
                x += datetime.timedelta(days=1)
            if s["A"] != [str(want).lower()]:
                yield (k, "true-iff-last-weekday-of-month", f"{d.isoformat()}: answered {s['A'][0]}, last weekday of its month: {want}")
                return
            if s["T"] != ["true"]:
                yield (k, "independent-of-time-of-day", f"{d.isoformat()}")
                return
            if s["DEF"] != ["true"]:
                yield (k, "default-schedule-always-true", f"{d.isoformat()}")
                return

    def __init__(self):
        pass


class C20(Prop):
    id = "C20"
    streams = [Stream(f"http-{k}", "http-mix", quick=250, thorough=20000, rtol=1e-12,
                      tags={"ST", "J", "NB", "PANIC", "REJECT-ADMISSION", "ok", "reset", "bad-op"}) for k in ("uist", "jura")]
    # not `determined`: the property fixes the HTTP result *relative to the in-process call*, not the wire format nor the
    # in-process semantics; a difference from the Lean wire-format model can come from either (a renamed JSON key, a
    # changed dataset semantics) with the transport still faithful, so it breaks the correspondence without being a
    # failing input by itself. The implementation-side comparisons (EQ, typed `{:?}` of ticks, SEQ, CL, TC) are the oracle.
    determined = False
    rule = ("random request sequences over all routes of both services (init, fetch_quotes, insert_order, delete_order, tick, info, "
            "now) through an in-memory actix test service, next to a twin AppState driven in-process with the same calls, and next to "
            "a third AppState behind a real HttpServer on 127.0.0.1 called through the repository's own reqwest clients "
            "(uistv1_client::Client, jurav1_client::Client; skipped and recorded as tcp_unavailable if no loopback socket can be bound); known and "
            "unknown backtests and datasets, all order variants of both exchanges (Jura: constructors and deserialised orders, "
            "decimal strings in three spellings), prices off the dyadic grid too; non-trivial = the case has a 200 tick with a fill "
            "or an admitted order, a 400 answer, and a fetch_quotes answered 200")
    level_text = ("Theorems C20.* (Lean 4), for any exchange in the server model with its wire format (instantiated for Uist and Jura): "
                  "for every request sequence the server behind the handlers goes through exactly the states of the in-process calls; "
                  "status 400 iff the in-process call reports unknown backtest/dataset; every 200 body is the serde-layout encoding of "
                  "exactly the in-process result; decode(encode x) = x for orders, trades, fills and quotes of both exchanges. Tied to "
                  "the real services by comparing status and canonical JSON of every response with the model's, and by an "
                  "implementation-only comparison of the decoded HTTP result with a twin AppState driven in-process, and of the typed "
                  "result the repository's HTTP clients return over a real socket with that same in-process result.")
    level_note = "Partial: JSON text (ryu, serde_json number parsing) and actix extraction are exercised, not modelled; numbers compared at 1e-12 relative as the property states"
    technique = "Lean 4 per-handler refinement lemmas lifted to request sequences by induction + codec round-trip theorems over a JSON AST + response-level correspondence + twin-server comparison"
    design_ref = "DESIGN.md section 8, C20"
    assumptions = ["non-empty datasets (init unwraps the first date: an empty dataset makes the handler panic and poisons the shared Mutex; excluded)"]

    def nontrivial(self, stream, annot, impl):
        tick = bad = fetch = False
        for op, out in zip(annot, impl):
            s = sections(out)
            if "ST" not in s:
                continue
            if op.startswith("TICK") and s["ST"] == ["200"] and ("k:symbol" in out or "k:asset" in out):
                tick = True
            bad |= s["ST"] == ["400"]
            fetch |= op.startswith("FETCH") and s["ST"] == ["200"]
        return tick and bad and fetch

    def monitor(self, stream, annot, impl):
        for k, (op, out) in enumerate(zip(annot, impl)):
            s = sections(out)
            if s.get("EQ") == ["false"]:
                yield (k, "http-result-equals-in-process-result", f"{op.split(' A ')[0]}: the decoded HTTP response differs from the same call made in-process: {out[:300]}")
                return
            if s.get("SEQ") == ["false"]:
                yield (k, "round-trip-keeps-meaning", f"{op}: after the request the server state differs from the in-process twin's")
                return
            if s.get("TC") == ["false"]:
                yield (k, "test-client-equals-in-process", f"{op.split(' A ')[0]}: the same call through uistv1_client::TestClient returned a different result, or left its state different, than the call on AppState")
                return
            if s.get("CL") == ["false"]:
                yield (k, "repository-client-over-tcp-equals-in-process", f"{op.split(' A ')[0]}: the same call through the repository's reqwest client against a real HttpServer on 127.0.0.1 returned a different result, or left that server in a different state, than the in-process call")
                return

    def __init__(self):
        pass


ALL = {c.id: c for c in [C01, C02, C03, C04, C05, C06, C07, C08, C09, C10, C11, C12, C13, C14, C15, C16, C17, C18, C19, C20]}
