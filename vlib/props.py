"""Per-property configuration: streams, observation alphabets, non-triviality rules, monitors."""
from .core import Stream, sections, fdec

TRUSTED_COMMON = [
    "Lean 4.33 kernel; axioms of each theorem audited on every run to be within {propext, Classical.choice, Quot.sound}",
    "hand-written Lean model of the code, tied to /repo by the correspondence run (differential, bounded by the generators)",
    "Rust harness (/verif/harness), Lean driver parser/printer (lean/AlatorVerif/Driver), comparison script (/verif/vlib)",
    "u64/i64/usize do not overflow; HashMap is a finite map; VecDeque is a list",
]


class Prop:
    id = "C00"
    streams = []
    determined = False          # True: the property fixes the compared alphabet uniquely, so a
    #                             model-vs-impl difference is itself a concrete failing input
    determined_why = ""
    rule = ""
    assumptions = []
    trusted = []
    level_text = ""
    level_note = ""
    technique = "Lean 4 theorem over an executable model + differential correspondence with the Rust code"
    design_ref = "DESIGN.md section 8"

    def nontrivial(self, stream, annot, impl):
        return len(annot) > 2

    def monitor(self, stream, annot, impl):
        return []


# ---------------------------------------------------------------- helpers on the uist protocol

def uist_orders(toks):
    """[id typ sym fsh px]* -> list of dicts"""
    out = []
    for k in range(0, len(toks), 5):
        i, t, s, sh, px = toks[k:k + 5]
        out.append({"id": None if i == "-" else int(i), "typ": int(t), "sym": s, "sh": sh,
                    "px": None if px == "-" else px})
    return out


def uist_trades(toks):
    out = []
    for k in range(0, len(toks), 5):
        s, v, q, d, sd = toks[k:k + 5]
        out.append({"sym": s, "value": v, "qty": q, "date": int(d), "side": sd})
    return out


def uist_quotes(op):
    t = op.split()
    nq = int(t[1])
    q = {}
    for k in range(nq):
        b = 2 + 4 * k
        q[t[b]] = {"bid": fdec(t[b + 1]), "ask": fdec(t[b + 2]), "date": int(t[b + 3])}
    return q


def uist_cond(o, q):
    """the table in C02's statement, with Rust's Option ordering for a missing price"""
    typ, px = o["typ"], (None if o["px"] is None else fdec(o["px"]))
    if typ in (0, 1):
        return True
    if typ == 3:   # limit buy: ask <= limit
        return px is not None and q["ask"] <= px
    if typ == 2:   # limit sell: bid >= limit
        return px is None or q["bid"] >= px
    if typ == 5:   # stop buy: ask >= stop
        return px is None or q["ask"] >= px
    if typ == 4:   # stop sell: bid <= stop
        return px is not None and q["bid"] <= px
    raise ValueError(typ)


def is_sell(typ):
    return typ in (0, 2, 4)


def sort_fills(secs):
    """C02 does not speak about the order of fills within a tick (C17 does): compare them as a set"""
    if "F" in secs and len(secs["F"]) > 1:
        t = secs["F"][1:]
        rows = sorted(tuple(t[k:k + 5]) for k in range(0, len(t), 5))
        secs = dict(secs)
        secs["F"] = [secs["F"][0]] + [x for r in rows for x in r]
    return secs


class C02(Prop):
    id = "C02"
    streams = [Stream("uist", "mix", quick=400, thorough=40000, tags={"F", "B", "REJECT-ADMISSION", "PANIC"},
                      canon=sort_fills)]
    determined = True
    determined_why = ("the property fixes, for a given resting book and tick quotes, exactly which orders fill, "
                      "at which price, quantity, value and date, and that the others keep resting")
    rule = ("random Uist histories on a quarter-point price grid (insert of all six types incl. priced types "
            "without price, delete, tick with per-symbol gaps); non-trivial = the case has a tick with at least "
            "one fill and a tick after which a priced order still rests; distinct = distinct op sequences")
    level_text = ("Theorems C02.* (Lean 4): for every operation history and every tick, the fills of the Uist model are exactly the "
                  "quoted resting orders meeting the property's table (iff, per order type), priced at ask/bid for the full quantity "
                  "and dated by the quote, and all other resting orders stay unchanged in order. The model is tied to the code by a "
                  "step-by-step comparison with UistV1 (tick outputs and the whole book through the verif snapshot) on generated "
                  "boundary-rich histories, and a monitor of the property's table runs on the implementation's own traces.")
    level_note = ("Proof is about the model over any linear order; the tie to the Rust code is differential (generated histories); "
                  "trusted: Lean kernel + standard axioms, harness, driver, comparison script; admission order taken from the implementation")
    technique = "Lean 4 proof by induction over operation histories (id invariant, refinement of the delete-by-id pass to a filter) + model/implementation correspondence"
    design_ref = "DESIGN.md section 8, C02"
    assumptions = ["binary64 comparison is a linear order off NaN (the theorems need only a linear order and *)",
                   "sort_by admission order is taken from the implementation (checked sell-first permutation)"]

    def nontrivial(self, stream, annot, impl):
        fill = rest = False
        for l in impl:
            s = sections(l)
            if "F" in s and s["F"] and s["F"][0] != "0":
                fill = True
            if "B" in s and len(s["B"]) > 1 and any(o["typ"] >= 2 for o in uist_orders(s["B"][1:])):
                rest = True
        return fill and rest

    def monitor(self, stream, annot, impl):
        """C02 evaluated directly on the implementation's trace: from the book before the tick (snapshot
        of the previous step + orders admitted) and the tick's quotes, decide per resting order."""
        book = []
        for k, (op, out) in enumerate(zip(annot, impl)):
            s = sections(out)
            if op.startswith("T ") and "F" in s and "B" in s:
                quotes = uist_quotes(op)
                fills = uist_trades(s["F"][1:])
                post = uist_orders(s["B"][1:])
                expect = []
                keep = []
                for o in book:
                    q = quotes.get(o["sym"])
                    if q is not None and uist_cond(o, q):
                        px = q["ask"] if not is_sell(o["typ"]) else q["bid"]
                        expect.append((o, px, q["date"]))
                    else:
                        keep.append(o)
                if len(fills) != len(expect):
                    yield (k, "fill-iff-condition", f"{len(fills)} fills reported, {len(expect)} resting orders meet their condition")
                    return
                # quantities are unique per case: match fills to orders by (symbol, quantity), not by position
                byq = {(f["sym"], f["qty"]): f for f in fills}
                for (o, px, d) in expect:
                    sh = fdec(o["sh"])
                    f = byq.get((o["sym"], o["sh"]))
                    if f is None:
                        yield (k, "fill-iff-condition", f"order {o} meets its condition but has no fill")
                        return
                    if f["side"] != ("S" if is_sell(o["typ"]) else "B"):
                        yield (k, "fill-identity", f"fill {f} has the wrong side for order {o}")
                        return
                    if fdec(f["value"]) != px * sh or f["date"] != d:
                        yield (k, "fill-price-side-date", f"fill {f}: expected value {px * sh} date {d}")
                        return
                rest_ids = [o["id"] for o in post]
                for o in keep:
                    if o["id"] not in rest_ids:
                        yield (k, "unfilled-keeps-resting", f"order {o} neither filled nor resting")
                        return
                    p = post[rest_ids.index(o["id"])]
                    if (p["typ"], p["sym"], p["sh"], p["px"]) != (o["typ"], o["sym"], o["sh"], o["px"]):
                        yield (k, "unfilled-unchanged", f"order {o} changed to {p}")
                        return
            if "B" in s:
                book = uist_orders(s["B"][1:])
            if op.startswith("RESET"):
                book = []


ALL = {c.id: c for c in [C02]}
